---------------------------- MODULE FactoryImpl ----------------------------
(* The task generators as they are WRITTEN: answers are looked up in caches
   keyed by the generated task NAME.

      Use._CACHE (one per process)    name = names of the hard dependencies, sorted,
                                             + "." + the function's __name__
                                      (soft injection: the function's name alone)
      RunTaskFactory.cache (per factory object)
                                      name = the explicit name, or a hash of
                                             (factory name, extra args, kwargs)

   ErrorOnConflict = FALSE is the code as pinned: a cache hit returns the task
   that was first created under the name.  TLC is expected to REFUTE both the
   invariants of Factory and the refinement  FactoryImpl => Factory  for it
   (negative self-test: the harness replays the counterexamples on the real
   code).  ErrorOnConflict = TRUE remembers the request next to the cached task
   and answers a hit of a different request with an explicit error; that
   variant refines Factory (AllowError = TRUE). *)
EXTENDS Factory

CONSTANT ErrorOnConflict

VARIABLES ucache,    \* set of [name, id, req]      -- Use._CACHE
          fcache,    \* set of [key, id, req]       -- all RunTaskFactory.cache together, key contains the factory
          gname      \* identity -> generated name
ivars == <<op, hist, behav, rel, tname, job, visited, frontier, cdone, rejected, ucache, fcache, gname>>

FName(f) == CASE f \in {"f1", "f2", "f3"} -> "f"
              [] f \in {"lam1", "lam2", "lam3"} -> "<lambda>"
              [] OTHER -> f

(* names are records [deps, f] so that all of them are comparable *)
BaseName(t) == [deps |-> {}, f |-> t]
Idx(t) == CHOOSE k \in DOMAIN gname : Ref(k) = t
NameOf(t) == IF t \in Bases THEN BaseName(t) ELSE gname[Idx(t)]
UseName(r) == [deps |-> IF r.soft THEN {} ELSE {NameOf(t) : t \in Injected(r)}, f |-> FName(r.func)]
MakeKey(r) == [fac |-> r.fac, user |-> r.name # "-",
               nm |-> r.name, args |-> IF r.name # "-" THEN <<>> ELSE r.args]

IInit == Init /\ ucache = {} /\ fcache = {} /\ gname = <<>>

Answer(r, hits, newUse(_), newMake(_)) ==
   IF hits # {}
   THEN LET c == CHOOSE c \in hits : TRUE IN
        /\ hist' = Append(hist, [req |-> r, resp |-> IF ErrorOnConflict /\ c.req # r THEN 0 ELSE c.id])
        /\ UNCHANGED <<behav, ucache, fcache, gname>>
   ELSE LET id == Len(behav) + 1 IN
        /\ hist' = Append(hist, [req |-> r, resp |-> id])
        /\ behav' = Append(behav, Meaning(r))
        /\ ucache' = ucache \cup newUse(id)
        /\ fcache' = fcache \cup newMake(id)
        /\ gname' = Append(gname, IF r.kind = "use" THEN UseName(r) ELSE [deps |-> {}, f |-> "make"])

IRequest(r) ==
   /\ IF r.kind = "use"
      THEN Answer(r, {c \in ucache : c.name = UseName(r)},
                  LAMBDA id : {[name |-> UseName(r), id |-> id, req |-> r]}, LAMBDA id : {})
      ELSE Answer(r, {c \in fcache : c.key = MakeKey(r)},
                  LAMBDA id : {}, LAMBDA id : {[key |-> MakeKey(r), id |-> id, req |-> r]})
   /\ UNCHANGED <<op, rel, tname, job, visited, frontier, cdone, rejected>>

IAnyRequest == op = "hist" /\ Len(hist) < MaxLen /\ \E r \in Requests : IRequest(r)
INext == IAnyRequest
ISpec == IInit /\ [][INext]_ivars

(* FactoryImpl => Factory *)
Refines == [][Next]_vars
=============================================================================
