------------------------------ MODULE Persist ------------------------------
(* C14 -- persisted environments survive crashes.

   One process after the other works on a set of tasks.  A process keeps an
   in-memory environment `mem` (task -> entry); at its end it writes one file
   per task that has an output directory (write_env), the next process starts
   by reading all files back (read_env) and merging the DONE entries.

   An entry is abstracted to  [status, ver]  (ver = a unique version number,
   the concrete payload is chosen by the binding) plus the flag `dir` (the
   entry has an 'output_dir' key).  The content of a task's file is

      absent               no file
      empty                a file of length zero
      partial              a strict, non-empty prefix of a serialized entry
      full(status,ver)     the complete serialized entry
      garbage              bytes that are no serialization of anything
      dir, unreadable      a directory / an object that cannot be opened in place of the file

   `unreadable` stands for every way in which the PATH of the file cannot be
   used, whatever the error the operating system answers with (ELOOP, ENOTDIR,
   ENOENT of the task directory, ENAMETOOLONG for a task name longer than
   NAME_MAX or a path longer than PATH_MAX, EACCES, EPERM, EIO, ESTALE,
   EMFILE ...): the file can be neither read nor written in place.  `absent`
   includes a dangling symbolic link.  The binding produces all of them.

   The binding expands `partial` to EVERY byte length of the concrete file.

   HOW a file is written is not part of the property.  The specification is a
   RELATION that only fixes what the statement of C14 fixes:
     * the entries of one write_env call are handled in ANY order (`queue` is
       a set);
     * the write of one file either works on the destination itself (mode
       "inplace": the file is emptied, then grows through prefixes of the new
       content) or leaves it alone until the new content is complete (mode
       "keep": temporary file + rename);  so, after a crash during the write
       of a file, the file holds a prefix of the new content, or the complete
       previous content, or the complete new content -- never anything else;
     * a destination that cannot be opened (directory, unopenable object) is
       either skipped or -- mode "keep" -- replaced.
   The binding resolves these choices by what it observes.

   Crash may strike between any two steps of a write; it (like a normal exit)
   loses the in-memory environment.  Faults damage files between processes.
   ReadAll is specified as intended:  it never raises and returns exactly the
   DONE entries of the files that are complete. *)
EXTENDS Integers, Sequences, FiniteSets, TLC

CONSTANTS Tasks,       \* set of task ids (integers)
          Statuses,    \* subset of the five task statuses, must contain "DONE"
          MaxVer,      \* entries created over the whole history
          MaxFaults,   \* file faults over the whole history
          MaxCrashes,  \* crashes / exits over the whole history
          FaultKinds,  \* subset of {"absent", "empty", "partial", "garbage", "dir", "unreadable"}
          Modes,       \* non-empty subset of {"inplace", "keep"}: how a file may be written
          None         \* model value

VARIABLES mem,       \* task -> entry of the running process
          file,      \* task -> content of its environment file
          queue,     \* SET of tasks the current write_env call still has to handle (any order)
          w,         \* task whose file is open for writing, or None
          nver, nfault, ncrash,
          lastRead,  \* observation of the last ReadAll (valid only in the state right after it)
          lastOne,   \* observation of the last ReadOne (Env.from_file on one file)
          lastFull,  \* history: last completely written entry of each task
          intact,    \* history: the file still holds lastFull (no truncation / fault since)
          act        \* label of the last action (for the binding)

vars == <<mem, file, queue, w, nver, nfault, ncrash, lastRead, lastOne, lastFull, intact, act>>

NoEntry == [present |-> FALSE, status |-> "WAITING", ver |-> 0, dir |-> FALSE]
Entry(s, v, d) == [present |-> TRUE, status |-> s, ver |-> v, dir |-> d]
FileOf(k, s, v) == [kind |-> k, status |-> s, ver |-> v]
Blank(k) == FileOf(k, "WAITING", 0)
NoFull == [present |-> FALSE, status |-> "WAITING", ver |-> 0]
NoRead == [valid |-> FALSE, raised |-> FALSE, env |-> {}]
NoOne == [valid |-> FALSE, t |-> 0, raised |-> FALSE, present |-> FALSE, status |-> "WAITING", ver |-> 0]

Blocked == {"dir", "unreadable"}     \* objects that cannot be opened for writing either

(* ---- the read functions, as intended ---- *)
Readable(f) == f.kind = "full"
ReadAllOf(fl) == {[t |-> t, status |-> fl[t].status, ver |-> fl[t].ver] :
                     t \in {u \in Tasks : Readable(fl[u]) /\ fl[u].status = "DONE"}}
ReadOneOf(f, t) == IF Readable(f)
                   THEN [valid |-> TRUE, t |-> t, raised |-> FALSE, present |-> TRUE, status |-> f.status, ver |-> f.ver]
                   ELSE [valid |-> TRUE, t |-> t, raised |-> FALSE, present |-> FALSE, status |-> "WAITING", ver |-> 0]

Idle == w = None /\ queue = {}
Fresh == \A t \in Tasks : ~mem[t].present

Init == /\ mem = [t \in Tasks |-> NoEntry]
        /\ file = [t \in Tasks |-> Blank("absent")]
        /\ queue = {} /\ w = None
        /\ nver = 1 /\ nfault = 0 /\ ncrash = 0
        /\ lastRead = NoRead /\ lastOne = NoOne
        /\ lastFull = [t \in Tasks |-> NoFull]
        /\ intact = [t \in Tasks |-> FALSE]
        /\ act = [op |-> "init"]

Forget == lastRead' = NoRead /\ lastOne' = NoOne

(* the scheduler produced a new entry for t *)
Run(t, s, d) ==
   /\ Idle /\ nver <= MaxVer
   /\ mem' = [mem EXCEPT ![t] = Entry(s, nver, d)]
   /\ nver' = nver + 1
   /\ act' = [op |-> "run", t |-> t, status |-> s, ver |-> nver, dir |-> d]
   /\ Forget /\ UNCHANGED <<file, queue, w, nfault, ncrash, lastFull, intact>>

(* write_env: every entry of the environment, in any order *)
StartWrite(S) ==
   /\ Idle /\ S # {} /\ \A t \in S : mem[t].present
   /\ queue' = S
   /\ act' = [op |-> "start", tasks |-> S]
   /\ Forget /\ UNCHANGED <<mem, file, w, nver, nfault, ncrash, lastFull, intact>>

(* an entry without output directory is never written *)
Skip(t) ==
   /\ w = None /\ t \in queue /\ ~mem[t].dir
   /\ queue' = queue \ {t}
   /\ act' = [op |-> "skip", t |-> t]
   /\ Forget /\ UNCHANGED <<mem, file, w, nver, nfault, ncrash, lastFull, intact>>

(* the write of t's file starts.  m = "blocked": the destination cannot be opened, the entry is given up
   (the process goes on);  "inplace": the destination is opened for writing, which empties it;  "keep": the
   new content is prepared elsewhere, the destination keeps its content until EndWrite *)
BeginWrite(t, m) ==
   /\ w = None /\ t \in queue /\ mem[t].dir
   /\ \/ /\ m = "blocked" /\ file[t].kind \in Blocked
         /\ queue' = queue \ {t}
         /\ act' = [op |-> "blocked", t |-> t]
         /\ UNCHANGED <<file, w, intact>>
      \/ /\ m = "inplace" /\ m \in Modes /\ file[t].kind \notin Blocked
         /\ file' = [file EXCEPT ![t] = Blank("empty")]
         /\ intact' = [intact EXCEPT ![t] = FALSE]
         /\ w' = t
         /\ act' = [op |-> "begin", t |-> t, mode |-> m]
         /\ UNCHANGED queue
      \/ /\ m = "keep" /\ m \in Modes
         /\ w' = t
         /\ act' = [op |-> "begin", t |-> t, mode |-> m]
         /\ UNCHANGED <<file, intact, queue>>
   /\ Forget /\ UNCHANGED <<mem, nver, nfault, ncrash, lastFull>>

(* some, but not all bytes reached the file (only a file that was emptied grows) *)
WriteChunk ==
   /\ w # None /\ file[w].kind = "empty" /\ act.op = "begin" /\ act.mode = "inplace"
   /\ file' = [file EXCEPT ![w] = Blank("partial")]
   /\ act' = [op |-> "chunk", t |-> w]
   /\ Forget /\ UNCHANGED <<mem, queue, w, nver, nfault, ncrash, lastFull, intact>>

EndWrite ==
   /\ w # None
   /\ file' = [file EXCEPT ![w] = FileOf("full", mem[w].status, mem[w].ver)]
   /\ lastFull' = [lastFull EXCEPT ![w] = [present |-> TRUE, status |-> mem[w].status, ver |-> mem[w].ver]]
   /\ intact' = [intact EXCEPT ![w] = TRUE]
   /\ queue' = queue \ {w} /\ w' = None
   /\ act' = [op |-> "end", t |-> w]
   /\ Forget /\ UNCHANGED <<mem, nver, nfault, ncrash>>

(* the process dies (mid-write: crash) or ends; the in-memory environment is lost *)
Crash ==
   /\ ncrash < MaxCrashes
   /\ \E t \in Tasks : mem[t].present
   /\ mem' = [t \in Tasks |-> NoEntry]
   /\ queue' = {} /\ w' = None
   /\ ncrash' = ncrash + 1
   /\ act' = [op |-> IF Idle THEN "exit" ELSE "crash"]
   /\ Forget /\ UNCHANGED <<file, nver, nfault, lastFull, intact>>

(* something else damages a file between two processes *)
Fault(t, k) ==
   /\ Idle /\ Fresh /\ nfault < MaxFaults
   /\ file[t].kind # k
   /\ file' = [file EXCEPT ![t] = Blank(k)]
   /\ intact' = [intact EXCEPT ![t] = FALSE]
   /\ nfault' = nfault + 1
   /\ act' = [op |-> "fault", t |-> t, kind |-> k]
   /\ Forget /\ UNCHANGED <<mem, queue, w, nver, ncrash, lastFull>>

(* read_env at the start of a process: never raises, merges exactly the complete DONE entries *)
ReadAll ==
   /\ Idle /\ Fresh
   /\ lastRead' = [valid |-> TRUE, raised |-> FALSE, env |-> ReadAllOf(file)]
   /\ mem' = [t \in Tasks |->
                IF Readable(file[t]) /\ file[t].status = "DONE"
                THEN Entry("DONE", file[t].ver, TRUE) ELSE NoEntry]
   /\ lastOne' = NoOne
   /\ act' = [op |-> "read"]
   /\ UNCHANGED <<file, queue, w, nver, nfault, ncrash, lastFull, intact>>

(* Env.from_file on a single file: None, or the complete environment (any status) *)
ReadOne(t) ==
   /\ Idle /\ Fresh
   /\ lastOne' = ReadOneOf(file[t], t)
   /\ lastRead' = NoRead
   /\ act' = [op |-> "readone", t |-> t]
   /\ UNCHANGED <<mem, file, queue, w, nver, nfault, ncrash, lastFull, intact>>

StartWriteAny == \E S \in {{t \in Tasks : mem[t].present}} : StartWrite(S)
SkipAny == \E t \in Tasks : Skip(t)
BeginWriteAny == \E t \in Tasks, m \in Modes \cup {"blocked"} : BeginWrite(t, m)

Next == \/ \E t \in Tasks, s \in Statuses, d \in BOOLEAN : Run(t, s, d)
        \/ StartWriteAny
        \/ SkipAny \/ BeginWriteAny \/ WriteChunk \/ EndWrite \/ Crash
        \/ \E t \in Tasks, k \in FaultKinds : Fault(t, k)
        \/ ReadAll
        \/ \E t \in Tasks : ReadOne(t)

Spec == Init /\ [][Next]_vars

-----------------------------------------------------------------------------
(* The property, clause by clause, as predicates of an observation r (so that
   the trace specification can evaluate them on what the implementation did)
   and as invariants of this specification. *)

NoRaise(r) == ~r.raised

(* what is returned for t is exactly the last completely written entry, that
   entry was DONE and its file has not been touched since *)
Exact(r) == \A e \in r.env :
               /\ e.t \in Tasks
               /\ lastFull[e.t].present /\ intact[e.t]
               /\ e.status = lastFull[e.t].status /\ e.ver = lastFull[e.t].ver
               /\ \A e2 \in r.env : e2.t = e.t => e2 = e

NeverNotDone(r) == \A e \in r.env : e.status = "DONE" /\ lastFull[e.t].status = "DONE"

(* every DONE entry that was completely written and not damaged since comes back *)
Complete(r) == \A t \in Tasks :
                  (intact[t] /\ lastFull[t].present /\ lastFull[t].status = "DONE")
                     => \E e \in r.env : e.t = t

(* nothing comes back from a missing, empty, truncated or unreadable file *)
NoPartial(r) == \A e \in r.env : file[e.t].kind = "full"

OneOK(o) == /\ ~o.raised
            /\ o.present => /\ file[o.t].kind = "full" /\ intact[o.t]
                            /\ o.status = lastFull[o.t].status /\ o.ver = lastFull[o.t].ver
            /\ (intact[o.t] /\ lastFull[o.t].present) => o.present

C14_NoRaise      == lastRead.valid => NoRaise(lastRead)
C14_Exact        == lastRead.valid => Exact(lastRead)
C14_NeverNotDone == lastRead.valid => NeverNotDone(lastRead)
C14_Complete     == lastRead.valid => Complete(lastRead)
C14_NoPartial    == lastRead.valid => NoPartial(lastRead)
C14_One          == lastOne.valid => OneOK(lastOne)

(* tasks without output directory are never written *)
C14_NoDirNeverWritten == w # None => mem[w].dir

(* model sanity: the history variables describe the files *)
HistoryOK == \A t \in Tasks :
                /\ intact[t] => /\ lastFull[t].present /\ file[t].kind = "full"
                                /\ file[t].status = lastFull[t].status /\ file[t].ver = lastFull[t].ver
                /\ file[t].kind = "full" => intact[t]

TypeOK == /\ w \in Tasks \cup {None}
          /\ \A t \in Tasks : file[t].kind \in {"absent", "empty", "partial", "full", "garbage", "dir", "unreadable"}
          /\ queue \subseteq Tasks

-----------------------------------------------------------------------------
(* witnesses (negated reachability): TLC must find each of them violated *)
W_ReadPartial   == ~(lastRead.valid /\ \E t \in Tasks : file[t].kind = "partial")
W_ReadEmpty     == ~(lastRead.valid /\ \E t \in Tasks : file[t].kind = "empty")
W_ReadMixed     == ~(lastRead.valid /\ lastRead.env # {} /\ \E t \in Tasks : file[t].kind \in {"partial", "garbage"})
W_LostOlder     == ~(lastRead.valid /\ \E t \in Tasks : lastFull[t].present /\ lastFull[t].status = "DONE"
                                                          /\ file[t].kind \in {"empty", "partial"})
W_NotDoneFull   == ~(lastRead.valid /\ \E t \in Tasks : file[t].kind = "full" /\ file[t].status # "DONE")
W_Rewritten     == ~(lastRead.valid /\ \E e \in lastRead.env : e.ver > 1 /\ ncrash > 1)
W_BlockedWrite  == ~(act.op = "blocked")
W_BeginKeep     == ~(w # None /\ act.op = "begin" /\ act.mode = "keep" /\ file[w].kind = "full" /\ file[w].status = "DONE")
W_KeepOverBlocked == ~(w # None /\ file[w].kind \in Blocked)
W_Skip          == ~(act.op = "skip")
=============================================================================
