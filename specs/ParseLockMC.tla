---------------------------- MODULE ParseLockMC ----------------------------
(* finite instances of ParseLock for TLC *)
EXTENDS ParseLock

Orders3 == {<<"n", "t", "r">>, <<"t", "n", "r">>, <<"n", "r">>, <<"c", "n", "t", "r">>, <<"k", "c", "r">>}
SeqsUpTo(S, n) == UNION {[1 .. m -> S] : m \in 0 .. n}
MC_Docs2 == SeqsUpTo(Orders3, 2)
MC_Docs1 == SeqsUpTo(Orders3, 1)

(* every order of 1..3 distinct details followed by the reaction *)
Perms(S) == {f \in [1 .. Cardinality(S) -> S] : \A i, j \in DOMAIN f : f[i] = f[j] => i = j}
AllOrders == {Append(p, "r") : p \in UNION {Perms(S) : S \in {X \in SUBSET {"n", "t", "c", "k"} : Cardinality(X) \in 1 .. 3}}}
MC_DocsAll1 == SeqsUpTo(AllOrders, 1)
=============================================================================
