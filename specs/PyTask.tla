------------------------------- MODULE PyTask -------------------------------
(* valjean.cosette.pythontask.PythonTask (and its client valjean.gavroche.eval_test_task.EvalTestTask):
   what a Python task may and may not do to the state it shares with the other tasks, and how the result of
   `do` is formed.  EXTRA module: not one of the listed properties; the authority is the documentation.

   Sentences modelled (valjean/cosette/pythontask.py unless stated otherwise):
   [D1] "it is better to avoid this surprising behaviour and use the `args` argument" / "There is also a `kwargs`
        argument" (module docstring: the lambda example whose result changes when the caller rebinds x, y after
        the construction, against `args=(x, y)` which "still returns 8") together with `__init__`, which copies
        args and kwargs deeply: the arguments of the call are fixed when the task is constructed.
          ArgsIsolated       nothing the caller does to the objects he passed changes what the task will pass;
          ArgsAsConstructed  every `do` of the task hands the function the arguments given at construction
                             (obvious reading: a task is a function plus its arguments; the documentation is
                             silent about a function that modifies its own arguments);
          KwargsAsConstructed  `:param dict kwargs: A dictionary of keyword arguments to func`: task.kwargs is
                             that dictionary, before and after `do` (the environment and the configuration are
                             "passed to the wrapped function as a keyword argument", they are not arguments of
                             the task).
   [D2] "the environment is passed to the wrapped function as a keyword argument", "allows the called function to
        query the task environment and retrieve any additional information from there"; in `do`: "wrap the
        environment in MappingProxyType, so that self.func cannot modify it"; "Note that we have to return an
        environment update and a status".
          EnvOnlyThroughUpdates  the environment (every key of every task, nested containers included) changes
                             only when a returned update is applied; the function sees the whole environment.
   [D3] TaskException: "It causes the task to fail. A reason can be specified in the constructor." ->
          TaskExcFails       ({name: {'why': reason}}, FAILED), reason 'unknown' by default.
   [D4] "PythonTask.do simply returns the result of the wrapped function", "Exceptions raised by the wrapped
        function are not caught by the task".
   [D5] config_kwarg: the function receives the configuration object given to `do`.
   [D6] EvalTestTask: "evaluates a list of tests and stores the resulting TestResult objects in the environment":
        one result per test of env[test_task]['result'], in order, in a new list under 'result', with the output
        directory under 'output_dir'; a test that raises gives a failed result; TypeError if it is not a list.
   [D7] (cosette/env.py, backends/queue.py) the worker applies the returned update (Env.apply: keys of the update
        replace / are added to the entry of the task, values are stored by reference) and then sets the status.

   Heap model.  Mutable containers (lists) are heap objects named by their address 1..Len(heap); heap[a] is the
   content, a sequence of tokens.  A value of the environment is a leaf (immutable token) or a reference to a
   heap object; two cells may refer to the same object.  The roots are
        orig[t].a, orig[t].k     the caller's own objects, passed as args=(A,) and kwargs={'k': K}
        task[t].a, task[t].k     what the task holds (copies made at construction)
        env[T][K]                the environment, task name -> key -> value ('status' is a key like the others)
        pend.upd[T][K]           the update returned by the last `do`, not applied yet
   `Src` is a task that finished before: its entry (a list of tests under 'result') is in the environment from
   the start, so that there is something to read, to forward and to tamper with.

   Variant = "doc" is the documented behaviour.  Variant = "impl" (a shallow read-only wrapper, the function works
   on the task's own argument objects, `do` stores the injected keywords in task.kwargs) and Variant = "shared"
   (the constructor keeps the caller's objects) are deliberately different machines: they exist for the negative
   self-test, the invariants below must be violated on them. *)
EXTENDS Integers, Sequences, FiniteSets, TLC

CONSTANTS Tasks,     \* names of the tasks that can be constructed
          MaxOps,    \* length of the operation sequences enumerated
          Variant    \* "doc" | "impl" | "shared"

Src == "t0"
Modes == {"plain", "env", "envcfg", "eval"}      \* no env_kwarg / env_kwarg / env_kwarg + config_kwarg / EvalTestTask
Basic == {"update", "taskexc", "taskexc0", "otherexc", "mutarg", "nontuple"}
NeedEnv == {"fwd", "assign", "delete", "assign2", "delete2", "nested", "keep"}
BehsOf(m) == CASE m = "plain" -> Basic
               [] m \in {"env", "envcfg"} -> Basic \cup NeedEnv
               [] m = "eval" -> {"evaltests"}
               [] OTHER -> {}
Hows == {"read", "assign", "nested"}

Leaf(v) == [t |-> "leaf", v |-> v, a |-> 0]
Ref(a)  == [t |-> "ref", v |-> "", a |-> a]

(* tests and their results (EvalTestTask): a token stands for a test; evaluating it gives a token *)
Raising == {"e"}
Falsy == {"b"}
ResTok(x) == IF x \in Raising THEN "E:" \o x ELSE IF x \in Falsy THEN "F:" \o x ELSE "T:" \o x

NoTask == [made |-> FALSE, mode |-> "", a |-> 0, k |-> 0, a0 |-> <<>>, k0 |-> <<>>, kw |-> {}]
NoPend == [kind |-> "none", t |-> "", upd |-> <<>>, status |-> ""]
Blank  == [op |-> "", t |-> "", x |-> "", argseen |-> <<>>, kwseen |-> <<>>, hasenv |-> FALSE, envseen |-> <<>>, cfgseen |-> ""]

-----------------------------------------------------------------------------
(* views: what can be read, with the sharing forgotten *)
ViewVal(s, v) == IF v.t = "leaf" THEN [t |-> "leaf", v |-> v.v, c |-> <<>>] ELSE [t |-> "list", v |-> "", c |-> s.heap[v.a]]
ViewMap(s, m) == [T \in DOMAIN m |-> [K \in DOMAIN m[T] |-> ViewVal(s, m[T][K])]]
EnvView(s) == ViewMap(s, s.env)
PendView(s) == [kind |-> s.pend.kind, t |-> s.pend.t, status |-> s.pend.status, upd |-> ViewMap(s, s.pend.upd)]

HasSrc(s) == Src \in DOMAIN s.env /\ "result" \in DOMAIN s.env[Src]
SrcIsList(s) == HasSrc(s) /\ s.env[Src]["result"].t = "ref"

Push(h, a, x) == [h EXCEPT ![a] = Append(@, x)]
SetKey(e, T, K, v) == [X \in DOMAIN e \cup {T} |->
                         IF X # T THEN e[X]
                         ELSE [Y \in (IF T \in DOMAIN e THEN DOMAIN e[T] ELSE {}) \cup {K} |-> IF Y = K THEN v ELSE e[T][Y]]]
DelKey(e, T, K) == [X \in DOMAIN e |-> IF X # T THEN e[X] ELSE [Y \in DOMAIN e[T] \ {K} |-> e[T][Y]]]

(* Env.apply for a two-level update: the keys of the update are stored (by reference) in the entry of the task,
   the other keys and the other entries are kept *)
Merge(e, u) == [T \in DOMAIN e \cup DOMAIN u |->
                  IF T \notin DOMAIN u THEN e[T]
                  ELSE IF T \notin DOMAIN e THEN u[T]
                  ELSE [K \in DOMAIN e[T] \cup DOMAIN u[T] |-> IF K \in DOMAIN u[T] THEN u[T][K] ELSE e[T][K]]]

-----------------------------------------------------------------------------
(* the operations as functions of a state record
      s = [heap, env, orig, task, pend, kept, last]                                                       *)

(* PythonTask(t, func, args=(A,), kwargs={'k': K}, ...) / EvalTestTask(t, Src) *)
ConstructEff(s, t, m) ==
   LET n == Len(s.heap)
       A == s.heap[s.orig[t].a]
       K == s.heap[s.orig[t].k]
       shared == Variant = "shared"
       rec == IF m = "eval" THEN [NoTask EXCEPT !.made = TRUE, !.mode = m]
              ELSE [made |-> TRUE, mode |-> m, a |-> IF shared THEN s.orig[t].a ELSE n + 1,
                    k |-> IF shared THEN s.orig[t].k ELSE n + 2, a0 |-> A, k0 |-> K, kw |-> {"k"}]
   IN [s EXCEPT !.heap = IF m = "eval" \/ shared THEN @ ELSE @ \o <<A, K>>,
                !.task = [@ EXCEPT ![t] = rec],
                !.last = [Blank EXCEPT !.op = "construct", !.t = t, !.x = m]]

(* the caller goes on using his own objects *)
CallerEff(s, t, w) ==
   [s EXCEPT !.heap = Push(@, s.orig[t][w], "c"),
             !.last = [Blank EXCEPT !.op = "caller", !.t = t, !.x = w]]

(* task.do(env, config) with a function that behaves as b *)
DoEff(s, t, b) ==
   LET tk == s.task[t]
       impl == Variant = "impl"
       n == Len(s.heap)
       withEnv == tk.mode \in {"env", "envcfg", "eval"}
       withCfg == tk.mode \in {"envcfg", "eval"}
       src == s.env[Src]["result"]
       Pair(u, st) == [kind |-> "pair", t |-> t, upd |-> u, status |-> st]
       Raised(x) == [kind |-> "raised:" \o x, t |-> t, upd |-> <<>>, status |-> ""]
       Nothing == Pair(<<>>, "DONE")
       pend == CASE b = "update"    -> Pair(t :> ("result" :> Ref(n + 1)), "DONE")
                 [] b = "fwd"       -> IF HasSrc(s) THEN Pair(t :> ("result" :> src), "DONE") ELSE Raised("KeyError")
                 [] b = "taskexc"   -> Pair(t :> ("why" :> Leaf("boom")), "FAILED")
                 [] b = "taskexc0"  -> Pair(t :> ("why" :> Leaf("unknown")), "FAILED")
                 [] b = "otherexc"  -> Raised("ValueError")
                 [] b = "mutarg"    -> Pair(t :> ("result" :> Leaf("m")), "DONE")
                 [] b = "nontuple"  -> [kind |-> "value", t |-> t, upd |-> <<>>, status |-> ""]
                 [] b = "evaltests" -> IF ~HasSrc(s) THEN Raised("KeyError")
                                       ELSE IF ~SrcIsList(s) THEN Raised("TypeError")
                                       ELSE Pair(t :> (("result" :> Ref(n + 1)) @@ ("output_dir" :> Leaf("outdir"))), "DONE")
                 [] OTHER           -> Nothing       \* assign, delete, assign2, delete2, nested, keep
       heap1 == CASE b = "update" -> Append(s.heap, <<"u">>)
                  [] b = "evaltests" /\ SrcIsList(s) -> Append(s.heap, [i \in DOMAIN s.heap[src.a] |-> ResTok(s.heap[src.a][i])])
                  [] b = "nested" /\ impl /\ SrcIsList(s) -> Push(s.heap, src.a, "n")
                  [] b = "mutarg" /\ impl -> Push(s.heap, tk.a, "f")
                  [] OTHER -> s.heap
       env1 == CASE b = "assign2" /\ impl /\ Src \in DOMAIN s.env -> SetKey(s.env, Src, "new", Leaf("z"))
                 [] b = "delete2" /\ impl /\ HasSrc(s) -> DelKey(s.env, Src, "result")
                 [] OTHER -> s.env
       kw1 == IF impl THEN tk.kw \cup (IF withEnv THEN {"env"} ELSE {}) \cup (IF withCfg THEN {"config"} ELSE {}) ELSE tk.kw
       plain == tk.mode # "eval"
   IN [s EXCEPT !.heap = heap1, !.env = env1, !.pend = pend,
                !.task = [@ EXCEPT ![t].kw = kw1],
                !.kept = IF b = "keep" THEN @ \cup {t} ELSE @,
                !.last = [op |-> "do", t |-> t, x |-> b,
                          argseen |-> IF ~plain THEN <<>> ELSE IF impl THEN s.heap[tk.a] ELSE tk.a0,
                          kwseen  |-> IF ~plain THEN <<>> ELSE IF impl THEN s.heap[tk.k] ELSE tk.k0,
                          hasenv |-> withEnv, envseen |-> IF withEnv THEN EnvView(s) ELSE <<>>,
                          cfgseen |-> IF ~plain THEN "na" ELSE IF withCfg THEN "same" ELSE "none"]]

(* the worker publishes what `do` returned: Env.apply(update), then set_status *)
ApplyEff(s) ==
   [s EXCEPT !.env = SetKey(Merge(s.env, s.pend.upd), s.pend.t, "status", Leaf(s.pend.status)),
             !.pend = NoPend,
             !.last = [Blank EXCEPT !.op = "apply", !.t = s.pend.t]]

(* a function that kept the environment it was handed uses it after `do` has returned *)
UseEff(s, t, how) ==
   LET impl == Variant = "impl" IN
   [s EXCEPT !.heap = IF how = "nested" /\ impl /\ SrcIsList(s) THEN Push(@, s.env[Src]["result"].a, "n") ELSE @,
             !.last = [Blank EXCEPT !.op = "use", !.t = t, !.x = how, !.hasenv = (how = "read"),
                                    !.envseen = IF how = "read" THEN EnvView(s) ELSE <<>>]]

-----------------------------------------------------------------------------
VARIABLES heap, env, orig, task, pend, kept, last, hist
vars == <<heap, env, orig, task, pend, kept, last, hist>>
S == [heap |-> heap, env |-> env, orig |-> orig, task |-> task, pend |-> pend, kept |-> kept, last |-> last]
Becomes(r) == /\ heap' = r.heap /\ env' = r.env /\ orig' = r.orig /\ task' = r.task
              /\ pend' = r.pend /\ kept' = r.kept /\ last' = r.last

TaskSeq == CHOOSE q \in [1 .. Cardinality(Tasks) -> Tasks] : \A i, j \in DOMAIN q : i # j => q[i] # q[j]
Index(t) == CHOOSE i \in DOMAIN TaskSeq : TaskSeq[i] = t

(* heap at the start: the tests of Src, then the caller's two objects per task *)
InitHeap == <<<<"x", "e">>>> \o [i \in 1 .. 2 * Cardinality(Tasks) |-> IF i % 2 = 1 THEN <<"a">> ELSE <<"k">>]
InitEnv == Src :> (("result" :> Ref(1)) @@ ("status" :> Leaf("DONE")))

Init == /\ heap = InitHeap
        /\ env = InitEnv
        /\ orig = [t \in Tasks |-> [a |-> 2 * Index(t), k |-> 2 * Index(t) + 1]]
        /\ task = [t \in Tasks |-> NoTask]
        /\ pend = NoPend /\ kept = {} /\ last = Blank /\ hist = <<>>

Budget == Len(hist) < MaxOps
Log(o, t, x) == hist' = Append(hist, [op |-> o, t |-> t, x |-> x])

Construct(t, m) == /\ Budget /\ ~task[t].made
                   /\ \A u \in Tasks : Index(u) < Index(t) => task[u].made          \* symmetry breaking only
                   /\ Becomes(ConstructEff(S, t, m)) /\ Log("construct", t, m)
Caller(t, w)    == /\ Budget /\ Becomes(CallerEff(S, t, w)) /\ Log("caller", t, w)
Do(t, b)        == /\ Budget /\ task[t].made /\ b \in BehsOf(task[t].mode)
                   /\ Becomes(DoEff(S, t, b)) /\ Log("do", t, b)
Apply           == /\ Budget /\ pend.kind = "pair"
                   /\ Becomes(ApplyEff(S)) /\ Log("apply", pend.t, "")
Use(t, how)     == /\ Budget /\ t \in kept
                   /\ Becomes(UseEff(S, t, how)) /\ Log("use", t, how)

Next == \/ \E t \in Tasks : \E m \in Modes : Construct(t, m)
        \/ \E t \in Tasks : \E w \in {"a", "k"} : Caller(t, w)
        \/ \E t \in Tasks : \E b \in Basic \cup NeedEnv \cup {"evaltests"} : Do(t, b)
        \/ Apply
        \/ \E t \in Tasks : \E how \in Hows : Use(t, how)
Spec == Init /\ [][Next]_vars

-----------------------------------------------------------------------------
(* the documented guarantees *)
HasArgs(t) == task[t].made /\ task[t].mode # "eval"

TypeOK == /\ \A t \in Tasks : orig[t].a \in DOMAIN heap /\ orig[t].k \in DOMAIN heap
          /\ \A t \in Tasks : HasArgs(t) => task[t].a \in DOMAIN heap /\ task[t].k \in DOMAIN heap
          /\ \A T \in DOMAIN env : \A K \in DOMAIN env[T] : env[T][K].t = "ref" => env[T][K].a \in DOMAIN heap
          /\ pend.kind \in {"none", "pair", "value", "raised:KeyError", "raised:ValueError", "raised:TypeError"}

(* [D1] the task holds its own objects, whose content is the one the caller's objects had at construction *)
ArgsIsolated == \A t \in Tasks : HasArgs(t) =>
                   /\ {task[t].a, task[t].k} \cap {orig[u].a : u \in Tasks} = {}
                   /\ {task[t].a, task[t].k} \cap {orig[u].k : u \in Tasks} = {}
ArgsAsConstructed == /\ \A t \in Tasks : HasArgs(t) => heap[task[t].a] = task[t].a0 /\ heap[task[t].k] = task[t].k0
                     /\ (last.op = "do" /\ HasArgs(last.t) => last.argseen = task[last.t].a0 /\ last.kwseen = task[last.t].k0)
KwargsAsConstructed == \A t \in Tasks : task[t].made => task[t].kw = (IF task[t].mode = "eval" THEN {} ELSE {"k"})

(* [D2] only a returned update, once applied, changes the environment; nobody returns an update for Src *)
SrcUntouched == EnvView(S)[Src] = ViewMap([heap |-> InitHeap], InitEnv)[Src]
EnvOnlyThroughUpdates == [][last'.op # "apply" => EnvView(S)' = EnvView(S)]_vars
EnvHandedOver == last.op = "do" /\ last.hasenv => last.envseen = EnvView(S)

(* [D3] *)
TaskExcFails == last.op = "do" /\ last.x \in {"taskexc", "taskexc0"} =>
                   /\ pend.kind = "pair" /\ pend.status = "FAILED"
                   /\ pend.upd = (last.t :> ("why" :> Leaf(IF last.x = "taskexc" THEN "boom" ELSE "unknown")))
(* [D7] an applied update is readable, with the status of the task *)
Published == last.op = "apply" => "status" \in DOMAIN env[last.t]

(* witnesses (negated reachability): TLC must find them violated *)
NDo(t) == Cardinality({i \in DOMAIN hist : hist[i].op = "do" /\ hist[i].t = t})
W_SecondDo      == ~(\E t \in Tasks : NDo(t) >= 2)
W_CallerAfter   == ~(\E i, j \in DOMAIN hist : i < j /\ hist[i].op = "construct" /\ hist[j].op = "caller" /\ hist[i].t = hist[j].t)
W_Tamper        == ~(last.op = "do" /\ last.x \in {"nested", "assign2", "delete2"} /\ SrcIsList(S))
W_SeenApplied   == ~(last.op = "do" /\ last.hasenv /\ \E T \in DOMAIN last.envseen : T # Src /\ "result" \in DOMAIN last.envseen[T])
W_KeptUsed      == ~(last.op = "use" /\ last.x = "nested")
W_SharedCells   == ~(\E T \in DOMAIN env : T # Src /\ "result" \in DOMAIN env[T] /\ env[T]["result"] = env[Src]["result"])
W_WhyRecorded   == ~(\E T \in DOMAIN env : "why" \in DOMAIN env[T])
W_EvalStored    == ~(\E T \in DOMAIN env : "output_dir" \in DOMAIN env[T])
W_Full          == ~(Len(hist) = MaxOps)
=============================================================================
