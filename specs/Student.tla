------------------------------ MODULE Student ------------------------------
(* C05 -- verdict of a Student comparison.

   A dataset is a sequence of cells <<value, error>>; the reference `ref` is
   compared bin by bin with every dataset of `oth`.  Numbers are exact:
   integers, or the model values NaN, PInf, NInf (IEEE arithmetic on them is
   spelled out below).  The statistic of a bin is kept *squared* as an exact
   rational Delta^2 / (e1^2 + e2^2) so that no square root is needed, and it
   is compared with a rational band <<lo, hi>> enclosing the squared two-sided
   critical value:  below lo -> compatible, above hi -> incompatible, inside
   the band -> undetermined (the harness skips and counts those inputs).

   Crit[r][j] is the band for row r (degrees of freedom; the normal law is the
   last row) and level j (levels increasing, hence critical values decreasing
   along j and along r).  The bands come from harness/laws.py.

   Function-like module: Init enumerates (Mode "enum"), draws at random (Mode
   "rand": TLC's RandomElement, reproducible with -seed) or lets the behaviour
   build the input cell by cell (Mode "build", for -simulate); Eval computes
   the expected observables into `out`.  The clauses of C05 about the
   definition are invariants of the evaluated states.
*)
EXTENDS Integers, Sequences, FiniteSets, TLC

CONSTANTS NaN, PInf, NInf,     \* model values
          Vals,                \* values a cell may hold (integers and any of NaN, PInf, NInf)
          Errs,                \* errors a cell may hold (naturals and any of NaN, PInf)
          MaxBins, MaxDs,      \* 1..MaxBins bins, 1..MaxDs compared datasets
          Crit,                \* Crit[r][j] = << <<lo_num, lo_den>>, <<hi_num, hi_den>> >>
          Rows, Levs,          \* rows / levels enumerated as the test's (ndf, alpha)
          Mode,                \* "enum" | "rand" | "build"
          NRand                \* number of random inputs per shape in Mode "rand"

VARIABLES row, lev, ref, oth, cells, out, pc
vars == <<row, lev, ref, oth, cells, out, pc>>

NLev == Len(Crit[1])
Cell == Vals \X Errs

-----------------------------------------------------------------------------
(* extended arithmetic *)
IsFin(x) == x # NaN /\ x # PInf /\ x # NInf
Abs(x) == IF x < 0 THEN -x ELSE x

Diff(a, b) == IF a = NaN \/ b = NaN THEN NaN
              ELSE IF a = PInf THEN (IF b = PInf THEN NaN ELSE PInf)
              ELSE IF a = NInf THEN (IF b = NInf THEN NaN ELSE NInf)
              ELSE IF b = PInf THEN NInf
              ELSE IF b = NInf THEN PInf
              ELSE a - b

(* e1^2 + e2^2 for errors in Nat \cup {NaN, PInf} *)
SumSq(e1, e2) == IF e1 = NaN \/ e2 = NaN THEN NaN
                 ELSE IF e1 = PInf \/ e2 = PInf THEN PInf
                 ELSE e1 * e1 + e2 * e2

RECURSIVE GCD(_, _)
GCD(a, b) == IF b = 0 THEN a ELSE GCD(b, a % b)

(* p < q for non-negative rationals <<num, den>>, den > 0, by the Euclidean
   algorithm on the continued fractions: never multiplies, so the 32-bit
   integers of TLC cannot overflow *)
RECURSIVE RatLt(_, _)
RatLt(p, q) ==
   LET ip == p[1] \div p[2]   rp == p[1] % p[2]
       iq == q[1] \div q[2]   rq == q[1] % q[2] IN
   IF ip # iq THEN ip < iq
   ELSE IF rq = 0 THEN FALSE
   ELSE IF rp = 0 THEN TRUE
   ELSE RatLt(<<q[2], rq>>, <<p[2], rp>>)

(* the squared statistic: k = "rat" (n/d in lowest terms), "inf", "nan", or
   "free" where the statement does not say (see below) *)
Rat(n, d) == LET g == GCD(n, d) IN [k |-> "rat", n |-> n \div g, d |-> d \div g]
Zero == [k |-> "rat", n |-> 0, d |-> 1]
InfStat == [k |-> "inf", n |-> 1, d |-> 0]
NaNStat == [k |-> "nan", n |-> 0, d |-> 0]
FreeStat == [k |-> "free", n |-> 0, d |-> 0]

(* a bin is <<v1, e1, v2, e2>>.  Documented conventions first: NaN values on
   both sides, 0/0, and 0/NaN with NaN errors on both sides give statistic 0.
   "NaN on both sides" with a NaN error on one side only is claimed by the
   convention (pass) and by the one-sided clause (fail): not judged. *)
Stat(b) ==
   LET v1 == b[1]  e1 == b[2]  v2 == b[3]  e2 == b[4]
       dl == Diff(v1, v2)
       s  == SumSq(e1, e2) IN
   IF v1 = NaN /\ v2 = NaN THEN (IF (e1 = NaN) # (e2 = NaN) THEN FreeStat ELSE Zero)
   ELSE IF dl = 0 /\ s = 0 THEN Zero
   ELSE IF dl = 0 /\ e1 = NaN /\ e2 = NaN THEN Zero
   ELSE IF dl = NaN \/ s = NaN THEN NaNStat
   ELSE IF ~IsFin(dl) THEN (IF s = PInf THEN NaNStat ELSE InfStat)
   ELSE IF s = PInf THEN Zero
   ELSE IF s = 0 THEN InfStat
   ELSE Rat(dl * dl, s)

(* sign of the statistic itself (observable result.tstud) *)
Sign(b) ==
   LET st == Stat(b)  dl == Diff(b[1], b[3]) IN
   IF st.k = "free" THEN "free"
   ELSE IF st.k = "nan" THEN "nan"
   ELSE IF st.k = "rat" /\ st.n = 0 THEN "zero"
   ELSE IF dl = PInf THEN "pos"
   ELSE IF dl = NInf THEN "neg"
   ELSE IF dl > 0 THEN "pos" ELSE "neg"

(* per-bin oracle at row r, level j *)
Class(st, r, j) ==
   IF st.k = "free" THEN "free"
   ELSE IF st.k # "rat" THEN "fail"
   ELSE IF RatLt(<<st.n, st.d>>, Crit[r][j][1]) THEN "pass"
   ELSE IF RatLt(Crit[r][j][2], <<st.n, st.d>>) THEN "fail"
   ELSE "band"

(* is the two-sided p-value of the bin above level j?  p is a strictly
   decreasing function of |t| and equals the level at the critical value, so
   this is the same comparison; an infinite statistic has p = 0; an undefined
   one has an undefined p, which must not be accepted at the level of the test
   (l) and is not judged at the others *)
PAbove(st, r, j, l) ==
   IF st.k = "nan" THEN (IF j = l THEN "no" ELSE "free")
   ELSE LET c == Class(st, r, j) IN
        IF c = "pass" THEN "yes" ELSE IF c = "fail" THEN "no" ELSE c

Rank(c) == IF c = "fail" THEN 0 ELSE IF c = "pass" THEN 2 ELSE 1

BinOf(rf, ot, i) == <<rf[i][1], rf[i][2], ot[i][1], ot[i][2]>>

ClsOf(rf, ots, r, j) == [d \in DOMAIN ots |-> [i \in DOMAIN rf |-> Class(Stat(BinOf(rf, ots[d], i)), r, j)]]

(* three-valued conjunction over bins and datasets *)
VerdictOf(cls) ==
   IF \E d \in DOMAIN cls : \E i \in DOMAIN cls[d] : cls[d][i] = "fail" THEN "fail"
   ELSE IF \A d \in DOMAIN cls : \A i \in DOMAIN cls[d] : cls[d][i] = "pass" THEN "pass"
   ELSE "undet"

(* every observable of one comparison; the LET values are computed once *)
Expected(rf, ots, r, l) ==
   LET st  == [d \in DOMAIN ots |-> [i \in DOMAIN rf |-> Stat(BinOf(rf, ots[d], i))]]
       cls == [d \in DOMAIN ots |-> [i \in DOMAIN rf |-> Class(st[d][i], r, l)]]
   IN [cls |-> cls,
       pv  |-> [d \in DOMAIN ots |-> [i \in DOMAIN rf |-> [j \in 1 .. NLev |-> PAbove(st[d][i], r, j, l)]]],
       st  |-> st,
       sg  |-> [d \in DOMAIN ots |-> [i \in DOMAIN rf |-> Sign(BinOf(rf, ots[d], i))]],
       verdict |-> VerdictOf(cls)]

-----------------------------------------------------------------------------
NoOut == [cls |-> <<>>, pv |-> <<>>, st |-> <<>>, sg |-> <<>>, verdict |-> "none"]

InitEnum == /\ row \in Rows /\ lev \in Levs
            /\ \E nb \in 1 .. MaxBins, nd \in 1 .. MaxDs :
                  /\ ref \in [1 .. nb -> Cell]
                  /\ oth \in [1 .. nd -> [1 .. nb -> Cell]]
            /\ cells = <<>> /\ out = NoOut /\ pc = "todo"

InitRand == /\ \E nb \in 1 .. MaxBins, nd \in 1 .. MaxDs, n \in 1 .. NRand :
                  /\ ref = [b \in 1 .. nb |-> RandomElement(Cell)]
                  /\ oth = [d \in 1 .. nd |-> [b \in 1 .. nb |-> RandomElement(Cell)]]
            /\ row = RandomElement(Rows) /\ lev = RandomElement(Levs)
            /\ cells = <<>> /\ out = NoOut /\ pc = "todo"

(* Mode "build": the number of compared datasets is fixed by the length of
   oth; cells are appended one at a time in the order ref[1], oth[1][1], ...,
   oth[nd][1], ref[2], ... and Seal cuts the flat list into datasets *)
InitBuild == /\ row \in Rows /\ lev \in Levs
             /\ \E nd \in 1 .. MaxDs : oth = [d \in 1 .. nd |-> <<>>]
             /\ ref = <<>> /\ cells = <<>> /\ out = NoOut /\ pc = "build"

Init == IF Mode = "enum" THEN InitEnum ELSE IF Mode = "rand" THEN InitRand ELSE InitBuild

AddCell == /\ pc = "build" /\ Len(cells) < MaxBins * (1 + Len(oth))
           /\ \E c \in Cell : cells' = Append(cells, c)
           /\ UNCHANGED <<row, lev, ref, oth, out, pc>>

Seal == /\ pc = "build" /\ Len(cells) > 0 /\ Len(cells) % (1 + Len(oth)) = 0
        /\ LET w == 1 + Len(oth)  nb == Len(cells) \div w IN
           /\ ref' = [i \in 1 .. nb |-> cells[(i - 1) * w + 1]]
           /\ oth' = [d \in DOMAIN oth |-> [i \in 1 .. nb |-> cells[(i - 1) * w + 1 + d]]]
        /\ pc' = "todo" /\ cells' = <<>>
        /\ UNCHANGED <<row, lev, out>>

Eval == /\ pc = "todo" /\ pc' = "done"
        /\ out' = Expected(ref, oth, row, lev)
        /\ UNCHANGED <<row, lev, ref, oth, cells>>

Next == AddCell \/ Seal \/ Eval
Spec == Init /\ [][Next]_vars

-----------------------------------------------------------------------------
(* the table itself: bands are proper and ordered (levels increase along j,
   degrees of freedom along r with the normal law last) *)
ASSUME TableSane ==
   /\ \A r \in DOMAIN Crit : Len(Crit[r]) = NLev
   /\ \A r \in DOMAIN Crit : \A j \in 1 .. NLev : RatLt(Crit[r][j][1], Crit[r][j][2])
   /\ \A r \in DOMAIN Crit : \A j \in 1 .. NLev - 1 : RatLt(Crit[r][j + 1][2], Crit[r][j][1])
   /\ \A r \in 1 .. Len(Crit) - 1 : \A j \in 1 .. NLev : RatLt(Crit[r + 1][j][2], Crit[r][j][1])

Evaluated == pc = "done"
Bins == {BinOf(ref, oth[d], i) : d \in DOMAIN oth, i \in DOMAIN ref}
C(b) == Class(Stat(b), row, lev)
FinVals == {v \in Vals : IsFin(v)}
ELe(e, f) == f = PInf \/ (e # PInf /\ e <= f)            \* order on Nat \cup {PInf}

(* verdict = conjunction of the per-bin oracles; the p-value decision at the
   level of the test is the per-bin oracle *)
VerdictDef ==
   Evaluated =>
      /\ (out.verdict = "pass") = (\A d \in DOMAIN oth : \A i \in DOMAIN ref : out.cls[d][i] = "pass")
      /\ (out.verdict = "fail") = (\E d \in DOMAIN oth : \E i \in DOMAIN ref : out.cls[d][i] = "fail")
OraclesAgree ==
   Evaluated =>
      \A d \in DOMAIN oth : \A i \in DOMAIN ref :
         LET c == out.cls[d][i]  p == out.pv[d][i][lev] IN
         (c = "pass") = (p = "yes") /\ (c = "fail") = (p = "no")

(* symmetric in the two datasets (bin level, and dataset level for one comparison) *)
Symmetric ==
   Evaluated =>
      /\ \A b \in Bins : C(<<b[3], b[4], b[1], b[2]>>) = C(b)
      /\ Len(oth) = 1 => VerdictOf(ClsOf(oth[1], <<ref>>, row, lev)) = out.verdict

(* invariant under a common positive rescaling of values and errors *)
Scale(x, c) == IF IsFin(x) THEN c * x ELSE x
ScaleInvariant ==
   Evaluated =>
      \A b \in Bins : \A c \in {2, 3} :
         C(<<Scale(b[1], c), Scale(b[2], c), Scale(b[3], c), Scale(b[4], c)>>) = C(b)

(* never improves when a difference grows ... *)
MonotoneDiff ==
   Evaluated =>
      \A b \in Bins : \A v \in FinVals :
         (IsFin(b[1]) /\ IsFin(b[3]) /\ b[2] # NaN /\ b[4] # NaN /\ Abs(v - b[3]) >= Abs(b[1] - b[3]))
            => Rank(C(<<v, b[2], b[3], b[4]>>)) <= Rank(C(b))
(* ... or an error shrinks *)
MonotoneErr ==
   Evaluated =>
      \A b \in Bins : \A e \in Errs \ {NaN} :
         (b[1] # NaN /\ b[3] # NaN /\ b[2] # NaN /\ b[4] # NaN /\ ELe(e, b[2]))
            => Rank(C(<<b[1], e, b[3], b[4]>>)) <= Rank(C(b))

(* a NaN on one side only makes the verdict false *)
OneSided(b) == \/ (b[1] = NaN) # (b[3] = NaN)
               \/ (~(b[1] = NaN /\ b[3] = NaN) /\ (b[2] = NaN) # (b[4] = NaN))
OneSidedNaNFails ==
   Evaluated => ((\E b \in Bins : OneSided(b)) => out.verdict = "fail")

(* beyond the statement, cheap: a stricter level or more degrees of freedom never helps *)
MonotoneLevel ==
   Evaluated =>
      \A b \in Bins :
         /\ \A j \in 1 .. NLev - 1 : Rank(Class(Stat(b), row, j + 1)) <= Rank(Class(Stat(b), row, j))
         /\ \A r \in 1 .. Len(Crit) - 1 : Rank(Class(Stat(b), r + 1, lev)) <= Rank(Class(Stat(b), r, lev))

-----------------------------------------------------------------------------
(* witnesses (negated reachability): TLC must find them violated *)
W_BothNaNPasses == ~(Evaluated /\ out.verdict = "pass" /\ \E b \in Bins : b[1] = NaN /\ b[3] = NaN)
W_ZeroOverZero  == ~(Evaluated /\ out.verdict = "pass" /\ \E b \in Bins : b[1] = b[3] /\ b[2] = 0 /\ b[4] = 0)
W_OneSidedNaN   == ~(Evaluated /\ \E b \in Bins : OneSided(b))
W_FinitePassAndFail ==
   ~(Evaluated /\ \E b1, b2 \in Bins : /\ Stat(b1).k = "rat" /\ Stat(b1).n > 0 /\ C(b1) = "pass"
                                       /\ Stat(b2).k = "rat" /\ C(b2) = "fail")
W_MixedDatasets ==
   ~(Evaluated /\ Len(oth) >= 2 /\ (\A i \in DOMAIN ref : out.cls[1][i] = "pass")
               /\ (\E i \in DOMAIN ref : out.cls[2][i] = "fail"))
W_Band == ~(Evaluated /\ out.verdict = "undet" /\ \E b \in Bins : C(b) = "band")
=============================================================================
