---------------------------- MODULE DecideTrace ----------------------------
(* Code -> spec: recorded calls of QueueScheduling.decide_new_state (inputs and
   observed decision / resulting status) judged one per step by Decide. *)
EXTENDS Integers, Sequences, FiniteSets, TLC, Json, IOUtils
MaxDeps == 0  Clocks == {}  OwnStatuses == {}
VARIABLES own, deps, out, pc
D == INSTANCE Decide
Cases == JsonDeserialize(IOEnv.VERIF_CASES)
VARIABLES i, bad
tvars == <<own, deps, out, pc, i, bad>>
TInit == i = 1 /\ bad = {} /\ own = [st |-> "ABSENT", s |-> -1] /\ deps = <<>> /\ pc = "todo"
         /\ out = [decision |-> "", status |-> "", allowed |-> {}, free |-> FALSE]
Exp(c) == [decision |-> D!Decision(c.own, c.deps), status |-> D!NewStatus(c.own, c.deps),
           allowed |-> D!Allowed(c.own, c.deps), free |-> D!FreeOwn(c.own)]
TStep == /\ i <= Len(Cases) /\ i' = i + 1
         /\ own' = Cases[i].own /\ deps' = Cases[i].deps /\ out' = Exp(Cases[i]) /\ pc' = "done"
         /\ bad' = IF D!Accepts(Cases[i].own, Cases[i].deps, Cases[i].obs)
                   THEN bad ELSE bad \cup {<<Cases[i].id, [decision |-> Exp(Cases[i]).decision, status |-> Exp(Cases[i]).status]>>}
         /\ (i = Len(Cases) => TLCSet(1, bad'))
TSpec == TInit /\ [][TStep]_tvars
ReleaseOnlyWhenAllFinal == D!ReleaseOnlyWhenAllFinal
NeverRunWithBadHard == D!NeverRunWithBadHard
DropOnlyIfDoneAndFresh == D!DropOnlyIfDoneAndFresh
Post == TLCGet("stats").diameter = Len(Cases) + 1 /\ JsonSerialize(IOEnv.VERIF_OUT, [bad |-> TLCGet(1)])
=============================================================================
