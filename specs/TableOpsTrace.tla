--------------------------- MODULE TableOpsTrace ---------------------------
(* Code -> spec direction for the table operations of C12.

   A case records two source tables as the binding built them (cells are the
   strings a reader must find: the formatted inputs), a sequence of operations
   executed on the real TableTemplate objects, and the rows read back by
   docutils from the text RstTable produced for the final table: per row the
   cell texts and their highlight flags.  TLC replays the operations on the
   sources with the operators of TableOps.tla and compares the rows as bags
   (the order of rows is not part of the property).

   Tables produced by the result representers are validated the same way with
   an empty operation sequence: cells read back as the formatted inputs. *)
EXTENDS Integers, Sequences, FiniteSets, TLC, Json, IOUtils

CONSTANT None
NCols == 0  MaxRows == 0  MaxRows2 == 0  MaxB == 0  MaxOps == 0
VARIABLES tab, src, oth, ops
T == INSTANCE TableOps

Cases == JsonDeserialize(IOEnv.VERIF_CASES)
NCases == Len(Cases)

VARIABLES i, bad
tvars == <<tab, src, oth, ops, i, bad>>

B(x) == IF Len(x) = 0 THEN None ELSE x[1]
OpsOf(c) == [k \in DOMAIN c.ops |-> [op |-> c.ops[k].op, a |-> B(c.ops[k].a), b |-> B(c.ops[k].b)]]
TabOf(t) == [cols |-> t.cols, hls |-> t.hls]
Expected(c) == T!ApplyAll(TabOf(c.t1), OpsOf(c), TabOf(c.t2))

(* a recorded table is well shaped iff every mask has the length of its column and all columns
   have one length *)
WellShaped(t) == /\ Len(t.cols) = Len(t.hls) /\ Len(t.cols) > 0
                 /\ \A c \in DOMAIN t.cols : Len(t.cols[c]) = Len(t.cols[1]) /\ Len(t.hls[c]) = Len(t.cols[1])

(* a case is fine iff the tables are well shaped, rendering was possible and the rows read back
   are the rows of the table *)
Verdict(c) == IF ~WellShaped(c.t1) \/ ~WellShaped(c.t2) THEN "mask-shape"
              ELSE IF c.raised THEN "raised"
              ELSE IF c.invalid THEN "invalid-rst"
              ELSE IF ~T!SameBag(T!RowsOf(Expected(c)), c.obs) THEN "rows"
              ELSE "ok"

TInit == /\ i = 1 /\ bad = {} /\ tab = <<>> /\ src = <<>> /\ oth = <<>> /\ ops = <<>>
TStep == /\ i <= NCases
         /\ i' = i + 1
         /\ src' = TabOf(Cases[i].t1) /\ oth' = TabOf(Cases[i].t2) /\ ops' = OpsOf(Cases[i])
         /\ tab' = IF WellShaped(Cases[i].t1) /\ WellShaped(Cases[i].t2) THEN Expected(Cases[i]) ELSE TabOf(Cases[i].t1)
         /\ bad' = IF Verdict(Cases[i]) = "ok" THEN bad ELSE bad \cup {<<Cases[i].id, Verdict(Cases[i])>>}
         /\ (i = NCases => TLCSet(1, bad'))
TSpec == TInit /\ [][TStep]_tvars

(* the shape invariant of the property-level spec holds for every replayed table *)
C12_Shape == (i > 1 /\ Verdict(Cases[i - 1]) # "mask-shape") => T!C12_Shape

Post == /\ TLCGet("stats").diameter = NCases + 1
        /\ JsonSerialize(IOEnv.VERIF_OUT, [bad |-> TLCGet(1)])
=============================================================================
