------------------------------ MODULE Ap3File ------------------------------
(* C10, Apollo3 half -- reading an Apollo3 HDF5 file returns for every stored
   result the stored array with its zone, isotope and output labels,
   identically whether the whole file is loaded (hdf5_reader.Reader) or a
   single result is picked (hdf5_picker.Picker).

   Abstract file (the documented "standard" layout):

      file    = sequence of outputs                       output_0, output_1, ...
      output  = [totalflux, zones]    totaloutput always holds KEFF, optionally FLUX[NG]
      zone    = [flux, nmacro, ni, nreac]
                   flux     the zone holds FLUX[NG]
                   nmacro   number of reaction rates under `macro`
                   ni       number of isotopes (each with a concentration)
                   nreac    number of reaction rates under every isotope
   Names come from fixed tables (Reactions, isotope k, zone k).  The content of
   every stored array is an injective function of its path and group index, so
   a result attached to the wrong zone / isotope / output is visible.

   Stored(file)      what the writer puts in the file: path -> array
   ReaderItems(file) what loading the whole file must give: one item per stored
                     result, labelled [output, zone, isotope, name] with the
                     reader's naming (lower-case, CONCEN -> concentration)
   Pick(file, q)     what picking the single result q must give
   The module is function-like: Init enumerates files, Eval computes the expected
   items and picks (picks carry the file's own names: they are also what the
   harness writes into the HDF5 file).
*)
EXTENDS Integers, Sequences, FiniteSets, TLC

CONSTANTS MaxOutputs, MaxZones, MaxIsotopes, MaxResults,
          NG          \* number of energy groups

Reactions == <<"Absorption", "Fission", "NuFission">>
Lower == [Absorption |-> "absorption", Fission |-> "fission", NuFission |-> "nufission",
          KEFF |-> "keff", FLUX |-> "flux", CONCEN |-> "concentration"]

ZoneSpec == [flux : BOOLEAN, nmacro : 0 .. MaxResults, ni : 0 .. MaxIsotopes, nreac : 1 .. MaxResults]
ThinZone == [flux |-> TRUE, nmacro |-> 1, ni |-> 1, nreac |-> 1]

(* injective content: <<output, zone (0 = totaloutput), isotope (0 none, 9 macro), result, group>> *)
Code(o, z, i, r, g) == ((((o * 4 + z) * 10 + i) * 8 + r) * 16 + g) + 1
Groups(o, z, i, r) == [g \in 1 .. NG |-> Code(o, z, i, r, g)]
Scalar(o, z, i, r) == <<Code(o, z, i, r, 0)>>

ReacIdx(name) == CHOOSE k \in DOMAIN Reactions : Reactions[k] = name

-----------------------------------------------------------------------------
(* the results stored in the file: [o, z, iso, name, arr]; z = 0 is totaloutput,
   iso = 0 for results of the zone itself, 9 for macro, k for isotope k *)
StoredTotal(file, o) ==
   {[o |-> o, z |-> 0, iso |-> 0, name |-> "KEFF", arr |-> Scalar(o, 0, 0, 1)]}
   \cup (IF file[o].totalflux THEN {[o |-> o, z |-> 0, iso |-> 0, name |-> "FLUX", arr |-> Groups(o, 0, 0, 2)]} ELSE {})

StoredZone(file, o, z) ==
   LET zs == file[o].zones[z] IN
   (IF zs.flux THEN {[o |-> o, z |-> z, iso |-> 0, name |-> "FLUX", arr |-> Groups(o, z, 0, 2)]} ELSE {})
   \cup {[o |-> o, z |-> z, iso |-> 9, name |-> Reactions[r], arr |-> Groups(o, z, 9, r)] : r \in 1 .. zs.nmacro}
   \cup {[o |-> o, z |-> z, iso |-> i, name |-> Reactions[r], arr |-> Groups(o, z, i, r)] : i \in 1 .. zs.ni, r \in 1 .. zs.nreac}
   \cup {[o |-> o, z |-> z, iso |-> i, name |-> "CONCEN", arr |-> Scalar(o, z, i, 7)] : i \in 1 .. zs.ni}

Stored(file) == UNION {StoredTotal(file, o) \cup UNION {StoredZone(file, o, z) : z \in DOMAIN file[o].zones} : o \in DOMAIN file}

(* loading the whole file: same results, reader's names *)
ReaderItems(file) == {[o |-> s.o, z |-> s.z, iso |-> s.iso, name |-> Lower[s.name], arr |-> s.arr] : s \in Stored(file)}

(* picking one result: q = [o, z, iso, name] with the file's own names *)
Queries(file) == {[o |-> s.o, z |-> s.z, iso |-> s.iso, name |-> s.name] : s \in Stored(file)}
Pick(file, q) == (CHOOSE s \in Stored(file) : s.o = q.o /\ s.z = q.z /\ s.iso = q.iso /\ s.name = q.name).arr

-----------------------------------------------------------------------------
VARIABLES file, items, picks, pc
vars == <<file, items, picks, pc>>

OutputSpec(k) == [totalflux : BOOLEAN,
                  zones : UNION {[1 .. n -> IF k = 1 THEN ZoneSpec ELSE {ThinZone}] : n \in 0 .. MaxZones}]

Init == /\ \E n \in 1 .. MaxOutputs : \E a \in OutputSpec(1) :
              IF n = 1 THEN file = <<a>> ELSE \E b \in OutputSpec(2) : file = <<a, b>>
        /\ items = {} /\ picks = {} /\ pc = "todo"

Eval == /\ pc = "todo" /\ pc' = "done"
        /\ items' = ReaderItems(file)
        /\ picks' = {[q |-> q, arr |-> Pick(file, q)] : q \in Queries(file)}
        /\ UNCHANGED file

Next == Eval
Spec == Init /\ [][Next]_vars

-----------------------------------------------------------------------------
Evaluated == pc = "done"

(* whole-file loading and single picks carry the same arrays *)
ReaderAndPickerAgree ==
   Evaluated => /\ Cardinality(items) = Cardinality(picks)
                /\ \A it \in items : \E p \in picks :
                      /\ p.q.o = it.o /\ p.q.z = it.z /\ p.q.iso = it.iso /\ Lower[p.q.name] = it.name
                      /\ p.arr = it.arr

(* every stored result is listed once, with the stored array *)
EveryStoredResultListed ==
   Evaluated => /\ Cardinality(items) = Cardinality(Stored(file))
                /\ \A s \in Stored(file) : [o |-> s.o, z |-> s.z, iso |-> s.iso, name |-> Lower[s.name], arr |-> s.arr] \in items

(* labels identify a result; contents identify a path *)
LabelsAreKeys ==
   Evaluated => /\ \A a, b \in items : (a.o = b.o /\ a.z = b.z /\ a.iso = b.iso /\ a.name = b.name) => a = b
                /\ \A a, b \in Stored(file) : a.arr = b.arr => a = b

W_TwoOutputs == ~(Evaluated /\ Len(file) = 2)
W_IsotopeAndMacro == ~(Evaluated /\ \E s, t \in Stored(file) : s.o = t.o /\ s.z = t.z /\ s.iso = 9 /\ t.iso = 2 /\ s.name = t.name)
=============================================================================
