----------------------------- MODULE PipelineMC -----------------------------
(* finite instances of Pipeline for TLC: the -k arguments (sequences of atoms; the harness joins them) *)
EXTENDS Pipeline

MC_KwNone  == {}
MC_KwSmall == {<<"key", "=", "v1">>, <<"key", "=", "a", "=", "b">>, <<"tag", "=", "p9">>, <<"zz", "=", "1">>, <<"key">>}
MC_KwAll   == MC_KwSmall \cup {<<"sel", "=", "S">>, <<"key", "=">>, <<"=", "x">>, <<"tag", "=", "=">>, <<>>}

(* witnesses as actions: each is enabled exactly in the terminal states where the negated-reachability invariant
   W_x of Pipeline is false; they stutter, so the state graph is unchanged, and TLC's action coverage of the
   enumeration run says how many terminal states witness each (the harness requires every count to be positive) *)
A_Dup == Ended /\ ~W_Dup /\ UNCHANGED vars
A_TwoDups == Ended /\ ~W_TwoDups /\ UNCHANGED vars
A_SameNameOut == Ended /\ ~W_SameNameOut /\ UNCHANGED vars
A_SoftOnly == Ended /\ ~W_SoftOnly /\ UNCHANGED vars
A_Transitive == Ended /\ ~W_Transitive /\ UNCHANGED vars
A_Uncollected == Ended /\ ~W_Uncollected /\ UNCHANGED vars
A_Repeat == Ended /\ ~W_Repeat /\ UNCHANGED vars
A_EmptyJob == Ended /\ ~W_EmptyJob /\ UNCHANGED vars
A_Skipped == Ended /\ ~W_Skipped /\ UNCHANGED vars
A_Failed == Ended /\ ~W_Failed /\ UNCHANGED vars
A_SoftFailRun == Ended /\ ~W_SoftFailRun /\ UNCHANGED vars
A_NoDir == Ended /\ ~W_NoDir /\ UNCHANGED vars
A_BothEdge == Ended /\ ~W_BothEdge /\ UNCHANGED vars
A_Rerun == Ended /\ ~W_Rerun /\ UNCHANGED vars
A_MayRerun == Ended /\ ~W_MayRerun /\ UNCHANGED vars
A_RerunOther == Ended /\ ~W_RerunOther /\ UNCHANGED vars
A_Mismatch == Ended /\ ~W_Mismatch /\ UNCHANGED vars
A_KwError == Ended /\ ~W_KwError /\ UNCHANGED vars
A_KwOverride == Ended /\ ~W_KwOverride /\ UNCHANGED vars
A_KwEqInValue == Ended /\ ~W_KwEqInValue /\ UNCHANGED vars
A_SelByKw == Ended /\ ~W_SelByKw /\ UNCHANGED vars
A_Missing == Ended /\ ~W_Missing /\ UNCHANGED vars
A_DepsType == Ended /\ ~W_DepsType /\ UNCHANGED vars
MCNext == \/ Next
          \/ A_Dup \/ A_TwoDups \/ A_SameNameOut \/ A_SoftOnly \/ A_Transitive \/ A_Uncollected \/ A_Repeat \/ A_EmptyJob
          \/ A_Skipped \/ A_Failed \/ A_SoftFailRun \/ A_NoDir \/ A_BothEdge \/ A_Rerun \/ A_MayRerun \/ A_RerunOther \/ A_Mismatch
          \/ A_KwError \/ A_KwOverride \/ A_KwEqInValue \/ A_SelByKw \/ A_Missing \/ A_DepsType
MCSpec == Init /\ [][MCNext]_vars
=============================================================================
