------------------------------ MODULE Browser ------------------------------
(* C17 -- Browser selections return exactly the items that match.

   A browser is a list of items (metadata + data), a dictionary of global
   variables and the name of the data key.  An item is abstracted to
        [id |-> n, meta |-> f]      f : (finite subset of keys) -> values
   where `id` stands for the data of the item (every item of the base lists
   carries distinguishable data) and `meta` is its metadata dictionary (the
   data key and the bookkeeping key 'index' are not metadata).

   This module is the NAIVE SCAN: Filter keeps, in order, the items that
   match; Select returns the single match or one of the two documented
   errors; Merge concatenates.  The state is the history of a session:
        brs  the browsers created so far (the base browsers first)
        ops  the operations applied, each with its outcome
        obs  what keys() / available_values(k) answer for every browser
   Nothing ever removes or rewrites an element of `brs`: that is the clause
   "the original browsers are never modified" (action property Immutable).
   A dumped state is therefore a complete test: replay `ops` on the real class
   and compare every browser with `brs`, every outcome with `ops[i].res`.

   IdxFilter is the second, independent definition (the inverted index
   key -> value -> positions, intersected, then include/exclude): the
   invariant IndexAgrees is the design-level statement that the optimisation
   equals the scan. *)
EXTENDS Integers, Sequences, FiniteSets, TLC

CONSTANTS Keys,      \* metadata keys that items may carry
          XKeys,     \* keys used in queries only (absent from every item)
          Vals,      \* metadata values that items may carry
          XVals,     \* values used in queries only
          DataKeys,  \* names of the data key, e.g. {"results", "mydata"}
          GNames,    \* names of the global-variable dictionaries of base browsers
          MaxBases,  \* number of base browsers 1..MaxBases
          MaxItems,  \* items per base browser 0..MaxItems
          MaxKw,     \* max number of key=value constraints in a query
          MaxIE,     \* max size of the include / exclude key sets
          MaxQ,      \* max total number of constraints of a query (kw + include + exclude)
          MaxOps,    \* length of the chains of operations
          OpKinds    \* subset of {"filter", "select", "merge"}

QKeys == Keys \cup XKeys
QVals == Vals \cup XVals

VARIABLES brs, ops, obs
vars == <<brs, ops, obs>>

-----------------------------------------------------------------------------
(* values *)

PFuns(D, R) == UNION {[S -> R] : S \in SUBSET D}          \* partial functions
Metas == PFuns(Keys, Vals)

(* global variables: a dictionary, written as its set of <<name, value>> pairs *)
GlobalsOf(g) == CASE g = "g0" -> {}
                  [] g = "g1" -> {<<"a", 1>>}
                  [] g = "g2" -> {<<"a", 2>>, <<"b", 1>>}
Update(f, g) == g \cup {p \in f : ~\E r \in g : r[1] = p[1]}
EmptyFn == [x \in {} |-> x]

Queries == {q \in [kw : PFuns(QKeys, QVals), incl : SUBSET QKeys, excl : SUBSET QKeys] :
               /\ Cardinality(DOMAIN q.kw) <= MaxKw
               /\ Cardinality(q.incl) <= MaxIE /\ Cardinality(q.excl) <= MaxIE
               /\ Cardinality(DOMAIN q.kw) + Cardinality(q.incl) + Cardinality(q.excl) <= MaxQ}
NoQuery == [kw |-> EmptyFn, incl |-> {}, excl |-> {}]

-----------------------------------------------------------------------------
(* the naive scan *)

Match(it, q) == /\ \A k \in DOMAIN q.kw : k \in DOMAIN it.meta /\ it.meta[k] = q.kw[k]
                /\ q.incl \subseteq DOMAIN it.meta
                /\ q.excl \cap DOMAIN it.meta = {}

Filter(br, q) == [content |-> SelectSeq(br.content, LAMBDA it : Match(it, q)),
                  globals |-> br.globals,
                  dataKey |-> br.dataKey]

Select(br, q) == LET m == Filter(br, q).content IN
                 IF Len(m) = 0 THEN [tag |-> "NoItem", items |-> <<>>]
                 ELSE IF Len(m) > 1 THEN [tag |-> "TooMany", items |-> <<>>]
                 ELSE [tag |-> "item", items |-> m]

Mergeable(a, b) == a.dataKey = b.dataKey
Merge(a, b) == [content |-> a.content \o b.content,
                globals |-> Update(a.globals, b.globals),
                dataKey |-> a.dataKey]

KeysOf(br) == UNION {DOMAIN br.content[i].meta : i \in DOMAIN br.content}
ValuesOf(br, k) == {br.content[i].meta[k] : i \in {j \in DOMAIN br.content : k \in DOMAIN br.content[j].meta}}
ObsOf(bs) == [i \in DOMAIN bs |-> [keys |-> KeysOf(bs[i]),
                                   vals |-> [k \in QKeys |-> ValuesOf(bs[i], k)]]]

-----------------------------------------------------------------------------
(* the inverted index: key -> value -> set of positions; the selection is the
   intersection of the position sets, then include / exclude on the items *)

Idx(br) == [k \in KeysOf(br) |-> [v \in ValuesOf(br, k) |->
               {i \in DOMAIN br.content : k \in DOMAIN br.content[i].meta /\ br.content[i].meta[k] = v}]]

RECURSIVE Inter(_, _, _)
Inter(ix, kw, acc) == IF DOMAIN kw = {} THEN acc
                      ELSE LET k == CHOOSE x \in DOMAIN kw : TRUE IN
                           Inter(ix, [y \in DOMAIN kw \ {k} |-> kw[y]], acc \cap ix[k][kw[k]])

IdxIds(br, q) == LET ix == Idx(br) IN
                 IF \E k \in DOMAIN q.kw : k \notin DOMAIN ix \/ q.kw[k] \notin DOMAIN ix[k] THEN {}
                 ELSE Inter(ix, q.kw, DOMAIN br.content)

IdxFilterContent(br, q) ==
   LET ids == {i \in IdxIds(br, q) : /\ q.incl \subseteq DOMAIN br.content[i].meta
                                     /\ q.excl \cap DOMAIN br.content[i].meta = {}}
       F[n \in 0 .. Len(br.content)] ==
          IF n = 0 THEN <<>> ELSE IF n \in ids THEN Append(F[n - 1], br.content[n]) ELSE F[n - 1]
   IN F[Len(br.content)]

-----------------------------------------------------------------------------
(* the session *)

MetaSeqs == UNION {[1 .. n -> Metas] : n \in 0 .. MaxItems}

Base(b, ms, dk, g) == [content |-> [p \in DOMAIN ms |-> [id |-> 10 * b + p, meta |-> ms[p]]],
                       globals |-> GlobalsOf(g),
                       dataKey |-> dk]

Init == /\ \E nb \in 1 .. MaxBases :
             \E ms \in [1 .. nb -> MetaSeqs], dk \in [1 .. nb -> DataKeys], g \in [1 .. nb -> GNames] :
                brs = [b \in 1 .. nb |-> Base(b, ms[b], dk[b], g[b])]
        /\ ops = <<>>
        /\ obs = ObsOf(brs)

Op(kind, src, oth, q, res) == [kind |-> kind, src |-> src, oth |-> oth, q |-> q, res |-> res]
NewBrowser == [tag |-> "browser", items |-> <<>>]

DoFilter == /\ "filter" \in OpKinds
            /\ \E s \in DOMAIN brs, q \in Queries :
                  /\ brs' = Append(brs, Filter(brs[s], q))
                  /\ ops' = Append(ops, Op("filter", s, 0, q, NewBrowser))

DoSelect == /\ "select" \in OpKinds
            /\ \E s \in DOMAIN brs, q \in Queries :
                  /\ brs' = brs
                  /\ ops' = Append(ops, Op("select", s, 0, q, Select(brs[s], q)))

DoMerge == /\ "merge" \in OpKinds
           /\ \E s \in DOMAIN brs, o \in DOMAIN brs :
                 IF Mergeable(brs[s], brs[o])
                 THEN /\ brs' = Append(brs, Merge(brs[s], brs[o]))
                      /\ ops' = Append(ops, Op("merge", s, o, NoQuery, NewBrowser))
                 ELSE /\ brs' = brs
                      /\ ops' = Append(ops, Op("merge", s, o, NoQuery, [tag |-> "ValueError", items |-> <<>>]))

Next == /\ Len(ops) < MaxOps
        /\ (DoFilter \/ DoSelect \/ DoMerge)
        /\ obs' = ObsOf(brs')
Spec == Init /\ [][Next]_vars

-----------------------------------------------------------------------------
(* the clauses of C17 that are about the definition itself *)

IsFilter(i) == ops[i].kind = "filter"
(* position in brs of the browser created by the i-th operation *)
NCreated(i) == Cardinality({j \in 1 .. i : ops[j].res.tag = "browser"})
NBases == Len(brs) - NCreated(Len(ops))
Made(i) == brs[NBases + NCreated(i)]

(* order-preserving sub-list (greedy left-to-right embedding) *)
RECURSIVE Embeds(_, _, _, _)
Embeds(s, t, a, b) == IF a > Len(s) THEN TRUE
                      ELSE IF b > Len(t) THEN FALSE
                      ELSE IF s[a] = t[b] THEN Embeds(s, t, a + 1, b + 1)
                      ELSE Embeds(s, t, a, b + 1)
IsSubSeq(s, t) == Embeds(s, t, 1, 1)

(* exactly the matching items, in their original order, data (id) untouched,
   same globals, same data key *)
FilterExact ==
   \A i \in DOMAIN ops : IsFilter(i) =>
      LET src == brs[ops[i].src]  out == Made(i) IN
      /\ IsSubSeq(out.content, src.content)
      /\ \A p \in DOMAIN src.content :
            Match(src.content[p], ops[i].q) <=>
               \E r \in DOMAIN out.content : out.content[r] = src.content[p]
      /\ Len(out.content) = Cardinality({p \in DOMAIN src.content : Match(src.content[p], ops[i].q)})
      /\ out.globals = src.globals /\ out.dataKey = src.dataKey

(* the inverted index selects what the scan selects *)
IndexAgrees ==
   \A i \in DOMAIN ops : ops[i].kind \in {"filter", "select"} =>
      IdxFilterContent(brs[ops[i].src], ops[i].q) = Filter(brs[ops[i].src], ops[i].q).content

SelectExact ==
   \A i \in DOMAIN ops : ops[i].kind = "select" =>
      LET n == Cardinality({p \in DOMAIN brs[ops[i].src].content : Match(brs[ops[i].src].content[p], ops[i].q)})
          r == ops[i].res IN
      /\ (n = 0) <=> (r.tag = "NoItem")
      /\ (n > 1) <=> (r.tag = "TooMany")
      /\ (n = 1) <=> (r.tag = "item" /\ Len(r.items) = 1 /\ Match(r.items[1], ops[i].q))

MergeExact ==
   \A i \in DOMAIN ops : ops[i].kind = "merge" /\ ops[i].res.tag = "browser" =>
      LET a == brs[ops[i].src]  b == brs[ops[i].oth]  out == Made(i) IN
      /\ Len(out.content) = Len(a.content) + Len(b.content)
      /\ SubSeq(out.content, 1, Len(a.content)) = a.content
      /\ SubSeq(out.content, Len(a.content) + 1, Len(out.content)) = b.content
      /\ out.dataKey = a.dataKey

(* algebra of chains: a filter of a filter is the filter by the conjunction *)
Conj(q1, q2) == [kw |-> [k \in DOMAIN q1.kw \cup DOMAIN q2.kw |-> IF k \in DOMAIN q1.kw THEN q1.kw[k] ELSE q2.kw[k]],
                 incl |-> q1.incl \cup q2.incl, excl |-> q1.excl \cup q2.excl]
Compatible(q1, q2) == \A k \in DOMAIN q1.kw \cap DOMAIN q2.kw : q1.kw[k] = q2.kw[k]
ChainIsConjunction ==
   \A i, j \in DOMAIN ops :
      (i < j /\ IsFilter(i) /\ IsFilter(j) /\ ops[j].src = NBases + NCreated(i)) =>
         Made(j).content = IF Compatible(ops[i].q, ops[j].q)
                           THEN Filter(brs[ops[i].src], Conj(ops[i].q, ops[j].q)).content
                           ELSE <<>>

(* filtering a merge = merging the filters *)
FilterDistributes ==
   \A i, j \in DOMAIN ops :
      (i < j /\ ops[i].kind = "merge" /\ ops[i].res.tag = "browser" /\ IsFilter(j) /\ ops[j].src = NBases + NCreated(i)) =>
         Made(j).content = Filter(brs[ops[i].src], ops[j].q).content \o Filter(brs[ops[i].oth], ops[j].q).content

(* keys()/available_values() are those of a direct scan; nothing is listed for an unknown key *)
ObsExact == \A b \in DOMAIN brs :
               /\ obs[b].keys = {k \in Keys : \E p \in DOMAIN brs[b].content : k \in DOMAIN brs[b].content[p].meta}
               /\ \A k \in XKeys : obs[b].vals[k] = {}

(* no operation modifies a browser that exists already *)
Immutable == [][/\ Len(brs') >= Len(brs)
                /\ \A b \in DOMAIN brs : brs'[b] = brs[b]
                /\ \A i \in DOMAIN ops : ops'[i] = ops[i]]_vars

-----------------------------------------------------------------------------
(* witnesses (negated reachability): TLC must find each of them violated *)
Done == Len(ops) = MaxOps
W_ProperSubset == ~(\E i \in DOMAIN ops : IsFilter(i) /\ Len(Made(i).content) > 0
                                          /\ Len(Made(i).content) < Len(brs[ops[i].src].content))
W_ExcludeBites == ~(\E i \in DOMAIN ops : IsFilter(i) /\ ops[i].q.excl # {}
                                          /\ Len(Made(i).content) < Len(Filter(brs[ops[i].src], [ops[i].q EXCEPT !.excl = {}]).content))
W_SelectOne == ~(\E i \in DOMAIN ops : ops[i].kind = "select" /\ ops[i].res.tag = "item")
W_SelectMany == ~(\E i \in DOMAIN ops : ops[i].kind = "select" /\ ops[i].res.tag = "TooMany")
W_CustomKeyFiltered == ~(\E i \in DOMAIN ops : IsFilter(i) /\ Made(i).dataKey # "results" /\ Len(Made(i).content) > 0)
W_MergeOfFilter == ~(\E i, j \in DOMAIN ops : i < j /\ IsFilter(i) /\ ops[j].kind = "merge"
                                              /\ ops[j].res.tag = "browser" /\ ops[j].src = NBases + NCreated(i)
                                              /\ Len(Made(j).content) > Len(Made(i).content))
W_MergeRefused == ~(\E i \in DOMAIN ops : ops[i].res.tag = "ValueError")
=============================================================================
