----------------------------- MODULE RListTrace -----------------------------
(* Code -> spec for RList: recorded histories of operations on a real RList with, after every operation, the
   observed list content, the reverse index projected as value -> set of positions, and the answers of the
   look-up methods; one TLC step per operation, total verdict (failing clauses per trace and step). *)
EXTENDS RList, Json, IOUtils

Traces  == JsonDeserialize(IOEnv.VERIF_TRACES)
NTraces == Len(Traces)
VARIABLES tid, l
tvars == <<vars, tid, l>>

SeqOf(x) == [k \in 1 .. Len(x) |-> x[k]]
TInit == /\ tid \in 1 .. NTraces /\ l = 1 /\ seq = SeqOf(Traces[tid].init) /\ hist = <<>>
         /\ TLCSet(tid, 1) /\ TLCSet(NTraces + tid, {})

Ev == Traces[tid].events[l]
Apply(e) == CASE e.op = "set"    -> IF Valid(e.i) THEN SetAt(seq, Norm(e.i), e.v) ELSE seq
              [] e.op = "del"    -> IF Valid(e.i) THEN DelAt(seq, Norm(e.i)) ELSE seq
              [] e.op = "insert" -> InsAt(seq, Clamp(e.i), e.v)
              [] e.op = "append" -> Append(seq, e.v)
              [] e.op = "swap"   -> IF Valid(e.i) /\ Valid(e.j)
                                    THEN SetAt(SetAt(seq, Norm(e.i), seq[Norm(e.j) + 1]), Norm(e.j), seq[Norm(e.i) + 1]) ELSE seq
              [] OTHER -> seq
Raises(e) == CASE e.op \in {"set", "del"} -> ~Valid(e.i)
               [] e.op = "swap" -> ~(Valid(e.i) /\ Valid(e.j))
               [] OTHER -> FALSE

(* clauses judged on the state AFTER the operation (s) against the observation o *)
Clauses(s, e) ==
   {c \in {"content", "raise", "positions", "contains", "index-first", "index-window", "get-index", "len"} :
      CASE c = "content"      -> e.obs.content # s
        [] c = "raise"        -> e.obs.raised # Raises(e)
        [] c = "positions"    -> \E k \in DOMAIN e.obs.positions :
                                    {e.obs.positions[k].at[m] : m \in DOMAIN e.obs.positions[k].at} # Positions(s, e.obs.positions[k].v)
        [] c = "contains"     -> \E k \in DOMAIN e.obs.positions : e.obs.positions[k].isin # Contains(s, e.obs.positions[k].v)
        [] c = "index-first"  -> \E k \in DOMAIN e.obs.positions : e.obs.positions[k].index # IndexOf(s, e.obs.positions[k].v, 0, Len(s))
        [] c = "index-window" -> \E k \in DOMAIN e.obs.windows :
                                    e.obs.windows[k].index # IndexOf(s, e.obs.windows[k].v, e.obs.windows[k].start, e.obs.windows[k].stop)
        [] c = "get-index"    -> \E k \in DOMAIN e.obs.positions :
                                    IF Contains(s, e.obs.positions[k].v) THEN e.obs.positions[k].getindex \notin Positions(s, e.obs.positions[k].v)
                                    ELSE e.obs.positions[k].getindex # -1
        [] c = "len"          -> e.obs.len # Len(s)}

TStep == /\ l <= Len(Traces[tid].events)
         /\ seq' = Apply(Ev) /\ hist' = hist
         /\ LET bad == Clauses(Apply(Ev), Ev) IN
            TLCSet(NTraces + tid, TLCGet(NTraces + tid) \cup {<<l, c>> : c \in bad})
         /\ l' = l + 1 /\ tid' = tid /\ TLCSet(tid, l + 1)
TSpec == TInit /\ [][TStep]_tvars
Post == JsonSerialize(IOEnv.VERIF_OUT, [reached |-> [t \in 1 .. NTraces |-> TLCGet(t)],
                                        failing |-> [t \in 1 .. NTraces |-> TLCGet(NTraces + t)]])
=============================================================================
