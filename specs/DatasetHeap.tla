---------------------------- MODULE DatasetHeap ----------------------------
(* C08 (structural part) -- a pool of datasets, the arrays they hold and who
   shares memory with whom.

   A dataset holds one array for its values, one for its errors and one bins
   array per dimension (or no bins at all).  Arrays are *buffers* named by
   integers; `content[b]` is a token standing for the data currently in buffer
   b (equal tokens = equal data, element by element); `alias` is the set of
   pairs {a, b} of distinct buffers whose memory overlaps (a view and its base).
   Two datasets may hold the very same buffer (same integer).

   Operations create a new dataset at the end of the pool:
      add/sub/mul/div(i, dataset j | array | scalar)   copy(i)   mask(i)
      squeeze(i)   sliceall(i) (ds[:, ...])   slicesub(i, d) (first cell of a
      dimension of length 2)
   and the user may write into any array he holds (mutate(b)) or rebind one
   entry of a dataset's bins mapping (rebind(i, d)).

   What C08 demands is collected in one operator, Clauses(pre, post, step),
   that returns the names of the violated clauses; the actions below build
   every outcome the statement allows (results may or may not share arrays
   with their operands -- the statement only forbids it for copies), the action
   property StepsAreLegal checks that none of them violates a clause, and
   DatasetHeapTrace applies the same operator to steps recorded on the real
   Dataset class. *)
EXTENDS Integers, Sequences, FiniteSets, TLC

CONSTANTS MaxDs,        \* datasets in the pool
          MaxSteps,     \* operations per behaviour
          InitShapes,   \* shapes of the initial datasets (wrapper module)
          UserWrites    \* BOOLEAN: mutate / rebind enabled

VARIABLES pool, content, alias, nbuf, ntok, last, copies, steps, hist, setup
vars == <<pool, content, alias, nbuf, ntok, last, copies, steps, hist, setup>>

ArithOps == {"add", "sub", "mul", "div"}
Range(f) == {f[x] : x \in DOMAIN f}
Bufs(d) == {d.val, d.err} \cup Range(d.bins)
PoolBufs(p) == UNION {Bufs(p[k]) : k \in DOMAIN p}
Toks(ct, bs) == [k \in DOMAIN bs |-> ct[bs[k]]]
Overlap(al, a, b) == a = b \/ {a, b} \in al
Squeezed(s) == SelectSeq(s, LAMBDA n : n # 1)
KeptDims(s) == SelectSeq([k \in DOMAIN s |-> k], LAMBDA k : s[k] # 1)
Pick(seq, idx) == [k \in DOMAIN idx |-> seq[idx[k]]]
NoStep == [op |-> "init", i |-> 0, rkind |-> "", j |-> 0, buf |-> 0, dim |-> 0]

-----------------------------------------------------------------------------
(* the demands of C08 on one step *)
ExpectedShape(s, src) ==
   IF s.op = "squeeze" THEN Squeezed(src.shape)
   ELSE IF s.op = "slicesub" THEN [src.shape EXCEPT ![s.dim] = 1]
   ELSE src.shape

ExpectedBinToks(s, ct, src) ==       \* data of the bins the result must carry
   IF s.op = "squeeze" THEN Pick(Toks(ct, src.bins), IF src.bins = <<>> THEN <<>> ELSE KeptDims(src.shape))
   ELSE Toks(ct, src.bins)
ExpectedKinds(s, src) ==
   IF s.op = "squeeze" THEN Pick(src.kinds, IF src.bins = <<>> THEN <<>> ELSE KeptDims(src.shape))
   ELSE src.kinds

NewClauses(p, ct, al, p2, ct2, al2, s) ==
   LET n     == Len(p)
       new   == p2[n + 1]
       src   == p[s.i]
       older == PoolBufs(p)
       Shares(b) == \E x \in older : Overlap(al2, b, x)
       binToks == Toks(ct2, new.bins)
       expToks == ExpectedBinToks(s, ct, src)
       sameBins == /\ Len(binToks) = Len(expToks) /\ new.kinds = ExpectedKinds(s, src)
                   /\ \A k \in DOMAIN expToks : (s.op = "slicesub" /\ k = s.dim) \/ binToks[k] = expToks[k]
       inNonNeg == src.nonneg /\ (s.rkind = "ds" => p[s.j].nonneg)
   IN    (IF new.shape # ExpectedShape(s, src) \/ new.eshape # new.shape THEN {"shape"} ELSE {})
    \cup (IF Len(new.bins) \notin {0, Len(new.shape)} \/ Len(new.kinds) # Len(new.bins)
             \/ \E k \in DOMAIN new.kinds : new.kinds[k] \notin {"edges", "centres"} THEN {"malformed-bins"} ELSE {})
    \cup (IF sameBins THEN {} ELSE {"bins-not-kept"})
    \cup (IF inNonNeg /\ ~new.nonneg THEN {"negative-error"} ELSE {})
    \cup (IF s.op \in {"copy", "mask", "squeeze", "sliceall"}
             /\ (ct2[new.val] # ct[src.val] \/ ct2[new.err] # ct[src.err]) THEN {"content"} ELSE {})
    \cup (IF s.op \in {"add", "sub"} /\ s.rkind # "ds" /\ ct2[new.err] # ct[src.err]
          THEN {"error-of-constant-term"} ELSE {})
    \cup (IF s.op = "copy" /\ Shares(new.val) THEN {"copy-shares-value"} ELSE {})
    \cup (IF s.op = "copy" /\ Shares(new.err) THEN {"copy-shares-error"} ELSE {})
    \cup (IF s.op = "copy" /\ \E k \in DOMAIN new.bins : Shares(new.bins[k]) THEN {"copy-shares-bins"} ELSE {})
    \cup (IF s.op = "copy" /\ (new.masked # src.masked \/ new.nonneg # src.nonneg) THEN {"content"} ELSE {})

(* a step whose source is not a well-formed dataset (an earlier, already reported,
   step damaged it) is outside the quantifier and is not judged *)
SoundDs(d) == Len(d.bins) \in {0, Len(d.shape)} /\ Len(d.kinds) = Len(d.bins) /\ d.eshape = d.shape

Clauses(p, ct, al, p2, ct2, al2, s) ==
   LET n == Len(p)
       changed == {b \in DOMAIN ct : ct2[b] # ct[b]}
       isNew == s.op \notin {"mutate", "rebind"}
   IN    (IF s.op # "mutate" /\ changed # {} THEN {"operand-modified"} ELSE {})
    \cup (IF s.op # "rebind" /\ SubSeq(p2, 1, n) # p THEN {"operand-modified"} ELSE {})
    \cup (IF s.op = "rebind" /\ Len(p2) # n THEN {"operand-modified"} ELSE {})
    \cup (IF s.op = "mutate" /\ \E x \in changed : ~Overlap(al, s.buf, x) THEN {"mutation-leak"} ELSE {})
    \cup (IF isNew /\ Len(p2) # n + 1 THEN {"no-result"} ELSE {})
    \cup (IF isNew /\ Len(p2) = n + 1 /\ SoundDs(p[s.i]) THEN NewClauses(p, ct, al, p2, ct2, al2, s) ELSE {})

(* "a copy shares no data with its original", seen from the user's side: cps is
   the set of pairs <<source, copy>> made so far; writing into an array of a
   dataset older than a copy must not change the copy, writing into an array of
   the copy must not change an older dataset; the same for rebinding a bins key.
   (Whether a *result* shares its bins mapping with its operand is not
   constrained by the statement.) *)
FieldsChanged(d, ct, ct2) ==
         (IF ct2[d.val] # ct[d.val] THEN {"copy-not-independent-value"} ELSE {})
    \cup (IF ct2[d.err] # ct[d.err] THEN {"copy-not-independent-error"} ELSE {})
    \cup (IF \E k \in DOMAIN d.bins : ct2[d.bins[k]] # ct[d.bins[k]] THEN {"copy-not-independent-bins"} ELSE {})
CopyClauses(p, p2, ct, ct2, cps, s) ==
   IF s.op = "rebind"
   THEN \* a new array under a bins key of a copy must not show up in an older dataset, and vice versa
        (IF \E pr \in cps : \/ (s.i = pr[2] /\ \E k \in 1 .. pr[2] - 1 : p2[k] # p[k])
                             \/ (s.i < pr[2] /\ p2[pr[2]] # p[pr[2]])
         THEN {"copy-shares-bins-mapping"} ELSE {})
   ELSE IF s.op # "mutate" THEN {}
   ELSE UNION {UNION {(IF s.buf \in Bufs(p[k]) THEN FieldsChanged(p[pr[2]], ct, ct2) ELSE {})
                      \cup (IF s.buf \in Bufs(p[pr[2]]) THEN FieldsChanged(p[k], ct, ct2) ELSE {})
                      : k \in 1 .. pr[2] - 1} : pr \in cps}

-----------------------------------------------------------------------------
(* the pool as a state machine *)
Ext(f, g) == g @@ f                           \* g wins on common arguments

Kinds == {"edges", "centres"}
InitDs(shape, withBins, kind, b0, t0) ==
   [shape |-> shape, eshape |-> shape, val |-> b0 + 1, err |-> b0 + 2,
    bins |-> IF withBins THEN [k \in DOMAIN shape |-> b0 + 2 + k] ELSE <<>>,
    kinds |-> IF withBins THEN [k \in DOMAIN shape |-> kind] ELSE <<>>,
    nonneg |-> TRUE, masked |-> FALSE]

(* one dataset, or two of the same shape: the second without bins, with its
   own equal bins, or holding the very same bins arrays (as when one mapping of
   bins is handed to two constructors) *)
Init ==
   /\ \E shape \in InitShapes : \E kind \in Kinds : \E wb \in BOOLEAN : \E second \in {"none", "nobins", "equal", "same"} :
         LET d1 == InitDs(shape, wb, kind, 0, 0)
             nb == Len(shape)
             d2own == InitDs(shape, second # "nobins", kind, 2 + nb, 0)
             d2 == IF second = "same" THEN [d2own EXCEPT !.bins = d1.bins] ELSE d2own
             ct1 == [b \in Bufs(d1) |-> b]
             ct2 == [b \in Bufs(d2) \ Bufs(d1) |-> IF \E k \in DOMAIN d2.bins : d2.bins[k] = b /\ wb
                                                    THEN ct1[d1.bins[CHOOSE k \in DOMAIN d2.bins : d2.bins[k] = b]]
                                                    ELSE b]
         IN /\ (second \in {"equal", "same"} => wb)
            /\ pool = IF second = "none" THEN <<d1>> ELSE <<d1, d2>>
            /\ content = IF second = "none" THEN ct1 ELSE Ext(ct1, ct2)
            /\ nbuf = 2 * (2 + nb) /\ ntok = 2 * (2 + nb)
            /\ setup = [shape |-> shape, kind |-> kind, bins |-> wb, second |-> second]
   /\ alias = {} /\ last = NoStep /\ copies = {} /\ steps = 0 /\ hist = <<>>

CanAdd == Len(pool) < MaxDs /\ steps < MaxSteps
Step(s) == last' = s /\ steps' = steps + 1 /\ hist' = Append(hist, s) /\ UNCHANGED setup

(* the arrays of a derived dataset: taken over as they are (same buffer),
   views of them (new buffer overlapping the old one and whatever that
   overlaps), or fresh memory *)
Derive(old, how, fresh) == IF how = "same" THEN old ELSE fresh
ViewPairs(al, old, new) == {{new, old}} \cup {{new, x} : x \in {y \in DOMAIN content : {old, y} \in al}}

Arith(o, i, rkind, j, howErr, howBins) ==
   /\ CanAdd /\ i \in DOMAIN pool
   /\ howErr \in {"same", "fresh"} /\ howBins \in {"same", "fresh"}
   /\ (rkind = "ds" => /\ j \in DOMAIN pool /\ pool[j].shape = pool[i].shape
                       /\ (pool[j].bins = <<>> \/ (/\ pool[j].kinds = pool[i].kinds
                                                   /\ Toks(content, pool[j].bins) = Toks(content, pool[i].bins))))
   /\ (rkind # "ds" => j = 0)
   /\ LET l == pool[i]
          nb == Len(l.bins)
          constTerm == o \in {"add", "sub"} /\ rkind # "ds"
          errB == IF constTerm THEN Derive(l.err, howErr, nbuf + 2) ELSE nbuf + 2
          binsB == [k \in 1 .. nb |-> Derive(l.bins[k], howBins, nbuf + 2 + k)]
          new == [shape |-> l.shape, eshape |-> l.shape, val |-> nbuf + 1, err |-> errB, bins |-> binsB,
                  kinds |-> l.kinds, nonneg |-> l.nonneg /\ (rkind = "ds" => pool[j].nonneg),
                  masked |-> l.masked \/ (rkind = "ds" /\ pool[j].masked)]
          ctNew == [b \in Bufs(new) |-> IF b = nbuf + 1 THEN ntok + 1
                                         ELSE IF b = errB THEN (IF constTerm THEN content[l.err] ELSE ntok + 2)
                                         ELSE content[l.bins[CHOOSE k \in 1 .. nb : binsB[k] = b]]]
      IN /\ (~constTerm => howErr = "fresh")
         /\ pool' = Append(pool, new)
         /\ content' = Ext(content, ctNew)
         /\ nbuf' = nbuf + 2 + nb /\ ntok' = ntok + 2
   /\ UNCHANGED <<alias, copies>>
   /\ Step([op |-> o, i |-> i, rkind |-> rkind, j |-> j, buf |-> 0, dim |-> 0])

(* copy / mask / squeeze / slices: `how` says whether the arrays of the result are
   fresh memory, views, or (bins only) the same objects *)
Unary(o, i, d, howData, howBins) ==
   /\ CanAdd /\ i \in DOMAIN pool
   /\ howData \in {"view", "fresh"} /\ howBins \in {"same", "view", "fresh"}
   /\ (o = "copy" => howData = "fresh" /\ howBins = "fresh")
   /\ (o = "slicesub" => d \in DOMAIN pool[i].shape /\ pool[i].shape[d] = 2)
   /\ (o # "slicesub" => d = 0)
   /\ (o = "slicesub" /\ howBins = "same" => FALSE)
   /\ LET src == pool[i]
          s == [op |-> o, i |-> i, rkind |-> "", j |-> 0, buf |-> 0, dim |-> d]
          kept == IF o = "squeeze" /\ src.bins # <<>> THEN KeptDims(src.shape) ELSE [k \in DOMAIN src.bins |-> k]
          nb == Len(kept)
          binsB == [k \in 1 .. nb |-> Derive(src.bins[kept[k]], howBins, nbuf + 2 + k)]
          shp == ExpectedShape(s, src)
          new == [shape |-> shp, eshape |-> shp, val |-> nbuf + 1, err |-> nbuf + 2, bins |-> binsB,
                  kinds |-> Pick(src.kinds, kept), nonneg |-> src.nonneg,
                  masked |-> src.masked \/ o = "mask"]
          cut == o = "slicesub"
          ctNew == [b \in Bufs(new) |->
                      IF b = nbuf + 1 THEN (IF cut THEN ntok + 1 ELSE content[src.val])
                      ELSE IF b = nbuf + 2 THEN (IF cut THEN ntok + 2 ELSE content[src.err])
                      ELSE LET k == CHOOSE k \in 1 .. nb : binsB[k] = b IN
                           IF cut /\ kept[k] = d THEN ntok + 3 ELSE content[src.bins[kept[k]]]]
          views == (IF howData = "view" THEN ViewPairs(alias, src.val, nbuf + 1) \cup ViewPairs(alias, src.err, nbuf + 2)
                    ELSE {})
                   \cup (IF howBins = "view"
                         THEN UNION {ViewPairs(alias, src.bins[kept[k]], binsB[k]) : k \in 1 .. nb} ELSE {})
      IN /\ pool' = Append(pool, new)
         /\ content' = Ext(content, ctNew)
         /\ alias' = alias \cup views
         /\ nbuf' = nbuf + 2 + nb /\ ntok' = ntok + 3
         /\ copies' = IF o = "copy" THEN copies \cup {<<i, Len(pool) + 1>>} ELSE copies
         /\ Step(s)

(* the user writes into an array he holds -- field fld ("val", "err", or "bins"
   of dimension d) of dataset k: that array gets new data; an overlapping array
   may or may not see the written cell *)
FieldBuf(ds, fld, d) == IF fld = "val" THEN ds.val ELSE IF fld = "err" THEN ds.err ELSE ds.bins[d]
Mutate(k, fld, d, hit) ==
   /\ UserWrites /\ steps < MaxSteps
   /\ k \in DOMAIN pool
   /\ (fld = "bins" => d \in DOMAIN pool[k].bins) /\ (fld # "bins" => d = 0)
   /\ LET b == FieldBuf(pool[k], fld, d) IN
      /\ hit \subseteq {x \in DOMAIN content : {b, x} \in alias}
      /\ content' = [x \in DOMAIN content |->
                        IF x \in hit \cup {b} THEN ntok + 1 + Cardinality({y \in hit \cup {b} : y < x})
                        ELSE content[x]]
      /\ ntok' = ntok + 1 + Cardinality(hit)
      /\ Step([op |-> "mutate", i |-> k, rkind |-> fld, j |-> 0, buf |-> b, dim |-> d])
   /\ UNCHANGED <<pool, alias, nbuf, copies>>

(* the user puts another array under an existing bins key of dataset i *)
Rebind(i, d) ==
   /\ UserWrites /\ steps < MaxSteps
   /\ i \in DOMAIN pool /\ d \in DOMAIN pool[i].bins
   /\ pool' = [pool EXCEPT ![i].bins[d] = nbuf + 1]
   /\ content' = Ext(content, [b \in {nbuf + 1} |-> ntok + 1])
   /\ nbuf' = nbuf + 1 /\ ntok' = ntok + 1
   /\ UNCHANGED <<alias, copies>>
   /\ Step([op |-> "rebind", i |-> i, rkind |-> "", j |-> 0, buf |-> 0, dim |-> d])

DoArith(o) == \E i \in DOMAIN pool : \E rkind \in {"ds", "array", "scalar"} : \E j \in 0 .. Len(pool) :
                 \E he \in {"same", "fresh"} : \E hb \in {"same", "fresh"} : Arith(o, i, rkind, j, he, hb)
DoUnary(o) == \E i \in DOMAIN pool : \E d \in 0 .. 2 :
                 \E hd \in {"view", "fresh"} : \E hb \in {"same", "view", "fresh"} : Unary(o, i, d, hd, hb)
Add == DoArith("add")   Sub == DoArith("sub")   Mul == DoArith("mul")   Div == DoArith("div")
Copy == DoUnary("copy")   Mask == DoUnary("mask")   Squeeze == DoUnary("squeeze")
SliceAll == DoUnary("sliceall")   SliceSub == DoUnary("slicesub")
MutateBuffer == \E k \in DOMAIN pool : \E fld \in {"val", "err", "bins"} : \E d \in 0 .. 2 :
                   \E hit \in SUBSET (IF fld = "bins" /\ d \notin DOMAIN pool[k].bins THEN {}
                                       ELSE {x \in DOMAIN content : {FieldBuf(pool[k], fld, d), x} \in alias}) :
                      Mutate(k, fld, d, hit)
RebindBins == \E i \in DOMAIN pool : \E d \in DOMAIN pool[i].bins : Rebind(i, d)

Next == \/ Add \/ Sub \/ Mul \/ Div \/ Copy \/ Mask \/ Squeeze \/ SliceAll \/ SliceSub
        \/ MutateBuffer \/ RebindBins

Spec == Init /\ [][Next]_vars

-----------------------------------------------------------------------------
(* properties *)
TypeOK ==
   /\ \A k \in DOMAIN pool : Bufs(pool[k]) \subseteq DOMAIN content /\ pool[k].val # pool[k].err
   /\ \A pr \in alias : Cardinality(pr) = 2 /\ pr \subseteq DOMAIN content

(* "every result is a well-formed dataset" *)
WellFormed ==
   \A k \in DOMAIN pool :
      /\ pool[k].eshape = pool[k].shape
      /\ Len(pool[k].bins) \in {0, Len(pool[k].shape)}
      /\ Len(pool[k].kinds) = Len(pool[k].bins)

(* "errors are never negative when the inputs' errors are not" *)
ErrNonNeg == \A k \in DOMAIN pool : pool[k].nonneg

(* no step the model can take violates a clause; the clauses really are
   checked on every kind of step (coverage of the actions is required) *)
StepsAreLegal == [][/\ Clauses(pool, content, alias, pool', content', alias', last') = {}
                     /\ CopyClauses(pool, pool', content, content', copies, last') = {}]_vars

(* "operands, including their bins, are never modified": only the user's own
   writes change the data of an existing array or an existing dataset *)
OperandsUnchanged ==
   [][last'.op \notin {"mutate", "rebind"} =>
         /\ \A b \in DOMAIN content : content'[b] = content[b]
         /\ SubSeq(pool', 1, Len(pool)) = pool]_vars

(* "a copy shares no data with its original": when made, a copy overlaps no
   array of any older dataset ... *)
CopyIsolated ==
   \A pr \in copies : \A k \in 1 .. pr[2] - 1 :
      \A b \in Bufs(pool[pr[2]]) : \A x \in Bufs(pool[k]) : ~Overlap(alias, b, x)
(* ... hence writing into an array of an older dataset never changes the copy,
   and writing into the copy never changes an older dataset *)
CopyIndependent ==
   [][last'.op = "mutate" =>
         \A pr \in copies : \A k \in 1 .. pr[2] - 1 :
            LET mine == Bufs(pool[pr[2]])  theirs == Bufs(pool[k])
            IN /\ last'.buf \in theirs => \A b \in mine : content'[b] = content[b]
               /\ last'.buf \in mine => \A x \in theirs : content'[x] = content[x]]_vars

(* witnesses (negated reachability): TLC must find them violated *)
W_SharedErr   == ~(\E k \in DOMAIN pool : \E m \in DOMAIN pool : k < m /\ pool[k].err = pool[m].err)
W_ViewWritten == ~(last.op = "mutate" /\ \E k \in DOMAIN pool : last.buf \notin Bufs(pool[k]) /\
                     \E b \in Bufs(pool[k]) : {last.buf, b} \in alias)
W_CopyThenWrite == ~(last.op = "mutate" /\ \E pr \in copies : last.buf \in Bufs(pool[pr[1]]))
W_SqueezeDrops == ~(last.op = "squeeze" /\ Len(pool[Len(pool)].bins) < Len(pool[last.i].bins))
=============================================================================
