---------------------------- MODULE Bonferroni ----------------------------
(* C06 -- the Bonferroni correction and the Holm-Bonferroni method.

   A comparison of a reference with one or several datasets yields, per
   compared dataset, an array of p-values of some shape.  A bin is named by its
   multi-index (a tuple, one component per dimension, 1-based); nothing in this
   module depends on a linearisation of the bins, so "flags are reported at
   the original position whatever the shape" is built into the types: inputs
   and outputs are both functions of the multi-index.

   p-values are exact rationals <<num, den>> (den > 0) or the model value NaN
   ("no defined p-value"); the overall level is an exact rational.  Every
   comparison is an integer cross-multiplication.

      Bonferroni       bin b is flagged  iff  NOT (p[b] >  level / m)
      Holm-Bonferroni  the bin of rank k iff  NOT (p[b] >= level / (m-k+1))
   where m is the number of bins and a NaN compares false with everything, so
   an undefined p-value is never accepted.  A *ranking* is any bijection
   bins -> 1..m that sorts the defined p-values increasingly: equal p-values
   may come in any order and undefined ones may sit anywhere (DESIGN 8.1).  The
   Holm output is therefore a *set* of acceptable outputs, one per ranking.

   Function-like module: Init enumerates the input domain, Eval computes the
   expected outputs, the dump is the table of implementation tests and the
   meta-clauses of the property are invariants over that table. *)
EXTENDS Integers, Sequences, FiniteSets, TLC

CONSTANTS Shapes,   \* set of shapes (sequences of dimensions >= 1; <<>> is a 0-d array)
          PNums,    \* numerators of the p-value grid
          PDen,     \* its common denominator
          Levels,   \* set of overall levels <<num, den>>
          NData,    \* set of numbers of compared datasets, e.g. {1} or {1, 2}
          NaN       \* model value

VARIABLES shape, level, pss, out, pc
vars == <<shape, level, pss, out, pc>>

-----------------------------------------------------------------------------
(* exact rationals *)
Le(p, q) == p[1] * q[2] <= q[1] * p[2]
Lt(p, q) == p[1] * q[2] <  q[1] * p[2]
EqR(p, q) == p[1] * q[2] = q[1] * p[2]
Over(lvl, k) == <<lvl[1], lvl[2] * k>>          \* lvl / k
Defined(p) == p # NaN

RECURSIVE Idx(_)
Idx(s) == IF s = <<>> THEN {<<>>}
          ELSE {<<i>> \o t : i \in 1 .. Head(s), t \in Idx(Tail(s))}

PVals == {<<k, PDen>> : k \in PNums} \cup {NaN}

-----------------------------------------------------------------------------
(* the two definitions; ps is a function bins -> p-value *)
NBins(ps) == Cardinality(DOMAIN ps)

BonfFlag(p, lvl, m) == ~(Defined(p) /\ Lt(Over(lvl, m), p))
BonfFlags(ps, lvl) == [b \in DOMAIN ps |-> BonfFlag(ps[b], lvl, NBins(ps))]

Injective(f) == \A a, b \in DOMAIN f : f[a] = f[b] => a = b
Sorts(ps, r) == \A a, b \in DOMAIN ps :
                   (r[a] < r[b] /\ Defined(ps[a]) /\ Defined(ps[b])) => Le(ps[a], ps[b])
Rankings(ps) == {r \in [DOMAIN ps -> 1 .. NBins(ps)] : Injective(r) /\ Sorts(ps, r)}

(* the level a bin is compared with is level / den, den = m - rank + 1 *)
HolmFlag(p, lvl, den) == ~(Defined(p) /\ Le(Over(lvl, den), p))
HolmOut(ps, lvl, r) ==
   LET den == [b \in DOMAIN ps |-> NBins(ps) - r[b] + 1]
       fl  == [b \in DOMAIN ps |-> HolmFlag(ps[b], lvl, den[b])]
   IN [den |-> den, flags |-> fl, nb |-> Cardinality({b \in DOMAIN ps : fl[b]})]
HolmOuts(ps, lvl) == {HolmOut(ps, lvl, r) : r \in Rankings(ps)}

(* direct acceptance test of an observed (den, flags): den names the ranking
   that was used.  Same meaning as membership in HolmOuts (invariant
   AcceptsIsMembership), but linear/quadratic in the number of bins, which is
   what BonferroniTrace needs for 30 bins. *)
ValidDens(ps, den) ==
   LET m == NBins(ps) r == [b \in DOMAIN ps |-> m - den[b] + 1] IN
   /\ \A b \in DOMAIN ps : den[b] \in 1 .. m
   /\ Injective(r) /\ Sorts(ps, r)
HolmAccepts(ps, lvl, den, flags) ==
   /\ ValidDens(ps, den)
   /\ \A b \in DOMAIN ps : flags[b] = HolmFlag(ps[b], lvl, den[b])

(* the exact tie at which the statement's clauses collide *)
IsMin(ps, b) == \A a \in DOMAIN ps : Defined(ps[a]) => Le(ps[b], ps[a])
TieMin(ps, lvl, b) == Defined(ps[b]) /\ EqR(ps[b], Over(lvl, NBins(ps))) /\ IsMin(ps, b)

Expected(ps, lvl) ==
   LET bf == BonfFlags(ps, lvl) IN
   [bonf |-> bf, nbBonf |-> Cardinality({b \in DOMAIN ps : bf[b]}),
    holm |-> HolmOuts(ps, lvl),
    tie  |-> {b \in DOMAIN ps : TieMin(ps, lvl, b)}]

-----------------------------------------------------------------------------
Init == /\ shape \in Shapes
        /\ level \in Levels
        /\ \E nd \in NData : pss \in [1 .. nd -> [Idx(shape) -> PVals]]
        /\ out = <<>> /\ pc = "todo"

Eval == /\ pc = "todo" /\ pc' = "done"
        /\ out' = [d \in DOMAIN pss |-> Expected(pss[d], level)]
        /\ UNCHANGED <<shape, level, pss>>

Next == Eval
Spec == Init /\ [][Next]_vars

-----------------------------------------------------------------------------
Evaluated == pc = "done"
M == Cardinality(Idx(shape))
BonfVerdict == \A d \in DOMAIN out : out[d].nbBonf = 0
(* a Holm verdict is attached to a choice of one acceptable output per dataset *)
HolmChoices == {c \in [DOMAIN out -> UNION {out[d].holm : d \in DOMAIN out}] :
                   \A d \in DOMAIN out : c[d] \in out[d].holm}

TypeOK ==
   Evaluated =>
      \A d \in DOMAIN out :
         /\ out[d].bonf \in [Idx(shape) -> BOOLEAN]
         /\ out[d].holm # {}                       \* a sorting ranking always exists
         /\ \A o \in out[d].holm : o.flags \in [Idx(shape) -> BOOLEAN] /\ o.den \in [Idx(shape) -> 1 .. M]

(* "a bin without a defined p-value is never accepted" *)
NaNNeverAccepted ==
   Evaluated =>
      \A d \in DOMAIN out : \A b \in Idx(shape) :
         pss[d][b] = NaN => /\ out[d].bonf[b] /\ \A o \in out[d].holm : o.flags[b]
                            /\ ~BonfVerdict /\ \A c \in HolmChoices : c[d].nb > 0

(* "every bin flagged by Bonferroni is flagged by Holm-Bonferroni": the
   definitional clauses imply it everywhere except at the tie min p = level/m,
   where Bonferroni (at most) flags and Holm (below) does not. *)
InclusionAt(d, b) == out[d].bonf[b] => \A o \in out[d].holm : o.flags[b]
InclusionOffTie ==
   Evaluated => \A d \in DOMAIN out : \A b \in Idx(shape) : b \notin out[d].tie => InclusionAt(d, b)
Inclusion ==          \* the clause as stated; TLC finds it false exactly at the tie
   Evaluated => \A d \in DOMAIN out : \A b \in Idx(shape) : InclusionAt(d, b)
TieBreaksInclusion == \* ... and at the tie some ranking really puts the bin first
   Evaluated => \A d \in DOMAIN out : \A b \in out[d].tie :
                   out[d].bonf[b] /\ \E o \in out[d].holm : ~o.flags[b]

(* "a comparison that passes bin by bin also passes both corrections at the same level" *)
Binwise(ps, lvl) == \A b \in DOMAIN ps : Defined(ps[b]) /\ Lt(lvl, ps[b])
BinwiseImpliesCorrections ==
   Evaluated => ((\A d \in DOMAIN pss : Binwise(pss[d], level)) =>
                    BonfVerdict /\ \A c \in HolmChoices : \A d \in DOMAIN out : c[d].nb = 0)

(* counts and flags agree; Holm's first rank uses the Bonferroni level *)
CountsAgree ==
   Evaluated => \A d \in DOMAIN out :
      /\ out[d].nbBonf = Cardinality({b \in Idx(shape) : out[d].bonf[b]})
      /\ \A o \in out[d].holm : /\ o.nb = Cardinality({b \in Idx(shape) : o.flags[b]})
                                /\ {o.den[b] : b \in Idx(shape)} = 1 .. M

(* the direct acceptance test is membership in the set of definitional outputs *)
AcceptsIsMembership ==
   Evaluated => \A d \in DOMAIN out :
      \A den \in [Idx(shape) -> 1 .. M] : \A fl \in [Idx(shape) -> BOOLEAN] :
         HolmAccepts(pss[d], level, den, fl)
            <=> (\E o \in out[d].holm : o.den = den /\ o.flags = fl)

(* permutations and reshapings of the bins: transporting the p-values along any
   bijection g from the bins of a shape of the same size transports the outputs *)
Bijections(A, B) == {g \in [A -> B] : Injective(g) /\ {g[a] : a \in A} = B}
Along(f, g) == [a \in DOMAIN g |-> f[g[a]]]
ReshapeInvariant ==
   Evaluated => \A d \in DOMAIN out :
      \A s2 \in {s \in Shapes : Cardinality(Idx(s)) = M} :
         \A g \in Bijections(Idx(s2), Idx(shape)) :
            LET e2 == Expected(Along(pss[d], g), level) IN
            /\ e2.bonf = Along(out[d].bonf, g)
            /\ e2.holm = {[den |-> Along(o.den, g), flags |-> Along(o.flags, g), nb |-> o.nb] : o \in out[d].holm}

(* witnesses (negated reachability): TLC must find each of them violated *)
W_Tie         == ~(Evaluated /\ \E d \in DOMAIN out : out[d].tie # {})
W_HolmBeyond  == ~(Evaluated /\ \E d \in DOMAIN out : \E b \in Idx(shape) : \E o \in out[d].holm :
                      Defined(pss[d][b]) /\ o.flags[b] /\ ~out[d].bonf[b])
W_TieOrders   == ~(Evaluated /\ \E d \in DOMAIN out : Cardinality(out[d].holm) > 1)
W_NaN         == ~(Evaluated /\ \E d \in DOMAIN out : \E b \in Idx(shape) : pss[d][b] = NaN)
W_AllPass     == ~(Evaluated /\ M > 1 /\ BonfVerdict /\ \A d \in DOMAIN pss : ~Binwise(pss[d], level))
=============================================================================
