---------------------------- MODULE PersistTrace ----------------------------
(* Code -> spec direction for C14.  The harness executes histories
   run / write_env (with a crash injected after k bytes of one file) /
   exit / fault / read_env / Env.from_file -- directly, or as sessions of
   `RunCommand().execute` -- on the real code and logs one event per Persist
   action, together with what it observed:
      files   the classification of every task's file after the event
              (`unreadable`: the path of the file cannot be used, for any
              of the reasons listed in Persist.tla -- real ones and errno
              classes simulated by the harness)
      raised, env / present, status, ver   the outcome of a read.
   Every event is matched against the corresponding action of Persist; what
   Persist leaves open (order of the entries, writing in place or through a
   temporary file, skipping or replacing an unopenable destination) is
   resolved by the log.  The outcome of a read is NOT computed by the
   specification here but taken from the log, and the clauses of the property
   are evaluated on it.  Where the observed files are not the ones Persist
   implies, the clause "Files" is recorded (a deviation from the model of the
   files, not a violation of the property) and the model's files are replaced
   by the observed ones, so that the reads that follow are judged on the files
   that were really there and on the history of what was written (lastFull).
   The verdict is total: <<trace id, step, clause>> of every failing clause is
   collected. *)
EXTENDS Integers, Sequences, FiniteSets, TLC, Json, IOUtils

CONSTANT None
Data == JsonDeserialize(IOEnv.VERIF_CASES)
Events == Data.events
NEvents == Len(Events)

Tasks == 1 .. Data.ntasks
Statuses == {"WAITING", "PENDING", "DONE", "FAILED", "SKIPPED"}
MaxVer == 1000000  MaxFaults == 1000000  MaxCrashes == 1000000
FaultKinds == {"absent", "empty", "partial", "garbage", "dir", "unreadable"}
Modes == {"inplace", "keep"}

VARIABLES mem, file, queue, w, nver, nfault, ncrash, lastRead, lastOne, lastFull, intact, act
P == INSTANCE Persist

VARIABLES i,       \* index of the next event
          sync,    \* the observed files of event i-1 still have to replace the model's
          ofile    \* the files as last observed
pvars == <<mem, file, queue, w, nver, nfault, ncrash, lastRead, lastOne, lastFull, intact, act>>
tvars == <<mem, file, queue, w, nver, nfault, ncrash, lastRead, lastOne, lastFull, intact, act, i, sync, ofile>>

(* the verdict is accumulated outside the state (TLCSet/TLCGet, one worker): a state that carried
   thousands of failing steps would have to be fingerprinted again at every step *)
Record(new) == IF new = {} THEN TRUE ELSE TLCSet(1, TLCGet(1) \cup new)

Set(s) == {s[k] : k \in DOMAIN s}
ObsEnv(e) == {[t |-> x.t, status |-> x.status, ver |-> x.ver] : x \in Set(e.env)}
ObsFile(f) == [kind |-> f[1], status |-> f[2], ver |-> f[3]]
ObsFiles(e) == [t \in Tasks |-> ObsFile(e.files[t])]

(* read_env as observed: the result comes from the log; the environment of the
   new process is what was returned (nothing when the read raised) *)
TRead(e) ==
   /\ P!Idle /\ P!Fresh
   /\ lastRead' = [valid |-> TRUE, raised |-> e.raised, env |-> ObsEnv(e)]
   /\ mem' = [t \in Tasks |->
                IF \E x \in ObsEnv(e) : x.t = t
                THEN LET x == CHOOSE x \in ObsEnv(e) : x.t = t IN P!Entry(x.status, x.ver, TRUE)
                ELSE P!NoEntry]
   /\ lastOne' = P!NoOne
   /\ act' = [op |-> "read"]
   /\ UNCHANGED <<file, queue, w, nver, nfault, ncrash, lastFull, intact>>

TReadOne(e) ==
   /\ P!Idle /\ P!Fresh
   /\ lastOne' = [valid |-> TRUE, t |-> e.t, raised |-> e.raised, present |-> e.present,
                  status |-> e.status, ver |-> e.ver]
   /\ lastRead' = P!NoRead
   /\ act' = [op |-> "readone", t |-> e.t]
   /\ UNCHANGED <<mem, file, queue, w, nver, nfault, ncrash, lastFull, intact>>

TReset ==
   /\ mem' = [t \in Tasks |-> P!NoEntry]
   /\ file' = [t \in Tasks |-> P!Blank("absent")]
   /\ queue' = {} /\ w' = None
   /\ nver' = 1 /\ nfault' = 0 /\ ncrash' = 0
   /\ lastRead' = P!NoRead /\ lastOne' = P!NoOne
   /\ lastFull' = [t \in Tasks |-> P!NoFull]
   /\ intact' = [t \in Tasks |-> FALSE]
   /\ act' = [op |-> "init"]

Apply(e) ==
   CASE e.op = "reset"   -> TReset
     [] e.op = "run"     -> P!Run(e.t, e.status, e.dir) /\ act'.ver = e.ver
     [] e.op = "start"   -> P!StartWrite(Set(e.order))
     [] e.op = "skip"    -> P!Skip(e.t)
     [] e.op = "begin"   -> P!BeginWrite(e.t, e.mode)
     [] e.op = "blocked" -> P!BeginWrite(e.t, "blocked")
     [] e.op = "chunk"   -> P!WriteChunk /\ act'.t = e.t
     [] e.op = "end"     -> P!EndWrite /\ act'.t = e.t
     [] e.op \in {"crash", "exit"} -> P!Crash /\ act'.op = e.op
     [] e.op = "fault"   -> P!Fault(e.t, e.kind)
     [] e.op = "read"    -> TRead(e)
     [] e.op = "readone" -> TReadOne(e)

(* the events inside one write_env call are not observed one by one *)
FilesMatch(e) == e.seen => \A t \in Tasks : file'[t] = ObsFile(e.files[t])

(* a task without output directory is never written: its file, as observed at the end of a write_env call,
   is what was observed before the call *)
NoDirUntouched(e) ==
   (e.seen /\ e.op \in {"skip", "end", "blocked", "crash", "exit"})
      => \A t \in Tasks : (mem[t].present /\ ~mem[t].dir) => ObsFile(e.files[t]) = ofile[t]

(* clauses evaluated in the state reached by the event *)
Failing(e) ==
   (IF e.op = "read" THEN
      {c \in {"NoRaise", "Exact", "NeverNotDone", "Complete", "NoPartial"} :
          \/ c = "NoRaise" /\ ~(P!C14_NoRaise)'
          \/ c = "Exact" /\ ~(P!C14_Exact)'
          \/ c = "NeverNotDone" /\ ~(P!C14_NeverNotDone)'
          \/ c = "Complete" /\ ~(P!C14_Complete)'
          \/ c = "NoPartial" /\ ~(P!C14_NoPartial)'}
    ELSE IF e.op = "readone" THEN {c \in {"One"} : ~(P!C14_One)'}
    ELSE {})
   \cup {c \in {"Files"} : ~FilesMatch(e)}
   \cup {c \in {"NoDirNeverWritten"} : ~(P!C14_NoDirNeverWritten)' \/ ~NoDirUntouched(e)}

TInit == /\ P!Init /\ i = 1 /\ sync = FALSE
         /\ ofile = [t \in Tasks |-> P!Blank("absent")]
         /\ TLCSet(1, {}) /\ TLCSet(2, 1)

(* the model's files are replaced by the observed ones; `intact` keeps its meaning (the file holds the
   last completely written entry) *)
SyncStep ==
   /\ sync /\ sync' = FALSE
   /\ file' = ofile
   /\ intact' = [t \in Tasks |-> /\ lastFull[t].present
                                 /\ ofile[t] = P!FileOf("full", lastFull[t].status, lastFull[t].ver)]
   /\ UNCHANGED <<mem, queue, w, nver, nfault, ncrash, lastRead, lastOne, lastFull, act, i, ofile>>

ApplyStep ==
   /\ ~sync /\ i <= NEvents
   /\ i' = i + 1 /\ TLCSet(2, i + 1)
   /\ LET e == Events[i] IN
      /\ ofile' = IF e.seen THEN ObsFiles(e) ELSE ofile
      /\ \/ /\ ENABLED Apply(e)
            /\ Apply(e)
            /\ Record({<<e.tid, e.step, c>> : c \in Failing(e)})
            /\ sync' = ~FilesMatch(e)
         \/ /\ ~ENABLED Apply(e)        \* the log does not follow the specification at all
            /\ Record({<<e.tid, e.step, "NotEnabled">>})
            /\ sync' = (e.seen /\ w = None /\ ObsFiles(e) # file)
            /\ UNCHANGED pvars

TStep == SyncStep \/ ApplyStep
TSpec == TInit /\ [][TStep]_tvars

(* every event of the log was consumed *)
Post == /\ TLCGet(2) = NEvents + 1
        /\ JsonSerialize(IOEnv.VERIF_OUT, [bad |-> TLCGet(1)])
=============================================================================
