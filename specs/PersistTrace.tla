---------------------------- MODULE PersistTrace ----------------------------
(* Code -> spec direction for C14.  The harness executes histories
   run / write_env (with a crash injected after k bytes of the j-th file) /
   exit / fault / read_env / Env.from_file on the real code and logs one
   event per Persist action, together with what it observed:
      files   the classification of every task's file after the event
      raised, env / present, status, ver   the outcome of a read.
   Every event is matched against the corresponding action of Persist; the
   outcome of a read is NOT computed by the specification here but taken from
   the log, and the clauses of the property are evaluated on it.  The verdict
   is total: <<trace id, step, clause>> of every failing clause is collected. *)
EXTENDS Integers, Sequences, FiniteSets, TLC, Json, IOUtils

CONSTANT None
Data == JsonDeserialize(IOEnv.VERIF_CASES)
Events == Data.events
NEvents == Len(Events)

Tasks == 1 .. Data.ntasks
Statuses == {"WAITING", "PENDING", "DONE", "FAILED", "SKIPPED"}
MaxVer == 1000000  MaxFaults == 1000000  MaxCrashes == 1000000
FaultKinds == {"absent", "empty", "garbage", "dir", "unreadable"}

VARIABLES mem, file, queue, w, nver, nfault, ncrash, lastRead, lastOne, lastFull, intact, act
P == INSTANCE Persist

VARIABLE i
tvars == <<mem, file, queue, w, nver, nfault, ncrash, lastRead, lastOne, lastFull, intact, act, i>>

(* the verdict is accumulated outside the state (TLCSet/TLCGet, one worker): a state that carried
   thousands of failing steps would have to be fingerprinted again at every step *)
Record(new) == IF new = {} THEN TRUE ELSE TLCSet(1, TLCGet(1) \cup new)

Set(s) == {s[k] : k \in DOMAIN s}
ObsEnv(e) == {[t |-> x.t, status |-> x.status, ver |-> x.ver] : x \in Set(e.env)}
ObsFile(f) == [kind |-> f[1], status |-> f[2], ver |-> f[3]]

(* read_env as observed: the result comes from the log; the environment of the
   new process is what was returned (nothing when the read raised) *)
TRead(e) ==
   /\ P!Idle /\ P!Fresh
   /\ lastRead' = [valid |-> TRUE, raised |-> e.raised, env |-> ObsEnv(e)]
   /\ mem' = [t \in Tasks |->
                IF \E x \in ObsEnv(e) : x.t = t
                THEN LET x == CHOOSE x \in ObsEnv(e) : x.t = t IN P!Entry(x.status, x.ver, TRUE)
                ELSE P!NoEntry]
   /\ lastOne' = P!NoOne
   /\ act' = [op |-> "read"]
   /\ UNCHANGED <<file, queue, w, nver, nfault, ncrash, lastFull, intact>>

TReadOne(e) ==
   /\ P!Idle /\ P!Fresh
   /\ lastOne' = [valid |-> TRUE, t |-> e.t, raised |-> e.raised, present |-> e.present,
                  status |-> e.status, ver |-> e.ver]
   /\ lastRead' = P!NoRead
   /\ act' = [op |-> "readone", t |-> e.t]
   /\ UNCHANGED <<mem, file, queue, w, nver, nfault, ncrash, lastFull, intact>>

TReset ==
   /\ mem' = [t \in Tasks |-> P!NoEntry]
   /\ file' = [t \in Tasks |-> P!Blank("absent")]
   /\ queue' = <<>> /\ w' = None
   /\ nver' = 1 /\ nfault' = 0 /\ ncrash' = 0
   /\ lastRead' = P!NoRead /\ lastOne' = P!NoOne
   /\ lastFull' = [t \in Tasks |-> P!NoFull]
   /\ intact' = [t \in Tasks |-> FALSE]
   /\ act' = [op |-> "init"]

Apply(e) ==
   CASE e.op = "reset"   -> TReset
     [] e.op = "run"     -> P!Run(e.t, e.status, e.dir) /\ act'.ver = e.ver
     [] e.op = "start"   -> P!StartWrite(e.order)
     [] e.op = "skip"    -> P!Skip /\ act'.t = e.t
     [] e.op \in {"begin", "blocked"} -> P!BeginWrite /\ act'.op = e.op /\ act'.t = e.t
     [] e.op = "chunk"   -> P!WriteChunk /\ act'.t = e.t
     [] e.op = "end"     -> P!EndWrite /\ act'.t = e.t
     [] e.op \in {"crash", "exit"} -> P!Crash /\ act'.op = e.op
     [] e.op = "fault"   -> P!Fault(e.t, e.kind)
     [] e.op = "read"    -> TRead(e)
     [] e.op = "readone" -> TReadOne(e)

(* the events inside one write_env call are not observed one by one *)
FilesMatch(e) == e.seen => \A t \in Tasks : file'[t] = ObsFile(e.files[t])

(* clauses evaluated in the state reached by the event *)
Failing(e) ==
   (IF e.op = "read" THEN
      {c \in {"NoRaise", "Exact", "NeverNotDone", "Complete", "NoPartial"} :
          \/ c = "NoRaise" /\ ~(P!C14_NoRaise)'
          \/ c = "Exact" /\ ~(P!C14_Exact)'
          \/ c = "NeverNotDone" /\ ~(P!C14_NeverNotDone)'
          \/ c = "Complete" /\ ~(P!C14_Complete)'
          \/ c = "NoPartial" /\ ~(P!C14_NoPartial)'}
    ELSE IF e.op = "readone" THEN {c \in {"One"} : ~(P!C14_One)'}
    ELSE {})
   \cup {c \in {"Files"} : ~FilesMatch(e)}
   \cup {c \in {"NoDirNeverWritten"} :
            \/ ~(P!C14_NoDirNeverWritten)'
            \/ /\ e.seen /\ e.op \in {"skip", "end", "blocked", "crash", "exit"}
               /\ \E t \in Tasks : mem[t].present /\ ~mem[t].dir /\ ObsFile(e.files[t]) # file'[t]}

TInit == P!Init /\ i = 1 /\ TLCSet(1, {})

TStep == /\ i <= NEvents
         /\ i' = i + 1
         /\ LET e == Events[i] IN
            \/ /\ ENABLED Apply(e)
               /\ Apply(e)
               /\ Record({<<e.tid, e.step, c>> : c \in Failing(e)})
            \/ /\ ~ENABLED Apply(e)        \* the log does not follow the specification at all
               /\ Record({<<e.tid, e.step, "NotEnabled">>})
               /\ UNCHANGED <<mem, file, queue, w, nver, nfault, ncrash, lastRead, lastOne, lastFull, intact, act>>
TSpec == TInit /\ [][TStep]_tvars

HistoryOK == P!HistoryOK

Post == /\ TLCGet("stats").diameter = NEvents + 1
        /\ JsonSerialize(IOEnv.VERIF_OUT, [bad |-> TLCGet(1)])
=============================================================================
