---------------------------- MODULE SliceTrace ----------------------------
(* Code -> spec direction for C09: cases recorded from the implementation
   (inputs and the observed output projection) are checked one per step
   against the operators of Slice.  The verdict is total: every mismatching
   case id is collected together with the expected output. *)
EXTENDS Integers, Sequences, FiniteSets, TLC, Json, IOUtils

CONSTANT None
MaxN == 0  MaxB == 0  MaxDims == 0  Ops == {}
VARIABLES op, dims, out, pc
S == INSTANCE Slice

Cases == JsonDeserialize(IOEnv.VERIF_CASES)
NCases == Len(Cases)

VARIABLES i, bad
tvars == <<op, dims, out, pc, i, bad>>

B(x) == IF Len(x) = 0 THEN None ELSE x[1]
DimsOf(c) == [d \in 1 .. Len(c.dims) |->
                [n |-> c.dims[d].n, kind |-> c.dims[d].kind, a |-> B(c.dims[d].a), b |-> B(c.dims[d].b)]]
Expected(c) == IF c.op = "slice" THEN S!SliceOut(DimsOf(c)) ELSE S!SqueezeOut(DimsOf(c))

(* a selection that keeps no cell: only emptiness is claimed *)
MatchSlice(e, o, empty) ==
   IF \E d \in DOMAIN e : e[d].cells = <<>> THEN empty
   ELSE /\ ~empty /\ Len(e) = Len(o)
        /\ \A d \in DOMAIN e : /\ e[d].cells = o[d].cells
                               /\ (e[d].binsFree \/ e[d].bins = o[d].bins)
MatchSqueeze(e, o) == /\ Len(e) = Len(o)
                      /\ \A k \in DOMAIN e : e[k].dim = o[k].dim /\ e[k].cells = o[k].cells /\ e[k].bins = o[k].bins
Matches(c) == IF c.op = "slice" THEN MatchSlice(Expected(c), c.obs, c.empty) ELSE MatchSqueeze(Expected(c), c.obs)

TInit == /\ i = 1 /\ bad = {} /\ op = "" /\ dims = <<>> /\ out = <<>> /\ pc = "todo"
TStep == /\ i <= NCases
         /\ i' = i + 1
         /\ op' = Cases[i].op /\ dims' = DimsOf(Cases[i]) /\ out' = Expected(Cases[i]) /\ pc' = "done"
         /\ bad' = IF Matches(Cases[i]) THEN bad ELSE bad \cup {<<Cases[i].id, Expected(Cases[i])>>}
         /\ (i = NCases => TLCSet(1, bad'))
TSpec == TInit /\ [][TStep]_tvars

(* the invariants of the property-level spec are evaluated on every consumed case *)
WellFormed == S!WellFormed
Delimits == S!Delimits
AgreesWithSet == S!AgreesWithSet
SqueezeExact == S!SqueezeExact

Post == /\ TLCGet("stats").diameter = NCases + 1
        /\ JsonSerialize(IOEnv.VERIF_OUT, [bad |-> TLCGet(1)])
=============================================================================
