--------------------------- MODULE StudentTrace ---------------------------
(* Code -> spec direction for C05.  Cases recorded from valjean (inputs and
   every observable of the result) are consumed one per step and judged
   against the operators of Student.  The judgement is total: every mismatch
   is collected as <<id, what, dataset, bin, expected>>; inputs whose statistic
   falls inside a critical-value band (or where the statement is silent) are
   not judged and counted.

   A case (JSON):
     id, row, lev          row / level of Crit used as (ndf, alpha) of the test
     ref  [[vt, vn, et, en], ...]        one cell per bin, number = <<tag, n>>:
     oth  [[[vt, vn, et, en], ...], ...]   tag 0 finite n, 1 NaN, 2 +inf, 3 -inf
     verdict               bool(result)
     orc   [[b, ...], ...] result.oracles(), per dataset per bin
     pdec  [[b, ...], ...] result.test_pvalue(), per dataset per bin
     pab   [[[b x NLev], ...], ...]  result.pvalue > level j
     ts    [[[kind, n, d, sign], ...], ...]  result.tstud squared as a rational
                           (kind 0 rational n/d, 1 infinite, 2 NaN; sign -1, 0, 1, 2 = NaN)
     meta  [b, ...]        bool(result) of metamorphic variants of the same
                           comparison (datasets swapped, common rescalings)
*)
EXTENDS Integers, Sequences, FiniteSets, TLC, Json, IOUtils

CONSTANTS NaN, PInf, NInf, Crit
Vals == -3 .. 3
Errs == (0 .. 3) \cup {PInf}
MaxBins == 0  MaxDs == 0  Rows == {}  Levs == {}  Mode == "trace"  NRand == 0
VARIABLES row, lev, ref, oth, cells, out, pc
S == INSTANCE Student

Cases == JsonDeserialize(IOEnv.VERIF_CASES)
NCases == Len(Cases)

VARIABLES i, bad, drift, skipped, free
tvars == <<row, lev, ref, oth, cells, out, pc, i, bad, drift, skipped, free>>

Num(t, n) == IF t = 0 THEN n ELSE IF t = 1 THEN NaN ELSE IF t = 2 THEN PInf ELSE NInf
CellsOf(s) == [b \in 1 .. Len(s) |-> <<Num(s[b][1], s[b][2]), Num(s[b][3], s[b][4])>>]
RefOf(c) == CellsOf(c.ref)
OthOf(c) == [d \in 1 .. Len(c.oth) |-> CellsOf(c.oth[d])]
Exp(c) == S!Expected(RefOf(c), OthOf(c), c.row, c.lev)

MaxDen == 10000
Idx(c) == {<<d, b>> : d \in 1 .. Len(c.oth), b \in 1 .. Len(c.ref)}

(* observed boolean `o` against a three/four-valued expectation *)
Wrong(o, e, yes, no) == (e = yes /\ ~o) \/ (e = no /\ o)

StatMatches(e, o, sg) ==
   /\ e.k = "rat" => IF e.d <= MaxDen THEN o[1] = 0 /\ o[2] = e.n /\ o[3] = e.d
                     ELSE o[1] \in {0, 3}       \* the recorder only recovers rationals with a small denominator
   /\ e.k = "inf" => o[1] = 1
   /\ e.k = "nan" => o[1] = 2
   /\ sg = "pos" => o[4] = 1
   /\ sg = "neg" => o[4] = -1
   /\ sg = "zero" => o[4] = 0
   /\ sg = "nan" => o[4] = 2

Mismatches(c, e) ==
      (IF Wrong(c.verdict, e.verdict, "pass", "fail") THEN {<<c.id, "verdict", 0, 0, e.verdict>>} ELSE {})
   \cup (IF c.verdict = (\A p \in Idx(c) : c.orc[p[1]][p[2]]) THEN {}
         ELSE {<<c.id, "logic", 0, 0, "verdict is not the conjunction of the oracles">>})
   \cup {<<c.id, "oracle", p[1], p[2], e.cls[p[1]][p[2]]>> :
            p \in {q \in Idx(c) : Wrong(c.orc[q[1]][q[2]], e.cls[q[1]][q[2]], "pass", "fail")}}
   \cup {<<c.id, "pdec", p[1], p[2], e.cls[p[1]][p[2]]>> :
            p \in {q \in Idx(c) : Wrong(c.pdec[q[1]][q[2]], e.cls[q[1]][q[2]], "pass", "fail")}}
   \cup {<<c.id, "pvalue", p[1], p[2], e.cls[p[1]][p[2]]>> :
            p \in {q \in Idx(c) : \E j \in 1 .. S!NLev :
                      Wrong(c.pab[q[1]][q[2]][j], e.pv[q[1]][q[2]][j], "yes", "no")}}
   \cup {<<c.id, "meta", m, 0, e.verdict>> :
            m \in {n \in 1 .. Len(c.meta) : Wrong(c.meta[n], e.verdict, "pass", "fail")}}

Drifts(c, e) ==
   {<<c.id, "tstud", p[1], p[2], e.st[p[1]][p[2]]>> :
       p \in {q \in Idx(c) : ~StatMatches(e.st[q[1]][q[2]], c.ts[q[1]][q[2]], e.sg[q[1]][q[2]])}}

(* judgements not made on this case because of kind k: "band" (statistic inside
   a critical-value band) or "free" (the statement is silent) *)
Unjudged(c, e, k) ==
   Cardinality({p \in Idx(c) : e.cls[p[1]][p[2]] = k})
   + Cardinality({<<p, j>> \in Idx(c) \X (1 .. S!NLev) : e.pv[p[1]][p[2]][j] = k})

TInit == /\ i = 1 /\ bad = {} /\ drift = {} /\ skipped = 0 /\ free = 0
         /\ row = 1 /\ lev = 1 /\ ref = <<>> /\ oth = <<>> /\ cells = <<>> /\ out = S!NoOut /\ pc = "todo"
TStep == /\ i <= NCases
         /\ i' = i + 1
         /\ row' = Cases[i].row /\ lev' = Cases[i].lev
         /\ ref' = RefOf(Cases[i]) /\ oth' = OthOf(Cases[i]) /\ cells' = <<>>
         /\ out' = Exp(Cases[i]) /\ pc' = "done"
         /\ bad' = bad \cup Mismatches(Cases[i], out')          \* out' is a value by now: computed once
         /\ drift' = drift \cup Drifts(Cases[i], out')
         /\ skipped' = skipped + Unjudged(Cases[i], out', "band")
         /\ free' = free + Unjudged(Cases[i], out', "free")
         /\ (i = NCases => TLCSet(1, [bad |-> bad', drift |-> drift', skipped |-> skipped',
                                      free |-> free', last |-> out']))
TSpec == TInit /\ [][TStep]_tvars

(* the invariants of the property-level spec are evaluated on every consumed case *)
VerdictDef == S!VerdictDef
OraclesAgree == S!OraclesAgree
Symmetric == S!Symmetric
ScaleInvariant == S!ScaleInvariant
MonotoneDiff == S!MonotoneDiff
MonotoneErr == S!MonotoneErr
OneSidedNaNFails == S!OneSidedNaNFails
MonotoneLevel == S!MonotoneLevel

Post == /\ TLCGet("stats").diameter = NCases + 1
        /\ JsonSerialize(IOEnv.VERIF_OUT, TLCGet(1))
=============================================================================
