------------------------------ MODULE T4Scan ------------------------------
(* C11 -- a truncated Tripoli-4 listing gives a parser error or the last
   complete edition.

   The module transcribes valjean.eponine.tripoli4.scan.Scanner._get_collres
   (and the two places of parse.Parser that decide the outcome) as a
   line-driven state machine.  A listing is a sequence of abstract lines

        [kind, num, eol, id]

   kind  the textual class of the line (which keyword of the scanner it
         contains); lines without any keyword are "other"
   num   <<>> or <<n>>: the integer field the scanner converts on that line
         (batch number, time in seconds, ...), absent when the file ends
         before it was written
   eol   the line is terminated by a newline (FALSE only for the last line of
         a file cut inside that line)
   id    position of the line in the complete listing; a stored result block
         is the sequence of the ids of its lines, so two blocks are equal iff
         they are made of the same lines.

   State: the complete listing `full` (chosen in Init among the well-formed
   mono / PARA listings up to MaxLines significant lines and MaxEditions
   editions; both layouts with and without the "Edition after batch number"
   line; in PARA listings several response blocks per edition, each with its
   own "number of batches used" count), the number `pos` of complete lines of the prefix, the cut class
   `cut` of the (pos+1)-th line when the file ends inside it, and two scanner
   states for that prefix:

     st   the unterminated last line is dropped (what a scanner has to do to
          satisfy the property: the line was being written when the job died)
     alt  the unterminated last line is interpreted like a complete one
          (missing integer field = scanner error, otherwise converted)

   For prefixes ending at a line boundary st = alt.  The property is the
   invariant PrefixAgrees on st; W_InterpretedCut* are negated-reachability
   witnesses showing that `alt` is NOT always acceptable (a cut inside the
   digits of a time gives an edition whose time differs from the complete
   listing's): the counterexamples are replayed into the implementation.
*)
EXTENDS Integers, Sequences, FiniteSets, TLC

CONSTANTS MaxLines,      \* longest complete listing enumerated
          MaxEditions,   \* 1, 2 or 3
          MinEditions,   \* parallel-job listings with fewer editions are left out (1: none is)
          Modes,         \* subset of {"mono", "para", "fatal"}
          Rich           \* TRUE: all optional lines; FALSE: a thinner family

-----------------------------------------------------------------------------
(* lines *)

NumKinds == {"batch", "tasks", "packet", "init", "batchnum", "numbatch", "edition", "used",
             "simtime", "exptime", "elapsed"}
FlagKinds == {"results", "partial", "normal", "warning", "error", "fatal", "genhdr", "counter"}
EndKinds == {"simtime", "exptime", "elapsed"}
Kinds == NumKinds \cup FlagKinds \cup {"comment", "other"}

TimeKey(kind) == CASE kind = "simtime" -> "simulation_time"
                   [] kind = "exptime" -> "exploitation_time"
                   [] kind = "elapsed" -> "elapsed_time"
TimeKeys == {"simulation_time", "exploitation_time", "elapsed_time"}

NotATime == -1            \* the scanner stores the string "Not a time"
HasNum(ln) == Len(ln.num) = 1
Num(ln) == ln.num[1]
Max(a, b) == IF a >= b THEN a ELSE b
Last(s) == s[Len(s)]

EmptyFn == [x \in {} |-> 0]
Put(f, k, v) == [x \in DOMAIN f \cup {k} |-> IF x = k THEN v ELSE f[x]]

-----------------------------------------------------------------------------
(* the scanner *)

Scan0 == [status   |-> "run",        \* "error": a conversion failed -> scanner's own exception
          para     |-> FALSE, partial |-> FALSE, normalend |-> FALSE, fatal |-> FALSE,
          warnings |-> 0, errors |-> 0,
          required |-> <<>>, tasks |-> 1, packet |-> 1,
          hasInit  |-> FALSE, initTime |-> 0,
          current  |-> 0,
          inBlock  |-> FALSE, bNumber |-> -1, bCurrent |-> 0, bGreater |-> 0, bLines |-> <<>>,
          keys     |-> <<>>,         \* batch numbers in order of first storage (OrderedDict)
          blocks   |-> EmptyFn,      \* batch number -> [lines, endKind, endTime]
          times    |-> [k \in TimeKeys |-> EmptyFn],
          gen      |-> "none"]       \* generator state: none / open / done

Err(s) == [s EXCEPT !.status = "error"]

(* Scanner._set_counters_and_flags *)
Flags(s, ln) ==
   CASE ln.kind = "warning" -> [s EXCEPT !.warnings = @ + 1]
     [] ln.kind = "error"   -> [s EXCEPT !.errors = @ + 1]
     [] ln.kind = "fatal"   -> [s EXCEPT !.errors = @ + 1, !.fatal = TRUE]
     [] ln.kind = "partial" -> [s EXCEPT !.partial = TRUE]
     [] ln.kind = "normal"  -> [s EXCEPT !.normalend = TRUE]
     [] OTHER -> s

(* Scanner._add_time: keyed by the batch number stored last (0 if none) *)
AddTime(s, ln) ==
   LET key == TimeKey(ln.kind)
       bn  == IF s.keys = <<>> THEN 0 ELSE Last(s.keys)
       t   == IF HasNum(ln) THEN Num(ln) ELSE NotATime
       old == s.times[key]
   IN IF bn \notin DOMAIN old THEN [s EXCEPT !.times[key] = Put(old, bn, t)]
      ELSE IF old[bn] # t /\ s.partial THEN [s EXCEPT !.times[key] = Put(old, bn, t)]
      ELSE s

(* BatchResultScanner.check_batch_number + storage of the block + time *)
CloseBlock(s, ln) ==
   LET number == IF s.para THEN Max(s.bNumber, s.bGreater) ELSE Max(s.bNumber, s.bCurrent)
       blk == [lines |-> s.bLines, endKind |-> ln.kind,
               endTime |-> IF HasNum(ln) THEN Num(ln) ELSE NotATime]
       s1 == [s EXCEPT !.blocks = Put(@, number, blk),
                       !.keys = IF \E i \in DOMAIN s.keys : s.keys[i] = number THEN s.keys ELSE Append(s.keys, number),
                       !.inBlock = FALSE, !.bLines = <<>>]
   IN AddTime(s1, ln)

(* BatchResultScanner.build_result, then the end-flag test *)
InBlock(s, ln) ==
   IF ln.kind = "edition" /\ ~HasNum(ln) THEN Err(s)
   ELSE IF s.para /\ ln.kind = "used" /\ ~HasNum(ln) THEN Err(s)
   ELSE LET s1 == IF ln.kind = "edition" THEN [s EXCEPT !.bNumber = Num(ln)] ELSE s
            s2 == IF s1.para /\ ln.kind = "used" THEN [s1 EXCEPT !.bGreater = Max(@, Num(ln))] ELSE s1
            s3 == [s2 EXCEPT !.bLines = Append(@, ln.id)]
        IN IF ln.kind \in EndKinds THEN CloseBlock(s3, ln) ELSE s3

(* Scanner._check_input_data: the echo of the data file, up to "initialization time" *)
Header(s, ln) ==
   CASE ln.kind = "batch"  -> [s EXCEPT !.required = ln.num]
     [] ln.kind = "tasks"  -> IF HasNum(ln) THEN [s EXCEPT !.para = TRUE, !.tasks = Num(ln)] ELSE Err(s)
     [] ln.kind = "packet" -> IF ~s.para THEN s
                              ELSE IF HasNum(ln) THEN [s EXCEPT !.packet = Num(ln)] ELSE Err(s)
     [] ln.kind = "init"   -> IF HasNum(ln) THEN [s EXCEPT !.hasInit = TRUE, !.initTime = Num(ln)] ELSE Err(s)
     [] OTHER -> s

(* an end flag met outside a result block *)
OutsideEnd(s, ln) ==
   LET sameBatch == s.keys # <<>> /\ s.current = Last(s.keys)
   IN IF ~s.para /\ ~sameBatch THEN s ELSE AddTime(s, ln)

(* one iteration of the loop of Scanner._get_collres *)
Step(s0, ln) ==
   IF s0.status = "error" \/ ln.kind = "comment" THEN s0
   ELSE LET s == Flags(s0, ln) IN
        IF s.inBlock THEN InBlock(s, ln)
        ELSE IF s.fatal THEN s
        ELSE IF ~s.hasInit THEN Header(s, ln)
        ELSE IF ln.kind = "results"
             THEN [s EXCEPT !.inBlock = TRUE, !.bNumber = -1, !.bCurrent = s.current, !.bGreater = 0,
                            !.bLines = <<ln.id>>]
        ELSE IF ln.kind = "batchnum" \/ (s.partial /\ ln.kind = "numbatch")
             THEN IF HasNum(ln) THEN [s EXCEPT !.current = Num(ln)] ELSE Err(s)
        ELSE IF ln.kind \in EndKinds THEN OutsideEnd(s, ln)
        ELSE IF ln.kind = "genhdr" THEN [s EXCEPT !.gen = "open"]
        ELSE IF s.gen = "open" /\ ln.kind = "counter" THEN [s EXCEPT !.gen = "done"]
        ELSE s

(* the variant that satisfies the property: an unterminated line is not interpreted *)
StepDrop(s, ln) == IF ln.eol THEN Step(s, ln) ELSE s

(* lines a+1 .. b fed to the scanner in state s (split in halves: real listings have
   thousands of lines and TLC evaluates recursion on the Java stack) *)
RECURSIVE ScanRange(_, _, _, _)
ScanRange(s, lines, a, b) ==
   IF a >= b THEN s
   ELSE IF b = a + 1 THEN StepDrop(s, lines[b])
   ELSE LET m == (a + b) \div 2 IN ScanRange(ScanRange(s, lines, a, m), lines, m, b)
ScanAll(lines) == ScanRange(Scan0, lines, 0, Len(lines))

-----------------------------------------------------------------------------
(* outcome, as seen through parse.Parser *)

(* Parser(path): scanner error, "no end flag found", or "No result found" *)
OpenOutcome(s) == IF s.status = "error" \/ s.keys = <<>> THEN "ParserError" ELSE "Ok"

(* Parser.parse_from_number(n): the grammar needs the number of the end flag;
   Parser._time_consistency compares it with the scanner's time for n *)
EditionOutcome(s, n) ==
   LET b == s.blocks[n] key == TimeKey(b.endKind) IN
   IF b.endTime = NotATime THEN "ParserError"
   ELSE IF n \notin DOMAIN s.times[key] THEN "ParserError"
   ELSE IF s.times[key][n] # b.endTime /\ ~s.partial THEN "ParserError"
   ELSE "Ok"

KeySet(s) == {s.keys[i] : i \in DOMAIN s.keys}
OkEditions(s) == IF OpenOutcome(s) = "Ok" THEN {n \in KeySet(s) : EditionOutcome(s, n) = "Ok"} ELSE {}

(* the times reported for edition n (ParseResult: batch_data) *)
TimesOf(s, n) == [k \in {k \in TimeKeys : n \in DOMAIN s.times[k]} |-> s.times[k][n]]

(* THE PROPERTY, for a scanner state s reached on a prefix of a listing whose
   complete scan is f: every edition that can be obtained from the prefix is the
   same edition of the complete listing (same block, same times where both have one) *)
Agrees(s, f) ==
   \A n \in OkEditions(s) :
      /\ n \in OkEditions(f)
      /\ s.blocks[n].lines = f.blocks[n].lines
      /\ \A k \in DOMAIN TimesOf(s, n) \cap DOMAIN TimesOf(f, n) : TimesOf(s, n)[k] = TimesOf(f, n)[k]

-----------------------------------------------------------------------------
(* well-formed listings: what a Tripoli-4 job writes *)

P(k) == [kind |-> k, num |-> <<>>]
N(k, n) == [kind |-> k, num |-> <<n>>]
Opt(s) == IF Rich THEN {<<>>, s} ELSE {s}
RichOnly(s) == IF Rich THEN s ELSE {}

BatchOf(e) == CASE e = 1 -> 12 [] e = 2 -> 25 [] OTHER -> 38   \* two digits: a cut inside the digits exists
TimeOf(e) == CASE e = 1 -> 34 [] e = 2 -> 57 [] OTHER -> 79
ElapsedOf(e) == CASE e = 1 -> 41 [] e = 2 -> 68 [] OTHER -> 93

HeadMono == {c \o b \o w \o <<N("init", 13)>> :
               c \in {<<>>, <<P("comment")>>}, b \in Opt(<<N("batch", 30)>>), w \in {<<>>, <<P("warning")>>}}
HeadPara == {<<N("tasks", 8)>> \o p \o <<N("init", 13)>> : p \in {<<>>, <<N("packet", 20)>>}}

(* mono edition e: batch lines, optional PARTIAL EDITION, the result block *)
EdMono(e, flag) ==
   {bn \o pe \o <<P("results")>> \o ed \o ot \o <<N(flag, TimeOf(e))>> :
       bn \in {<<N("batchnum", BatchOf(e))>>}
                 \cup RichOnly({<<N("batchnum", BatchOf(e) - 1), N("simtime", 0), N("batchnum", BatchOf(e))>>}),
       pe \in {<<>>} \cup RichOnly({<<P("partial"), N("numbatch", BatchOf(e))>>}),
       ed \in {<<>>, <<N("edition", BatchOf(e))>>},
       ot \in {<<>>, <<P("other")>>} \cup RichOnly({<<P("comment")>>, <<P("warning")>>})}
EdMonoThin(e, flag) == {<<N("batchnum", BatchOf(e)), P("results"), N("edition", BatchOf(e)), N(flag, TimeOf(e))>>,
                        <<N("batchnum", BatchOf(e)), P("results"), N(flag, TimeOf(e))>>}

(* PARA edition e.  Every response block of an edition ends with its own "number of
   batches used" line; the counts differ inside an edition (a score that discards its
   first batches / packets has used fewer) and may coincide across editions.  The batch
   number of the edition is the GREATEST of them (BatchOf(e)), wherever it stands:
     <<Prev, B>>      greatest last   (Prev = greatest of the previous edition)
     <<Low, B, Low>>  greatest neither first nor last; Low is shared by all editions
     <<B>>, <<B, Low>> (Rich)
   withEd: the layout with an "Edition after batch number" line (as in mono listings) *)
LowUsed == 10
PrevUsed(e) == IF e = 1 THEN LowUsed ELSE BatchOf(e - 1)
UsedSeqs(e) ==
   {<<N("used", PrevUsed(e)), N("used", BatchOf(e))>>,
    <<N("used", LowUsed), N("used", BatchOf(e)), N("used", LowUsed)>>}
   \cup RichOnly({<<N("used", BatchOf(e))>>, <<N("used", BatchOf(e)), N("used", LowUsed)>>})
ElapsedBefore == {<<>>, <<N("elapsed", 6)>>}        \* "elapsed time" printed outside a result block
EdPara(e, withEd, eos) ==
   {eo \o <<P("results")>> \o ed \o us \o <<N("simtime", TimeOf(e)), N("elapsed", ElapsedOf(e))>> :
       eo \in eos,
       ed \in {IF withEd THEN <<N("edition", BatchOf(e))>> ELSE <<>>},
       us \in UsedSeqs(e)}
(* which editions carry the "Edition after batch number" line: all or none (Rich: any mix) *)
EdLines(n) == IF Rich THEN [1 .. n -> BOOLEAN] ELSE {[i \in 1 .. n |-> b] : b \in BOOLEAN}

Tails == {g \o n : g \in {<<>>, <<P("genhdr"), P("counter")>>}, n \in {<<>>, <<P("normal")>>}}

ProtoMono ==
   LET one == {h \o e1 \o t : h \in HeadMono, e1 \in UNION {EdMono(1, f) : f \in {"simtime", "exptime"}}, t \in Tails}
       two == IF MaxEditions < 2 THEN {}
              ELSE {h \o e1 \o e2 \o t : h \in HeadMono, e1 \in IF Rich THEN EdMono(1, "simtime") ELSE EdMonoThin(1, "simtime"),
                                         e2 \in EdMonoThin(2, "simtime"), t \in Tails}
       three == IF MaxEditions < 3 THEN {}
                ELSE {h \o e1 \o e2 \o e3 \o t : h \in HeadMono, e1 \in EdMonoThin(1, "simtime"), e2 \in EdMonoThin(2, "simtime"),
                                                  e3 \in EdMonoThin(3, "simtime"), t \in Tails}
   IN one \cup two \cup three
ProtoPara ==
   LET no == {<<>>}
       one == IF MinEditions > 1 THEN {}
              ELSE UNION {{h \o e1 \o t : h \in HeadPara, e1 \in EdPara(1, w[1], ElapsedBefore), t \in Tails} : w \in EdLines(1)}
       two == IF MaxEditions < 2 \/ MinEditions > 2 \/ MaxLines < 10 THEN {}
              ELSE UNION {{h \o e1 \o e2 \o t :
                              h \in IF Rich THEN HeadPara ELSE {<<N("tasks", 8), N("packet", 20), N("init", 13)>>},
                              e1 \in EdPara(1, w[1], IF Rich THEN ElapsedBefore ELSE no),
                              e2 \in EdPara(2, w[2], IF Rich THEN ElapsedBefore ELSE {<<N("elapsed", 6)>>}),
                              t \in IF Rich THEN Tails ELSE {<<>>, <<P("normal")>>}} : w \in EdLines(2)}
       three == IF MaxEditions < 3 \/ MaxLines < 14 THEN {}     \* (14 lines: the shortest of them)
                ELSE UNION {{h \o e1 \o e2 \o e3 \o t :
                                h \in IF Rich THEN HeadPara ELSE {<<N("tasks", 8), N("init", 13)>>},
                                e1 \in EdPara(1, w[1], IF Rich THEN ElapsedBefore ELSE no),
                                e2 \in EdPara(2, w[2], IF Rich THEN ElapsedBefore ELSE no),
                                e3 \in EdPara(3, w[3], no),
                                t \in IF Rich THEN Tails ELSE {<<P("normal")>>}} : w \in EdLines(3)}
   IN one \cup two \cup three
(* a job that dies with a FATAL ERROR before / after the initialisation: no result *)
ProtoFatal == {<<N("batch", 30), P("fatal"), P("other")>>,
               <<N("init", 13), P("fatal"), P("other")>>,
               <<N("init", 13), N("batchnum", 12), P("results"), P("other")>>}

Protos == {p \in (IF "mono" \in Modes THEN ProtoMono ELSE {})
                 \cup (IF "para" \in Modes THEN ProtoPara ELSE {})
                 \cup (IF "fatal" \in Modes THEN ProtoFatal ELSE {}) : Len(p) <= MaxLines}

Number(p) == [i \in DOMAIN p |-> [kind |-> p[i].kind, num |-> p[i].num, eol |-> TRUE, id |-> i]]

(* the editions the job wrote: <<batch number, id of the RESULTS line, id of the end flag>> *)
RECURSIVE TruthFrom(_, _, _)
TruthFrom(lines, i, open) ==
   IF i > Len(lines) THEN <<>>
   ELSE IF lines[i].kind = "results" THEN TruthFrom(lines, i + 1, i)
   ELSE IF open > 0 /\ lines[i].kind \in EndKinds
        THEN <<[first |-> open, last |-> i, time |-> Num(lines[i])]>> \o TruthFrom(lines, i + 1, 0)
   ELSE TruthFrom(lines, i + 1, open)
Truth(lines) == TruthFrom(lines, 1, 0)

(* what the scanner's documentation says about parallel jobs: the batch number of an
   edition is the greatest "number of batches used" printed in that edition (or the
   number of its "Edition after batch number" line when that is greater) *)
IsPara(lines) == \E i \in DOMAIN lines : lines[i].kind = "tasks"
SetMax(S) == CHOOSE m \in S : \A x \in S : x <= m
ParaNumber(lines, a, b) ==
   SetMax({-1} \cup {Num(lines[j]) : j \in {i \in a .. b : lines[i].kind \in {"used", "edition"} /\ HasNum(lines[i])}})

-----------------------------------------------------------------------------
(* cut classes of a line: where the file can end inside it *)
Cuts(ln) ==
   IF ln.kind \in {"other", "comment"} THEN {"mid"}
   ELSE IF ln.kind \in NumKinds /\ HasNum(ln)
        THEN {"kw", "nonum", "noeol"} \cup (IF Num(ln) >= 10 THEN {"digits"} ELSE {})
   ELSE {"kw", "noeol"}

Trunc(ln, c) ==
   CASE c = "mid"    -> [ln EXCEPT !.eol = FALSE]
     [] c = "kw"     -> [ln EXCEPT !.kind = "other", !.num = <<>>, !.eol = FALSE]   \* keyword not complete
     [] c = "nonum"  -> [ln EXCEPT !.num = <<>>, !.eol = FALSE]                      \* ends before the integer
     [] c = "digits" -> [ln EXCEPT !.num = <<Num(ln) \div 10>>, !.eol = FALSE]       \* ends inside the integer
     [] c = "noeol"  -> [ln EXCEPT !.eol = FALSE]                                    \* only the newline is missing

-----------------------------------------------------------------------------
VARIABLES full, pos, cut, st, alt,
          out     \* derived verdicts, kept in the state so that dumps carry what TLC computed
vars == <<full, pos, cut, st, alt, out>>

Verdicts(s, a) == [open |-> OpenOutcome(s), ok |-> OkEditions(s), altOpen |-> OpenOutcome(a), altOk |-> OkEditions(a)]

Init == /\ full \in {Number(p) : p \in Protos}
        /\ pos = 0 /\ cut = "none" /\ st = Scan0 /\ alt = Scan0
        /\ out = Verdicts(Scan0, Scan0)

Feed == /\ cut = "none" /\ pos < Len(full)
        /\ pos' = pos + 1
        /\ st' = StepDrop(st, full[pos + 1])
        /\ alt' = st'
        /\ out' = Verdicts(st', alt')
        /\ UNCHANGED <<full, cut>>

CutHere(c) == /\ cut = "none" /\ pos < Len(full)
              /\ c \in Cuts(full[pos + 1])
              /\ cut' = c
              /\ st' = StepDrop(st, Trunc(full[pos + 1], c))
              /\ alt' = Step(st, Trunc(full[pos + 1], c))
              /\ out' = Verdicts(st', alt')
              /\ UNCHANGED <<full, pos>>

Next == Feed \/ \E c \in {"mid", "kw", "nonum", "digits", "noeol"} : CutHere(c)
Spec == Init /\ [][Next]_vars

-----------------------------------------------------------------------------
Final == ScanAll(full)

(* C11: every prefix gives a parser error or editions of the complete listing *)
PrefixAgrees == Agrees(st, Final)

(* a block is stored only once its end flag has been read: it starts at a
   RESULTS line, ends at a complete end-flag line of the prefix and contains
   every non-comment line in between *)
StoredAfterEndFlag ==
   \A n \in KeySet(st) :
      LET l == st.blocks[n].lines IN
      /\ full[l[1]].kind = "results" /\ full[Last(l)].kind \in EndKinds /\ Last(l) <= pos
      /\ \A i \in 1 .. Len(l) - 1 : l[i] < l[i + 1]
      /\ {l[i] : i \in DOMAIN l} = {j \in l[1] .. Last(l) : full[j].kind # "comment"}

(* times are keyed by stored batch numbers (0 before the first edition of a PARA job) *)
TimesKeyedByStored ==
   \A k \in TimeKeys : \A b \in DOMAIN st.times[k] : b \in KeySet(st) \/ (b = 0 /\ st.para /\ k = "elapsed_time")

(* editions never change once stored, and never disappear *)
StoredIsStable == [][\A n \in KeySet(st) : n \in KeySet(st') /\ st'.blocks[n] = st.blocks[n]
                                           /\ \A k \in DOMAIN TimesOf(st, n) : k \in DOMAIN TimesOf(st', n)
                                                                               /\ TimesOf(st', n)[k] = TimesOf(st, n)[k]]_vars

(* on the complete listing the scanner recovers exactly the editions written *)
CompleteRecovered ==
   (pos = Len(full) /\ cut = "none") =>
      LET t == Truth(full) IN
      /\ Len(st.keys) = Len(t)
      /\ \A i \in DOMAIN t : /\ st.blocks[st.keys[i]].lines[1] = t[i].first
                             /\ Last(st.blocks[st.keys[i]].lines) = t[i].last
                             /\ st.blocks[st.keys[i]].endTime = t[i].time
                             /\ st.keys[i] \in OkEditions(st)
                             /\ IsPara(full) => st.keys[i] = ParaNumber(full, t[i].first, t[i].last)
      /\ \A i, j \in DOMAIN t : i < j => st.keys[i] < st.keys[j]       \* all retrievable, listing order
      /\ st = Final

NoScanErrorOnCompleteLines == st.status = "run"

(* witnesses: TLC must find these violated *)
W_TwoEditions == ~(Len(st.keys) = 2)
W_ParaStored == ~(st.para /\ Len(st.keys) >= 1 /\ 0 \in DOMAIN st.times["elapsed_time"])
W_PartialStored == ~(st.partial /\ Len(st.keys) >= 1)
W_CutErrors == ~(cut = "nonum" /\ alt.status = "error")
W_InterpretedCutWrongTime == ~(cut = "digits" /\ ~Agrees(alt, Final))
W_InterpretedCutNotATime == ~(cut = "nonum" /\ alt.status = "run" /\ ~Agrees(alt, Final))
(* the layouts of parallel jobs, all at once: three stored editions, written with "Edition after batch number"
   lines, whose LAST "number of batches used" lines carry the same value, which is not their batch number *)
LastUsedOf(n) == LET u == {i \in {st.blocks[n].lines[x] : x \in DOMAIN st.blocks[n].lines} : full[i].kind = "used"}
                 IN IF u = {} THEN -1 ELSE Num(full[SetMax(u)])
W_ParaSameLastUsed(withEd) ==
   ~(st.para /\ Len(st.keys) = 3
     /\ withEd = (\E i \in 1 .. pos : full[i].kind = "edition")
     /\ \A i \in 1 .. 3 : LastUsedOf(st.keys[i]) = LastUsedOf(st.keys[1]) /\ LastUsedOf(st.keys[i]) # st.keys[i])
W_ParaLayoutEdLine == W_ParaSameLastUsed(TRUE)
W_ParaLayoutNoEdLine == W_ParaSameLastUsed(FALSE)
W_PrefixKeepsFirstEdition == ~(cut # "none" /\ Len(st.keys) = 1 /\ Len(Final.keys) = 2 /\ st.inBlock)
=============================================================================
