--------------------------- MODULE DepGraphTrace ---------------------------
(* Code -> spec direction for C16.  Histories executed on real DepGraph objects
   are recorded as JSON: for every operation its arguments, whether it raised,
   the answer of a query, and the projection of EVERY live graph afterwards
   (nodes(), dependencies(n), dependees(n), iteration, len, plus -- when the
   harness could read it: field `lay` -- the private layout _nodes._seq /
   _nodes._index / _edges, which is looked at for the drift kind "impl" only).
   The operation "rebuild" replaces the object in slot s by a graph built anew
   from what the old one reports, through another constructor / spelling (its
   name travels in x): the same mathematical graph, so DepGraph!Apply leaves
   the state as it is and everything that follows is judged as usual.  One TLC step consumes one
   recorded operation: the abstract operation of DepGraph.tla is applied to the
   previous recorded state and compared with the recorded one.  The verdict is
   total: every mismatch is collected as <<trace id, step, kind, expected>>.

   kinds   state   the graph operated on is not the mathematical result
           alias   a graph other than the target of the operation changed
           order   graft / flatten lost or invented an ordering constraint between plain nodes
           exact   graft / flatten kept the ordering but not the documented edge set   (reported as drift)
           views   dependencies / dependees / iteration / len disagree with each other
           query   topological_sort, depends, initial, terminal, ==, <= answered wrongly
           raise   an operation raised although it is defined
           impl    the private layout is inconsistent or is not this graph           (reported as drift)
           skip    the recorded operation is outside the domain of the specification (not judged) *)
EXTENDS Integers, Sequences, FiniteSets, TLC, Json, IOUtils

NSlots == 3
Plain == {}  Content == <<>>  Slots == 1 .. NSlots  MaxOps == 0  Ops == {}  SelfLoops == TRUE  HistMode == "none"
VARIABLES gr, live, steps, hist, impl
A == INSTANCE DepGraph
I == INSTANCE DepGraphImpl

Cases == JsonDeserialize(IOEnv.VERIF_CASES)
NCases == Len(Cases)

VARIABLES i, k, cur, bad
tvars == <<gr, live, steps, hist, impl, i, k, cur, bad>>

ToSet(sq) == {sq[j] : j \in DOMAIN sq}
GraphOf(c) == [nodes |-> ToSet(c.nodes), edges |-> ToSet(c.edges)]
ContOf(c) == [g \in DOMAIN c |-> GraphOf(c[g])]
(* (edges towards something that is not a node are reported by ViewsOK; they are left out here so
   that every recorded state is a graph) *)
Post(p) == [gr   |-> [s \in Slots |-> [nodes |-> ToSet(p[s].nodes),
                                       edges |-> {e \in ToSet(p[s].deps) : e[1] \in ToSet(p[s].nodes) /\ e[2] \in ToSet(p[s].nodes)}]],
            live |-> {s \in Slots : p[s].live}]
Start == [gr |-> [s \in Slots |-> A!Empty], live |-> {1}]

(* the private layout as a DepGraphImpl record (positions are 1-based in the JSON) *)
Layout(p) == [seq |-> p.seq,
              adj |-> [q \in DOMAIN p.adj |-> ToSet(p.adj[q])],
              idx |-> [n \in {e[1] : e \in ToSet(p.idx)} |-> (CHOOSE e \in ToSet(p.idx) : e[1] = n)[2]]]

NeedsDag(r) == r.op \in {"graft", "flatten", "reduce", "close", "rdepends", "rdeps"}
InDomain(r, c) ==
   /\ r.s \in c.live
   /\ r.op \in {"merge", "sum", "eq", "le"} => r.t \in c.live
   /\ NeedsDag(r) => ~A!Cyclic(c.gr[r.s])
   /\ r.op \in {"rmdep", "depends", "rdepends"} => r.x \in c.gr[r.s].nodes /\ r.y \in c.gr[r.s].nodes
   /\ r.op \in {"rdeps"} => r.x \in c.gr[r.s].nodes
   /\ r.op = "graft" => r.x \in c.gr[r.s].nodes

MayRaise(r, c) == \/ r.op = "rmdep" /\ <<r.x, r.y>> \notin c.gr[r.s].edges
                  \/ r.op = "sort" /\ A!Cyclic(c.gr[r.s])

QueryOK(r, c) ==
   LET G == c.gr[r.s] IN
   CASE r.op = "sort"     -> IF A!Cyclic(G) THEN r.raised ELSE r.raised \/ A!IsTopoSort(r.q.seq, G)   \* (an unexpected raise is kind "raise")
     [] r.op = "depends"  -> r.q.flag = (<<r.x, r.y>> \in G.edges)
     [] r.op = "rdepends" -> r.q.flag = (<<r.x, r.y>> \in A!Reach(G))
     [] r.op = "rdeps"    -> ToSet(r.q.seq) = {m \in G.nodes : <<r.x, m>> \in A!Reach(G)} /\ Len(r.q.seq) = Cardinality(ToSet(r.q.seq))
     [] r.op = "initial"  -> ToSet(r.q.seq) = A!Initial(G) /\ Len(r.q.seq) = Cardinality(ToSet(r.q.seq))
     [] r.op = "terminal" -> ToSet(r.q.seq) = A!Terminal(G) /\ Len(r.q.seq) = Cardinality(ToSet(r.q.seq))
     [] r.op = "eq"       -> r.q.flag = (G = c.gr[r.t])
     [] r.op = "le"       -> r.q.flag = A!SubGraph(G, c.gr[r.t])
     [] OTHER -> TRUE

ViewsOK(p) == /\ ToSet(p.deps) = ToSet(p.dees) /\ ToSet(p.deps) = ToSet(p.iter)
              /\ Len(p.deps) = Cardinality(ToSet(p.deps)) /\ Len(p.dees) = Len(p.deps) /\ Len(p.iter) = Len(p.deps)
              /\ p.len = Len(p.nodes) /\ p.len = Cardinality(ToSet(p.nodes))
              /\ ToSet(p.deps) \subseteq ToSet(p.nodes) \X ToSet(p.nodes)
              /\ p.members

Kinds(c, r, pre) ==
   IF ~InDomain(r, pre) THEN {"skip"}
   ELSE
   LET Cont == ContOf(c.content)
       exp  == A!Apply(pre.gr, pre.live, r, Cont)
       got  == Post(r.post)
       tgt  == A!Target(r)
       grafting == r.op \in {"graft", "flatten"}
       orderOK  == /\ got.gr[tgt].nodes = exp.gr[tgt].nodes
                   /\ A!NestedOrd(got.gr[tgt], Cont) = A!NestedOrd(pre.gr[tgt], Cont)
   IN  (IF got.live # exp.live \/ (~grafting /\ got.gr[tgt] # exp.gr[tgt]) THEN {"state"} ELSE {})
       \cup (IF \E s \in Slots \ {tgt} : got.gr[s] # pre.gr[s] THEN {"alias"} ELSE {})
       \cup (IF grafting /\ ~orderOK THEN {"order"} ELSE {})
       \cup (IF grafting /\ orderOK /\ got.gr[tgt] # exp.gr[tgt] THEN {"exact"} ELSE {})
       \cup (IF \E s \in got.live : ~ViewsOK(r.post[s]) THEN {"views"} ELSE {})
       \cup (IF ~QueryOK(r, pre) THEN {"query"} ELSE {})
       \cup (IF r.raised /\ ~MayRaise(r, pre) THEN {"raise"} ELSE {})
       \cup (IF \E s \in got.live : r.post[s].lay /\ (~I!WF(Layout(r.post[s])) \/ I!AbsGraph(Layout(r.post[s])) # got.gr[s])
             THEN {"impl"} ELSE {})

Expected(c, r, pre) == IF InDomain(r, pre) THEN A!Apply(pre.gr, pre.live, r, ContOf(c.content)).gr[A!Target(r)] ELSE A!Empty

TInit == /\ i = 1 /\ k = 1 /\ cur = Start /\ bad = {}
         /\ gr = Start.gr /\ live = {1} /\ steps = 0 /\ hist = <<>> /\ impl = <<>>
TStep == /\ i <= NCases
         /\ LET c == Cases[i]
                r == c.ops[k]
                lastk == k = Len(c.ops) IN
            /\ bad' = bad \cup {<<c.tid, k, kind, Expected(c, r, cur)>> : kind \in Kinds(c, r, cur)}
            /\ cur' = IF lastk THEN Start ELSE Post(r.post)
            /\ i' = IF lastk THEN i + 1 ELSE i
            /\ k' = IF lastk THEN 1 ELSE k + 1
            /\ gr' = Post(r.post).gr /\ live' = Post(r.post).live
            /\ (lastk /\ i = NCases => TLCSet(1, bad'))
         /\ UNCHANGED <<steps, hist, impl>>
TSpec == TInit /\ [][TStep]_tvars

RECURSIVE Total(_)
Total(n) == IF n = 0 THEN 0 ELSE Len(Cases[n].ops) + Total(n - 1)
Post_ == /\ TLCGet("stats").diameter = Total(NCases) + 1
         /\ JsonSerialize(IOEnv.VERIF_OUT, [bad |-> TLCGet(1)])
=============================================================================
