---------------------------- MODULE DatasetArith ----------------------------
(* C08 (numerical part) -- value and first-order uncorrelated error of
   dataset (+ - * /) dataset | array | number, cell by cell.

   Everything is an exact rational <<num, den>>, den > 0, in lowest terms.  A
   cell of a dataset is [v |-> value, e2 |-> error squared]: working with the
   square keeps quadratic sums rational; the requirement on the error itself is
   that it is the NON-NEGATIVE root of e2.  The right operand is
      "ds"      a dataset: cells [v, e2]
      "array"   a plain array: exact numbers, cell by cell (e2 = 0)
      "scalar"  one exact number for all cells
   Error of the result (first order, operands independent):
      a + b, a - b      e2 = ea2 + eb2                      (absolute errors add in quadrature)
      a * b             e2 = ea2 * vb^2 + eb2 * va^2        (relative errors add in quadrature)
      a / b             e2 = ea2 / vb^2 + va^2 * eb2 / vb^4
   so that an exact factor c (number or array entry) leaves the error of a sum
   alone and scales the error of a product / quotient by |c|.

   Function-like module: Init enumerates the inputs, Eval computes the expected
   cells, the dump is the table of implementation tests; the clauses of the
   statement are invariants that relate Expected to their wording. *)
EXTENDS Integers, Sequences, FiniteSets, TLC

CONSTANTS Vals,      \* integer values of the left cells (either sign, zero)
          Errs,      \* non-negative integer errors
          RVals,     \* integer values of the cells of a right dataset / array
          Scalars,   \* set of scalars, as pairs <<num, den>> given in a wrapper module
          MaxN,      \* number of cells 1 .. MaxN
          Ops,       \* subset of {"add", "sub", "mul", "div"}
          RKinds     \* subset of {"ds", "array", "scalar"}

VARIABLES op, rk, left, right, out, pc
vars == <<op, rk, left, right, out, pc>>

-----------------------------------------------------------------------------
(* exact rationals in lowest terms *)
Abs(x) == IF x < 0 THEN -x ELSE x
RECURSIVE Gcd(_, _)
Gcd(a, b) == IF b = 0 THEN a ELSE Gcd(b, a % b)
Norm(r) == LET g == Gcd(Abs(r[1]), Abs(r[2]))
               s == IF r[2] < 0 THEN -1 ELSE 1
           IN IF r[1] = 0 THEN <<0, 1>> ELSE <<s * (r[1] \div g), s * (r[2] \div g)>>
RInt(k)    == <<k, 1>>
RAdd(a, b) == Norm(<<a[1] * b[2] + b[1] * a[2], a[2] * b[2]>>)
RNeg(a)    == <<-a[1], a[2]>>
RSub(a, b) == RAdd(a, RNeg(b))
RMul(a, b) == Norm(<<a[1] * b[1], a[2] * b[2]>>)
RInv(a)    == Norm(<<a[2], a[1]>>)                 \* a # 0
RDiv(a, b) == RMul(a, RInv(b))
RSq(a)     == RMul(a, a)
RAbs(a)    == <<Abs(a[1]), a[2]>>
IsZero(a)  == a[1] = 0

(* one cell; l = [v, e2], r = [v, e2] (e2 = 0 for an exact number) *)
Value(o, l, r) == CASE o = "add" -> RAdd(l.v, r.v)
                    [] o = "sub" -> RSub(l.v, r.v)
                    [] o = "mul" -> RMul(l.v, r.v)
                    [] o = "div" -> RDiv(l.v, r.v)
ErrSq(o, l, r) == CASE o \in {"add", "sub"} -> RAdd(l.e2, r.e2)
                    [] o = "mul" -> RAdd(RMul(l.e2, RSq(r.v)), RMul(r.e2, RSq(l.v)))
                    [] o = "div" -> RAdd(RDiv(l.e2, RSq(r.v)),
                                         RDiv(RMul(RSq(l.v), r.e2), RSq(RSq(r.v))))
Cell(o, l, r) == [v |-> Value(o, l, r), e2 |-> ErrSq(o, l, r)]
Defined(o, r) == o # "div" \/ ~IsZero(r.v)         \* finite results only

Expected(o, ls, rs) == [c \in DOMAIN ls |-> Cell(o, ls[c], rs[c])]

-----------------------------------------------------------------------------
LCells == [v : {RInt(x) : x \in Vals}, e2 : {RInt(e * e) : e \in Errs}]
RCells(kind) == IF kind = "ds" THEN [v : {RInt(x) : x \in RVals}, e2 : {RInt(e * e) : e \in Errs}]
                ELSE IF kind = "array" THEN [v : {RInt(x) : x \in RVals}, e2 : {RInt(0)}]
                ELSE [v : {Norm(s) : s \in Scalars}, e2 : {RInt(0)}]

Init == /\ op \in Ops /\ rk \in RKinds
        /\ \E n \in 1 .. MaxN :
              /\ left \in [1 .. n -> LCells]
              /\ right \in [1 .. n -> RCells(rk)]
        /\ (rk = "scalar" => \A c \in DOMAIN right : right[c] = right[1])
        /\ \A c \in DOMAIN right : Defined(op, right[c])
        /\ out = <<>> /\ pc = "todo"

Eval == /\ pc = "todo" /\ pc' = "done"
        /\ out' = Expected(op, left, right)
        /\ UNCHANGED <<op, rk, left, right>>

Next == Eval
Spec == Init /\ [][Next]_vars

-----------------------------------------------------------------------------
Evaluated == pc = "done"
Cells == DOMAIN left

(* an error is the non-negative root of e2: e2 itself can never be negative, and
   it is in lowest terms with a positive denominator *)
WellFormed ==
   Evaluated => /\ DOMAIN out = DOMAIN left
                /\ \A c \in Cells : /\ out[c].e2[1] >= 0 /\ out[c].e2[2] > 0 /\ out[c].v[2] > 0
                                    /\ Norm(out[c].e2) = out[c].e2 /\ Norm(out[c].v) = out[c].v

(* "quadratic sum of absolute errors for sums and differences" *)
AbsoluteQuadrature ==
   Evaluated /\ op \in {"add", "sub"} => \A c \in Cells : out[c].e2 = RAdd(left[c].e2, right[c].e2)

(* "... of relative errors for products and quotients": (e/v)^2 = (ea/va)^2 + (eb/vb)^2
   wherever the three values are non-zero *)
RelativeQuadrature ==
   Evaluated /\ op \in {"mul", "div"} =>
      \A c \in Cells : (~IsZero(left[c].v) /\ ~IsZero(right[c].v)) =>
         RDiv(out[c].e2, RSq(out[c].v)) = RAdd(RDiv(left[c].e2, RSq(left[c].v)), RDiv(right[c].e2, RSq(right[c].v)))

(* "a constant factor scales the error by its magnitude": e2 = |c|^2 * ea2 for a
   product, ea2 / |c|^2 for a quotient, the same for c and -c; a constant term
   leaves the error alone *)
ConstantFactor ==
   Evaluated /\ rk \in {"array", "scalar"} =>
      \A c \in Cells :
         LET k == right[c].v  m == [v |-> RNeg(k), e2 |-> RInt(0)] IN
         /\ op \in {"add", "sub"} => out[c].e2 = left[c].e2
         /\ op = "mul" => out[c].e2 = RMul(RSq(RAbs(k)), left[c].e2)
         /\ op = "div" => out[c].e2 = RDiv(left[c].e2, RSq(RAbs(k)))
         /\ out[c].e2 = ErrSq(op, left[c], m)

(* algebra the plain array operations obey *)
Algebra ==
   Evaluated => \A c \in Cells :
      LET l == left[c] r == right[c] IN
      /\ op \in {"add", "mul"} => Cell(op, r, l) = out[c]
      /\ op = "sub" => out[c] = Cell("add", l, [v |-> RNeg(r.v), e2 |-> r.e2])
      /\ (op = "div" /\ rk \in {"array", "scalar"}) => out[c] = Cell("mul", l, [v |-> RInv(r.v), e2 |-> RInt(0)])
      /\ (op = "div" /\ ~IsZero(l.v)) => RMul(out[c].v, r.v) = l.v

(* witnesses (negated reachability): TLC must find them violated *)
W_NegFactor  == ~(Evaluated /\ rk = "scalar" /\ op = "mul" /\ right[1].v[1] < 0 /\ left[1].e2[1] > 0)
W_NegDivisor == ~(Evaluated /\ rk = "array" /\ op = "div" /\ right[1].v[1] < 0 /\ left[1].e2[1] > 0)
W_ZeroValue  == ~(Evaluated /\ rk = "ds" /\ op = "mul" /\ IsZero(left[1].v) /\ out[1].e2[1] > 0)
W_Fraction   == ~(Evaluated /\ \E c \in Cells : out[c].v[2] > 1 /\ out[c].e2[2] > 1)
=============================================================================
