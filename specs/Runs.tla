-------------------------------- MODULE Runs --------------------------------
(* C04 -- histories of runs of a job on the environment persisted by earlier
   runs (read_env -> Scheduler.schedule -> write_env), with faults between
   runs: a task starts failing / recovers, loses its persisted environment, is
   newly added to the job.

   One run is modelled at the grain that matters for what is carried from run
   to run: the master's passes over the tasks in topological order with the
   decision function of the backend (same as Sched!Decision, here on concrete
   logical clocks), and the execution of a queued task as one step (its
   interleaving with other executions is the business of Sched / C01-C03; the
   only clock comparisons the scheduler makes are between a task and its
   dependencies, and a task starts after its dependencies ended).

   Persistence follows write_env / read_env / merge_done_tasks: at the end of a
   run every entry that carries an output directory is written, whatever its
   status; at the start of a run only DONE entries are merged.
*)
EXTENDS Integers, Sequences, FiniteSets, TLC

CONSTANTS N, MaxRuns, MaxFaults, Configs, Behs

Tasks    == 1 .. N
DagPairs == {p \in Tasks \X Tasks : p[2] < p[1]}
Kinds    == {"none", "hard", "soft"}
NoEntry  == [st |-> "ABSENT", ver |-> 0, s |-> -1, e |-> -1, od |-> FALSE]

AllConfigs(dirs) == {[kind |-> kd, hasdir |-> h, present |-> p] :
                        kd \in [DagPairs -> Kinds], h \in [Tasks -> dirs], p \in [Tasks -> BOOLEAN]}

VARIABLES kind, hasdir,                      \* configuration
          present, beh,                      \* the job as it is now: tasks in it, how each task behaves
          file, env,                         \* persisted entries / environment of the run in progress
          clock, run, phase,
          left, idx, newleft, nbefore, mwait, npend, ready,     \* the master's passes, pending notification, queued tasks
          faults,
          execd, wasDone, envAtStart         \* history of the current run
vars == <<kind, hasdir, present, beh, file, env, clock, run, phase, left, idx, newleft, nbefore, mwait, npend, ready,
          faults, execd, wasDone, envAtStart>>

Edge(t, d)  == d < t /\ kind[<<t, d>>] # "none"
AllDeps(t)  == {d \in Tasks : Edge(t, d)}
Deps(t)     == {d \in AllDeps(t) : present[d]}
Hard(t)     == {d \in Deps(t) : kind[<<t, d>>] = "hard"}
RECURSIVE TransDeps(_)
TransDeps(t) == Deps(t) \cup UNION {TransDeps(d) : d \in Deps(t)}
Closed(p)   == \A t \in Tasks : p[t] => \A d \in AllDeps(t) : p[d]

SeqOf(S) == LET RECURSIVE Build(_, _)
                Build(i, acc) == IF i > N THEN acc ELSE Build(i + 1, IF i \in S THEN Append(acc, i) ELSE acc)
            IN Build(1, <<>>)

Init ==
   /\ \E c \in Configs : kind = c.kind /\ hasdir = c.hasdir /\ present = c.present
   /\ Closed(present) /\ \E t \in Tasks : present[t]
   /\ beh \in [Tasks -> Behs]
   /\ file = [t \in Tasks |-> NoEntry] /\ env = [t \in Tasks |-> NoEntry]
   /\ clock = 0 /\ run = 0 /\ phase = "idle"
   /\ left = <<>> /\ idx = 0 /\ newleft = <<>> /\ nbefore = 0 /\ mwait = FALSE /\ npend = FALSE /\ ready = {}
   /\ faults = 0
   /\ execd = [t \in Tasks |-> 0] /\ wasDone = [t \in Tasks |-> FALSE] /\ envAtStart = env

-----------------------------------------------------------------------------
(* the orders in which the master may walk through the tasks of the job: the linear extensions of the full graph
   (the topological sort of the implementation returns one of them, depending on how the job lists its tasks) *)
JobOrders == LET J == {t \in Tasks : present[t]}  n == Cardinality(J) IN
             {o \in [1 .. n -> J] : /\ \A p, q \in 1 .. n : p # q => o[p] # o[q]
                                    /\ \A p, q \in 1 .. n : p < q => ~Edge(o[p], o[q])}

(* read_env: only DONE entries of tasks of the job are merged *)
StartRun(ord) ==
   /\ phase \in {"idle", "ended", "between"} /\ run < MaxRuns
   /\ run' = run + 1 /\ phase' = "running"
   /\ LET e0 == [t \in Tasks |-> IF present[t] /\ file[t].st = "DONE" THEN file[t] ELSE NoEntry] IN
      /\ env' = e0 /\ envAtStart' = e0
      /\ wasDone' = [t \in Tasks |-> e0[t].st = "DONE"]
   /\ left' = ord /\ idx' = 1 /\ newleft' = <<>>
   /\ nbefore' = Cardinality({t \in Tasks : present[t]}) /\ mwait' = FALSE /\ npend' = FALSE /\ ready' = {}
   /\ execd' = [t \in Tasks |-> 0]
   /\ UNCHANGED <<kind, hasdir, present, beh, file, clock, faults>>

Blocking(d) == env[d].st \in {"ABSENT", "PENDING", "WAITING"}
BadHard(t)  == \E d \in Hard(t) : env[d].st \in {"FAILED", "SKIPPED"}
Ends(t)     == {env[d].e : d \in {x \in Deps(t) : env[x].e # -1}}
(* intended reading of "newer than all its dependencies": dependencies that never ran have no end clock
   and cannot be newer *)
UpToDate(t) == Ends(t) = {} \/ (env[t].s # -1 /\ \A e \in Ends(t) : e <= env[t].s)
Decision(t) == IF \E d \in Deps(t) : Blocking(d)            THEN "WAITING"
               ELSE IF BadHard(t)                            THEN "SKIPPED"
               ELSE IF env[t].st = "DONE"                    THEN (IF UpToDate(t) THEN "DROP" ELSE "PENDING")
               ELSE "PENDING"

(* the master holds the condition variable during a whole pass: a worker that finishes meanwhile can only
   notify once the master has released it, i.e. when the master waits (then it is woken at once) or after a
   pass that made progress (then the notification finds nobody waiting and is lost, harmlessly) *)
Advance(nl) ==
   IF idx < Len(left)
   THEN idx' = idx + 1 /\ newleft' = nl /\ UNCHANGED <<left, nbefore, mwait, npend>>
   ELSE /\ left' = nl /\ newleft' = <<>> /\ npend' = FALSE
        /\ IF nl = <<>> THEN idx' = 0 /\ mwait' = FALSE /\ nbefore' = 0
           ELSE /\ idx' = 1 /\ nbefore' = Len(nl)
                /\ mwait' = (Len(nl) = nbefore /\ ~npend)

MDecide ==
   /\ phase = "running" /\ ~mwait /\ idx \in 1 .. Len(left)
   /\ LET t == left[idx] d == Decision(t) IN
      CASE d = "PENDING" -> /\ env' = [env EXCEPT ![t].st = "PENDING"] /\ ready' = ready \cup {t} /\ Advance(newleft)
        [] d = "WAITING" -> /\ env' = [env EXCEPT ![t].st = "WAITING"] /\ ready' = ready /\ Advance(Append(newleft, t))
        [] d = "SKIPPED" -> /\ env' = [env EXCEPT ![t].st = "SKIPPED"] /\ ready' = ready /\ Advance(newleft)
        [] d = "DROP"    -> /\ env' = env /\ ready' = ready /\ Advance(newleft)
   /\ UNCHANGED <<kind, hasdir, present, beh, file, clock, run, phase, faults, execd, wasDone, envAtStart>>

(* a worker executes a queued task and publishes its outcome; s, e are its clocks *)
Exec(t, s, e) ==
   /\ phase = "running" /\ t \in ready /\ s < e
   /\ ready' = ready \ {t} /\ mwait' = FALSE /\ npend' = ~mwait
   /\ clock' = IF e > clock THEN e ELSE clock
   /\ execd' = [execd EXCEPT ![t] = @ + 1]
   /\ env' = [env EXCEPT ![t] =
                 IF beh[t] = "raise" THEN [@ EXCEPT !.st = "FAILED", !.s = s, !.e = e]
                 ELSE [st |-> IF beh[t] = "ok" THEN "DONE" ELSE "FAILED", ver |-> run, s |-> s, e |-> e, od |-> hasdir[t]]]
   /\ UNCHANGED <<kind, hasdir, present, beh, file, run, phase, left, idx, newleft, nbefore, faults, wasDone, envAtStart>>

(* write_env: every entry carrying an output directory is written, whatever its status *)
EndRun ==
   /\ phase = "running" /\ left = <<>> /\ idx = 0 /\ ready = {}
   /\ phase' = "ended"
   /\ file' = [t \in Tasks |-> IF env[t].od THEN env[t] ELSE file[t]]
   /\ UNCHANGED <<kind, hasdir, present, beh, env, clock, run, left, idx, newleft, nbefore, mwait, npend, ready, faults,
                  execd, wasDone, envAtStart>>

(* faults between runs *)
Between == phase \in {"ended", "between"} /\ faults < MaxFaults /\ run < MaxRuns
Flip(t, b) == /\ Between /\ present[t] /\ b # beh[t] /\ beh' = [beh EXCEPT ![t] = b] /\ faults' = faults + 1
              /\ UNCHANGED <<kind, hasdir, present, file, env, clock, run, left, idx, newleft, nbefore, mwait, npend, ready,
                             execd, wasDone, envAtStart>> /\ phase' = "between"
Lose(t)    == /\ Between /\ file[t].st # "ABSENT" /\ file' = [file EXCEPT ![t] = NoEntry] /\ faults' = faults + 1
              /\ UNCHANGED <<kind, hasdir, present, beh, env, clock, run, left, idx, newleft, nbefore, mwait, npend, ready,
                             execd, wasDone, envAtStart>> /\ phase' = "between"
Add(t)     == /\ Between /\ ~present[t] /\ (\A d \in AllDeps(t) : present[d])
              /\ present' = [present EXCEPT ![t] = TRUE] /\ faults' = faults + 1
              /\ UNCHANGED <<kind, hasdir, beh, file, env, clock, run, left, idx, newleft, nbefore, mwait, npend, ready,
                             execd, wasDone, envAtStart>> /\ phase' = "between"

Finished == phase \in {"ended", "between"} /\ (run = MaxRuns \/ faults = MaxFaults) /\ UNCHANGED vars

StartAny == \E ord \in JobOrders : StartRun(ord)
Next == \/ StartAny \/ MDecide \/ EndRun \/ Finished
        \/ \E t \in Tasks : Exec(t, clock + 1, clock + 2)
        \/ \E t \in Tasks : Lose(t) \/ Add(t) \/ \E b \in Behs : Flip(t, b)
Spec == Init /\ [][Next]_vars

-----------------------------------------------------------------------------
Ended == phase = "ended"
Job   == {t \in Tasks : present[t]}

C04_AllFinal == Ended => \A t \in Job : env[t].st \in {"DONE", "FAILED", "SKIPPED"}

(* no task is reported DONE unless every DONE task it depends on finished before it started and none of its
   hard dependencies is FAILED or SKIPPED *)
C04_Fresh ==
   Ended => \A t \in Job : env[t].st = "DONE" =>
      /\ \A d \in Deps(t) : env[d].st = "DONE" => env[d].e <= env[t].s
      /\ \A d \in Hard(t) : env[d].st \notin {"FAILED", "SKIPPED"}

(* a task that was DONE and whose transitive dependencies were all DONE and are not re-executed is not executed
   again and its recorded results are left untouched *)
Settled(t) == wasDone[t] /\ \A d \in TransDeps(t) : wasDone[d] /\ execd[d] = 0
C04_NoNeedlessRerun ==
   Ended => \A t \in Job : Settled(t) => execd[t] = 0 /\ env[t] = envAtStart[t]

C04_AtMostOnce == \A t \in Tasks : execd[t] <= 1

(* what is on disk never claims more than what happened: a DONE file was produced by a successful execution *)
C04_FilesHonest == \A t \in Tasks : file[t].st = "DONE" => file[t].ver >= 1 /\ file[t].e # -1

(* witnesses *)
W_HeadRerunTailDone == ~(phase = "running" /\ run >= 2 /\ \E t, d \in Job : d \in Deps(t) /\ execd[d] > 0
                           /\ envAtStart[t].st = "DONE" /\ env[t].st = "DONE" /\ execd[t] = 0)
W_Dropped           == ~(Ended /\ run >= 2 /\ \E t \in Job : wasDone[t] /\ execd[t] = 0 /\ Deps(t) # {})
W_SkippedAfterDone  == ~(Ended /\ \E t \in Job : wasDone[t] /\ env[t].st = "SKIPPED")
W_Added             == ~(Ended /\ run >= 2 /\ faults > 0 /\ \E t \in Job : ~wasDone[t] /\ \E u \in Job : t \in Deps(u) /\ wasDone[u])
=============================================================================
