---------------------------- MODULE ObserveTrace ----------------------------
(* Code -> spec direction for C13.  A trace is recorded from the real code:
   a result of kind `kind` is obtained (`origin`: evaluate() / direct
   construction with default optional arguments / unpickled) on inputs that
   should (good) or should not pass, then read-only operations are applied; after the
   evaluation and after every operation the harness records the abstract
   state of the live result (verdict, digest number of the recorded
   statistics, digest number of the inputs; number 0 = for the statistics the
   value right after the evaluation, for the inputs the value they had BEFORE
   the test was constructed and evaluated: the evaluation must not edit what
   it was given) and of the last duplicate produced by copy / pickle / reeval.

   TLC walks every trace event by event as a behaviour of Observe: the
   variables of Observe are set to what was observed and each step is judged
   with Observe's own actions and invariants (Evaluate / Read(o),
   Deterministic, VerdictIsTruth).  Every rejected event is collected as
   <<trace id, event index, clause>>. *)
EXTENDS Integers, Sequences, FiniteSets, TLC, Json, IOUtils

Traces == JsonDeserialize(IOEnv.VERIF_CASES)
NTraces == Len(Traces)

Kinds == {"equal", "approx", "student", "bonferroni", "holm", "chi2", "metadata",
          "stats-tasks", "stats-tests", "stats-bylabels", "failed", "external"}
Origins == {"evaluate", "direct", "unpickled"}
AlwaysBad == {"failed"}
PlainOps == {"bool", "oracles", "counts", "data", "fingerprint", "copy", "pickle", "reeval", "sibling"}
VerbOps == {"table", "plot", "full", "rst", "draw"}
Verbs == 0 .. 5
MaxLen == 100000
VARIABLES kind, origin, good, pc, abs, dup, hist
O == INSTANCE Observe

VARIABLES t, e, bad
tvars == <<kind, origin, good, pc, abs, dup, hist, t, e, bad>>

Digest(what, c, n) == IF n = 0 THEN <<what, c.kind, c.origin, c.good>> ELSE <<"changed-" \o what, ToString(n), c.origin, c.good>>
ObsAbs(c, ev) == [verdict |-> ev.verdict, stats |-> Digest("stats", c, ev.stats), data |-> Digest("data", c, ev.data)]
ObsDup(c, ev) == [verdict |-> ev.dupVerdict, stats |-> Digest("stats", c, ev.dupStats), data |-> Digest("data", c, ev.dupData)]
OpOf(ev) == [op |-> ev.op, verb |-> ev.verb]

TInit == /\ t = 1 /\ e = 0 /\ bad = {}
         /\ kind = "" /\ origin = "" /\ good = FALSE /\ pc = "new" /\ abs = O!Unset /\ dup = O!Unset /\ hist = <<>>

(* start of trace t: a result that is not evaluated yet *)
Reset == /\ e = 0 /\ t <= NTraces
         /\ kind' = Traces[t].kind /\ origin' = Traces[t].origin /\ good' = Traces[t].good
         /\ pc' = "new" /\ abs' = O!Unset /\ dup' = O!Unset /\ hist' = <<>>
         /\ e' = 1 /\ UNCHANGED <<t, bad>>

Event == /\ e > 0 /\ t <= NTraces
         /\ LET c == Traces[t]  ev == c.events[e]  last == (e = Len(c.events)) IN
            /\ kind' = kind /\ origin' = origin /\ good' = good /\ pc' = "ready"
            /\ abs' = ObsAbs(c, ev) /\ dup' = ObsDup(c, ev)
            /\ hist' = IF ev.op = "evaluate" THEN hist ELSE Append(hist, OpOf(ev))
            /\ LET legal == IF ev.op = "evaluate" THEN O!Evaluate
                            ELSE OpOf(ev) \in O!Ops /\ O!Read(OpOf(ev))
                   clauses == (IF legal THEN {} ELSE {"step"})
                              \cup (IF O!Deterministic' THEN {} ELSE {"deterministic"})
                              \cup (IF O!VerdictIsTruth' THEN {} ELSE {"verdict"})
               IN bad' = bad \cup {<<c.id, e, w>> : w \in clauses}
            /\ e' = IF last THEN 0 ELSE e + 1
            /\ t' = IF last THEN t + 1 ELSE t
            /\ (last /\ t = NTraces => TLCSet(1, bad'))

TNext == Reset \/ Event
TSpec == TInit /\ [][TNext]_tvars

CONSTANT NSteps    \* total number of Reset and Event steps of the batch (computed by the harness)
Post == /\ TLCGet("stats").diameter = NSteps + 1
        /\ JsonSerialize(IOEnv.VERIF_OUT, [bad |-> TLCGet(1)])
=============================================================================
