--------------------------- MODULE PipelineTrace ---------------------------
(* Code -> spec for Pipeline: recorded executions of the real `valjean run` path (universe + command line + what
   was observed after every round).  The universe of a trace is loaded into the variables of Pipeline, the
   machine of Pipeline is run to its end (it is deterministic once the universe is fixed) and the log it produces
   is compared, clause by clause, with the observation.  Total verdict: per trace the set of <<round, clause>>
   on which the implementation disagrees with the specification.  N is the largest universe (smaller ones are
   padded by the harness with isolated tasks that job() never returns). *)
EXTENDS Pipeline, Json, IOUtils

Traces  == JsonDeserialize(IOEnv.VERIF_TRACES)
NTraces == Len(Traces)
VARIABLE tid
tvars == <<vars, tid>>

ToSet(s) == {s[i] : i \in DOMAIN s}
SeqOf(x) == [k \in 1 .. Len(x) |-> x[k]]
DepOf(u) == [p \in Pairs |-> IF \E i \in DOMAIN u.dep : u.dep[i].t = p[1] /\ u.dep[i].d = p[2]
                             THEN u.dep[CHOOSE i \in DOMAIN u.dep : u.dep[i].t = p[1] /\ u.dep[i].d = p[2]].k
                             ELSE "none"]

TInit == /\ tid \in 1 .. NTraces
         /\ LET u == Traces[tid].u IN
            /\ dep = DepOf(u) /\ name = SeqOf(u.name) /\ kind = SeqOf(u.kind) /\ form = u.form /\ job = SeqOf(u.job)
            /\ rerun = u.rerun /\ pos = u.pos /\ ktoks = [i \in 1 .. Len(u.ktoks) |-> SeqOf(u.ktoks[i])]
            /\ workers = u.workers /\ envfile = u.envfile /\ file = u.file
         /\ run = Run0 /\ round = 1 /\ ffExists = FALSE /\ ffNames = {} /\ disk = {} /\ log = <<>>
         /\ TLCSet(tid, {<<0, "unjudged">>})

(* strings: the atoms joined, "S" being the selection string of the trace *)
RECURSIVE Join(_, _)
Join(atoms, sel) == IF atoms = <<>> THEN ""
                    ELSE (IF Head(atoms) = "S" THEN sel ELSE Head(atoms)) \o Join(Tail(atoms), sel)

NoRep(s) == Len(s) = Cardinality(ToSet(s))
Edges(s) == {<<s[i][1], s[i][2]>> : i \in DOMAIN s}
DiskOf(s) == {[name |-> s[i].name, file |-> s[i].file, status |-> s[i].status] : i \in DOMAIN s}

(* m: a record of the log of Pipeline, o: the observation of the same round *)
Clauses(m, o, sel) ==
   IF o.err # m.err THEN {"outcome/expected-" \o (IF m.err = "" THEN "success" ELSE m.err)}
   ELSE IF m.err # "" THEN
      {c \in {"dup-message", "mismatch-message", "clean-after-error"} :
         CASE c = "dup-message"       -> m.err = "dupnames" /\ ToSet(o.dups) # m.dups
           [] c = "mismatch-message"  -> m.err = "mismatch" /\ ~o.msgok
           [] c = "clean-after-error" -> o.executed # <<>> \/ o.disk # <<>> \/ o.ffExists}
   ELSE
      {c \in {"job-file", "job-args", "returned", "closure", "collected-once", "hard-graph-nodes", "hard-graph-edges",
              "soft-graph-nodes", "soft-graph-edges", "read-env", "env-entries", "final-status", "executed",
              "failed-file", "env-files"} :
         CASE c = "job-file"         -> o.jobfile # "own"
           [] c = "job-args"         -> \/ o.received.sel # Join(m.received.sel, sel)
                                        \/ o.received.tag # Join(m.received.tag, sel)
                                        \/ o.received.key # Join(m.received.key, sel)
           [] c = "returned"         -> SeqOf(o.returned) # m.returned
           [] c = "closure"          -> ToSet(o.collected) # m.collected
           [] c = "collected-once"   -> ~NoRep(o.collected)
           [] c = "hard-graph-nodes" -> ToSet(o.hnodes) # m.hnodes \/ ~NoRep(o.hnodes)
           [] c = "hard-graph-edges" -> Edges(o.hedges) # m.hedges
           [] c = "soft-graph-nodes" -> ToSet(o.snodes) # m.snodes \/ ~NoRep(o.snodes)
           [] c = "soft-graph-edges" -> Edges(o.sedges) # m.sedges
           [] c = "read-env"         -> ToSet(o.env0) # m.env0
           [] c = "env-entries"      -> ToSet(o.done) \cup ToSet(o.failedS) \cup ToSet(o.skipped) \cup ToSet(o.nonfinal)
                                           # m.done \cup m.failedS \cup m.skipped
           [] c = "final-status"     -> \/ o.nonfinal # <<>> \/ ToSet(o.done) # m.done
                                        \/ ToSet(o.failedS) # m.failedS \/ ToSet(o.skipped) # m.skipped
           [] c = "executed"         -> ~(m.executed \subseteq ToSet(o.executed) /\ ToSet(o.executed) \subseteq m.mayexec) \/ ~NoRep(o.executed)
           [] c = "failed-file"      -> \/ o.ffExists # m.ffExists
                                        \/ m.ffExists /\ (ToSet(o.ffLines) # m.ffNames \/ ~NoRep(o.ffLines))
           [] c = "env-files"        -> DiskOf(o.disk) # m.disk \/ o.diskbad > 0}

Min2(a, b) == IF a < b THEN a ELSE b
Verdict(lg, obs, sel) ==
   (IF Len(lg) # Len(obs) THEN {<<0, "rounds">>} ELSE {})
   \cup UNION {{<<r, c>> : c \in Clauses(lg[r], obs[r], sel)} : r \in 1 .. Min2(Len(lg), Len(obs))}

TNext == /\ Next
         /\ tid' = tid
         /\ (run'.stage = "end" => TLCSet(tid, Verdict(log', Traces[tid].obs, Traces[tid].u.selstr)))
TSpec == TInit /\ [][TNext]_tvars
Post == JsonSerialize(IOEnv.VERIF_OUT, [verdict |-> [t \in 1 .. NTraces |-> TLCGet(t)]])
=============================================================================
