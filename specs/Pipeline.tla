------------------------------ MODULE Pipeline ------------------------------
(* `valjean run JOB_FILE [JOB_ARG ..] [-k NAME=VALUE ..] [-j N] [--env-filename F]`: the path from a job file to
   the scheduled graphs and back to disk.  Extra module (outside the twenty listed properties): a disagreement of
   the implementation with this specification is an OBSERVATION.

   Sentences modelled (docstrings of valjean, and the obvious reading of the API where they are silent):
   * cambronne.common.run_job: "Run the job() function from the specified job file and return its result";
     job_args "the list of arguments to be passed to the job() function", job_kwargs "a dictionary of keyword
     arguments for job()"; an argument mismatch raises TypeError "argument mismatch to job() function" with the
     signature and the docstring of job(); a TypeError raised for another reason is passed on unchanged; a job
     file that cannot be found is fatal ("Cannot find job file", exit status 1).
   * dyn_import.dyn_import: "Load a Python module from the given file name" -- the module loaded is the one
     defined by THAT file, whatever its stem and whatever was imported before.
   * JobCommand.register / DictKwargAction: "-k NAME=VALUE ... keyword arguments that will be passed to the job()
     function; may be specified multiple times"; "parses arguments as key=value pairs" (split at the first "=";
     no "=" : ValueError "cannot parse -k argument"); JOB_ARG "positional arguments that will be passed to job()".
   * cosette.task.close_dependency_graph: "Return the tasks along with all their dependencies ... their
     dependencies, the dependencies of their dependencies and so on" (hard and soft); Task.__init__: deps /
     soft_deps are None or a list (tuple, set) of tasks, anything else TypeError; add_dependency adds a hard one.
   * common.check_unique_task_names: "raises ValueError if two or more tasks have the same name" ("the following
     task names appear more than once"); collect_tasks: "Collect tasks from a job file, along with all their
     dependencies"; Task: "Task names must be unique!".
   * common.build_graphs: "Build the dependency graphs" -- a hard and a soft graph over the collected tasks
     ("both graphs contain the same nodes").
   * cosette.task (module docstring): A "cannot run unless B has successfully completed" (hard), "it makes sense
     to run A even if B fails" (soft).  The scheduler itself is Sched.tla; here it is one abstract step.
   * RunCommand.task_diagnostics / write_failed_tasks: "If any tasks have failed, this method writes their names
     in a file called 'failed_tasks' in the log directory" (the file is log-root/failed-tasks, one name per line).
   * common.write_env: "one file per task ... the directory is the output directory ('output_dir' key) of the
     task.  If the task does not have an 'output_dir' key, serialization for that task will be skipped";
     common.read_env: "created from the partial environments that were serialized for the given task names".
     (Depth of read_env / write_env / up-to-date rule: Persist.tla, Runs.tla.)

   The universe is N task objects 1 .. N; task t may depend (hard, soft or both) only on tasks with a smaller
   number, so every universe is acyclic.  name[t] is a number too (the harness writes "n<k>"): two distinct
   task objects may carry the same name.  kind[t] is the task's own behaviour:
      "ok"  DONE, result has an output_dir      "ok0"  DONE, no output_dir
      "ko"  FAILED, result has an output_dir    "raise" raises (FAILED, no result)
   The job file defines `job(sel, tag='T', *, key='K')` which builds the whole universe and returns the sub-list
   selected by `sel`; `job` below is that sub-list (repetitions allowed).  form says how dependencies are handed
   to Task.__init__ (list, tuple, set, add_dependency(), or a generator, which is not a collection).
   Strings handled by the command line are sequences of atoms ("key", "=", "v1" ..): the atom "S" stands for the
   selection string.

   * RunCommand.register: "-j: number of workers to use in parallel" -- the outcome does not depend on it (N >= 1;
     -j 0 is not modelled: nobody would execute the tasks, coming back is C03 / Sched.tla).

   One action per stage; a round is one execution of `valjean run`; rerun # "no" runs the same command a second
   time on the same directories (with the same or with another --env-filename). *)
EXTENDS Integers, Sequences, FiniteSets, TLC

CONSTANTS N,          \* number of task objects
          DepKinds,   \* subset of {"none", "hard", "soft", "both"}
          Kinds,      \* subset of {"ok", "ok0", "ko", "raise"}
          Forms,      \* subset of {"list", "tuple", "set", "add", "gen"}
          Reruns,     \* subset of {"no", "same", "other"}
          MaxJob,     \* length bound of the list job() returns
          KwTokens,   \* -k arguments (sequences of atoms)
          MaxKw,      \* number of -k options
          PosArgs,    \* subset of 0 .. 3: number of JOB_ARG given (the first one is the selection)
          Workers,    \* subset of Nat: -j (0 = option absent)
          EnvFiles,   \* subset of {"default", "alt"}: --env-filename of the first round
          Files,      \* subset of {"plain", "clash", "twin", "missing"}
          WG, WC, WT, \* bounds on the number of deviations from the plainest run (graph side, command-line side, total)
          CloseSoft   \* TRUE = as documented; FALSE = deliberately wrong variant (negative self-test)

VARIABLES dep, name, kind, form, job, rerun,          \* the universe and what job() returns
          pos, ktoks, workers, envfile, file,         \* the command line
          run, round,                                 \* the round in progress
          ffExists, ffNames, disk,                    \* log-root/failed-tasks and the environment files under output-root
          log                                         \* observable outcome of the finished rounds

uvars == <<dep, name, kind, form, job, rerun, pos, ktoks, workers, envfile, file>>
vars  == <<uvars, run, round, ffExists, ffNames, disk, log>>

Tasks == 1 .. N
Pairs == {p \in Tasks \X Tasks : p[2] < p[1]}          \* <<t, d>>: t may depend on d
HardOf(t) == {d \in Tasks : d < t /\ dep[<<t, d>>] \in {"hard", "both"}}
SoftOf(t) == {d \in Tasks : d < t /\ dep[<<t, d>>] \in {"soft", "both"}}
Range(s) == {s[i] : i \in DOMAIN s}
Own(k)    == IF k \in {"ok", "ok0"} THEN "DONE" ELSE "FAILED"
HasDir(k) == k \in {"ok", "ko"}
Final == {"DONE", "FAILED", "SKIPPED"}

-----------------------------------------------------------------------------
(* command line: -k NAME=VALUE and the call of job(sel, tag='T', *, key='K') *)

HasEq(tok)    == \E i \in DOMAIN tok : tok[i] = "="
FirstEq(tok)  == CHOOSE i \in DOMAIN tok : tok[i] = "=" /\ \A j \in 1 .. i - 1 : tok[j] # "="
KeyAtoms(tok) == SubSeq(tok, 1, FirstEq(tok) - 1)
ValAtoms(tok) == SubSeq(tok, FirstEq(tok) + 1, Len(tok))
KwParseOK(toks) == \A i \in DOMAIN toks : HasEq(toks[i])
(* the dictionary as a set of [k, v]; a later NAME replaces an earlier one *)
RECURSIVE KwFold(_, _)
KwFold(toks, acc) == IF toks = <<>> THEN acc
                     ELSE LET k == KeyAtoms(Head(toks)) IN
                          KwFold(Tail(toks), {e \in acc : e.k # k} \cup {[k |-> k, v |-> ValAtoms(Head(toks))]})
KwKeys(kw)   == {e.k : e \in kw}
KwVal(kw, k) == (CHOOSE e \in kw : e.k = k).v

Params  == {<<"sel">>, <<"tag">>, <<"key">>}
PosVals == <<<<"S">>, <<"p1">>, <<"p2">>>>       \* JOB_ARG 1, 2, 3 as given on the command line
(* Python's binding of positional and keyword arguments to this signature *)
Mismatch(p, kw) == \/ p > 2
                   \/ ~(KwKeys(kw) \subseteq Params)
                   \/ p >= 1 /\ <<"sel">> \in KwKeys(kw)
                   \/ p >= 2 /\ <<"tag">> \in KwKeys(kw)
                   \/ p = 0 /\ <<"sel">> \notin KwKeys(kw)
Bound(p, kw) == [sel |-> IF p >= 1 THEN PosVals[1] ELSE KwVal(kw, <<"sel">>),
                 tag |-> IF p >= 2 THEN PosVals[2] ELSE IF <<"tag">> \in KwKeys(kw) THEN KwVal(kw, <<"tag">>) ELSE <<"T">>,
                 key |-> IF <<"key">> \in KwKeys(kw) THEN KwVal(kw, <<"key">>) ELSE <<"K">>]
NoRecv == [sel |-> <<>>, tag |-> <<>>, key |-> <<>>]

-----------------------------------------------------------------------------
(* collection: the frontier loop of close_dependency_graph *)

DepsForClose(t) == HardOf(t) \cup (IF CloseSoft THEN SoftOf(t) ELSE {})
RECURSIVE Grow(_, _)
Grow(all, frontier) == IF frontier = {} THEN all
                       ELSE LET nxt == UNION {DepsForClose(t) : t \in frontier} IN Grow(all \cup nxt, nxt)
Dups(S) == {n \in {name[t] : t \in S} : Cardinality({t \in S : name[t] = n}) >= 2}

(* scheduling, abstractly: a task is SKIPPED iff a hard dependency did not end DONE, otherwise it ends as it behaves.
   Execution: a task that is not SKIPPED is executed unless it was read back as DONE; a task read back as DONE is
   executed again when one of its dependencies is (Ex: the tasks that must be executed).  The up-to-date rule itself
   belongs to Runs.tla (C04); as there, a task read back as DONE that has to wait for a dependency which was not read
   back may lose its DONE mark and be executed again even if that dependency ends SKIPPED -- whether it does depends
   on the interleaving of master and workers (MayEx: the tasks that may be executed). *)
St[i \in Tasks] == IF \E d \in HardOf(i) : St[d] # "DONE" THEN "SKIPPED" ELSE Own(kind[i])
Ex[i \in Tasks] == St[i] # "SKIPPED" /\ (i \notin run.env0 \/ \E d \in HardOf(i) \cup SoftOf(i) : Ex[d])
MayEx[i \in Tasks] == St[i] # "SKIPPED" /\ (i \notin run.env0 \/ \E d \in HardOf(i) \cup SoftOf(i) : d \notin run.env0 \/ MayEx[d])

OtherFile(f) == IF f = "default" THEN "alt" ELSE "default"
CurFile == IF round = 1 \/ rerun = "same" THEN envfile ELSE OtherFile(envfile)

-----------------------------------------------------------------------------
Run0 == [stage |-> "parse", err |-> "", kwargs |-> {}, received |-> NoRecv, returned |-> <<>>, collected |-> {},
         dups |-> {}, hnodes |-> {}, hedges |-> {}, snodes |-> {}, sedges |-> {}, env0 |-> {},
         status |-> [t \in Tasks |-> "NONE"], executed |-> {}, mayexec |-> {}]

(* the plainest run: no dependency, distinct names, every task "ok", job() returns the last task, one JOB_ARG,
   nothing else.  Init takes every run that deviates from it in at most WG (graph) / WC (command line) / WT places *)
B(b) == IF b THEN 1 ELSE 0
Weight(f, dflt) == Cardinality({x \in DOMAIN f : f[x] # dflt})
LowWeight(Dom, dflt, Others, w) ==
   UNION {{[x \in Dom |-> IF x \in S THEN g[x] ELSE dflt] : g \in [S -> Others]} : S \in {T \in SUBSET Dom : Cardinality(T) <= w}}
(* name maps, one per partition of the tasks: a task either has a name of its own (its number) or the name of an
   earlier task that has its own; at most w tasks of the second sort *)
NameMaps(w) == UNION {{[i \in Tasks |-> IF i \in S THEN g[i] ELSE i] : g \in {h \in [S -> Tasks] : \A i \in S : h[i] < i /\ h[i] \notin S}} :
                        S \in {T \in SUBSET Tasks : Cardinality(T) <= w}}
WName(f) == Cardinality({i \in Tasks : f[i] # i})
Jobs     == UNION {[1 .. k -> Tasks] : k \in 0 .. MaxJob}
WJob(j)  == IF Len(j) = 0 THEN 1 ELSE (Len(j) - 1) + (N - j[1])
KwSeqs   == UNION {[1 .. k -> KwTokens] : k \in 0 .. MaxKw}
G1 == Weight(dep, "none")
G2 == G1 + WName(name)
G3 == G2 + Weight(kind, "ok")
G4 == G3 + WJob(job)
G5 == G4 + B(form # "list")
G6 == G5 + B(rerun # "no")
C1 == B(pos # 1)
C2 == C1 + Len(ktoks)
C3 == C2 + B(workers # 0)
C4 == C3 + B(envfile # "default")
C5 == C4 + B(file # "plain")
CB == IF WC < WT - G6 THEN WC ELSE WT - G6

Init == /\ dep  \in LowWeight(Pairs, "none", DepKinds \ {"none"}, WG)
        /\ name \in NameMaps(WG - G1)
        /\ kind \in LowWeight(Tasks, "ok", Kinds \ {"ok"}, WG - G2)
        /\ job  \in {j \in Jobs : G3 + WJob(j) <= WG}
        /\ form \in {f \in Forms : G4 + B(f # "list") <= WG}
        /\ rerun \in {r \in Reruns : G5 + B(r # "no") <= WG}
        /\ pos  \in {p \in PosArgs : B(p # 1) <= CB}
        /\ ktoks \in {s \in KwSeqs : C1 + Len(s) <= CB}
        /\ workers \in {w \in Workers : C2 + B(w # 0) <= CB}
        /\ envfile \in {f \in EnvFiles : C3 + B(f # "default") <= CB}
        /\ file \in {f \in Files : C4 + B(f # "plain") <= CB}
        /\ run = Run0 /\ round = 1 /\ ffExists = FALSE /\ ffNames = {} /\ disk = {} /\ log = <<>>

-----------------------------------------------------------------------------
At(s) == run.stage = s
Go(r) == run' = r /\ UNCHANGED <<uvars, round, ffExists, ffNames, disk, log>>
Stop(e) == Go([run EXCEPT !.stage = "finish", !.err = e])

(* main.make_parser / DictKwargAction *)
Parse   == At("parse") /\ KwParseOK(ktoks) /\ Go([run EXCEPT !.stage = "import", !.kwargs = KwFold(ktoks, {})])
KwError == At("parse") /\ ~KwParseOK(ktoks) /\ Stop("kwparse")

(* dyn_import: the module of this very file, also when its stem is the name of a module that can be imported from
   elsewhere ("clash") or of a job file imported earlier from another directory ("twin") *)
Import     == At("import") /\ file # "missing" /\ Go([run EXCEPT !.stage = "call"])
JobMissing == At("import") /\ file = "missing" /\ Stop("exit1")

(* run_job *)
ArgMismatch == At("call") /\ Mismatch(pos, run.kwargs) /\ Stop("mismatch")
DepsType    == At("call") /\ ~Mismatch(pos, run.kwargs) /\ form = "gen" /\ Stop("taskdeps")
CallJob     == At("call") /\ ~Mismatch(pos, run.kwargs) /\ form # "gen"
               /\ Go([run EXCEPT !.stage = "close", !.received = Bound(pos, run.kwargs), !.returned = job])

(* close_dependency_graph *)
Close == At("close") /\ Go([run EXCEPT !.stage = "names", !.collected = Grow(Range(run.returned), Range(run.returned))])

(* check_unique_task_names *)
CheckNames == At("names") /\ Dups(run.collected) = {} /\ Go([run EXCEPT !.stage = "graphs"])
DupNames   == At("names") /\ Dups(run.collected) # {}
              /\ Go([run EXCEPT !.stage = "finish", !.err = "dupnames", !.dups = Dups(run.collected)])

(* build_graphs *)
BuildGraphs == At("graphs")
               /\ Go([run EXCEPT !.stage = "readenv", !.hnodes = run.collected, !.snodes = run.collected,
                                 !.hedges = UNION {{<<t, d>> : d \in HardOf(t)} : t \in run.collected},
                                 !.sedges = UNION {{<<t, d>> : d \in SoftOf(t)} : t \in run.collected}])

(* read_env: the DONE entries found under output-root/<name>/<env file> *)
ReadEnv == At("readenv")
           /\ Go([run EXCEPT !.stage = "schedule",
                             !.env0 = {t \in run.collected : [name |-> name[t], file |-> CurFile, status |-> "DONE"] \in disk}])

(* schedule *)
Schedule == At("schedule")
            /\ Go([run EXCEPT !.stage = "diag",
                              !.status = [t \in Tasks |-> IF t \in run.collected THEN St[t] ELSE "NONE"],
                              !.executed = {t \in run.collected : Ex[t]},
                              !.mayexec = {t \in run.collected : MayEx[t]}])

(* task_diagnostics / write_failed_tasks *)
FailedNames == {name[t] : t \in {x \in run.collected : run.status[x] = "FAILED"}}
Diagnostics == At("diag")
               /\ run' = [run EXCEPT !.stage = "writeenv"]
               /\ ffExists' = (ffExists \/ FailedNames # {})
               /\ ffNames' = (IF FailedNames # {} THEN FailedNames ELSE ffNames)
               /\ UNCHANGED <<uvars, round, disk, log>>

(* write_env: one file per entry that has an output_dir *)
Writes == {t \in run.collected : HasDir(kind[t]) /\ run.status[t] # "SKIPPED"}
WriteEnv == At("writeenv")
            /\ run' = [run EXCEPT !.stage = "finish"]
            /\ disk' = {e \in disk : ~(e.file = CurFile /\ e.name \in {name[t] : t \in Writes})}
                       \cup {[name |-> name[t], file |-> CurFile, status |-> run.status[t]] : t \in Writes}
            /\ UNCHANGED <<uvars, round, ffExists, ffNames, log>>

NamesOf(S) == {name[t] : t \in S}
Rec == [round |-> round, err |-> run.err, dups |-> run.dups, received |-> run.received, returned |-> run.returned,
        collected |-> run.collected, hnodes |-> run.hnodes, hedges |-> run.hedges, snodes |-> run.snodes,
        sedges |-> run.sedges, env0 |-> NamesOf(run.env0),
        done |-> NamesOf({t \in run.collected : run.status[t] = "DONE"}),
        failedS |-> NamesOf({t \in run.collected : run.status[t] = "FAILED"}),
        skipped |-> NamesOf({t \in run.collected : run.status[t] = "SKIPPED"}),
        executed |-> run.executed, mayexec |-> run.mayexec, ffExists |-> ffExists, ffNames |-> ffNames, disk |-> disk]

EndRound == At("finish")
            /\ log' = Append(log, Rec)
            /\ (IF round = 1 /\ rerun # "no" /\ run.err = ""
                THEN round' = 2 /\ run' = Run0
                ELSE round' = round /\ run' = [run EXCEPT !.stage = "end"])
            /\ UNCHANGED <<uvars, ffExists, ffNames, disk>>

Next == \/ Parse \/ KwError \/ Import \/ JobMissing \/ ArgMismatch \/ DepsType \/ CallJob \/ Close
        \/ CheckNames \/ DupNames \/ BuildGraphs \/ ReadEnv \/ Schedule \/ Diagnostics \/ WriteEnv \/ EndRound
Spec == Init /\ [][Next]_vars

-----------------------------------------------------------------------------
(* what the documentation says, stated without the algorithms above *)

Closed(S) == \A t \in S : HardOf(t) \cup SoftOf(t) \subseteq S
Scheduled == run.err = "" /\ run.stage \in {"diag", "writeenv", "finish", "end"}
Built     == run.err = "" /\ run.stage \in {"readenv", "schedule", "diag", "writeenv", "finish", "end"}

TypeOK == /\ run.stage \in {"parse", "import", "call", "close", "names", "graphs", "readenv", "schedule", "diag",
                            "writeenv", "finish", "end"}
          /\ run.err \in {"", "kwparse", "exit1", "mismatch", "taskdeps", "dupnames"}
          /\ run.collected \subseteq Tasks /\ run.executed \subseteq Tasks /\ run.mayexec \subseteq Tasks /\ round \in 1 .. 2 /\ Len(log) <= 2
          /\ \A t \in Tasks : run.status[t] \in Final \cup {"NONE"}

(* the collected set is the least set that contains the returned tasks and is closed under hard and soft dependencies *)
PL_Least == run.stage # "close" =>
               /\ Range(run.returned) \subseteq run.collected
               /\ Closed(run.collected)
               /\ \A S \in SUBSET Tasks : (Range(run.returned) \subseteq S /\ Closed(S)) => run.collected \subseteq S

(* duplicate names: rejected, with exactly the duplicated names, before anything is scheduled or written *)
PL_Names == /\ run.err = "dupnames" =>
                 /\ run.dups # {}
                 /\ run.dups = {n \in 1 .. N : \E t, u \in run.collected : t # u /\ name[t] = n /\ name[u] = n}
            /\ Built => \A t, u \in run.collected : name[t] = name[u] => t = u
PL_ErrorClean == run.err # "" => /\ run.executed = {} /\ run.mayexec = {} /\ run.hnodes = {} /\ run.snodes = {}
                                 /\ \A t \in Tasks : run.status[t] = "NONE"
                                 /\ disk = {} /\ ~ffExists

(* both graphs have exactly the collected tasks as nodes; hard edges are the hard dependencies, soft edges the soft ones *)
PL_Graphs == Built => /\ run.hnodes = run.collected /\ run.snodes = run.collected
                      /\ run.hedges = {p \in Pairs : p[1] \in run.collected /\ dep[p] \in {"hard", "both"}}
                      /\ run.sedges = {p \in Pairs : p[1] \in run.collected /\ dep[p] \in {"soft", "both"}}
                      /\ run.hedges \cup run.sedges \subseteq run.collected \X run.collected

(* every collected task, and nothing else, ends with a final status *)
PL_Status == Scheduled =>
               \A t \in Tasks :
                  /\ (t \in run.collected) <=> (run.status[t] \in Final)
                  /\ t \in run.collected =>
                        /\ (run.status[t] = "SKIPPED") <=> (\E d \in HardOf(t) : run.status[d] # "DONE")
                        /\ run.status[t] # "SKIPPED" => run.status[t] = Own(kind[t])
                        /\ t \in run.mayexec => run.status[t] # "SKIPPED"
                        /\ run.executed \subseteq run.mayexec
                        /\ round = 1 => (t \in run.executed <=> run.status[t] # "SKIPPED") /\ run.mayexec = run.executed

(* failed-tasks exists iff some task FAILED and lists exactly the FAILED names *)
PL_FailedFile == (run.err = "" /\ run.stage \in {"writeenv", "finish", "end"}) =>
                    /\ ffExists <=> (\E t \in run.collected : run.status[t] = "FAILED")
                    /\ ffExists => ffNames = {name[t] : t \in {x \in run.collected : run.status[x] = "FAILED"}}

(* the environment files written are those of the tasks that have an output_dir, each with the final status *)
PL_EnvFiles == (run.err = "" /\ run.stage \in {"finish", "end"}) =>
                  {e \in disk : e.file = CurFile}
                     = {[name |-> name[t], file |-> CurFile, status |-> run.status[t]] :
                           t \in {x \in run.collected : HasDir(kind[x]) /\ run.status[x] # "SKIPPED"}}

(* second round: with the same --env-filename a task that was DONE, has an output_dir and whose dependencies,
   transitively, are all like that is not executed again; with another file name nothing is found *)
Desc[i \in Tasks] == {i} \cup UNION {Desc[d] : d \in HardOf(i) \cup SoftOf(i)}
HardDesc[i \in Tasks] == {i} \cup UNION {HardDesc[d] : d \in HardOf(i)}
PL_Rerun == (Scheduled /\ round = 2) =>
               /\ rerun = "other" => /\ run.env0 = {} /\ run.mayexec = run.executed
                                      /\ run.executed = {t \in run.collected : run.status[t] # "SKIPPED"}
               /\ rerun = "same" =>
                     /\ run.env0 = {t \in run.collected : kind[t] = "ok" /\ run.status[t] = "DONE"}
                     /\ \A t \in run.collected :
                           /\ (\A d \in Desc[t] : kind[d] = "ok") => t \notin run.mayexec
                           /\ (t \notin run.env0 /\ run.status[t] # "SKIPPED") => t \in run.executed
                           /\ (t \in run.env0 /\ t \in run.executed) => \E d \in HardOf(t) \cup SoftOf(t) : d \in run.executed

(* job() receives what was given on the command line *)
PL_Args == run.stage \in {"close", "names", "graphs", "readenv", "schedule", "diag", "writeenv"} =>
              /\ run.returned = job
              /\ pos >= 1 => run.received.sel = <<"S">>
              /\ pos >= 2 => run.received.tag = <<"p1">>
              /\ \A i \in DOMAIN ktoks : (\A j \in i + 1 .. Len(ktoks) : KeyAtoms(ktoks[j]) # KeyAtoms(ktoks[i])) =>
                    \/ KeyAtoms(ktoks[i]) = <<"sel">> /\ run.received.sel = ValAtoms(ktoks[i])
                    \/ KeyAtoms(ktoks[i]) = <<"tag">> /\ run.received.tag = ValAtoms(ktoks[i])
                    \/ KeyAtoms(ktoks[i]) = <<"key">> /\ run.received.key = ValAtoms(ktoks[i])

(* witnesses (negated reachability).  Given as an INVARIANT each must be violated by TLC.  PipelineMC also turns each
   into a stuttering action A_x enabled exactly in the terminal states where W_x is false, so that the coverage of the
   enumeration run itself counts the witnessing runs (the harness requires the counts to be positive). *)
Ended == run.stage = "end"
W_Dup         == ~(Ended /\ run.err = "dupnames")
W_TwoDups     == ~(Ended /\ Cardinality(run.dups) >= 2)
W_SameNameOut == ~(Ended /\ run.err = "" /\ \E t \in run.collected, u \in Tasks \ run.collected : name[t] = name[u])
W_SoftOnly    == ~(Ended /\ run.err = "" /\ \E t \in run.collected : t \notin UNION {HardDesc[r] : r \in Range(run.returned)})
W_Transitive  == ~(Ended /\ run.err = "" /\ \E t \in run.collected :
                               t \notin Range(run.returned) \cup UNION {HardOf(r) \cup SoftOf(r) : r \in Range(run.returned)})
W_Uncollected == ~(Ended /\ run.err = "" /\ \E u \in Tasks \ run.collected : (HardOf(u) \cup SoftOf(u)) \cap run.collected # {})
W_Repeat      == ~(Ended /\ run.err = "" /\ Len(run.returned) > Cardinality(Range(run.returned)))
W_EmptyJob    == ~(Ended /\ run.err = "" /\ run.returned = <<>>)
W_Skipped     == ~(Ended /\ \E t \in Tasks : run.status[t] = "SKIPPED")
W_Failed      == ~(Ended /\ ffExists)
W_SoftFailRun == ~(Ended /\ \E t \in run.collected : run.status[t] = "DONE" /\ \E d \in SoftOf(t) : run.status[d] = "FAILED")
W_NoDir       == ~(Ended /\ \E t \in run.collected : run.status[t] = "DONE" /\ ~HasDir(kind[t]))
W_BothEdge    == ~(Ended /\ run.hedges \cap run.sedges # {})
W_Rerun       == ~(Ended /\ round = 2 /\ run.executed # {} /\ run.executed # run.collected)
W_MayRerun    == ~(Ended /\ round = 2 /\ run.executed # run.mayexec)
W_RerunOther  == ~(Ended /\ round = 2 /\ rerun = "other" /\ run.collected # {})
W_Mismatch    == ~(Ended /\ run.err = "mismatch")
W_KwError     == ~(Ended /\ run.err = "kwparse")
W_KwOverride  == ~(Ended /\ run.err = "" /\ Len(ktoks) = 2 /\ Cardinality(run.kwargs) = 1)
W_KwEqInValue == ~(Ended /\ run.err = "" /\ \E e \in run.kwargs : \E i \in DOMAIN e.v : e.v[i] = "=")
W_SelByKw     == ~(Ended /\ run.err = "" /\ pos = 0)
W_Missing     == ~(Ended /\ run.err = "exit1")
W_DepsType    == ~(Ended /\ run.err = "taskdeps")
=============================================================================
