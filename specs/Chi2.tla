------------------------------- MODULE Chi2 -------------------------------
(* C07 -- chi-square comparison of datasets.

   As in Student.tla a dataset is a sequence of cells <<value, error>> of exact
   numbers (integers, NaN, PInf, NInf) and `ref` is compared with every dataset
   of `oth`.  Per compared dataset the test reports
      used   which bins enter the sum: all of them, or with `ign` (the
             ignore-empty option) those with a positive error on either side
      ndf    the number of used bins
      stat   the exact rational  SUM_{used} (v1 - v2)^2 / (e1^2 + e2^2), or
             infinite / NaN by IEEE arithmetic (no convention here: 0/0 = NaN)
      pv[j]  whether the upper-tail probability of stat under the chi-square
             law with ndf degrees of freedom exceeds level j
   and the verdict is true iff the probability exceeds the level of the test
   for every compared dataset.  Crit[n][j] = <<lo, hi>> is a rational band
   around the critical value of level j for n degrees of freedom (levels
   increasing along j): the upper tail being strictly decreasing, p > level
   iff stat < critical value; inside the band -> undetermined (skipped).
   ndf = 0 (everything left out) is not judged.

   With ign the statement quantifies over finite cells only, so Init draws
   finite cells when ign holds.
*)
EXTENDS Integers, Sequences, FiniteSets, TLC

CONSTANTS NaN, PInf, NInf,
          Vals, Errs,          \* cell contents (Errs: naturals and any of NaN, PInf)
          MaxBins, MaxDs,
          Crit,                \* Crit[ndf][j] = << <<lo_num, lo_den>>, <<hi_num, hi_den>> >>
          Levs, Igns,          \* levels of the test / settings of the option enumerated
          Mode, NRand          \* "enum" | "rand" | "build"

VARIABLES ign, lev, ref, oth, cells, out, pc
vars == <<ign, lev, ref, oth, cells, out, pc>>

NLev == Len(Crit[1])
MaxNdf == Len(Crit)
IsFin(x) == x # NaN /\ x # PInf /\ x # NInf
Cell == Vals \X Errs
FinCell == {c \in Cell : IsFin(c[1]) /\ IsFin(c[2])}
CellFor(g) == IF g THEN FinCell ELSE Cell

-----------------------------------------------------------------------------
(* extended arithmetic (same conventions as Student.tla) *)
Diff(a, b) == IF a = NaN \/ b = NaN THEN NaN
              ELSE IF a = PInf THEN (IF b = PInf THEN NaN ELSE PInf)
              ELSE IF a = NInf THEN (IF b = NInf THEN NaN ELSE NInf)
              ELSE IF b = PInf THEN NInf
              ELSE IF b = NInf THEN PInf
              ELSE a - b

SumSq(e1, e2) == IF e1 = NaN \/ e2 = NaN THEN NaN
                 ELSE IF e1 = PInf \/ e2 = PInf THEN PInf
                 ELSE e1 * e1 + e2 * e2

RECURSIVE GCD(_, _)
GCD(a, b) == IF b = 0 THEN a ELSE GCD(b, a % b)

RECURSIVE RatLt(_, _)
RatLt(p, q) ==                       \* p < q, non-negative rationals, no multiplication (32-bit safe)
   LET ip == p[1] \div p[2]   rp == p[1] % p[2]
       iq == q[1] \div q[2]   rq == q[1] % q[2] IN
   IF ip # iq THEN ip < iq
   ELSE IF rq = 0 THEN FALSE
   ELSE IF rp = 0 THEN TRUE
   ELSE RatLt(<<q[2], rq>>, <<p[2], rp>>)

Rat(n, d) == LET g == GCD(n, d) IN [k |-> "rat", n |-> n \div g, d |-> d \div g]
Zero == [k |-> "rat", n |-> 0, d |-> 1]
InfStat == [k |-> "inf", n |-> 1, d |-> 0]
NaNStat == [k |-> "nan", n |-> 0, d |-> 0]

Add(a, b) == IF a.k = "nan" \/ b.k = "nan" THEN NaNStat
             ELSE IF a.k = "inf" \/ b.k = "inf" THEN InfStat
             ELSE Rat(a.n * b.d + b.n * a.d, a.d * b.d)

(* contribution of one bin <<v1, e1, v2, e2>> *)
Term(b) ==
   LET dl == Diff(b[1], b[3])
       s  == SumSq(b[2], b[4]) IN
   IF dl = NaN \/ s = NaN THEN NaNStat
   ELSE IF ~IsFin(dl) THEN (IF s = PInf THEN NaNStat ELSE InfStat)
   ELSE IF s = PInf THEN Zero
   ELSE IF s = 0 THEN (IF dl = 0 THEN NaNStat ELSE InfStat)
   ELSE Rat(dl * dl, s)

Positive(e) == e = PInf \/ (e # NaN /\ e > 0)
Used(b, g) == ~g \/ Positive(b[2]) \/ Positive(b[4])

BinOf(rf, ot, i) == <<rf[i][1], rf[i][2], ot[i][1], ot[i][2]>>
UsedSet(rf, ot, g) == {i \in DOMAIN rf : Used(BinOf(rf, ot, i), g)}

RECURSIVE SumUpTo(_, _, _, _)
SumUpTo(rf, ot, g, n) ==
   IF n = 0 THEN Zero
   ELSE IF Used(BinOf(rf, ot, n), g) THEN Add(SumUpTo(rf, ot, g, n - 1), Term(BinOf(rf, ot, n)))
   ELSE SumUpTo(rf, ot, g, n - 1)
Stat(rf, ot, g) == SumUpTo(rf, ot, g, Len(rf))

(* is the upper-tail probability above level j?  l is the level of the test *)
PAbove(st, n, j, l) ==
   IF n = 0 \/ n > MaxNdf THEN "free"
   ELSE IF st.k = "nan" THEN (IF j = l THEN "no" ELSE "free")
   ELSE IF st.k = "inf" THEN "no"
   ELSE IF RatLt(<<st.n, st.d>>, Crit[n][j][1]) THEN "yes"
   ELSE IF RatLt(Crit[n][j][2], <<st.n, st.d>>) THEN "no"
   ELSE "band"

VerdictOf(pv, l) ==
   IF \E d \in DOMAIN pv : pv[d][l] = "no" THEN "fail"
   ELSE IF \A d \in DOMAIN pv : pv[d][l] = "yes" THEN "pass"
   ELSE "undet"

(* every observable of one comparison; the LET values are computed once *)
Expected(rf, ots, g, l) ==
   LET st == [d \in DOMAIN ots |-> Stat(rf, ots[d], g)]
       nu == [d \in DOMAIN ots |-> Cardinality(UsedSet(rf, ots[d], g))]
       pv == [d \in DOMAIN ots |-> [j \in 1 .. NLev |-> PAbove(st[d], nu[d], j, l)]]
   IN [used |-> [d \in DOMAIN ots |-> [i \in DOMAIN rf |-> Used(BinOf(rf, ots[d], i), g)]],
       ndf  |-> nu,
       stat |-> st,
       pv   |-> pv,
       verdict |-> VerdictOf(pv, l)]

-----------------------------------------------------------------------------
NoOut == [used |-> <<>>, ndf |-> <<>>, stat |-> <<>>, pv |-> <<>>, verdict |-> "none"]

InitEnum == /\ ign \in Igns /\ lev \in Levs
            /\ \E nb \in 1 .. MaxBins, nd \in 1 .. MaxDs :
                  /\ ref \in [1 .. nb -> CellFor(ign)]
                  /\ oth \in [1 .. nd -> [1 .. nb -> CellFor(ign)]]
            /\ cells = <<>> /\ out = NoOut /\ pc = "todo"

InitRand == /\ \E nb \in 1 .. MaxBins, nd \in 1 .. MaxDs, n \in 1 .. NRand :
                  /\ ign = RandomElement(Igns)
                  /\ ref = [b \in 1 .. nb |-> RandomElement(CellFor(ign))]
                  /\ oth = [d \in 1 .. nd |-> [b \in 1 .. nb |-> RandomElement(CellFor(ign))]]
            /\ lev = RandomElement(Levs)
            /\ cells = <<>> /\ out = NoOut /\ pc = "todo"

(* "build": cells appended one at a time in the order ref[1], oth[1][1], ..,
   oth[nd][1], ref[2], ...; Seal cuts the flat list into datasets *)
InitBuild == /\ ign \in Igns /\ lev \in Levs
             /\ \E nd \in 1 .. MaxDs : oth = [d \in 1 .. nd |-> <<>>]
             /\ ref = <<>> /\ cells = <<>> /\ out = NoOut /\ pc = "build"

Init == IF Mode = "enum" THEN InitEnum ELSE IF Mode = "rand" THEN InitRand ELSE InitBuild

AddCell == /\ pc = "build" /\ Len(cells) < MaxBins * (1 + Len(oth))
           /\ \E c \in CellFor(ign) : cells' = Append(cells, c)
           /\ UNCHANGED <<ign, lev, ref, oth, out, pc>>

Seal == /\ pc = "build" /\ Len(cells) > 0 /\ Len(cells) % (1 + Len(oth)) = 0
        /\ LET w == 1 + Len(oth)  nb == Len(cells) \div w IN
           /\ ref' = [i \in 1 .. nb |-> cells[(i - 1) * w + 1]]
           /\ oth' = [d \in DOMAIN oth |-> [i \in 1 .. nb |-> cells[(i - 1) * w + 1 + d]]]
        /\ pc' = "todo" /\ cells' = <<>>
        /\ UNCHANGED <<ign, lev, out>>

Eval == /\ pc = "todo" /\ pc' = "done"
        /\ out' = Expected(ref, oth, ign, lev)
        /\ UNCHANGED <<ign, lev, ref, oth, cells>>

Next == AddCell \/ Seal \/ Eval
Spec == Init /\ [][Next]_vars

-----------------------------------------------------------------------------
(* the table: proper bands, decreasing with the level, increasing with ndf *)
ASSUME TableSane ==
   /\ \A n \in DOMAIN Crit : Len(Crit[n]) = NLev
   /\ \A n \in DOMAIN Crit : \A j \in 1 .. NLev : RatLt(Crit[n][j][1], Crit[n][j][2])
   /\ \A n \in DOMAIN Crit : \A j \in 1 .. NLev - 1 : RatLt(Crit[n][j + 1][2], Crit[n][j][1])
   /\ \A n \in 1 .. Len(Crit) - 1 : \A j \in 1 .. NLev : RatLt(Crit[n][j][2], Crit[n + 1][j][1])

Evaluated == pc = "done"
Ds == DOMAIN oth
Bs == DOMAIN ref

(* with the option, exactly the bins where both errors are zero are left out
   (of the sum and of the count); without it nothing is left out *)
LeftOutExactly ==
   Evaluated =>
      \A d \in Ds : \A i \in Bs :
         (~out.used[d][i]) = (ign /\ ref[i][2] = 0 /\ oth[d][i][2] = 0)
NdfCountsUsed ==
   Evaluated => \A d \in Ds : out.ndf[d] = Cardinality({i \in Bs : out.used[d][i]})
(* the left-out bins do not contribute: dropping them from both datasets
   changes neither the statistic nor the count *)
Keep(s, K) == SelectSeq([i \in DOMAIN s |-> <<i, s[i]>>], LAMBDA p : p[1] \in K)
Drop(s, K) == [i \in 1 .. Len(Keep(s, K)) |-> Keep(s, K)[i][2]]
LeftOutIrrelevant ==
   Evaluated =>
      \A d \in Ds :
         LET K == UsedSet(ref, oth[d], ign) IN
         /\ Stat(Drop(ref, K), Drop(oth[d], K), ign) = out.stat[d]
         /\ Stat(Drop(ref, K), Drop(oth[d], K), FALSE) = out.stat[d]

(* the statistic does not depend on the order of the bins: transpositions
   generate every permutation *)
Swap(s, a, b) == [i \in DOMAIN s |-> IF i = a THEN s[b] ELSE IF i = b THEN s[a] ELSE s[i]]
PermutationInvariant ==
   Evaluated =>
      \A d \in Ds : \A a, b \in Bs :
         a < b => /\ Stat(Swap(ref, a, b), Swap(oth[d], a, b), ign) = out.stat[d]
                  /\ Cardinality(UsedSet(Swap(ref, a, b), Swap(oth[d], a, b), ign)) = out.ndf[d]

(* when no bin is left out an undefined statistic never passes *)
UndefinedNeverPasses ==
   Evaluated =>
      \A d \in Ds : ((\A i \in Bs : out.used[d][i]) /\ out.stat[d].k = "nan") => out.verdict = "fail"

(* verdict true exactly when every probability exceeds the level *)
VerdictDef ==
   Evaluated =>
      /\ (out.verdict = "pass") = (\A d \in Ds : out.pv[d][lev] = "yes")
      /\ (out.verdict = "fail") = (\E d \in Ds : out.pv[d][lev] = "no")

(* beyond the statement, cheap *)
Rank(p) == IF p = "no" THEN 0 ELSE IF p = "yes" THEN 2 ELSE 1
StatSane ==
   Evaluated =>
      \A d \in Ds : LET s == out.stat[d] IN
         /\ s.k = "rat" => s.n >= 0 /\ s.d > 0 /\ GCD(s.n, s.d) = 1
         /\ s.k # "nan" => \A j \in 1 .. NLev - 1 : Rank(out.pv[d][j + 1]) <= Rank(out.pv[d][j])   \* stricter level never helps
Additive ==        \* the sum over all bins is the sum over a prefix plus the sum over the rest
   Evaluated =>
      \A d \in Ds : \A n \in 0 .. Len(ref) :
         Add(Stat(SubSeq(ref, 1, n), SubSeq(oth[d], 1, n), ign),
             Stat(SubSeq(ref, n + 1, Len(ref)), SubSeq(oth[d], n + 1, Len(ref)), ign)) = out.stat[d]
Symmetric ==
   Evaluated => \A d \in Ds : Stat(oth[d], ref, ign) = out.stat[d]
OptionIrrelevantWithoutEmptyBins ==
   Evaluated =>
      \A d \in Ds : (\A i \in Bs : /\ ~(ref[i][2] = 0 /\ oth[d][i][2] = 0)
                                     /\ ref[i][2] # NaN /\ oth[d][i][2] # NaN)
                       => Stat(ref, oth[d], TRUE) = Stat(ref, oth[d], FALSE)

-----------------------------------------------------------------------------
(* witnesses (negated reachability): TLC must find them violated *)
W_LeftOutAndPasses == ~(Evaluated /\ ign /\ out.verdict = "pass" /\ \E d \in Ds : \E i \in Bs : ~out.used[d][i])
W_AllLeftOut   == ~(Evaluated /\ \E d \in Ds : out.ndf[d] = 0)
W_NaNStat      == ~(Evaluated /\ ~ign /\ \E d \in Ds : out.stat[d].k = "nan")
W_InfStat      == ~(Evaluated /\ \E d \in Ds : out.stat[d].k = "inf")
W_PassAndFail  == ~(Evaluated /\ Len(oth) >= 2 /\ out.pv[1][lev] = "yes" /\ out.pv[2][lev] = "no"
                              /\ out.stat[2].k = "rat")
W_Band         == ~(Evaluated /\ out.verdict = "undet" /\ \E d \in Ds : out.pv[d][lev] = "band")
=============================================================================
