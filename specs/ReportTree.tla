---------------------------- MODULE ReportTree ----------------------------
(* C20 -- writing a report tree to disk.

   A report is a rose tree of sections.  Node 1 is the root; node k > 1 hangs
   under parent[k] < k and the numbering is the pre-order of the tree (the
   parent of k lies on the path from the root to k - 1), so that every ordered
   tree has exactly one encoding.  Every section has a title, a text of its
   own (identified by the section number) and nres[k] results (result <<k, j>>).

   Titles are names; what matters about a title is whether it can be a file
   name and whether the directory of its subsections can exist next to the
   files of the report -- TitleRec gives the facts the binding supplies for
   arbitrary strings:
   [s : the string, slash : contains '/', nul : contains NUL,
    aux : it is the name of a configuration file written at the top of the
          report ("conf.py"),
    stem : if the title ends in ".rst" what precedes the suffix, else ""].

   The page of a section is the chain of titles below the root (root: "index");
   sections with the same chain (repeated sibling titles) share one page.

   State machine (the behaviour the property asks for): the tree is checked
   first; an unacceptable tree is rejected with the disk untouched; otherwise
   the directory is set up, the pages are written one by one in pre-order (a
   page shared by several sections receives all of them), then the figures.
   The disk is   pages   : path -> page record,
                 figs    : results whose figure file exists,
                 aux     : set up done (configuration files exist),
                 outside : files created outside the target directory. *)
EXTENDS Integers, Sequences, FiniteSets, TLC

CONSTANTS MaxNodes,      \* sections incl. the root: 1..MaxNodes
          TitleNames,    \* titles of the non-root sections (names, see TitleRec)
          ResPatterns,   \* which result patterns are enumerated (subset of 0..2), see NRes
          MaxDepth,      \* trees up to this many levels are enumerated (the supported depth is Levels)
          WithFigures    \* BOOLEAN: results come with a figure

Levels == 5              \* "depth up to the supported five levels"

TitleRec(n) == [s |-> n, slash |-> n \in {"a/b", "/"}, nul |-> n = "NUL", aux |-> n = "conf.py",
                stem |-> CASE n = "index.rst" -> "index" [] n = "A.rst" -> "A" [] OTHER -> ""]
RootTitle == TitleRec("Root")

VARIABLES tree,      \* [parent : Seq(Nat), title : Seq(TitleRec), nres : Seq(Nat)]
          phase,     \* "init", "rejected", "setup", "pages", "figures", "done"
          pages, figs, aux, outside,
          next       \* next section to be written
vars == <<tree, phase, pages, figs, aux, outside, next>>

-----------------------------------------------------------------------------
(* the tree *)
N(t) == Len(t.parent)
Nodes(t) == 1 .. N(t)
RECURSIVE Anc(_, _)
Anc(t, k) == IF k = 1 THEN <<1>> ELSE Append(Anc(t, t.parent[k]), k)      \* root ... k
Depth(t, k) == Len(Anc(t, k))                                               \* root has depth 1
Height(t) == IF N(t) = 0 THEN 0 ELSE CHOOSE h \in 1 .. N(t) : (\E k \in Nodes(t) : Depth(t, k) = h)
                                                               /\ \A k \in Nodes(t) : Depth(t, k) <= h
Children(t, k) == {c \in Nodes(t) : c > 1 /\ t.parent[c] = k}
Results(t) == {r \in Nodes(t) \X (1 .. 2) : r[2] <= t.nres[r[1]]}

(* the page of a section: titles below the root; the root's page is "index" *)
Path(t, k) == IF k = 1 THEN <<"index">>
              ELSE LET a == Anc(t, k) IN [i \in 1 .. Len(a) - 1 |-> t.title[a[i + 1]].s]
Paths(t) == {Path(t, k) : k \in Nodes(t)}
Sharing(t, p) == {k \in Nodes(t) : Path(t, k) = p}

(* "a title that cannot be used as a file name" *)
ValidTitle(ti) == ti.s \notin {"", ".", ".."} /\ ~ti.slash /\ ~ti.nul
AllValid(t) == \A k \in Nodes(t) : k > 1 => ValidTitle(t.title[k])
TooDeep(t) == Height(t) > Levels
(* a section other than the root whose page is the root's page *)
RootClash(t) == \E k \in Nodes(t) : k > 1 /\ Path(t, k) = <<"index">>
(* a section with subsections needs a directory named by its title; that name may already be a
   file of the report: the configuration file, or the page file "<stem>.rst" of another section *)
DirFileClash(t) ==
   \E k \in Nodes(t) : k > 1 /\ (\E c \in Nodes(t) : c > 1 /\ t.parent[c] = k) /\
      \/ t.parent[k] = 1 /\ t.title[k].aux
      \/ t.title[k].stem # "" /\ \E k1 \in Nodes(t) : Path(t, k1) = SubSeq(Path(t, k), 1, Len(Path(t, k)) - 1) \o <<t.title[k].stem>>
Acceptable(t) == AllValid(t) /\ ~TooDeep(t) /\ ~RootClash(t) /\ ~DirFileClash(t)

(* where a table-of-contents entry of the page with path p leads: entries are relative to the
   directory of the page (Sphinx), an entry is the last two titles of the child *)
Dir(p) == SubSeq(p, 1, Len(p) - 1)
LastTwo(p) == IF Len(p) <= 2 THEN p ELSE SubSeq(p, Len(p) - 1, Len(p))
TocEntry(t, c) == LastTwo(Path(t, c))
Resolve(p, entry) == Dir(p) \o entry

-----------------------------------------------------------------------------
(* page records:  [path, headers : Seq(title string), texts : Seq(section), anchors : Seq(result),
                   toc : Seq(entry), images : Seq(result)] *)
RECURSIVE SeqOfSet(_)
SeqOfSet(S) == IF S = {} THEN <<>> ELSE LET m == CHOOSE x \in S : \A y \in S : x <= y IN <<m>> \o SeqOfSet(S \ {m})
RECURSIVE Flat(_)
Flat(ss) == IF ss = <<>> THEN <<>> ELSE Head(ss) \o Flat(Tail(ss))

ResultsOf(t, k) == [j \in 1 .. t.nres[k] |-> <<k, j>>]
PageOf(t, p) ==
   LET ks == SeqOfSet(Sharing(t, p)) IN
   [path    |-> p,
    headers |-> [i \in DOMAIN ks |-> IF ks[i] = 1 THEN RootTitle.s ELSE t.title[ks[i]].s],
    texts   |-> ks,
    anchors |-> Flat([i \in DOMAIN ks |-> ResultsOf(t, ks[i])]),
    toc     |-> Flat([i \in DOMAIN ks |-> [j \in DOMAIN SeqOfSet(Children(t, ks[i])) |->
                                             TocEntry(t, SeqOfSet(Children(t, ks[i]))[j])]]),
    images  |-> IF WithFigures THEN Flat([i \in DOMAIN ks |-> ResultsOf(t, ks[i])]) ELSE <<>>]

-----------------------------------------------------------------------------
(* the property, as predicates over a tree t and a disk d = [rejected, pages (a set of page
   records), figs, created (anything exists in the target directory), outside] *)
Range(s) == {s[i] : i \in DOMAIN s}
Occ(s, x) == Cardinality({i \in DOMAIN s : s[i] = x})
PagePaths(d) == {pg.path : pg \in d.pages}

(* (1) (7) unacceptable titles / depth: rejected, nothing created anywhere *)
P_RejectClean(t, d)  == (~AllValid(t) \/ TooDeep(t)) => d.rejected /\ ~d.created /\ d.outside = {}
(* whatever happens nothing appears outside the target directory, and a rejection leaves nothing *)
P_Contained(t, d)    == d.outside = {} /\ (d.rejected => ~d.created)
(* (2) every section has its page, with its header, its text and its results *)
P_Pages(t, d) == (AllValid(t) /\ ~TooDeep(t) /\ ~d.rejected) =>
   \A k \in Nodes(t) : \E pg \in d.pages :
      /\ pg.path = Path(t, k)
      /\ (IF k = 1 THEN RootTitle.s ELSE t.title[k].s) \in Range(pg.headers)
      /\ k \in Range(pg.texts)
      /\ \A j \in 1 .. t.nres[k] : <<k, j>> \in Range(pg.anchors)
(* (3) nothing is lost or replaced: every section's text is on disk exactly once *)
P_NoLoss(t, d) == (AllValid(t) /\ ~TooDeep(t) /\ ~d.rejected) =>
   \A k \in Nodes(t) : Cardinality({pg \in d.pages : k \in Range(pg.texts)}) = 1
                       /\ \A pg \in d.pages : Occ(pg.texts, k) <= 1
(* (4) every result exactly once over all pages *)
P_Once(t, d) == (AllValid(t) /\ ~TooDeep(t) /\ ~d.rejected) =>
   \A r \in Results(t) : /\ Cardinality({pg \in d.pages : r \in Range(pg.anchors)}) = 1
                         /\ \A pg \in d.pages : Occ(pg.anchors, r) <= 1
(* (5) every table-of-contents entry leads to a written page *)
P_Toc(t, d) == ~d.rejected => \A pg \in d.pages : \A i \in DOMAIN pg.toc : Resolve(pg.path, pg.toc[i]) \in PagePaths(d)
(* (6) every referenced figure exists *)
P_Images(t, d) == ~d.rejected => \A pg \in d.pages : Range(pg.images) \subseteq d.figs
(* a tree in which every section has a usable title and a page of its own is written *)
Clash(t) == DirFileClash(t) \/ \E k1, k2 \in Nodes(t) : k1 # k2 /\ Path(t, k1) = Path(t, k2)
P_Written(t, d) == (AllValid(t) /\ ~TooDeep(t) /\ ~Clash(t)) => ~d.rejected
(* the root page is among the pages *)
P_Root(t, d) == (AllValid(t) /\ ~TooDeep(t) /\ ~d.rejected) => <<"index">> \in PagePaths(d)

-----------------------------------------------------------------------------
(* enumeration of trees *)
NRes(pat, k) == CASE pat = 0 -> 0  [] pat = 1 -> 1  [] OTHER -> (k % 3)
PreOrder(par) == \A k \in 3 .. Len(par) : par[k] \in Range(Anc([parent |-> par], k - 1))

Init == /\ \E n \in 1 .. MaxNodes :
           \E par \in [1 .. n -> 0 .. n - 1] :
              /\ par[1] = 0 /\ \A k \in 2 .. n : par[k] \in 1 .. k - 1
              /\ PreOrder(par)
              /\ \E ti \in [1 .. n -> TitleNames \cup {"Root"}] :
                    /\ ti[1] = "Root" /\ \A k \in 2 .. n : ti[k] # "Root"
                    /\ \E pat \in ResPatterns :
                          tree = [parent |-> par, title |-> [k \in 1 .. n |-> TitleRec(ti[k])],
                                  nres |-> [k \in 1 .. n |-> NRes(pat, k)]]
        /\ Height(tree) <= MaxDepth
        /\ phase = "init" /\ pages = <<>> /\ figs = {} /\ aux = FALSE /\ outside = {} /\ next = 1

Reject == /\ phase = "init" /\ ~Acceptable(tree)
          /\ phase' = "rejected"
          /\ UNCHANGED <<tree, pages, figs, aux, outside, next>>
Setup  == /\ phase = "init" /\ Acceptable(tree)
          /\ phase' = "pages" /\ aux' = TRUE
          /\ UNCHANGED <<tree, pages, figs, outside, next>>
(* the page of section `next` (with everything that shares it) unless already there *)
WritePage == /\ phase = "pages" /\ next <= N(tree)
             /\ LET p == Path(tree, next) IN
                pages' = IF \E i \in DOMAIN pages : pages[i].path = p THEN pages
                         ELSE Append(pages, PageOf(tree, p))
             /\ next' = next + 1
             /\ phase' = IF next = N(tree) THEN "figures" ELSE "pages"
             /\ UNCHANGED <<tree, figs, aux, outside>>
WriteFigures == /\ phase = "figures"
                /\ figs' = IF WithFigures THEN Results(tree) ELSE {}
                /\ phase' = "done"
                /\ UNCHANGED <<tree, pages, aux, outside, next>>
Next == Reject \/ Setup \/ WritePage \/ WriteFigures
Spec == Init /\ [][Next]_vars
NoNext == FALSE /\ UNCHANGED vars

-----------------------------------------------------------------------------
Disk == [rejected |-> phase = "rejected", pages |-> Range(pages), figs |-> figs,
         created |-> aux \/ pages # <<>> \/ figs # {}, outside |-> outside]
Final == phase \in {"rejected", "done"}

(* in EVERY state: a tree that must be rejected has left no trace *)
C20_RejectBeforeWriting == ~Acceptable(tree) => ~Disk.created /\ Disk.outside = {}
C20_RejectClean == Final => P_RejectClean(tree, Disk)
C20_Contained   == P_Contained(tree, Disk)
C20_Pages       == phase = "done" => P_Pages(tree, Disk)
C20_NoLoss      == phase = "done" => P_NoLoss(tree, Disk)
C20_Once        == phase = "done" => P_Once(tree, Disk)
C20_Toc         == phase = "done" => P_Toc(tree, Disk)
C20_Images      == phase = "done" => P_Images(tree, Disk)
C20_Root        == phase = "done" => P_Root(tree, Disk)
C20_Written     == Final => P_Written(tree, Disk)
(* one page per distinct path, and only those *)
C20_OnePagePerPath == phase = "done" => PagePaths(Disk) = Paths(tree) /\ Cardinality(Disk.pages) = Cardinality(Paths(tree))

(* witnesses *)
W_MergedSiblings == ~(phase = "done" /\ \E p \in Paths(tree) : Cardinality(Sharing(tree, p)) > 1)
W_RootClash      == ~(phase = "rejected" /\ AllValid(tree) /\ ~TooDeep(tree))
W_TooDeep        == ~(phase = "rejected" /\ AllValid(tree) /\ TooDeep(tree))
W_DeepToc        == ~(phase = "done" /\ \E pg \in Range(pages) : Len(pg.path) >= 2 /\ pg.toc # <<>>)
W_NestedIndex    == ~(phase = "done" /\ <<"A", "index">> \in Paths(tree))
W_DirFileClash   == ~(phase = "rejected" /\ AllValid(tree) /\ ~TooDeep(tree) /\ ~RootClash(tree))
=============================================================================
