------------------------------ MODULE T4Doc ------------------------------
(* C10 -- the numbers read from a Tripoli-4 listing are the numbers written there.

   Two views of a listing.

   WRITTEN (what Tripoli-4 prints).  A listing is a sequence of editions
        [batch, time, resps]
   a response  [fn, name, zones]          (response function, response name)
   a zone      [zid, kind, secs]          (scoring zone id, one section per time
                                           step, a single section when the score
                                           has no time grid); kind = "vol" (a
                                           volume: spectrum layout) | "mesh"
                                           ("Results on a mesh", zid = 0)
   a section   [timed, tmin, tmax, rows, emesh, integ]
   a row       [a, b, cells]              "a - b   score   sigma%" (spectrum) or
                                           "Energy range (in MeV): a - b" followed
                                           by one line per cell (mesh): group
                                           bounds AS PRINTED (a > b when the groups
                                           are printed by decreasing energy)
   a cell      [u, v, w, vn, sn]          "(u,v,w)  tally  sigma%"; a spectrum row
                                           is the single cell (0,0,0)
   emesh       [kind, cells]              "ENERGY INTEGRATED RESULTS :" one line per
                                           cell (mesh only); kind = "yes" | "no"
   integ       [kind, vn, sn]             kind = "yes" | "no" | "notconv": the result
                                           integrated over energy (and space)
   Bounds are indices in an increasing table of energies / times; vn is the score
   numerator (score = vn/2) and sn the sigma% numerator (sigma% = sn/2): the
   harness turns them into exactly representable decimal numbers.

   READ (what C10 says a parse of edition `batch` must return): ReadOf gives one
   item per (response, zone) in print order, with
        ebins   the group bounds in increasing order
        tbins   the time bounds in increasing order (<<>> without time grid)
        shape   <<nu, nv, nw>> number of cells per direction (<<1, 1, 1>> for a volume)
        val[ie][it][c], sig[ie][it][c]   score / sigma% of the group whose bounds
                 are ebins[ie], ebins[ie+1] in the time step tbins[it], tbins[it+1]
                 in the cell (u,v,w) of rank c = (u * nv + v) * nw + w + 1
        emesh[it]                  the per-cell energy-integrated results of that step
        integ[it]                  the integrated result of that time step; a result
                 printed "NOT YET CONVERGED" reads back as kind "notconv" and
                 takes nothing away from val / sig / emesh
   The error of a cell is val * sig / 100 (checked by the harness from val, sig).

   The module is function-like (see Slice.tla): Init enumerates document
   STRUCTURES (editions x responses x zones x groups x time steps x print orders
   x sign classes x integrated kinds x volume / mesh grids), Eval builds the printed listing (PrintDoc) and
   the expected reading of the requested edition, once by construction
   (Expected) and once from the printed text alone (ReadOf); they must agree.
   Cell values are an injective function of (edition, response, zone, group,
   time step, cell), so any swap, shift or wrong edition is visible.
*)
EXTENDS Integers, Sequences, FiniteSets, TLC

CONSTANTS MaxEditions, MaxResponses, MaxZones, MaxE, MaxT,
          Thin,       \* TRUE: the second response only varies its grids (fewer documents)
          Kinds,      \* score kinds enumerated, subset of {"vol", "mesh"}
          ShapeIds    \* mesh grids enumerated, indices in ShapeTable

(* <<nu, nv, nw>> *)
ShapeTable == << <<1, 1, 1>>, <<1, 1, 2>>, <<1, 2, 1>>, <<2, 1, 1>>, <<1, 2, 2>>, <<2, 1, 2>>, <<2, 2, 1>>, <<2, 2, 2>> >>

Orders == {"inc", "dec"}
Signs == {"pos", "neg", "mixed"}
IntegKinds == {"yes", "no", "notconv"}

(* structure of one response; every edition prints the same structure *)
RespSpec == [ne : 1 .. MaxE, nt : 0 .. MaxT, eorder : Orders, torder : Orders,
             integ : IntegKinds, sign : Signs, nz : 1 .. MaxZones,
             kind : Kinds, shape : ShapeIds \cup {1}, emesh : BOOLEAN]

(* print orders only matter with at least two groups / steps *)
(* a mesh score is a response of its own (one "zone": the mesh) *)
Canonical(r) == /\ (r.ne = 1 => r.eorder = "inc")
                /\ (r.nt <= 1 => r.torder = "inc")
                /\ (r.kind = "vol" => r.shape = 1 /\ ~r.emesh)
                /\ (r.kind = "mesh" => r.shape \in ShapeIds /\ r.nz = 1)
ThinSpec(r) == r.integ = "yes" /\ r.sign = "pos" /\ r.nz = 1

NT(r) == IF r.nt = 0 THEN 1 ELSE r.nt
BatchOf(ed) == 10 * ed
TimeOf(ed) == 3 * ed + 1
(* the same volumes are scored by every response; a mesh has no zone id *)
ZoneId(spec, z) == IF spec.kind = "mesh" THEN 0 ELSE 3 + z

ShapeOf(spec) == ShapeTable[spec.shape]
NCells(sh) == sh[1] * sh[2] * sh[3]
(* label <<u, v, w>> of the cell of rank k (1-based, w running fastest: the order Tripoli-4 prints them in) *)
CellAt(sh, k) == <<(k - 1) \div (sh[2] * sh[3]), ((k - 1) \div sh[3]) % sh[2], (k - 1) % sh[3]>>

(* injective cell code; ie = 0 is the result integrated over energy (and space), ie = 9 the per-cell
   energy-integrated mesh; c = rank of the cell - 1 *)
Code(ed, r, z, ie, it, c) == (((((ed * 4 + r) * 4 + z) * 10 + ie) * 6 + it) * 8 + c)

Zero(spec, ie, it, c) == spec.sign = "mixed" /\ (ie + it + c) % 3 = 0
ValNum(spec, ed, r, z, ie, it, c) ==
   LET n == Code(ed, r, z, ie, it, c) IN
   IF Zero(spec, ie, it, c) THEN 0
   ELSE IF spec.sign = "neg" \/ (spec.sign = "mixed" /\ (ie + it + c) % 3 = 1) THEN -(2 * n + 1)
   ELSE 2 * n + 1
SigNum(spec, ed, r, z, ie, it, c) ==
   IF Zero(spec, ie, it, c) THEN 0 ELSE 1 + (Code(ed, r, z, ie, it, c) % 11)

-----------------------------------------------------------------------------
(* WRITTEN *)

Rev(s) == [i \in 1 .. Len(s) |-> s[Len(s) + 1 - i]]
Ordered(n, order) == IF order = "inc" THEN [i \in 1 .. n |-> i] ELSE [i \in 1 .. n |-> n + 1 - i]

PrintCells(spec, ed, r, z, ie, it) ==
   LET sh == ShapeOf(spec) IN
   [k \in 1 .. NCells(sh) |->
      [u |-> CellAt(sh, k)[1], v |-> CellAt(sh, k)[2], w |-> CellAt(sh, k)[3],
       vn |-> ValNum(spec, ed, r, z, ie, it, k - 1),
       sn |-> SigNum(spec, ed, r, z, ie, it, k - 1)]]

PrintSection(spec, ed, r, z, it) ==
   [timed |-> spec.nt > 0,
    tmin  |-> IF spec.nt > 0 THEN it - 1 ELSE 0,
    tmax  |-> IF spec.nt > 0 THEN it ELSE 0,
    rows  |-> [k \in 1 .. spec.ne |->
                 LET ie == Ordered(spec.ne, spec.eorder)[k] IN
                 [a  |-> IF spec.eorder = "inc" THEN ie - 1 ELSE ie,
                  b  |-> IF spec.eorder = "inc" THEN ie ELSE ie - 1,
                  cells |-> PrintCells(spec, ed, r, z, ie, it)]],
    emesh |-> [kind |-> IF spec.emesh THEN "yes" ELSE "no",
               cells |-> IF spec.emesh THEN PrintCells(spec, ed, r, z, 9, it) ELSE <<>>],
    integ |-> [kind |-> spec.integ,
               vn |-> IF spec.integ = "yes" THEN ValNum(spec, ed, r, z, 0, it, 0) ELSE 0,
               sn |-> IF spec.integ = "yes" THEN SigNum(spec, ed, r, z, 0, it, 0) ELSE 0]]

PrintZone(spec, ed, r, z) ==
   [zid |-> ZoneId(spec, z), kind |-> spec.kind,
    secs |-> [k \in 1 .. NT(spec) |-> PrintSection(spec, ed, r, z, Ordered(NT(spec), spec.torder)[k])]]

PrintResp(spec, ed, r) ==
   [fn |-> 1 + (r % 2), name |-> r,
    zones |-> [z \in 1 .. spec.nz |-> PrintZone(spec, ed, r, z)]]

PrintDoc(doc) == [ed \in 1 .. doc.ned |->
                 [batch |-> BatchOf(ed), time |-> TimeOf(ed),
                  resps |-> [r \in 1 .. Len(doc.resps) |-> PrintResp(doc.resps[r], ed, r)]]]

-----------------------------------------------------------------------------
(* READ: defined on the printed listing only *)

SortSet(S) == [i \in 1 .. Cardinality(S) |-> CHOOSE x \in S : Cardinality({y \in S : y < x}) = i - 1]
Min2(a, b) == IF a <= b THEN a ELSE b
Max2(a, b) == IF a >= b THEN a ELSE b
MaxOf(S) == CHOOSE x \in S : \A y \in S : y <= x

(* grid of a block of cell lines: one more than the largest printed index in each direction *)
GridOf(cells) == <<1 + MaxOf({cells[j].u : j \in DOMAIN cells}),
                   1 + MaxOf({cells[j].v : j \in DOMAIN cells}),
                   1 + MaxOf({cells[j].w : j \in DOMAIN cells})>>
(* the line of a block printed for the cell of rank k of the grid sh *)
LineOf(cells, sh, k) == CHOOSE j \in DOMAIN cells : <<cells[j].u, cells[j].v, cells[j].w>> = CellAt(sh, k)

ReadZone(fn, name, zone) ==
   LET secs == zone.secs
       timed == secs[1].timed
       ebins == SortSet(UNION {{secs[1].rows[k].a, secs[1].rows[k].b} : k \in DOMAIN secs[1].rows})
       tbins == IF timed THEN SortSet(UNION {{secs[k].tmin, secs[k].tmax} : k \in DOMAIN secs}) ELSE <<>>
       ne == Len(ebins) - 1
       nts == IF timed THEN Len(tbins) - 1 ELSE 1
       sh == GridOf(secs[1].rows[1].cells)
       SecOf(it) == IF timed THEN CHOOSE k \in DOMAIN secs : secs[k].tmin = tbins[it] /\ secs[k].tmax = tbins[it + 1]
                    ELSE 1
       RowOf(it, ie) == LET rows == secs[SecOf(it)].rows IN
                        CHOOSE k \in DOMAIN rows : Min2(rows[k].a, rows[k].b) = ebins[ie]
                                                   /\ Max2(rows[k].a, rows[k].b) = ebins[ie + 1]
       CellsOf(it, ie) == secs[SecOf(it)].rows[RowOf(it, ie)].cells
   IN [fn |-> fn, name |-> name, zid |-> zone.zid, shape |-> sh, ebins |-> ebins, tbins |-> tbins,
       val |-> [ie \in 1 .. ne |-> [it \in 1 .. nts |-> [k \in 1 .. NCells(sh) |->
                   CellsOf(it, ie)[LineOf(CellsOf(it, ie), sh, k)].vn]]],
       sig |-> [ie \in 1 .. ne |-> [it \in 1 .. nts |-> [k \in 1 .. NCells(sh) |->
                   CellsOf(it, ie)[LineOf(CellsOf(it, ie), sh, k)].sn]]],
       emesh |-> [it \in 1 .. nts |->
                    LET m == secs[SecOf(it)].emesh IN
                    IF m.kind = "yes"
                    THEN [kind |-> "yes",
                          val |-> [k \in 1 .. NCells(sh) |-> m.cells[LineOf(m.cells, sh, k)].vn],
                          sig |-> [k \in 1 .. NCells(sh) |-> m.cells[LineOf(m.cells, sh, k)].sn]]
                    ELSE [kind |-> "no", val |-> <<>>, sig |-> <<>>]],
       integ |-> [it \in 1 .. nts |-> secs[SecOf(it)].integ]]

Flatten(ss) == LET RECURSIVE F(_) F(i) == IF i > Len(ss) THEN <<>> ELSE ss[i] \o F(i + 1) IN F(1)

ReadEdition(edition) ==
   Flatten([r \in 1 .. Len(edition.resps) |->
              [z \in 1 .. Len(edition.resps[r].zones) |->
                 ReadZone(edition.resps[r].fn, edition.resps[r].name, edition.resps[r].zones[z])]])

(* a listing is well formed for reading when batch numbers are distinct *)
ReadOf(listing, batch) ==
   LET k == CHOOSE k \in DOMAIN listing : listing[k].batch = batch IN
   [time |-> listing[k].time, items |-> ReadEdition(listing[k])]

-----------------------------------------------------------------------------
(* the same reading, by construction from the structure *)
ExpectedZone(spec, ed, r, z) ==
   LET nc == NCells(ShapeOf(spec)) IN
   [fn |-> 1 + (r % 2), name |-> r, zid |-> ZoneId(spec, z), shape |-> ShapeOf(spec),
    ebins |-> [i \in 1 .. spec.ne + 1 |-> i - 1],
    tbins |-> IF spec.nt > 0 THEN [i \in 1 .. spec.nt + 1 |-> i - 1] ELSE <<>>,
    val |-> [ie \in 1 .. spec.ne |-> [it \in 1 .. NT(spec) |-> [k \in 1 .. nc |-> ValNum(spec, ed, r, z, ie, it, k - 1)]]],
    sig |-> [ie \in 1 .. spec.ne |-> [it \in 1 .. NT(spec) |-> [k \in 1 .. nc |-> SigNum(spec, ed, r, z, ie, it, k - 1)]]],
    emesh |-> [it \in 1 .. NT(spec) |->
                 IF spec.emesh
                 THEN [kind |-> "yes",
                       val |-> [k \in 1 .. nc |-> ValNum(spec, ed, r, z, 9, it, k - 1)],
                       sig |-> [k \in 1 .. nc |-> SigNum(spec, ed, r, z, 9, it, k - 1)]]
                 ELSE [kind |-> "no", val |-> <<>>, sig |-> <<>>]],
    integ |-> [it \in 1 .. NT(spec) |->
                 [kind |-> spec.integ,
                  vn |-> IF spec.integ = "yes" THEN ValNum(spec, ed, r, z, 0, it, 0) ELSE 0,
                  sn |-> IF spec.integ = "yes" THEN SigNum(spec, ed, r, z, 0, it, 0) ELSE 0]]]

Expected(doc, ed) ==
   [time |-> TimeOf(ed),
    items |-> Flatten([r \in 1 .. Len(doc.resps) |->
                         [z \in 1 .. doc.resps[r].nz |-> ExpectedZone(doc.resps[r], ed, r, z)]])]

-----------------------------------------------------------------------------
VARIABLES doc, req, printed, expected, pc
vars == <<doc, req, printed, expected, pc>>

RespChoices(k) == {r \in RespSpec : Canonical(r) /\ (Thin /\ k > 1 => ThinSpec(r))}

Init == /\ \E ned \in 1 .. MaxEditions, nr \in 1 .. MaxResponses :
              /\ doc \in [ned : {ned}, resps : {s \in [1 .. nr -> RespSpec] : \A k \in 1 .. nr : s[k] \in RespChoices(k)}]
              /\ req \in 1 .. ned
        /\ printed = <<>> /\ expected = [time |-> 0, items |-> <<>>] /\ pc = "todo"

Eval == /\ pc = "todo" /\ pc' = "done"
        /\ printed' = PrintDoc(doc)
        /\ expected' = Expected(doc, req)
        /\ UNCHANGED <<doc, req>>

Next == Eval
Spec == Init /\ [][Next]_vars

-----------------------------------------------------------------------------
Evaluated == pc = "done"

(* reading the printed text gives the reading defined by construction *)
ReadIsExpected == Evaluated => ReadOf(printed, BatchOf(req)) = expected

(* every printed line (row x cell) is read exactly once, at the bin whose bounds are the printed ones and in the
   cell whose indices are the printed ones; so is every line of an energy-integrated mesh *)
EveryRowRead ==
   Evaluated =>
      \A r \in DOMAIN printed[req].resps : \A z \in DOMAIN printed[req].resps[r].zones :
         LET zone == printed[req].resps[r].zones[z]
             item == ReadZone(printed[req].resps[r].fn, printed[req].resps[r].name, zone)
             RankOf(c) == (c.u * item.shape[2] + c.v) * item.shape[3] + c.w + 1 IN
         \A s \in DOMAIN zone.secs :
            LET it == IF zone.secs[s].timed THEN CHOOSE i \in 1 .. Len(item.tbins) - 1 : item.tbins[i] = zone.secs[s].tmin
                      ELSE 1 IN
            /\ \A k \in DOMAIN zone.secs[s].rows :
                  LET row == zone.secs[s].rows[k]
                      ie == CHOOSE i \in 1 .. Len(item.ebins) - 1 : item.ebins[i] = Min2(row.a, row.b) IN
                  /\ item.ebins[ie + 1] = Max2(row.a, row.b)
                  /\ Len(row.cells) = NCells(item.shape)
                  /\ \A j \in DOMAIN row.cells :
                        /\ item.val[ie][it][RankOf(row.cells[j])] = row.cells[j].vn
                        /\ item.sig[ie][it][RankOf(row.cells[j])] = row.cells[j].sn
            /\ \A j \in DOMAIN zone.secs[s].emesh.cells :
                  LET c == zone.secs[s].emesh.cells[j] IN
                  /\ item.emesh[it].val[RankOf(c)] = c.vn
                  /\ item.emesh[it].sig[RankOf(c)] = c.sn
            /\ item.integ[it] = zone.secs[s].integ

BinsIncreasing ==
   Evaluated => \A i \in DOMAIN expected.items :
                   LET e == expected.items[i].ebins t == expected.items[i].tbins IN
                   /\ \A k \in 1 .. Len(e) - 1 : e[k] < e[k + 1]
                   /\ \A k \in 1 .. Len(t) - 1 : t[k] < t[k + 1]

(* non-zero scores of a listing (cells of the rows, of the energy-integrated meshes, integrated results) are pairwise
   distinct: a swap cannot go unnoticed *)
SectionNumbers(sec) ==
   UNION {{<<k, j, sec.rows[k].cells[j].vn>> : j \in DOMAIN sec.rows[k].cells} : k \in DOMAIN sec.rows}
   \cup {<<-1, j, sec.emesh.cells[j].vn>> : j \in DOMAIN sec.emesh.cells}
   \cup {<<-2, 0, sec.integ.vn>>}
AllNumbers(listing) ==
   UNION {UNION {UNION {UNION {{<<ed, r, z, s, x[1], x[2], x[3]>> :
                                   x \in SectionNumbers(listing[ed].resps[r].zones[z].secs[s])} :
                               s \in DOMAIN listing[ed].resps[r].zones[z].secs} :
                        z \in DOMAIN listing[ed].resps[r].zones} :
                 r \in DOMAIN listing[ed].resps} :
          ed \in DOMAIN listing}
Injective ==
   Evaluated => \A x, y \in AllNumbers(printed) : (x[7] = y[7] /\ x[7] # 0) => x = y

(* witnesses *)
W_DecreasingBoth == ~(Evaluated /\ \E r \in DOMAIN doc.resps : doc.resps[r].eorder = "dec" /\ doc.resps[r].torder = "dec")
W_SecondEdition == ~(Evaluated /\ req = 2)
W_NotConverged == ~(Evaluated /\ \E r \in DOMAIN doc.resps : doc.resps[r].integ = "notconv" /\ doc.resps[r].sign = "mixed")
W_MeshTimedNotConverged ==
   ~(Evaluated /\ \E r \in DOMAIN doc.resps :
        LET s == doc.resps[r] IN
        /\ s.kind = "mesh" /\ NCells(ShapeOf(s)) > 1 /\ s.emesh /\ s.integ = "notconv"
        /\ s.eorder = "dec" /\ s.torder = "dec" /\ s.sign = "mixed")
=============================================================================
