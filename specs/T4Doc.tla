------------------------------ MODULE T4Doc ------------------------------
(* C10 -- the numbers read from a Tripoli-4 listing are the numbers written there.

   Two views of a listing.

   WRITTEN (what Tripoli-4 prints).  A listing is a sequence of editions
        [batch, time, resps]
   a response  [fn, name, zones]          (response function, response name)
   a zone      [zid, secs]                (scoring zone id, one section per time
                                           step, a single section when the score
                                           has no time grid)
   a section   [timed, tmin, tmax, rows, integ]
   a row       [a, b, vn, sn]             "a - b   score   sigma%": group bounds AS
                                           PRINTED (a > b when the groups are
                                           printed by decreasing energy)
   integ       [kind, vn, sn]             kind = "yes" | "no" | "notconv"
   Bounds are indices in an increasing table of energies / times; vn is the score
   numerator (score = vn/2) and sn the sigma% numerator (sigma% = sn/2): the
   harness turns them into exactly representable decimal numbers.

   READ (what C10 says a parse of edition `batch` must return): ReadOf gives one
   item per (response, zone) in print order, with
        ebins   the group bounds in increasing order
        tbins   the time bounds in increasing order (<<>> without time grid)
        val[ie][it], sig[ie][it]   score / sigma% of the group whose bounds are
                 ebins[ie], ebins[ie+1] in the time step tbins[it], tbins[it+1]
        integ[it]                  the energy-integrated result of that time step
   The error of a cell is val * sig / 100 (checked by the harness from val, sig).

   The module is function-like (see Slice.tla): Init enumerates document
   STRUCTURES (editions x responses x zones x groups x time steps x print orders
   x sign classes x integrated kinds), Eval builds the printed listing (PrintDoc) and
   the expected reading of the requested edition, once by construction
   (Expected) and once from the printed text alone (ReadOf); they must agree.
   Cell values are an injective function of (edition, response, zone, group,
   time step), so any swap, shift or wrong edition is visible.
*)
EXTENDS Integers, Sequences, FiniteSets, TLC

CONSTANTS MaxEditions, MaxResponses, MaxZones, MaxE, MaxT,
          Thin        \* TRUE: the second response only varies its grids (fewer documents)

Orders == {"inc", "dec"}
Signs == {"pos", "neg", "mixed"}
IntegKinds == {"yes", "no", "notconv"}

(* structure of one response; every edition prints the same structure *)
RespSpec == [ne : 1 .. MaxE, nt : 0 .. MaxT, eorder : Orders, torder : Orders,
             integ : IntegKinds, sign : Signs, nz : 1 .. MaxZones]

(* print orders only matter with at least two groups / steps *)
Canonical(r) == /\ (r.ne = 1 => r.eorder = "inc")
                /\ (r.nt <= 1 => r.torder = "inc")
ThinSpec(r) == r.integ = "yes" /\ r.sign = "pos" /\ r.nz = 1

NT(r) == IF r.nt = 0 THEN 1 ELSE r.nt
BatchOf(ed) == 10 * ed
TimeOf(ed) == 3 * ed + 1
ZoneId(z) == 3 + z                    \* the same volumes are scored by every response

(* injective cell code; ie = 0 is the energy-integrated result *)
Code(ed, r, z, ie, it) == ((((ed * 4 + r) * 4 + z) * 10 + ie) * 6 + it)

Zero(spec, ie, it) == spec.sign = "mixed" /\ (ie + it) % 3 = 0
ValNum(spec, ed, r, z, ie, it) ==
   LET c == Code(ed, r, z, ie, it) IN
   IF Zero(spec, ie, it) THEN 0
   ELSE IF spec.sign = "neg" \/ (spec.sign = "mixed" /\ (ie + it) % 3 = 1) THEN -(2 * c + 1)
   ELSE 2 * c + 1
SigNum(spec, ed, r, z, ie, it) ==
   IF Zero(spec, ie, it) THEN 0 ELSE 1 + (Code(ed, r, z, ie, it) % 11)

-----------------------------------------------------------------------------
(* WRITTEN *)

Rev(s) == [i \in 1 .. Len(s) |-> s[Len(s) + 1 - i]]
Ordered(n, order) == IF order = "inc" THEN [i \in 1 .. n |-> i] ELSE [i \in 1 .. n |-> n + 1 - i]

PrintSection(spec, ed, r, z, it) ==
   [timed |-> spec.nt > 0,
    tmin  |-> IF spec.nt > 0 THEN it - 1 ELSE 0,
    tmax  |-> IF spec.nt > 0 THEN it ELSE 0,
    rows  |-> [k \in 1 .. spec.ne |->
                 LET ie == Ordered(spec.ne, spec.eorder)[k] IN
                 [a  |-> IF spec.eorder = "inc" THEN ie - 1 ELSE ie,
                  b  |-> IF spec.eorder = "inc" THEN ie ELSE ie - 1,
                  vn |-> ValNum(spec, ed, r, z, ie, it),
                  sn |-> SigNum(spec, ed, r, z, ie, it)]],
    integ |-> [kind |-> spec.integ,
               vn |-> IF spec.integ = "yes" THEN ValNum(spec, ed, r, z, 0, it) ELSE 0,
               sn |-> IF spec.integ = "yes" THEN SigNum(spec, ed, r, z, 0, it) ELSE 0]]

PrintZone(spec, ed, r, z) ==
   [zid |-> ZoneId(z),
    secs |-> [k \in 1 .. NT(spec) |-> PrintSection(spec, ed, r, z, Ordered(NT(spec), spec.torder)[k])]]

PrintResp(spec, ed, r) ==
   [fn |-> 1 + (r % 2), name |-> r,
    zones |-> [z \in 1 .. spec.nz |-> PrintZone(spec, ed, r, z)]]

PrintDoc(doc) == [ed \in 1 .. doc.ned |->
                 [batch |-> BatchOf(ed), time |-> TimeOf(ed),
                  resps |-> [r \in 1 .. Len(doc.resps) |-> PrintResp(doc.resps[r], ed, r)]]]

-----------------------------------------------------------------------------
(* READ: defined on the printed listing only *)

SortSet(S) == [i \in 1 .. Cardinality(S) |-> CHOOSE x \in S : Cardinality({y \in S : y < x}) = i - 1]
Min2(a, b) == IF a <= b THEN a ELSE b
Max2(a, b) == IF a >= b THEN a ELSE b

ReadZone(fn, name, zone) ==
   LET secs == zone.secs
       timed == secs[1].timed
       ebins == SortSet(UNION {{secs[1].rows[k].a, secs[1].rows[k].b} : k \in DOMAIN secs[1].rows})
       tbins == IF timed THEN SortSet(UNION {{secs[k].tmin, secs[k].tmax} : k \in DOMAIN secs}) ELSE <<>>
       ne == Len(ebins) - 1
       nts == IF timed THEN Len(tbins) - 1 ELSE 1
       SecOf(it) == IF timed THEN CHOOSE k \in DOMAIN secs : secs[k].tmin = tbins[it] /\ secs[k].tmax = tbins[it + 1]
                    ELSE 1
       RowOf(it, ie) == LET rows == secs[SecOf(it)].rows IN
                        CHOOSE k \in DOMAIN rows : Min2(rows[k].a, rows[k].b) = ebins[ie]
                                                   /\ Max2(rows[k].a, rows[k].b) = ebins[ie + 1]
   IN [fn |-> fn, name |-> name, zid |-> zone.zid, ebins |-> ebins, tbins |-> tbins,
       val |-> [ie \in 1 .. ne |-> [it \in 1 .. nts |-> secs[SecOf(it)].rows[RowOf(it, ie)].vn]],
       sig |-> [ie \in 1 .. ne |-> [it \in 1 .. nts |-> secs[SecOf(it)].rows[RowOf(it, ie)].sn]],
       integ |-> [it \in 1 .. nts |-> secs[SecOf(it)].integ]]

Flatten(ss) == LET RECURSIVE F(_) F(i) == IF i > Len(ss) THEN <<>> ELSE ss[i] \o F(i + 1) IN F(1)

ReadEdition(edition) ==
   Flatten([r \in 1 .. Len(edition.resps) |->
              [z \in 1 .. Len(edition.resps[r].zones) |->
                 ReadZone(edition.resps[r].fn, edition.resps[r].name, edition.resps[r].zones[z])]])

(* a listing is well formed for reading when batch numbers are distinct *)
ReadOf(listing, batch) ==
   LET k == CHOOSE k \in DOMAIN listing : listing[k].batch = batch IN
   [time |-> listing[k].time, items |-> ReadEdition(listing[k])]

-----------------------------------------------------------------------------
(* the same reading, by construction from the structure *)
ExpectedZone(spec, ed, r, z) ==
   [fn |-> 1 + (r % 2), name |-> r, zid |-> ZoneId(z),
    ebins |-> [i \in 1 .. spec.ne + 1 |-> i - 1],
    tbins |-> IF spec.nt > 0 THEN [i \in 1 .. spec.nt + 1 |-> i - 1] ELSE <<>>,
    val |-> [ie \in 1 .. spec.ne |-> [it \in 1 .. NT(spec) |-> ValNum(spec, ed, r, z, ie, it)]],
    sig |-> [ie \in 1 .. spec.ne |-> [it \in 1 .. NT(spec) |-> SigNum(spec, ed, r, z, ie, it)]],
    integ |-> [it \in 1 .. NT(spec) |->
                 [kind |-> spec.integ,
                  vn |-> IF spec.integ = "yes" THEN ValNum(spec, ed, r, z, 0, it) ELSE 0,
                  sn |-> IF spec.integ = "yes" THEN SigNum(spec, ed, r, z, 0, it) ELSE 0]]]

Expected(doc, ed) ==
   [time |-> TimeOf(ed),
    items |-> Flatten([r \in 1 .. Len(doc.resps) |->
                         [z \in 1 .. doc.resps[r].nz |-> ExpectedZone(doc.resps[r], ed, r, z)]])]

-----------------------------------------------------------------------------
VARIABLES doc, req, printed, expected, pc
vars == <<doc, req, printed, expected, pc>>

RespChoices(k) == {r \in RespSpec : Canonical(r) /\ (Thin /\ k > 1 => ThinSpec(r))}

Init == /\ \E ned \in 1 .. MaxEditions, nr \in 1 .. MaxResponses :
              /\ doc \in [ned : {ned}, resps : {s \in [1 .. nr -> RespSpec] : \A k \in 1 .. nr : s[k] \in RespChoices(k)}]
              /\ req \in 1 .. ned
        /\ printed = <<>> /\ expected = [time |-> 0, items |-> <<>>] /\ pc = "todo"

Eval == /\ pc = "todo" /\ pc' = "done"
        /\ printed' = PrintDoc(doc)
        /\ expected' = Expected(doc, req)
        /\ UNCHANGED <<doc, req>>

Next == Eval
Spec == Init /\ [][Next]_vars

-----------------------------------------------------------------------------
Evaluated == pc = "done"

(* reading the printed text gives the reading defined by construction *)
ReadIsExpected == Evaluated => ReadOf(printed, BatchOf(req)) = expected

(* every printed row is read exactly once, at the bin whose bounds are the printed ones *)
EveryRowRead ==
   Evaluated =>
      \A r \in DOMAIN printed[req].resps : \A z \in DOMAIN printed[req].resps[r].zones :
         LET zone == printed[req].resps[r].zones[z]
             item == ReadZone(printed[req].resps[r].fn, printed[req].resps[r].name, zone) IN
         \A s \in DOMAIN zone.secs : \A k \in DOMAIN zone.secs[s].rows :
            LET row == zone.secs[s].rows[k]
                ie == CHOOSE i \in 1 .. Len(item.ebins) - 1 : item.ebins[i] = Min2(row.a, row.b)
                it == IF zone.secs[s].timed THEN CHOOSE i \in 1 .. Len(item.tbins) - 1 : item.tbins[i] = zone.secs[s].tmin
                      ELSE 1 IN
            /\ item.ebins[ie + 1] = Max2(row.a, row.b)
            /\ item.val[ie][it] = row.vn /\ item.sig[ie][it] = row.sn

BinsIncreasing ==
   Evaluated => \A i \in DOMAIN expected.items :
                   LET e == expected.items[i].ebins t == expected.items[i].tbins IN
                   /\ \A k \in 1 .. Len(e) - 1 : e[k] < e[k + 1]
                   /\ \A k \in 1 .. Len(t) - 1 : t[k] < t[k + 1]

(* non-zero scores of a listing are pairwise distinct: a swap cannot go unnoticed *)
AllNumbers(listing) ==
   UNION {UNION {UNION {UNION {{<<ed, r, z, s, k, listing[ed].resps[r].zones[z].secs[s].rows[k].vn>> :
                                   k \in DOMAIN listing[ed].resps[r].zones[z].secs[s].rows} :
                               s \in DOMAIN listing[ed].resps[r].zones[z].secs} :
                        z \in DOMAIN listing[ed].resps[r].zones} :
                 r \in DOMAIN listing[ed].resps} :
          ed \in DOMAIN listing}
Injective ==
   Evaluated => \A x, y \in AllNumbers(printed) : (x[6] = y[6] /\ x[6] # 0) => x = y

(* witnesses *)
W_DecreasingBoth == ~(Evaluated /\ \E r \in DOMAIN doc.resps : doc.resps[r].eorder = "dec" /\ doc.resps[r].torder = "dec")
W_SecondEdition == ~(Evaluated /\ req = 2)
W_NotConverged == ~(Evaluated /\ \E r \in DOMAIN doc.resps : doc.resps[r].integ = "notconv" /\ doc.resps[r].sign = "mixed")
=============================================================================
