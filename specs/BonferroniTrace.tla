------------------------- MODULE BonferroniTrace -------------------------
(* Code -> spec direction for C06.  Each case is one call of the implementation
   (static methods, or TestBonferroni / TestHolmBonferroni around a test
   object): the p-values it was given, bin by bin, together with what came back
   *at the same bin*: the Bonferroni flag, the Holm flag and the denominator
   den of the level level/den the Holm method reports for that bin (which
   names the rank m - den + 1 the implementation gave the bin).  One case per
   step; the verdict is total: for every case the set of violated clauses of
   the property is collected, never just "rejected".

   Bins are named here by their position in the recorded list of cells (the
   recorder pairs input and output by multi-index, so no linearisation
   convention is shared with the code under test).

   Clause names
     bonf/nan-accepted  holm/nan-accepted   an undefined p-value was not flagged
     bonf/flags  holm/flags                 a defined p-value is flagged wrongly
     bonf/flags-at-equality  holm/flags-at-equality
                                            ... and every such bin sits exactly on its level
     bonf/level                             reported per-bin level is not level/m
     holm/ranks                             the reported levels are not level/(m-k+1) for a
                                            ranking k that sorts the p-values
     bonf/count holm/count                  nb_rejected is not the number of flags
     bonf/verdict holm/verdict              bool(result) is not "nothing flagged"
     inclusion/tie                          flagged by Bonferroni, not by Holm, at p = level/m, rank 1
     inclusion/other                        flagged by Bonferroni, not by Holm, anywhere else
     binwise                                passes bin by bin but a correction flags something *)
EXTENDS Integers, Sequences, FiniteSets, TLC, Json, IOUtils

CONSTANT NaN
Shapes == {}  PNums == {}  PDen == 1  Levels == {}  NData == {}
VARIABLES shape, level, pss, out, pc
B == INSTANCE Bonferroni

Cases == JsonDeserialize(IOEnv.VERIF_CASES)
NCases == Len(Cases)

VARIABLES i, bad
tvars == <<shape, level, pss, out, pc, i, bad>>

P(cell) == IF Len(cell.p) = 0 THEN NaN ELSE <<cell.p[1], cell.p[2]>>
PsOf(ds) == [b \in 1 .. Len(ds.cells) |-> P(ds.cells[b])]

DsClauses(c, lvl, ds) ==
   LET ps   == PsOf(ds)
       m    == Len(ds.cells)
       bins == 1 .. m
       cell == ds.cells
       den  == [b \in bins |-> cell[b].hden]
       bexp == B!BonfFlags(ps, lvl)
       nanB == {b \in bins : ps[b] = NaN /\ ~cell[b].bonf}
       nanH == {b \in bins : ps[b] = NaN /\ ~cell[b].hflag}
       misB == {b \in bins : ps[b] # NaN /\ cell[b].bonf # bexp[b]}
       misH == {b \in bins : ps[b] # NaN /\ den[b] \in bins
                              /\ cell[b].hflag # B!HolmFlag(ps[b], lvl, den[b])}
       incl == {b \in bins : cell[b].bonf /\ ~cell[b].hflag}
       tie  == {b \in incl : ps[b] # NaN /\ B!EqR(ps[b], B!Over(lvl, m)) /\ den[b] = m}
   IN    (IF nanB # {} THEN {"bonf/nan-accepted"} ELSE {})
    \cup (IF nanH # {} THEN {"holm/nan-accepted"} ELSE {})
    \cup (IF misB = {} THEN {}
          ELSE IF \A b \in misB : B!EqR(ps[b], B!Over(lvl, m)) THEN {"bonf/flags-at-equality"}
          ELSE {"bonf/flags"})
    \cup (IF misH = {} THEN {}
          ELSE IF \A b \in misH : B!EqR(ps[b], B!Over(lvl, den[b])) THEN {"holm/flags-at-equality"}
          ELSE {"holm/flags"})
    \cup (IF B!ValidDens(ps, den) THEN {} ELSE {"holm/ranks"})
    \cup (IF c.bonfDen \in {-1, m} THEN {} ELSE {"bonf/level"})
    \cup (IF ds.nbBonf = Cardinality({b \in bins : cell[b].bonf}) THEN {} ELSE {"bonf/count"})
    \cup (IF ds.nbHolm = Cardinality({b \in bins : cell[b].hflag}) THEN {} ELSE {"holm/count"})
    \cup (IF tie # {} THEN {"inclusion/tie"} ELSE {})
    \cup (IF incl \ tie # {} THEN {"inclusion/other"} ELSE {})

AnyFlag(c, which) == \E d \in 1 .. Len(c.data) : \E b \in 1 .. Len(c.data[d].cells) :
                        IF which = "bonf" THEN c.data[d].cells[b].bonf ELSE c.data[d].cells[b].hflag

Clauses(c) ==
   LET lvl == <<c.level[1], c.level[2]>> IN
   UNION {DsClauses(c, lvl, c.data[d]) : d \in 1 .. Len(c.data)}
    \cup (IF c.haveVerdict /\ c.bonfVerdict # ~AnyFlag(c, "bonf") THEN {"bonf/verdict"} ELSE {})
    \cup (IF c.haveVerdict /\ c.holmVerdict # ~AnyFlag(c, "holm") THEN {"holm/verdict"} ELSE {})
    \cup (IF c.binwise /\ (AnyFlag(c, "bonf") \/ AnyFlag(c, "holm")) THEN {"binwise"} ELSE {})

TInit == /\ i = 1 /\ bad = {}
         /\ shape = <<>> /\ level = <<0, 1>> /\ pss = <<>> /\ out = <<>> /\ pc = "todo"
TStep == /\ i <= NCases
         /\ i' = i + 1
         /\ LET cl == Clauses(Cases[i]) IN
            bad' = IF cl = {} THEN bad ELSE bad \cup {<<Cases[i].id, cl>>}
         /\ (i = NCases => TLCSet(1, bad'))
         /\ UNCHANGED <<shape, level, pss, out, pc>>
TSpec == TInit /\ [][TStep]_tvars

Post == /\ TLCGet("stats").diameter = NCases + 1
        /\ JsonSerialize(IOEnv.VERIF_OUT, [bad |-> TLCGet(1)])
=============================================================================
