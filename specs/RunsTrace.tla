------------------------------ MODULE RunsTrace ------------------------------
(* Code -> spec direction for C04: histories of real read_env -> schedule ->
   write_env cycles (probe tasks, real pickle files, deterministic scheduler,
   faults applied between runs) validated against Runs.

   Logged events: the faults (flip / lose / add), "start" (the environment
   read_env produced), "exec" (task, start clock, end clock, in order of
   publication) and "end" (the environment at the end of the run and the
   execution counters).  The master's decisions are not logged: MDecide is a
   silent step and TLC infers it.

   Strict = TRUE : the history must be a behaviour of Runs (rejection = the
   implementation does not follow the model).  Strict = FALSE: observer mode,
   the logged environments are bound to the variables so that the C04
   invariants are evaluated on what the implementation really produced. *)
EXTENDS Runs, Json, IOUtils

CONSTANT Strict

Traces  == JsonDeserialize(IOEnv.VERIF_TRACES)
NTraces == Len(Traces)

VARIABLES tid, l
tvars == <<vars, tid, l>>

KindOf(c) == [p \in DagPairs |->
                IF \E i \in DOMAIN c.edges : c.edges[i][1] = p[1] /\ c.edges[i][2] = p[2]
                THEN LET i == CHOOSE i \in DOMAIN c.edges : c.edges[i][1] = p[1] /\ c.edges[i][2] = p[2]
                     IN c.edges[i][3]
                ELSE "none"]
EnvOf(x) == [t \in Tasks |-> [st |-> x[t].st, ver |-> x[t].ver, s |-> x[t].s, e |-> x[t].e, od |-> x[t].od]]

TInit ==
   /\ tid \in 1 .. NTraces /\ l = 1
   /\ LET c == Traces[tid].cfg IN
      /\ kind = KindOf(c) /\ hasdir = [t \in Tasks |-> c.hasdir[t]]
      /\ present = [t \in Tasks |-> c.present[t]] /\ beh = [t \in Tasks |-> c.beh[t]]
   /\ file = [t \in Tasks |-> NoEntry] /\ env = [t \in Tasks |-> NoEntry]
   /\ clock = 0 /\ run = 0 /\ phase = "idle"
   /\ left = <<>> /\ idx = 0 /\ newleft = <<>> /\ nbefore = 0 /\ mwait = FALSE /\ npend = FALSE /\ ready = {}
   /\ faults = 0
   /\ execd = [t \in Tasks |-> 0] /\ wasDone = [t \in Tasks |-> FALSE] /\ envAtStart = env
   /\ TLCSet(tid, 1) /\ TLCSet(NTraces + tid, {})

Failing ==
   {n \in {"C04_AllFinal", "C04_Fresh", "C04_NoNeedlessRerun", "C04_AtMostOnce"} :
      CASE n = "C04_AllFinal"        -> ~C04_AllFinal
        [] n = "C04_Fresh"           -> ~C04_Fresh
        [] n = "C04_NoNeedlessRerun" -> ~C04_NoNeedlessRerun
        [] n = "C04_AtMostOnce"      -> ~C04_AtMostOnce}
Note(r) == TLCSet(NTraces + tid, TLCGet(NTraces + tid) \cup r)
Reach(x) == TLCSet(tid, IF TLCGet(tid) < x THEN x ELSE TLCGet(tid))

Ev == Traces[tid].events[l]
Consume == l' = l + 1 /\ tid' = tid /\ Reach(l + 1)

StrictStep ==
   /\ l <= Len(Traces[tid].events)
   /\ CASE Ev.type = "flip"  -> Flip(Ev.t, Ev.b)
        [] Ev.type = "lose"  -> Lose(Ev.t)
        [] Ev.type = "add"   -> Add(Ev.t)
        [] Ev.type = "start" -> StartRun(Ev.order) /\ env' = EnvOf(Ev.env)
        [] Ev.type = "exec"  -> Exec(Ev.t, Ev.s, Ev.e)
        [] Ev.type = "end"   -> EndRun /\ env = EnvOf(Ev.env) /\ execd = [t \in Tasks |-> Ev.execd[t]]
   /\ Consume

Silent == /\ l <= Len(Traces[tid].events) /\ MDecide /\ UNCHANGED <<tid, l>>

ObserverStep ==
   /\ l <= Len(Traces[tid].events)
   /\ CASE Ev.type = "flip"  -> beh' = [beh EXCEPT ![Ev.t] = Ev.b] /\ phase' = "between"
                                /\ UNCHANGED <<present, env, envAtStart, wasDone, execd, run>>
        [] Ev.type = "lose"  -> phase' = "between" /\ UNCHANGED <<beh, present, env, envAtStart, wasDone, execd, run>>
        [] Ev.type = "add"   -> present' = [present EXCEPT ![Ev.t] = TRUE] /\ phase' = "between"
                                /\ UNCHANGED <<beh, env, envAtStart, wasDone, execd, run>>
        [] Ev.type = "start" -> /\ env' = EnvOf(Ev.env) /\ envAtStart' = EnvOf(Ev.env) /\ phase' = "running" /\ run' = run + 1
                                /\ wasDone' = [t \in Tasks |-> Ev.env[t].st = "DONE"]
                                /\ execd' = [t \in Tasks |-> 0] /\ UNCHANGED <<beh, present>>
        [] Ev.type = "exec"  -> UNCHANGED <<beh, present, env, envAtStart, wasDone, execd, run, phase>>
        [] Ev.type = "end"   -> /\ env' = EnvOf(Ev.env) /\ execd' = [t \in Tasks |-> Ev.execd[t]] /\ phase' = "ended"
                                /\ UNCHANGED <<beh, present, envAtStart, wasDone, run>>
   /\ UNCHANGED <<kind, hasdir, file, clock, left, idx, newleft, nbefore, mwait, npend, ready, faults>>
   /\ Consume

TEnd == /\ l = Len(Traces[tid].events) + 1 /\ l' = l + 1 /\ Reach(l + 1) /\ UNCHANGED <<vars, tid>>

TNext == /\ Note(Failing)
         /\ (IF Strict THEN StrictStep \/ Silent ELSE ObserverStep) \/ TEnd
TSpec == TInit /\ [][TNext]_tvars

Post == JsonSerialize(IOEnv.VERIF_OUT, [reached |-> [t \in 1 .. NTraces |-> TLCGet(t)],
                                        failing |-> [t \in 1 .. NTraces |-> TLCGet(NTraces + t)]])
=============================================================================
