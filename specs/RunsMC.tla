------------------------------- MODULE RunsMC -------------------------------
EXTENDS Runs
MC_Dirs      == AllConfigs({TRUE})
MC_MixedDirs == AllConfigs({TRUE, FALSE})
MC_Chain3    == {[kind |-> [p \in DagPairs |-> IF p[1] = p[2] + 1 THEN "hard" ELSE "none"],
                  hasdir |-> [t \in Tasks |-> TRUE], present |-> [t \in Tasks |-> TRUE]]}
=============================================================================
