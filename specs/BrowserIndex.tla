---------------------------- MODULE BrowserIndex ----------------------------
(* valjean.eponine.browser.Index -- the inverted index  key -> value -> set of
   item ids  that a Browser builds from its list of items.  EXTRA module (not
   one of the listed properties; run at the end of C17).  Browser.tla is the
   abstract side (items = partial functions key -> value, selections by naive
   scan); this module is the REPRESENTATION: the state holds the index itself,
   together with the abstract item list it stands for, and the refinement
   invariant ties the two.

   Sentences of valjean's documentation that are modelled (browser.py):
    D1 "This class is based on an inheritance from collections.abc.Mapping ...
        It implements a defaultdict(defaultdict(set)).  set contains int that
        corresponds to the index of the dictionary in the list of
        dictionaries."                           -> Abs, BuildRep, Refines
    D2 "An additional key is added at the Index construction: 'index' in
        order to keep track of the order of the list"     -> field pos
    D3 "The keep_only method allows to get a sub-Index from a given set of ids
        (int), removing all keys not involved in the corresponding ids" /
        ":returns: Index only containing the keys involved in the ids" /
        "_filter_index_by ... :returns: Index (stripped from useless keys)"
                                  -> KeepRep, KeepExact, CleanOK, StripRep
    D4 the doctest of Index: 'drink' in myindex, len(myindex), iteration,
        myindex[k].keys(), the keep_only examples ("'drink' has been removed
        from the last index"), the source index answers the same afterwards
                                  -> ObsOf, Immutable, W_KeepDropsKey
    D5 "dump(sort=True) ... returns sorted Index (alphabetic order for keys)";
       "If sort == False (default case), returns __str__ result"; "If you
        print an Index, it looks like a standard dictionary"   -> dk/dv/dp
    D7 filter_by(include=...): "metadata keys required in the content items"
        (only used as the source of a second Browser for merge: the items
        that carry the key, renumbered)                     -> "sub"
    D6 module doc of Browser: "'quantity' in com_br  False" AFTER
        filter_by(quantity=5); "if the key doesn't exist an 'empty generator'
        is emitted" (available_values); "keys(): the available keys in the
        index (so in the items list)"; merge: "The new index correspond to the
        merged case."  A look-up is a question: asking for a key / value that
        is not there answers "nothing" and does not change what any later
        question answers (Mapping protocol: __getitem__ is a read).
                                  -> Lookup leaves ixs unchanged (ReadOnly)
   The class has no strip(), __setitem__ or __delitem__ of its own (it is a
   Mapping): `strip` is keep_only of all the ids (D3, "stripped from useless
   keys"); deletions and index[k][v].add(i) go through the public attribute
   `.index`, the write path of the class docstring
   (myindex.index['drink']['beer'] = {1, 4}).  They are in the model to reach
   indexes that hold empty sets / keys without values, and to show that the
   indexes of a session share nothing (Immutable).

   Item ids are 0-based as in Python: item n of the sequence has id n - 1.
   A session is a list `ixs` of indexes (the one built from the items first;
   keep_only / strip / merge append a new one and never touch the source). *)
EXTENDS Integers, Sequences, FiniteSets, TLC

CONSTANTS Keys,      \* metadata keys that items may carry
          Vals,      \* metadata values that items may carry
          XKeys,     \* keys used in look-ups only (no item carries them)
          XVals,     \* values used in look-ups only
          MaxItems,  \* items of the base list 0..MaxItems
          MaxMerged, \* bound on the items of a merged browser
          D0, D1, D2, D3, \* operations after the build for a base list of 0, 1, 2, 3 items
          MaxIx,     \* bound on the number of indexes of a session
          OpKinds,   \* subset of {"keep","strip","lookup","delkey","delval","add","merge","sub","dump"}
          HitLookups,\* TRUE: look-ups of present key/value pairs are enumerated too
          Variant    \* "doc" = as documented; anything else = deliberately wrong model (negative self-test)

(* the vocabulary, in the order of Python's sorted() (a cfg file cannot hold a sequence) *)
KeySeq == <<"alpha", "index", "kappa", "omega", "zeta">>
ValSeq == <<"a", "b", "c", "x", "y">>
Range(s) == {s[n] : n \in DOMAIN s}
QKeys == Keys \cup XKeys
QVals == Vals \cup XVals
ASSUME /\ QKeys \subseteq Range(KeySeq) \ {"index"} /\ QVals \subseteq Range(ValSeq)
       /\ Keys \cap XKeys = {} /\ Vals \cap XVals = {}

VARIABLES items,   \* the base list: sequence of metadata dictionaries (partial functions Keys -> Vals)
          ixs,     \* the indexes of the session
          hist     \* the operations applied, with the answer of the look-ups
vars == <<items, ixs, hist>>

Empty == [x \in {} |-> x]
PFuns(D, R) == UNION {[S -> R] : S \in SUBSET D}
MetaSeqs == UNION {[1 .. n -> PFuns(Keys, Vals)] : n \in 0 .. MaxItems}

-----------------------------------------------------------------------------
(* the representation and its operations (defined on the nested mapping only) *)

Inner(rep, k)   == IF k \in DOMAIN rep THEN rep[k] ELSE Empty
Get2(rep, k, v) == IF k \in DOMAIN rep /\ v \in DOMAIN rep[k] THEN rep[k][v] ELSE {}

(* index[k][v].add(i)  -- the defaultdict write path used by Browser._build_index *)
AddRep(rep, k, v, i) ==
   LET inn == Inner(rep, k) IN
   [x \in DOMAIN rep \cup {k} |->
      IF x = k THEN [y \in DOMAIN inn \cup {v} |-> IF y = v THEN Get2(rep, k, v) \cup {i} ELSE inn[y]]
      ELSE rep[x]]

RECURSIVE AddItem(_, _, _)
AddItem(rep, m, i) == IF DOMAIN m = {} THEN rep
                      ELSE LET k == CHOOSE x \in DOMAIN m : TRUE IN
                           AddItem(AddRep(rep, k, m[k], i), [y \in DOMAIN m \ {k} |-> m[y]], i)
RECURSIVE BuildRep(_, _)
BuildRep(ms, n) == IF n = 0 THEN Empty ELSE AddItem(BuildRep(ms, n - 1), ms[n], n - 1)

(* keep_only(S): every set restricted to S; values whose set becomes empty and keys
   that lose all their values are not in the result *)
KeepRep(rep, S) ==
   IF Variant = "keeps-empty-sets"
   THEN [k \in DOMAIN rep |-> [v \in DOMAIN rep[k] |-> rep[k][v] \cap S]]
   ELSE LET vs(k) == {v \in DOMAIN rep[k] : rep[k][v] \cap S # {}}
            ks    == {k \in DOMAIN rep : vs(k) # {}} IN
        [k \in ks |-> [v \in vs(k) |-> rep[k][v] \cap S]]
KeepPos(pos, S) == [i \in {j \in DOMAIN pos : pos[j] \cap S # {}} |-> pos[i] \cap S]

(* stripping of useless keys, defined for itself *)
NoEmpty(rep)  == \A k \in DOMAIN rep : DOMAIN rep[k] # {} /\ \A v \in DOMAIN rep[k] : rep[k][v] # {}
StripRep(rep) == LET vs(k) == {v \in DOMAIN rep[k] : rep[k][v] # {}} IN
                 [k \in {x \in DOMAIN rep : vs(x) # {}} |-> [v \in vs(k) |-> rep[k][v]]]
StripPos(pos) == [i \in {j \in DOMAIN pos : pos[j] # {}} |-> pos[i]]

DelKeyRep(rep, k)    == [x \in DOMAIN rep \ {k} |-> rep[x]]
DelValRep(rep, k, v) == [rep EXCEPT ![k] = [y \in DOMAIN rep[k] \ {v} |-> rep[k][y]]]

-----------------------------------------------------------------------------
(* the abstract side: a list of items and the set of ids that are still there *)

Abs(ms, live) ==
   LET has(i, k) == k \in DOMAIN ms[i + 1] IN
   [k \in {x \in Keys : \E i \in live : has(i, x)} |->
      [v \in {ms[i + 1][k] : i \in {j \in live : has(j, k)}} |->
         {i \in live : has(i, k) /\ ms[i + 1][k] = v}]]

AllIds(e) == 0 .. Len(e.items) - 1

Built(ms) == [rep |-> BuildRep(ms, Len(ms)), pos |-> [i \in 0 .. Len(ms) - 1 |-> {i}],
              items |-> ms, live |-> 0 .. Len(ms) - 1, br |-> TRUE, clean |-> TRUE]

DropKey(ms, k)       == [p \in DOMAIN ms |-> [y \in DOMAIN ms[p] \ {k} |-> ms[p][y]]]
DropKeyVal(ms, k, v) == [p \in DOMAIN ms |-> IF k \in DOMAIN ms[p] /\ ms[p][k] = v
                                             THEN [y \in DOMAIN ms[p] \ {k} |-> ms[p][y]] ELSE ms[p]]
SetKey(ms, i, k, v)  == [ms EXCEPT ![i + 1] = [y \in DOMAIN ms[i + 1] \cup {k} |-> IF y = k THEN v ELSE ms[i + 1][y]]]

(* ix[k][v].add(i) keeps "item i is a function" only if i is there and has no key k yet (stated on the representation) *)
AddEnabled(e, k, i) == i \in DOMAIN e.pos /\ \A v \in DOMAIN Inner(e.rep, k) : i \notin e.rep[k][v]

-----------------------------------------------------------------------------
(* operations of a session: total function Apply (an operation that is not applicable changes nothing) *)

O(op, s, k, v, ids, i) == [op |-> op, src |-> s, k |-> k, v |-> v, ids |-> ids, i |-> i]

Apply(ix, o) ==
   IF o.op = "build" THEN <<Built(items)>>
   ELSE IF o.src \notin DOMAIN ix THEN ix
   ELSE LET e == ix[o.src] IN
   CASE o.op = "keep"   -> Append(ix, [rep |-> KeepRep(e.rep, o.ids), pos |-> KeepPos(e.pos, o.ids), items |-> e.items,
                                       live |-> e.live \cap o.ids, br |-> FALSE, clean |-> TRUE])
     [] o.op = "strip"  -> Append(ix, [rep |-> StripRep(e.rep), pos |-> StripPos(e.pos), items |-> e.items,
                                       live |-> e.live, br |-> FALSE, clean |-> TRUE])
     [] o.op = "delkey" -> IF o.k \in DOMAIN e.rep
                           THEN [ix EXCEPT ![o.src] = [e EXCEPT !.rep = DelKeyRep(e.rep, o.k), !.items = DropKey(e.items, o.k),
                                                                !.br = FALSE]]
                           ELSE ix
     [] o.op = "delval" -> IF o.k \in DOMAIN e.rep /\ o.v \in DOMAIN e.rep[o.k]
                           THEN [ix EXCEPT ![o.src] = [e EXCEPT !.rep = DelValRep(e.rep, o.k, o.v),
                                                                !.items = DropKeyVal(e.items, o.k, o.v), !.br = FALSE,
                                                                !.clean = e.clean /\ DOMAIN e.rep[o.k] # {o.v}]]
                           ELSE ix
     [] o.op = "add"    -> IF AddEnabled(e, o.k, o.i)
                           THEN [ix EXCEPT ![o.src] = [e EXCEPT !.rep = AddRep(e.rep, o.k, o.v, o.i),
                                                                !.items = SetKey(e.items, o.i, o.k, o.v), !.br = FALSE]]
                           ELSE ix
     [] o.op = "merge"  -> IF o.i \in DOMAIN ix /\ e.br /\ ix[o.i].br
                           THEN Append(ix, Built(e.items \o ix[o.i].items)) ELSE ix
     [] o.op = "sub"    -> IF e.br THEN Append(ix, Built(SelectSeq(e.items, LAMBDA m : o.k \in DOMAIN m))) ELSE ix
     [] OTHER           -> ix                   \* "lookup", "dump": questions

(* the answers of a look-up: the values under k (key only, v = "") / the ids under k, v *)
ResV(ix, o) == IF o.op = "lookup" /\ o.v = "" THEN DOMAIN Inner(ix[o.src].rep, o.k) ELSE {}
ResI(ix, o) == IF o.op = "lookup" /\ o.v # "" THEN Get2(ix[o.src].rep, o.k, o.v) ELSE {}

-----------------------------------------------------------------------------
(* read-only queries: len, iteration, `in`, the values under a key, the sorted dump *)

RECURSIVE Asc(_)
Asc(S) == IF S = {} THEN <<>> ELSE LET m == CHOOSE x \in S : \A y \in S : x <= y IN <<m>> \o Asc(S \ {m})

ObsOf(e) ==
   [len    |-> Cardinality(DOMAIN e.rep) + (IF DOMAIN e.pos # {} THEN 1 ELSE 0),
    keys   |-> DOMAIN e.rep,
    haspos |-> DOMAIN e.pos # {},
    has    |-> [k \in QKeys |-> k \in DOMAIN e.rep],
    vals   |-> [k \in QKeys |-> DOMAIN Inner(e.rep, k)],
    dk     |-> SelectSeq(KeySeq, LAMBDA k : k \in DOMAIN e.rep \/ (k = "index" /\ DOMAIN e.pos # {})),
    dv     |-> [k \in DOMAIN e.rep |-> LET s == SelectSeq(ValSeq, LAMBDA v : v \in DOMAIN e.rep[k]) IN
                                       [n \in DOMAIN s |-> <<s[n], e.rep[k][s[n]]>>]],
    dp     |-> LET s == Asc(DOMAIN e.pos) IN [n \in DOMAIN s |-> <<s[n], e.pos[s[n]]>>],
    nitems |-> Len(e.items)]
ObsAll(ix) == [n \in DOMAIN ix |-> ObsOf(ix[n])]

-----------------------------------------------------------------------------
(* the session *)

Init == items \in MetaSeqs /\ ixs = <<>> /\ hist = <<>>

Step(o) == /\ ixs'  = Apply(ixs, o)
           /\ hist' = Append(hist, [op |-> o.op, src |-> o.src, k |-> o.k, v |-> o.v, ids |-> o.ids, i |-> o.i,
                                    resv |-> IF o.op = "build" THEN {} ELSE ResV(ixs, o),
                                    resi |-> IF o.op = "build" THEN {} ELSE ResI(ixs, o)])
           /\ items' = items

MaxOps == CASE Len(items) = 0 -> D0 [] Len(items) = 1 -> D1 [] Len(items) = 2 -> D2 [] OTHER -> D3
Budget(kind) == ixs # <<>> /\ Len(hist) <= MaxOps /\ kind \in OpKinds
Room         == Len(ixs) < MaxIx

Build    == ixs = <<>> /\ hist = <<>> /\ Step(O("build", 0, "", "", {}, 0))
DoKeep   == Budget("keep") /\ Room /\ \E s \in DOMAIN ixs : \E S \in SUBSET AllIds(ixs[s]) : Step(O("keep", s, "", "", S, 0))
DoStrip  == Budget("strip") /\ Room /\ \E s \in DOMAIN ixs : Step(O("strip", s, "", "", {}, 0))
DoLookup == Budget("lookup") /\ \E s \in DOMAIN ixs, k \in QKeys, v \in XVals \cup {""} \cup (IF HitLookups THEN Vals ELSE {}) :
               /\ IF HitLookups \/ k \notin DOMAIN ixs[s].rep THEN TRUE ELSE v # "" /\ v \notin DOMAIN ixs[s].rep[k]
               /\ Step(O("lookup", s, k, v, {}, 0))
DoDelKey == Budget("delkey") /\ \E s \in DOMAIN ixs : \E k \in DOMAIN ixs[s].rep : Step(O("delkey", s, k, "", {}, 0))
DoDelVal == Budget("delval") /\ \E s \in DOMAIN ixs : \E k \in DOMAIN ixs[s].rep : \E v \in DOMAIN ixs[s].rep[k] :
               Step(O("delval", s, k, v, {}, 0))
DoAdd    == Budget("add") /\ \E s \in DOMAIN ixs, k \in Keys, v \in Vals : \E i \in AllIds(ixs[s]) :
               AddEnabled(ixs[s], k, i) /\ Step(O("add", s, k, v, {}, i))
DoMerge  == Budget("merge") /\ Room /\ \E s \in DOMAIN ixs, t \in DOMAIN ixs :
               /\ ixs[s].br /\ ixs[t].br /\ Len(ixs[s].items) + Len(ixs[t].items) <= MaxMerged
               /\ Step(O("merge", s, "", "", {}, t))
(* a second, different Browser to merge with: filter_by(include=(k,)), the items that carry key k, renumbered *)
DoSub    == Budget("sub") /\ Room /\ \E s \in DOMAIN ixs, k \in Keys : ixs[s].br /\ Step(O("sub", s, k, "", {}, 0))
DoDump   == Budget("dump") /\ \E s \in DOMAIN ixs : Step(O("dump", s, "", "", {}, 0))

Next == Build \/ DoKeep \/ DoStrip \/ DoLookup \/ DoDelKey \/ DoDelVal \/ DoAdd \/ DoMerge \/ DoSub \/ DoDump
Spec == Init /\ [][Next]_vars

-----------------------------------------------------------------------------
(* the refinement invariant and the laws *)

(* index[k][v] = {i : item i is there and has k = v} once the useless entries are left out; 'index' maps i to {i} *)
Refines == \A n \in DOMAIN ixs : LET e == ixs[n] IN
              /\ StripRep(e.rep) = Abs(e.items, e.live)
              /\ e.pos = [i \in e.live |-> {i}]
              /\ e.live \subseteq AllIds(e)

(* what Build / keep_only / strip return has no empty set and no key without values *)
CleanOK == \A n \in DOMAIN ixs : ixs[n].clean => NoEmpty(ixs[n].rep) /\ ixs[n].rep = Abs(ixs[n].items, ixs[n].live)

(* an index owned by an untouched Browser is the index of its content *)
BuildIsAbs == \A n \in DOMAIN ixs : ixs[n].br => ixs[n].rep = Abs(ixs[n].items, AllIds(ixs[n])) /\ ixs[n].live = AllIds(ixs[n])

(* keep_only(S) = restriction of every set to S and nothing else.  (K is a table so that TLC evaluates every
   keep_only once.) *)
(* The laws are checked on the index that the last operation created or edited: every index of a session was in that
   position in the state where it got its present value, so every reachable index is checked once, not once per state. *)
Touched == IF hist = <<>> THEN {}
           ELSE LET h == hist[Len(hist)] IN
                IF h.op \in {"lookup", "dump"} THEN {}
                ELSE IF h.op \in {"delkey", "delval", "add"} THEN {h.src} ELSE {Len(ixs)}
KeepTable(e) == [S \in SUBSET AllIds(e) |-> KeepRep(e.rep, S)]
KeepExact == \A n \in Touched :
                LET e == ixs[n]  K == KeepTable(e) IN
                \A S \in DOMAIN K :
                   /\ NoEmpty(K[S])
                   /\ DOMAIN K[S] \subseteq DOMAIN e.rep /\ \A k \in DOMAIN K[S] : DOMAIN K[S][k] \subseteq DOMAIN e.rep[k]
                   /\ \A k \in QKeys, v \in QVals : Get2(K[S], k, v) = Get2(e.rep, k, v) \cap S
                   /\ K[S] = Abs(e.items, e.live \cap S)
KeepLaws == \A n \in Touched :
               LET e == ixs[n]  K == KeepTable(e) IN
               /\ \A S, T \in DOMAIN K :
                     /\ KeepRep(K[S], T) = K[S \cap T]                 \* composes by intersection, hence idempotent (T = S)
                     /\ KeepRep(K[S], T) = KeepRep(K[T], S)            \* and commutes with itself
               /\ K[{}] = Empty
               /\ K[AllIds(e)] = StripRep(e.rep)                      \* strip = keep everything

(* the queries are those of a direct scan of the items *)
ObsExact == \A n \in Touched : ixs[n].clean =>
               LET e == ixs[n]  obs == [m \in {n} |-> ObsOf(e)] IN
               /\ obs[n].keys = {k \in Keys : \E i \in e.live : k \in DOMAIN e.items[i + 1]}
               /\ \A k \in XKeys : ~obs[n].has[k] /\ obs[n].vals[k] = {}
               /\ \A k \in Keys : obs[n].vals[k] = {e.items[i + 1][k] : i \in {j \in e.live : k \in DOMAIN e.items[j + 1]}}
               /\ Len(obs[n].dk) = obs[n].len

TypeOK == Len(ixs) <= MaxIx /\ Len(hist) <= MaxOps + 1

Last == hist'[Len(hist')]
(* questions change nothing; an index that exists is only changed by an editing operation addressed to it *)
ReadOnly  == [][Last.op \in {"lookup", "dump"} => ixs' = ixs]_vars
Immutable == [][/\ Len(ixs') >= Len(ixs)
                /\ \A n \in DOMAIN ixs : ixs'[n] = ixs[n] \/ (Last.op \in {"delkey", "delval", "add"} /\ Last.src = n)
                /\ Last.op \in {"keep", "strip", "sub"} => Len(ixs') = Len(ixs) + 1]_vars

-----------------------------------------------------------------------------
(* witnesses (negated reachability): TLC must find each of them violated *)
W_KeepProper   == ~(Len(hist) >= 2 /\ hist[2].op = "keep" /\ Len(ixs) >= 2 /\ ixs[2].live # {}
                    /\ ixs[2].live # ixs[1].live /\ DOMAIN ixs[2].rep # {})
W_KeepDropsKey == ~(Len(hist) >= 2 /\ hist[2].op = "keep" /\ Len(ixs) >= 2 /\ ixs[2].live # {}
                    /\ DOMAIN ixs[2].rep # DOMAIN ixs[1].rep)
W_KeepOfKeep   == ~(\E h \in DOMAIN hist : hist[h].op = "keep" /\ hist[h].src >= 2 /\ ixs[Len(ixs)].live # {})
W_MissingKey   == ~(\E h \in DOMAIN hist : hist[h].op = "lookup" /\ hist[h].k \in XKeys)
W_MissingVal   == ~(\E h \in DOMAIN hist : hist[h].op = "lookup" /\ hist[h].v # "" /\ hist[h].k \in DOMAIN ixs[hist[h].src].rep
                                           /\ hist[h].v \notin DOMAIN ixs[hist[h].src].rep[hist[h].k])
W_EmptyKey     == ~(\E n \in DOMAIN ixs : \E k \in DOMAIN ixs[n].rep : DOMAIN ixs[n].rep[k] = {})
W_StripBites   == ~(\E h \in DOMAIN hist : hist[h].op = "strip" /\ ixs[Len(ixs)].rep # ixs[hist[h].src].rep)
W_MergeOrder   == ~(\E h \in DOMAIN hist : hist[h].op = "merge" /\ hist[h].src # hist[h].i
                                           /\ ixs[hist[h].src].items \o ixs[hist[h].i].items # ixs[hist[h].i].items \o ixs[hist[h].src].items)
W_SharedValue  == ~(\E n \in DOMAIN ixs : \E k \in DOMAIN ixs[n].rep : \E v \in DOMAIN ixs[n].rep[k] : Cardinality(ixs[n].rep[k][v]) >= 2)

(* all the witnesses in one run (single worker): WProbe is an invariant that is always true and collects the names of
   the witnesses whose situation TLC has reached; WPost prints them *)
Reached == {w \in {"W_KeepProper", "W_KeepDropsKey", "W_KeepOfKeep", "W_MissingKey", "W_MissingVal", "W_EmptyKey",
                   "W_StripBites", "W_SharedValue", "W_MergeOrder"} :
              CASE w = "W_KeepProper" -> ~W_KeepProper [] w = "W_KeepDropsKey" -> ~W_KeepDropsKey
                [] w = "W_KeepOfKeep" -> ~W_KeepOfKeep [] w = "W_MissingKey" -> ~W_MissingKey
                [] w = "W_MissingVal" -> ~W_MissingVal [] w = "W_EmptyKey" -> ~W_EmptyKey
                [] w = "W_StripBites" -> ~W_StripBites [] w = "W_SharedValue" -> ~W_SharedValue
                [] w = "W_MergeOrder" -> ~W_MergeOrder}
WSpec  == (Init /\ TLCSet(77, {})) /\ [][Next]_vars
WProbe == Reached = {} \/ TLCSet(77, TLCGet(77) \cup Reached)
WPost  == PrintT(<<"WITNESSED", TLCGet(77)>>)
=============================================================================
