---------------------------- MODULE DepGraphImpl ----------------------------
(* C16, implementation-level model of valjean.cosette.depgraph.DepGraph.

   A graph is stored as
     seq : the nodes in insertion order (RList._seq; positions 1..n here, 0..n-1 in Python)
     idx : key -> sequence of positions holding that key (RList._index; the key is the node's identity)
     adj : position -> set of positions (DepGraph._edges)
   and the operations are written as the code performs them: appending, removal
   by swap-with-last followed by deletion of the last position, merge by
   iterating the other graph in position order, graft = remove + merge + links.
   The module checks that this bookkeeping refines the plain node/edge sets of
   DepGraph.tla (PROPERTY Refines == Abs!Spec) and keeps its own well-formedness
   invariant (ImplWF). *)
EXTENDS Integers, Sequences, FiniteSets, TLC

CONSTANTS Plain, Content, Slots, MaxOps, Ops, SelfLoops, HistMode

VARIABLES impl,   \* [Slots -> [seq, idx, adj]]
          live, steps, hist
ivars == <<impl, live, steps, hist>>

-----------------------------------------------------------------------------
(* RList with the default identity key, as far as DepGraph uses it *)

REmpty == [seq |-> <<>>, idx |-> <<>>]
RHas(R, v) == v \in DOMAIN R.idx
RIndex(R, v) == R.idx[v][1]                         \* index() / get_index(): first recorded position
RAppend(R, v) ==
   LET p == Len(R.seq) + 1 IN
   [seq |-> Append(R.seq, v),
    idx |-> IF RHas(R, v) THEN [R.idx EXCEPT ![v] = Append(@, p)] ELSE R.idx @@ (v :> <<p>>)]
Without(sq, p) == SelectSeq(sq, LAMBDA q : q # p)
RSet(R, i, v) ==                                    \* __setitem__
   LET old  == R.seq[i]
       rest == Without(R.idx[old], i)
       idx1 == IF rest = <<>> THEN [k \in DOMAIN R.idx \ {old} |-> R.idx[k]]
               ELSE [R.idx EXCEPT ![old] = rest]
       idx2 == IF v \in DOMAIN idx1 THEN [idx1 EXCEPT ![v] = Append(@, i)] ELSE idx1 @@ (v :> <<i>>)
   IN  [seq |-> [R.seq EXCEPT ![i] = v], idx |-> idx2]
RSwap(R, i, j) ==                                   \* swap(): tmp = self[i]; self[i] = self[j]; self[j] = tmp
   LET tmp == R.seq[i]
       R1  == RSet(R, i, R.seq[j])
   IN  RSet(R1, j, tmp)
RDel(R, i) ==                                       \* __delitem__: renumber every recorded position
   LET shifted == [k \in DOMAIN R.idx |->
                     LET f == Without(R.idx[k], i) IN [q \in DOMAIN f |-> IF f[q] < i THEN f[q] ELSE f[q] - 1]]
       keep == {k \in DOMAIN R.idx : shifted[k] # <<>>}
   IN  [seq |-> [q \in 1 .. Len(R.seq) - 1 |-> IF q < i THEN R.seq[q] ELSE R.seq[q + 1]],
        idx |-> [k \in keep |-> shifted[k]]]

-----------------------------------------------------------------------------
(* DepGraph on top of it *)

IEmpty == [seq |-> <<>>, idx |-> <<>>, adj |-> <<>>]
RL(I) == [seq |-> I.seq, idx |-> I.idx]
Size(I) == Len(I.seq)

IAddNode(I, n) ==
   IF RHas(RL(I), n) THEN I
   ELSE LET R == RAppend(RL(I), n) IN [seq |-> R.seq, idx |-> R.idx, adj |-> Append(I.adj, {})]

IRemoveNode(I, n) ==
   IF ~RHas(RL(I), n) THEN I
   ELSE LET i    == RIndex(RL(I), n)
            last == Size(I)
            R1   == RSwap(RL(I), i, last)
            sw(k) == IF k = i THEN last ELSE IF k = last THEN i ELSE k
            adj1 == [I.adj EXCEPT ![i] = I.adj[last], ![last] = I.adj[i]]       \* swap the two rows
            adj2 == [p \in DOMAIN adj1 |-> {sw(k) : k \in adj1[p]}]            \* rename inside every row
            adj3 == [p \in 1 .. last - 1 |-> adj2[p] \ {last}]                 \* drop the row and the edges into it
            R2   == RDel(R1, last)
        IN  [seq |-> R2.seq, idx |-> R2.idx, adj |-> adj3]

IAddDep(I, n, m) ==
   LET J == IAddNode(IAddNode(I, n), m)
       i == RIndex(RL(J), n)
       j == RIndex(RL(J), m)
   IN  [J EXCEPT !.adj[i] = @ \cup {j}]

IRemoveDep(I, n, m) ==      \* missing edge: KeyError, nothing changes
   LET i == RIndex(RL(I), n) j == RIndex(RL(I), m) IN [I EXCEPT !.adj[i] = @ \ {j}]

(* the positions of a row in the order the code iterates them (a Python set of
   small ints iterates in increasing order) *)
RECURSIVE SetToSeq(_)
SetToSeq(S) == IF S = {} THEN <<>>
               ELSE LET m == CHOOSE x \in S : \A y \in S : x <= y IN <<m>> \o SetToSeq(S \ {m})

RECURSIVE AddDeps(_, _, _, _)
AddDeps(I, key, J, js) == IF js = <<>> THEN I
                          ELSE AddDeps(IAddDep(I, key, J.seq[Head(js)]), key, J, Tail(js))
RECURSIVE MergeFrom(_, _, _)
MergeFrom(I, J, p) ==        \* for key, vals in other: add_node(key); add_dependency(key, val) ...
   IF p > Size(J) THEN I
   ELSE MergeFrom(AddDeps(IAddNode(I, J.seq[p]), J.seq[p], J, SetToSeq(J.adj[p])), J, p + 1)
IMerge(I, J) == MergeFrom(I, J, 1)

ICopy(I) == I                                   \* RList(self._seq) and a copy of every row: same layout, nothing shared
IInvert(I) == [I EXCEPT !.adj = [p \in DOMAIN I.adj |-> {q \in DOMAIN I.adj : p \in I.adj[q]}]]

IDeps(I, n)      == {I.seq[j] : j \in I.adj[RIndex(RL(I), n)]}
IDependees(I, n) == {I.seq[p] : p \in {q \in DOMAIN I.adj : RIndex(RL(I), n) \in I.adj[q]}}
IInitial(I)  == {I.seq[p] : p \in {q \in DOMAIN I.adj : \A r \in DOMAIN I.adj : q \notin I.adj[r]}}
ITerminal(I) == {I.seq[p] : p \in {q \in DOMAIN I.adj : I.adj[q] = {}}}

RECURSIVE AddPairs(_, _)
AddPairs(I, pairs) == IF pairs = {} THEN I
                      ELSE LET e == CHOOSE e \in pairs : TRUE IN AddPairs(IAddDep(I, e[1], e[2]), pairs \ {e})
IGraft(I, g, C) ==
   LET deps == IDeps(I, g) \ {g}
       dees == IDependees(I, g) \ {g}
       M    == IMerge(IRemoveNode(I, g), C)
       link == IF Size(C) = 0 THEN dees \X deps
               ELSE (ITerminal(C) \X deps) \cup (dees \X IInitial(C))
   IN  AddPairs(M, link)      \* all end points exist already: the order of insertion is immaterial

(* the layout of a nested graph: nodes then edges, added in the order CHOOSE enumerates them *)
RECURSIVE AddNodes(_, _)
AddNodes(I, S) == IF S = {} THEN I ELSE LET n == CHOOSE n \in S : TRUE IN AddNodes(IAddNode(I, n), S \ {n})
ImplOf(G) == AddPairs(AddNodes(IEmpty, G.nodes), G.edges)

RECURSIVE GraftAll(_, _)
GraftAll(I, gs) == IF gs = <<>> THEN I ELSE GraftAll(IGraft(I, Head(gs), ImplOf(Content[Head(gs)])), Tail(gs))
IFlatten(I) == GraftAll(I, SelectSeq(I.seq, LAMBDA n : n \in DOMAIN Content))

-----------------------------------------------------------------------------
(* abstraction *)

AbsGraph(I) == [nodes |-> {I.seq[p] : p \in DOMAIN I.seq},
                edges |-> UNION {{<<I.seq[p], I.seq[q]>> : q \in I.adj[p]} : p \in DOMAIN I.adj}]
absgr == [s \in Slots |-> AbsGraph(impl[s])]

Abs == INSTANCE DepGraph WITH gr <- absgr

(* in-place reduction / closure: the rows of the abstract result *)
IRows(I, G) == [I EXCEPT !.adj = [p \in DOMAIN I.adj |-> {q \in DOMAIN I.adj : <<I.seq[p], I.seq[q]>> \in G.edges}]]

IApply(M, L, r) ==
   CASE r.op = "addnode"  -> [impl |-> [M EXCEPT ![r.s] = IAddNode(@, r.x)], live |-> L]
     [] r.op = "rmnode"   -> [impl |-> [M EXCEPT ![r.s] = IRemoveNode(@, r.x)], live |-> L]
     [] r.op = "adddep"   -> [impl |-> [M EXCEPT ![r.s] = IAddDep(@, r.x, r.y)], live |-> L]
     [] r.op = "rmdep"    -> [impl |-> [M EXCEPT ![r.s] = IRemoveDep(@, r.x, r.y)], live |-> L]
     [] r.op = "merge"    -> [impl |-> [M EXCEPT ![r.s] = IMerge(@, M[r.t])], live |-> L]
     [] r.op = "copy"     -> [impl |-> [M EXCEPT ![r.t] = ICopy(M[r.s])], live |-> L \cup {r.t}]
     [] r.op = "invert"   -> [impl |-> [M EXCEPT ![r.t] = IInvert(M[r.s])], live |-> L \cup {r.t}]
     [] r.op = "sum"      -> [impl |-> [M EXCEPT ![r.u] = IMerge(ICopy(M[r.s]), M[r.t])], live |-> L \cup {r.u}]
     [] r.op = "graft"    -> [impl |-> [M EXCEPT ![r.s] = IGraft(@, r.x, ImplOf(Content[r.x]))], live |-> L]
     [] r.op = "flatten"  -> [impl |-> [M EXCEPT ![r.s] = IFlatten(@)], live |-> L]
     [] r.op = "reduce"   -> [impl |-> [M EXCEPT ![r.s] = IRows(@, Abs!TransReduction(AbsGraph(@)))], live |-> L]
     [] r.op = "close"    -> [impl |-> [M EXCEPT ![r.s] = IRows(@, Abs!TransClosure(AbsGraph(@)))], live |-> L]
     [] OTHER             -> [impl |-> M, live |-> L]

IInit == /\ impl = [s \in Slots |-> IEmpty]
         /\ live = {1} /\ steps = 0 /\ hist = <<>>

IStep(r) == /\ r.op \in Ops
            /\ MaxOps = 0 \/ steps < MaxOps
            /\ LET a == IApply(impl, live, r) IN impl' = a.impl /\ live' = a.live
            /\ steps' = IF MaxOps = 0 THEN 0 ELSE steps + 1
            /\ hist' = CASE HistMode = "full" -> Append(hist, r)
                         [] HistMode = "last" -> <<r>>
                         [] OTHER -> <<>>

Names == Abs!Names
Rec(o, s, t, u, x, y) == Abs!OpRec(o, s, t, u, x, y)
Nodes(s) == AbsGraph(impl[s]).nodes
GNodesIn(s) == Nodes(s) \cap DOMAIN Content

IAddNodeOp    == \E s \in live, x \in Names : IStep(Rec("addnode", s, 0, 0, x, ""))
IRemoveNodeOp == \E s \in live, x \in Names : IStep(Rec("rmnode", s, 0, 0, x, ""))
IAddDepOp     == \E s \in live, x \in Names, y \in Names : (SelfLoops \/ x # y) /\ IStep(Rec("adddep", s, 0, 0, x, y))
IRemoveDepOp  == \E s \in live : \E x \in Nodes(s), y \in Nodes(s) : (SelfLoops \/ x # y) /\ IStep(Rec("rmdep", s, 0, 0, x, y))
IMergeOp      == \E s \in live, t \in live : IStep(Rec("merge", s, t, 0, "", ""))
ICopyOp       == \E s \in live, t \in Slots : s # t /\ IStep(Rec("copy", s, t, 0, "", ""))
IInvertOp     == \E s \in live, t \in Slots : IStep(Rec("invert", s, t, 0, "", ""))
ISumOp        == \E s \in live, t \in live, u \in Slots : IStep(Rec("sum", s, t, u, "", ""))
IGraftOp(A)   == \E s \in A : \E x \in GNodesIn(s) : IStep(Rec("graft", s, 0, 0, x, ""))
IFlattenOp(A) == \E s \in A : GNodesIn(s) # {} /\ IStep(Rec("flatten", s, 0, 0, "", ""))
IReduceOp(A)  == \E s \in A : AbsGraph(impl[s]).edges # {} /\ IStep(Rec("reduce", s, 0, 0, "", ""))
ICloseOp(A)   == \E s \in A : AbsGraph(impl[s]).edges # {} /\ IStep(Rec("close", s, 0, 0, "", ""))

INext == \/ IAddNodeOp \/ IRemoveNodeOp \/ IAddDepOp \/ IRemoveDepOp
         \/ IMergeOp \/ ICopyOp \/ IInvertOp \/ ISumOp
         \/ LET A == {s \in live : ~Abs!Cyclic(AbsGraph(impl[s]))} IN
            IGraftOp(A) \/ IFlattenOp(A) \/ IReduceOp(A) \/ ICloseOp(A)
ISpec == IInit /\ [][INext]_ivars

-----------------------------------------------------------------------------
(* the bookkeeping is consistent ... *)
WF(I) ==
   LET n == Len(I.seq) IN
   /\ DOMAIN I.adj = 1 .. n
   /\ \A p \in 1 .. n : I.adj[p] \subseteq 1 .. n
   /\ \A p, q \in 1 .. n : p # q => I.seq[p] # I.seq[q]                         \* a node is stored once
   /\ DOMAIN I.idx = {I.seq[p] : p \in 1 .. n}                                  \* no stale keys
   /\ \A k \in DOMAIN I.idx : I.idx[k] = <<CHOOSE p \in 1 .. n : I.seq[p] = k>>  \* and they point home
ImplWF == \A s \in Slots : WF(impl[s]) /\ (s \notin live => impl[s] = IEmpty)

(* ... and it is an implementation of the node/edge sets *)
Refines == Abs!Spec
AbsTypeOK == Abs!TypeOK
AbsIndependence == Abs!Independence

(* the same fact one step at a time and cheap: the abstraction of the new layout is
   the abstract operation applied to the abstraction of the old one (needs HistMode = "last") *)
StepRefines == [][hist' # <<>> =>
                    LET a == Abs!Apply(absgr, live, hist'[Len(hist')], Content) IN
                    a.gr = [s \in Slots |-> AbsGraph(impl'[s])] /\ a.live = live']_ivars

(* witnesses: TLC must violate them *)
(* a node in the middle of a graph with edges was removed (a copy taken before still shows where it was) *)
W_Relocated  == ~(/\ hist # <<>> /\ hist[Len(hist)].op = "rmnode"
                  /\ \E s, t \in live : LET x == hist[Len(hist)].x IN
                        /\ s # t /\ x \in DOMAIN impl[t].idx /\ x \notin DOMAIN impl[s].idx
                        /\ impl[t].idx[x][1] < Len(impl[t].seq)
                        /\ AbsGraph(impl[s]) = Abs!RemoveNode(AbsGraph(impl[t]), x)
                        /\ AbsGraph(impl[s]).edges # {})
(* two graphs that are equal as node/edge sets are laid out differently *)
W_Reordered  == ~(\E s, t \in live : s # t /\ AbsGraph(impl[s]) = AbsGraph(impl[t]) /\ impl[s].seq # impl[t].seq
                     /\ Len(impl[s].seq) >= 3)
=============================================================================
