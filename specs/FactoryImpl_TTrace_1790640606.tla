---- MODULE FactoryImpl_TTrace_1790640606 ----
EXTENDS Sequences, TLCExt, Toolbox, Naturals, TLC, FactoryImpl

_expression ==
    LET FactoryImpl_TEExpression == INSTANCE FactoryImpl_TEExpression
    IN FactoryImpl_TEExpression!expression
----

_trace ==
    LET FactoryImpl_TETrace == INSTANCE FactoryImpl_TETrace
    IN FactoryImpl_TETrace!trace
----

_inv ==
    ~(
        TLCGet("level") = Len(_TETrace)
        /\
        frontier = ({})
        /\
        op = ("hist")
        /\
        rejected = (FALSE)
        /\
        cdone = (FALSE)
        /\
        tname = (<<>>)
        /\
        ucache = ({[name |-> [f |-> "f", deps |-> {[f |-> "t1", deps |-> {}]}], req |-> [deps |-> {}, soft |-> FALSE, func |-> "f1", fac |-> "-", name |-> "-", args |-> <<>>, kind |-> "use", pos |-> <<>>, kw |-> {[key |-> "other", kw |-> "x", task |-> "t1"]}, sdeps |-> {}], id |-> 1]})
        /\
        gname = (<<[f |-> "f", deps |-> {[f |-> "t1", deps |-> {}]}]>>)
        /\
        behav = (<<[soft |-> {}, func |-> "f1", fac |-> "-", args |-> <<>>, kind |-> "use", pos |-> <<>>, kw |-> {[key |-> "other", kw |-> "x", task |-> "t1"]}, hard |-> {"t1"}]>>)
        /\
        hist = (<<[req |-> [deps |-> {}, soft |-> FALSE, func |-> "f1", fac |-> "-", name |-> "-", args |-> <<>>, kind |-> "use", pos |-> <<>>, kw |-> {[key |-> "other", kw |-> "x", task |-> "t1"]}, sdeps |-> {}], resp |-> 1], [req |-> [deps |-> {}, soft |-> FALSE, func |-> "f1", fac |-> "-", name |-> "-", args |-> <<>>, kind |-> "use", pos |-> <<>>, kw |-> {[key |-> "result", kw |-> "x", task |-> "t1"]}, sdeps |-> {}], resp |-> 1]>>)
        /\
        fcache = ({})
        /\
        rel = (<<>>)
        /\
        visited = ({})
        /\
        job = ({})
    )
----

_init ==
    /\ frontier = _TETrace[1].frontier
    /\ rejected = _TETrace[1].rejected
    /\ job = _TETrace[1].job
    /\ op = _TETrace[1].op
    /\ tname = _TETrace[1].tname
    /\ rel = _TETrace[1].rel
    /\ hist = _TETrace[1].hist
    /\ gname = _TETrace[1].gname
    /\ fcache = _TETrace[1].fcache
    /\ visited = _TETrace[1].visited
    /\ ucache = _TETrace[1].ucache
    /\ behav = _TETrace[1].behav
    /\ cdone = _TETrace[1].cdone
----

_next ==
    /\ \E i,j \in DOMAIN _TETrace:
        /\ \/ /\ j = i + 1
              /\ i = TLCGet("level")
        /\ frontier  = _TETrace[i].frontier
        /\ frontier' = _TETrace[j].frontier
        /\ rejected  = _TETrace[i].rejected
        /\ rejected' = _TETrace[j].rejected
        /\ job  = _TETrace[i].job
        /\ job' = _TETrace[j].job
        /\ op  = _TETrace[i].op
        /\ op' = _TETrace[j].op
        /\ tname  = _TETrace[i].tname
        /\ tname' = _TETrace[j].tname
        /\ rel  = _TETrace[i].rel
        /\ rel' = _TETrace[j].rel
        /\ hist  = _TETrace[i].hist
        /\ hist' = _TETrace[j].hist
        /\ gname  = _TETrace[i].gname
        /\ gname' = _TETrace[j].gname
        /\ fcache  = _TETrace[i].fcache
        /\ fcache' = _TETrace[j].fcache
        /\ visited  = _TETrace[i].visited
        /\ visited' = _TETrace[j].visited
        /\ ucache  = _TETrace[i].ucache
        /\ ucache' = _TETrace[j].ucache
        /\ behav  = _TETrace[i].behav
        /\ behav' = _TETrace[j].behav
        /\ cdone  = _TETrace[i].cdone
        /\ cdone' = _TETrace[j].cdone

\* Uncomment the ASSUME below to write the states of the error trace
\* to the given file in Json format. Note that you can pass any tuple
\* to `JsonSerialize`. For example, a sub-sequence of _TETrace.
    \* ASSUME
    \*     LET J == INSTANCE Json
    \*         IN J!JsonSerialize("FactoryImpl_TTrace_1790640606.json", _TETrace)

=============================================================================

 Note that you can extract this module `FactoryImpl_TEExpression`
  to a dedicated file to reuse `expression` (the module in the 
  dedicated `FactoryImpl_TEExpression.tla` file takes precedence 
  over the module `FactoryImpl_TEExpression` below).

---- MODULE FactoryImpl_TEExpression ----
EXTENDS Sequences, TLCExt, Toolbox, Naturals, TLC, FactoryImpl

expression == 
    [
        \* To hide variables of the `FactoryImpl` spec from the error trace,
        \* remove the variables below.  The trace will be written in the order
        \* of the fields of this record.
        frontier |-> frontier
        ,rejected |-> rejected
        ,job |-> job
        ,op |-> op
        ,tname |-> tname
        ,rel |-> rel
        ,hist |-> hist
        ,gname |-> gname
        ,fcache |-> fcache
        ,visited |-> visited
        ,ucache |-> ucache
        ,behav |-> behav
        ,cdone |-> cdone
        
        \* Put additional constant-, state-, and action-level expressions here:
        \* ,_stateNumber |-> _TEPosition
        \* ,_frontierUnchanged |-> frontier = frontier'
        
        \* Format the `frontier` variable as Json value.
        \* ,_frontierJson |->
        \*     LET J == INSTANCE Json
        \*     IN J!ToJson(frontier)
        
        \* Lastly, you may build expressions over arbitrary sets of states by
        \* leveraging the _TETrace operator.  For example, this is how to
        \* count the number of times a spec variable changed up to the current
        \* state in the trace.
        \* ,_frontierModCount |->
        \*     LET F[s \in DOMAIN _TETrace] ==
        \*         IF s = 1 THEN 0
        \*         ELSE IF _TETrace[s].frontier # _TETrace[s-1].frontier
        \*             THEN 1 + F[s-1] ELSE F[s-1]
        \*     IN F[_TEPosition - 1]
    ]

=============================================================================



Parsing and semantic processing can take forever if the trace below is long.
 In this case, it is advised to uncomment the module below to deserialize the
 trace from a generated binary file.

\*
\*---- MODULE FactoryImpl_TETrace ----
\*EXTENDS IOUtils, TLC, FactoryImpl
\*
\*trace == IODeserialize("FactoryImpl_TTrace_1790640606.bin", TRUE)
\*
\*=============================================================================
\*

---- MODULE FactoryImpl_TETrace ----
EXTENDS TLC, FactoryImpl

trace == 
    <<
    ([frontier |-> {},op |-> "hist",rejected |-> FALSE,cdone |-> FALSE,tname |-> <<>>,ucache |-> {},gname |-> <<>>,behav |-> <<>>,hist |-> <<>>,fcache |-> {},rel |-> <<>>,visited |-> {},job |-> {}]),
    ([frontier |-> {},op |-> "hist",rejected |-> FALSE,cdone |-> FALSE,tname |-> <<>>,ucache |-> {[name |-> [f |-> "f", deps |-> {[f |-> "t1", deps |-> {}]}], req |-> [deps |-> {}, soft |-> FALSE, func |-> "f1", fac |-> "-", name |-> "-", args |-> <<>>, kind |-> "use", pos |-> <<>>, kw |-> {[key |-> "other", kw |-> "x", task |-> "t1"]}, sdeps |-> {}], id |-> 1]},gname |-> <<[f |-> "f", deps |-> {[f |-> "t1", deps |-> {}]}]>>,behav |-> <<[soft |-> {}, func |-> "f1", fac |-> "-", args |-> <<>>, kind |-> "use", pos |-> <<>>, kw |-> {[key |-> "other", kw |-> "x", task |-> "t1"]}, hard |-> {"t1"}]>>,hist |-> <<[req |-> [deps |-> {}, soft |-> FALSE, func |-> "f1", fac |-> "-", name |-> "-", args |-> <<>>, kind |-> "use", pos |-> <<>>, kw |-> {[key |-> "other", kw |-> "x", task |-> "t1"]}, sdeps |-> {}], resp |-> 1]>>,fcache |-> {},rel |-> <<>>,visited |-> {},job |-> {}]),
    ([frontier |-> {},op |-> "hist",rejected |-> FALSE,cdone |-> FALSE,tname |-> <<>>,ucache |-> {[name |-> [f |-> "f", deps |-> {[f |-> "t1", deps |-> {}]}], req |-> [deps |-> {}, soft |-> FALSE, func |-> "f1", fac |-> "-", name |-> "-", args |-> <<>>, kind |-> "use", pos |-> <<>>, kw |-> {[key |-> "other", kw |-> "x", task |-> "t1"]}, sdeps |-> {}], id |-> 1]},gname |-> <<[f |-> "f", deps |-> {[f |-> "t1", deps |-> {}]}]>>,behav |-> <<[soft |-> {}, func |-> "f1", fac |-> "-", args |-> <<>>, kind |-> "use", pos |-> <<>>, kw |-> {[key |-> "other", kw |-> "x", task |-> "t1"]}, hard |-> {"t1"}]>>,hist |-> <<[req |-> [deps |-> {}, soft |-> FALSE, func |-> "f1", fac |-> "-", name |-> "-", args |-> <<>>, kind |-> "use", pos |-> <<>>, kw |-> {[key |-> "other", kw |-> "x", task |-> "t1"]}, sdeps |-> {}], resp |-> 1], [req |-> [deps |-> {}, soft |-> FALSE, func |-> "f1", fac |-> "-", name |-> "-", args |-> <<>>, kind |-> "use", pos |-> <<>>, kw |-> {[key |-> "result", kw |-> "x", task |-> "t1"]}, sdeps |-> {}], resp |-> 1]>>,fcache |-> {},rel |-> <<>>,visited |-> {},job |-> {}])
    >>
----


=============================================================================

---- CONFIG FactoryImpl_TTrace_1790640606 ----
CONSTANTS
    Funcs = { "f1" , "f2" , "lam1" , "lam2" , "g" }
    Bases = { "t1" , "t2" }
    Keys = { "result" , "other" }
    KwNames = { "x" }
    Facs = { "F1" , "F2" , "G1" }
    UserNames = { "n1" }
    ArgLists <- AL_Two
    DepSets = { { } , { "t1" } , { "t2" } }
    SDepSets = { { } }
    MaxPos = 1
    MaxLen = 2
    AllowMap = TRUE
    AllowError = TRUE
    Ops = { "hist" }
    NTasks = 0
    TaskNames = { }
    ErrorOnConflict = FALSE

INVARIANT
    _inv

CHECK_DEADLOCK
    \* CHECK_DEADLOCK off because of PROPERTY or INVARIANT above.
    FALSE

INIT
    _init

NEXT
    _next

CONSTANT
    _TETrace <- _trace

ALIAS
    _expression
=============================================================================
\* Generated on Tue Sep 29 00:10:10 UTC 2026