------------------------------- MODULE Config -------------------------------
(* valjean.config.Config, the places that build it (valjean.cambronne.main: `-c FILE`, process_options) and read it
   (cosette.run.RunTask, cosette.code.CheckoutTask, cosette.pythontask.PythonTask: config.query('path', ...)), and
   valjean.path (ensure, sanitize_filename).  Extra module: outside the listed properties.

   Sentences modelled (valjean/config.py unless said otherwise):
    * "By default, Config objects come with a 'path' configuration section ... A few options are set from the
      beginning: log-root = <cwd>/log, output-root = <cwd>/output, report-root = <cwd>/report."
    * "Construct a configuration object from a dictionary.  The configuration will be initialized to contain a few
      default options."  -- the mapping given wins KEY BY KEY over the defaults of the 'path' section (a file that
      only sets log-root keeps the default output-root); ValueError('the "path" option is forbidden at the top
      level') when 'path' is not a table.  The obvious reading of a constructor: its argument is not modified.
    * "Construct a configuration object from a TOML file." (from_file; `valjean -c FILE`: "use the specified
      configuration file"; without -c the configuration is the default one.)
    * "The Config class behaves like a simple dictionary" (MutableMapping: c[s], c[s] = table, del c[s], s in c,
      c.get(s, default), len, iteration, update = section by section as dict.update) -- a missing key raises KeyError
      and inserts nothing.
    * "query(section, option): Return the value of option from section."  "set(section, option, value): Set the value
      of option in section to be value."  (missing section: KeyError, as the dictionary it behaves like.)
    * tests/test_config.py (listed in doc/src/tests.rst): "Test roundtrip (i.e. copy)": Config(conf) == conf;
      "Test roundtrip to file": from_file(str(conf)) == conf; "the == operator is reflective"; comparing with
      another type is False.  __repr__ is 'Config({...})': evaluating it gives the same mapping.
    * copies: copy.deepcopy is independent of the original; copy.copy and Config(conf) are shallow copies of "a simple
      dictionary" (the top level is independent, the section tables are shared).  The model has value semantics;
      the flag `alias` marks objects whose tables may be shared, and the operations that write INSIDE a table
      (Set, SetIn) are only taken on objects that share nothing, so value semantics is exact for every history.
    * cosette/code.py CheckoutTask: "checkout_root: The directory where the code will be checked out, or None for the
      configuration default.  log_root: The path to the log directory, or None for the configuration default."
      -> precedence task argument > configuration file > built-in default, key by key (Resolve).
      cosette/run.py RunTask: output directory = config.query('path', 'output-root') / sanitize_filename(name).
    * path.py: "ensure: Make sure that the given path exists.  Multiple arguments will be concatenated into a single
      path.  is_dir: If True, the path will be constructed as a directory."  "sanitize_filename: raises ValueError if
      the string contains characters that are forbidden in a filename [NUL, '/', or the names '', '.', '..'];
      returns name unchanged".

    * == "ignores insertion order": the same content inserted in the reverse order at every level is equal (Eq, kind
      "reordered"); repr and the TOML text may differ.
   What valjean does not have, hence is not modelled: a command-line override of the 'path' options, a configuration
   file picked up from the working directory, a merge / `+` of configurations.  The layers that exist are
   built-in defaults < mapping or file (-c) < argument of the task.  `valjean run` adds the section 'args'.

   A value is a leaf token, a built-in default (Def(k): the <cwd>/... string of key k) or one nested table.
   Keys are written without dashes: "log" = 'log-root', "out" = 'output-root', "rep" = 'report-root'. *)
EXTENDS Integers, Sequences, FiniteSets, TLC, Json, IOUtils

CONSTANTS Keys,        \* option names (DefKeys included)
          SetKeys,     \* option names used by the writing operations (subset of Keys)
          Toks,        \* leaf tokens
          StrToks,     \* the tokens that stand for a string (usable as a directory); the others stand for an integer
          MaxObjs,     \* bound on the number of Config objects of a history
          MaxOps,      \* bound on the length of a Config history
          MaxPathOps,  \* bound on the length of a path.py history
          Names,       \* path components for ensure
          Chars,       \* character classes for sanitize_filename: "a" (ordinary), "." , "/" , "0" (NUL)
          MaxName,     \* bound on the length of a file name given to sanitize_filename
          Big          \* FALSE: the reduced alphabets of the quick tier

Sections == {"path", "s"}
DefKeys  == {"log", "out", "rep"}

Leaf(v) == [t |-> "leaf", v |-> v, m |-> <<>>]
Def(k)  == [t |-> "def", v |-> k, m |-> <<>>]
Node(m) == [t |-> "node", v |-> "", m |-> m]
None    == [t |-> "none", v |-> "", m |-> <<>>]

(* ---------------------------------------------------------------- layers *)
Defaults == [k \in DefKeys |-> Def(k)]
(* `top` wins over `base` key by key *)
Over(base, top) == [k \in DOMAIN base \cup DOMAIN top |-> IF k \in DOMAIN top THEN top[k] ELSE base[k]]
PathOf(m) == IF "path" \in DOMAIN m THEN m["path"] ELSE <<>>
WithDefaults(m) == [s \in DOMAIN m \cup {"path"} |-> IF s = "path" THEN Over(Defaults, PathOf(m)) ELSE m[s]]
(* deliberately wrong variant (negative self-test): precedence section by section *)
WithDefaultsBySection(m) == [s \in DOMAIN m \cup {"path"} |-> IF s \in DOMAIN m THEN m[s] ELSE Defaults]
(* what a consumer uses: the argument of the task if given, else the configuration (file over defaults) *)
Lookup(tree, p) ==
   IF p[1] \notin DOMAIN tree THEN [exc |-> "KeyError", val |-> None]
   ELSE IF Len(p) = 1 THEN [exc |-> "", val |-> Node(tree[p[1]])]
   ELSE IF p[2] \notin DOMAIN tree[p[1]] THEN [exc |-> "KeyError", val |-> None]
   ELSE LET x == tree[p[1]][p[2]] IN
        IF Len(p) = 2 THEN [exc |-> "", val |-> x]
        ELSE IF x.t # "node" THEN [exc |-> "TypeError", val |-> None]
        ELSE IF p[3] \notin DOMAIN x.m THEN [exc |-> "KeyError", val |-> None]
        ELSE [exc |-> "", val |-> x.m[p[3]]]
IsDirValue(x) == x.t = "def" \/ (x.t = "leaf" /\ x.v \in StrToks)
(* needdir: the consumer makes a directory of the value; what happens when the value is a table or a number is not
   specified ("unspecified": ConfigTrace accepts anything there).  A PythonTask that only queries gets whatever is there. *)
Resolve(arg, tree, k, needdir) ==
   IF arg # None THEN [exc |-> "", val |-> arg]
   ELSE LET l == Lookup(tree, <<"path", k>>) IN
        IF l.exc # "" \/ ~needdir \/ IsDirValue(l.val) THEN l ELSE [exc |-> "unspecified", val |-> None]

(* ---------------------------------------------------------------- small domains *)
LeafVals == {Leaf(v) : v \in Toks}
TokS     == CHOOSE v \in StrToks : TRUE                                  \* a string token
TokI     == IF Toks = StrToks THEN TokS ELSE CHOOSE v \in Toks \ StrToks : TRUE   \* an integer token
ANode    == Node([k \in {"k"} |-> Leaf(TokS)])
SetVals  == IF Big THEN LeafVals \cup {ANode} ELSE {Leaf(TokS), ANode}
Tabs     == {<<>>} \cup {[k \in {kk} |-> v] : kk \in SetKeys, v \in LeafVals}
SecTabs  == IF Big THEN Tabs ELSE {<<>>, [k \in {"k"} |-> Leaf(TokS)], [k \in {"log"} |-> Leaf(TokI)]}
Lits     == {<<>>} \cup {[s \in {ss} |-> tab] : ss \in Sections, tab \in Tabs}
                   \cup {[s \in Sections |-> IF s = "path" THEN [k \in {"out"} |-> Leaf(CHOOSE v \in StrToks : TRUE)]
                                              ELSE [k \in {"k"} |-> Node([j \in {"k"} |-> Leaf(CHOOSE v \in Toks : TRUE)])]]}

ULits    == IF Big THEN Lits
            ELSE {[s \in {"s"} |-> [k \in {"k"} |-> Leaf(TokI)]], [s \in {"path"} |-> [k \in {"log"} |-> Leaf(TokS)]]}
                 \cup {m \in Lits : DOMAIN m = Sections}

(* ---------------------------------------------------------------- state *)
VARIABLES objs,   \* sequence of [tree, alias]: the Config objects created so far
          res,    \* outcome of the last operation: [exc, val, b]
          fs,     \* path.py: [dirs, files] sets of paths (sequences of names) below a scratch root
          hist
vars == <<objs, res, fs, hist>>

Obj(t, al)  == [tree |-> t, alias |-> al]
Res(x, v, b) == [exc |-> x, val |-> v, b |-> b]
Ok      == Res("", None, FALSE)
Exc(x)  == Res(x, None, FALSE)

PutTree(os, a, t)   == [os EXCEPT ![a].tree = t]
SetTab(tab, k, v)   == [x \in DOMAIN tab \cup {k} |-> IF x = k THEN v ELSE tab[x]]
SetSecT(tree, s, t) == [x \in DOMAIN tree \cup {s} |-> IF x = s THEN t ELSE tree[x]]
DelSecT(tree, s)    == [x \in DOMAIN tree \ {s} |-> tree[x]]
(* `valjean run` stores the parsed arguments in the configuration ("store the args in the config, for later retrieval"):
   the projection keeps the entry that is read later (javert.rst: config['args']['workers']) *)
ArgsTab == [k \in {"workers"} |-> Leaf("J")]
PathEv(e) == IF e.n = 1 THEN <<e.s>> ELSE IF e.n = 2 THEN <<e.s, e.k>> ELSE <<e.s, e.k, e.k2>>
ValidName(nm) == nm \notin {"", ".", ".."} /\ nm # "a/b"      \* the task names used by the consumers

(* The effect of one operation, a function of the objects and the event: used by the actions below and, unchanged, by
   ConfigTrace to judge recorded runs of the real class. *)
Eff(os, e) ==
   CASE e.op = "new"    -> [objs |-> Append(os, Obj(WithDefaults(<<>>), FALSE)), res |-> Ok]
     [] e.op = "from"   -> [objs |-> Append(os, Obj(IF e.kind = "clirun" THEN SetSecT(WithDefaults(e.m), "args", ArgsTab) ELSE WithDefaults(e.m), FALSE)),
                             res |-> Ok]                                              \* kind: dict | file | cli | clirun
     [] e.op = "newbad" -> [objs |-> os, res |-> Exc("ValueError")]
     [] e.op = "setsec" -> [objs |-> PutTree(os, e.a, SetSecT(os[e.a].tree, e.s, e.m)), res |-> Ok]
     [] e.op = "set"    -> LET t == os[e.a].tree IN
                           IF e.s \in DOMAIN t THEN [objs |-> PutTree(os, e.a, SetSecT(t, e.s, SetTab(t[e.s], e.k, e.v))), res |-> Ok]
                           ELSE [objs |-> os, res |-> Exc("KeyError")]
     [] e.op = "setin"  -> LET t == os[e.a].tree
                               l == Lookup(t, <<e.s, e.k>>) IN
                           IF l.exc # "" THEN [objs |-> os, res |-> Exc(l.exc)]
                           ELSE IF l.val.t # "node" THEN [objs |-> os, res |-> Exc("TypeError")]
                           ELSE [objs |-> PutTree(os, e.a, SetSecT(t, e.s, SetTab(t[e.s], e.k, Node(SetTab(l.val.m, e.k2, e.v))))), res |-> Ok]
     [] e.op = "del"    -> IF e.s \in DOMAIN os[e.a].tree THEN [objs |-> PutTree(os, e.a, DelSecT(os[e.a].tree, e.s)), res |-> Ok]
                           ELSE [objs |-> os, res |-> Exc("KeyError")]
     [] e.op = "get"    -> LET l == Lookup(os[e.a].tree, PathEv(e)) IN [objs |-> os, res |-> Res(l.exc, l.val, FALSE)]
     [] e.op = "getdef" -> [objs |-> os, res |-> IF e.s \in DOMAIN os[e.a].tree THEN Res("", Node(os[e.a].tree[e.s]), TRUE) ELSE Res("", None, FALSE)]
     [] e.op = "copy"   -> IF e.kind = "deep" THEN [objs |-> Append(os, Obj(os[e.a].tree, FALSE)), res |-> Ok]
                           ELSE [objs |-> Append([os EXCEPT ![e.a].alias = TRUE],
                                                 Obj(IF e.kind = "ctor" THEN WithDefaults(os[e.a].tree) ELSE os[e.a].tree, TRUE)), res |-> Ok]
     [] e.op = "update" -> [objs |-> PutTree(os, e.a, Over(os[e.a].tree, e.m)), res |-> Ok]
     (* kind "dict": against a plain dict with the same content (another type: False); kind "reordered": against the same
        content inserted in the reverse order at every level (True: equality ignores insertion order) *)
     [] e.op = "eq"     -> [objs |-> os, res |-> Res("", None, IF e.kind = "dict" THEN FALSE ELSE IF e.kind = "reordered" THEN TRUE
                                                                ELSE os[e.a].tree = os[e.b].tree)]
     [] e.op = "round"  -> [objs |-> Append(os, Obj(WithDefaults(os[e.a].tree), FALSE)), res |-> Ok]    \* kind: toml | repr
     [] e.op = "consume" -> [objs |-> os, res |->
                              LET r == Resolve(e.v, os[e.a].tree, e.k, e.kind # "pytask") IN
                              IF e.kind = "run" /\ ~ValidName(e.k2) /\ r.exc # "KeyError" THEN Exc("ValueError")     \* both errors: either
                              ELSE Res(r.exc, r.val, FALSE)]
     [] OTHER -> [objs |-> os, res |-> Exc("?")]

(* which events the model takes in a state (the discipline of the random generator is the same) *)
Can(os, e) ==
   /\ e.op \in {"new", "from", "copy", "round"} => Len(os) < MaxObjs
   /\ e.op \notin {"new", "from", "newbad"} => e.a \in 1 .. Len(os)
   /\ e.op = "eq" /\ e.kind = "" => e.b \in 1 .. Len(os)
   /\ e.op \in {"set", "setin"} => ~os[e.a].alias

E(op, a, b, s, k, k2, n, v, m, kind) == [op |-> op, a |-> a, b |-> b, s |-> s, k |-> k, k2 |-> k2, n |-> n, v |-> v, m |-> m, kind |-> kind]

(* ---------------------------------------------------------------- path.py *)
Paths   == IF Big THEN UNION {[1 .. n -> Names] : n \in 1 .. 3}
           ELSE UNION {[1 .. n -> Names] : n \in 1 .. 2} \cup {[i \in 1 .. 3 |-> CHOOSE x \in Names : TRUE]}
Prefixes(p) == {SubSeq(p, 1, n) : n \in 1 .. Len(p) - 1}
FNames  == UNION {[1 .. n -> Chars] : n \in 0 .. MaxName}
Sanitary(nm) == /\ \A i \in DOMAIN nm : nm[i] \notin {"/", "0"}
                /\ nm \notin {<<>>, <<".">>, <<".", ".">>}
Exists(f, p) == p \in f.dirs \cup f.files
EnsureEff(f, p, isdir) ==
   IF Exists(f, p) THEN [fs |-> f, exc |-> ""]
   ELSE IF Prefixes(p) \cap f.files # {} THEN [fs |-> f, exc |-> "OSError"]
   ELSE IF isdir THEN [fs |-> [dirs |-> f.dirs \cup Prefixes(p) \cup {p}, files |-> f.files], exc |-> ""]
   ELSE [fs |-> [dirs |-> f.dirs \cup Prefixes(p), files |-> f.files \cup {p}], exc |-> ""]

(* ---------------------------------------------------------------- actions *)
(* a history starts from one `Config()` *)
Init == objs = <<Obj(WithDefaults(<<>>), FALSE)>> /\ res = Ok /\ fs = [dirs |-> {}, files |-> {}] /\ hist = <<>>

ConfMode == \A i \in DOMAIN hist : hist[i].op \notin {"ensure", "sanitize"}
PathMode == \A i \in DOMAIN hist : hist[i].op \in {"ensure", "sanitize"}

Do(e) == /\ Len(hist) < MaxOps /\ Can(objs, e)
         /\ LET r == Eff(objs, e) IN objs' = r.objs /\ res' = r.res
         /\ fs' = fs /\ hist' = Append(hist, e)

Ids == 1 .. MaxObjs
New     == ConfMode /\ Do(E("new", 0, 0, "", "", "", 0, None, <<>>, ""))
(* `kind` of from / round is a variant of the binding only (dict, dict in reverse insertion order, TOML file, `valjean -c`;
   str + from_file, repr + eval): the harness picks it *)
From    == \E m \in Lits : ConfMode /\ Do(E("from", 0, 0, "", "", "", 0, None, m, ""))
NewBad  == ConfMode /\ Do(E("newbad", 0, 0, "", "", "", 0, None, <<>>, ""))
SetSec  == \E a \in Ids, s \in Sections, tab \in SecTabs : ConfMode /\ Do(E("setsec", a, 0, s, "", "", 1, None, tab, ""))
Set     == \E a \in Ids, s \in Sections, k \in SetKeys, v \in SetVals : ConfMode /\ Do(E("set", a, 0, s, k, "", 2, v, <<>>, ""))
SetIn   == \E a \in Ids, k \in SetKeys, v \in (IF Big THEN LeafVals ELSE {Leaf(TokI)}) : ConfMode /\ Do(E("setin", a, 0, "s", k, "k", 3, v, <<>>, ""))
Del     == \E a \in Ids, s \in Sections : ConfMode /\ Do(E("del", a, 0, s, "", "", 1, None, <<>>, ""))
Get     == \E a \in Ids, s \in Sections :
              /\ ConfMode
              /\ \/ Do(E("get", a, 0, s, "", "", 1, None, <<>>, ""))
                 \/ \E k \in SetKeys : \/ Do(E("get", a, 0, s, k, "", 2, None, <<>>, ""))
                                       \/ s = "s" /\ Do(E("get", a, 0, s, k, "k", 3, None, <<>>, ""))
GetDef  == \E a \in Ids, s \in Sections : ConfMode /\ Do(E("getdef", a, 0, s, "", "", 1, None, <<>>, ""))
Copy    == \E a \in Ids, kd \in {"deep", "shallow", "ctor"} : ConfMode /\ Do(E("copy", a, 0, "", "", "", 0, None, <<>>, kd))
Update  == \E a \in Ids, m \in ULits : ConfMode /\ Do(E("update", a, 0, "", "", "", 0, None, m, ""))
Eq      == \E a \in Ids :
              /\ ConfMode
              /\ \/ \E b \in Ids : Do(E("eq", a, b, "", "", "", 0, None, <<>>, ""))
                 \/ \E kd \in {"dict", "reordered"} : Do(E("eq", a, 0, "", "", "", 0, None, <<>>, kd))
Round   == \E a \in Ids : ConfMode /\ Do(E("round", a, 0, "", "", "", 0, None, <<>>, ""))
Consume == \E a \in Ids :
              /\ ConfMode
              /\ \/ \E nm \in {"t", ".."} : Do(E("consume", a, 0, "path", "out", nm, 2, None, <<>>, "run"))
                 \/ \E k \in {"log", "out"}, arg \in {None} \cup {Leaf(v) : v \in StrToks} :
                       /\ Big \/ (k = "log" /\ a = 1 /\ Len(hist) = MaxOps - 1)        \* (a real checkout starts two processes)
                       /\ Do(E("consume", a, 0, "path", k, "t", 2, arg, <<>>, "checkout"))
                 \/ \E k \in (IF Big THEN DefKeys ELSE {"rep"}) : Do(E("consume", a, 0, "path", k, "t", 2, None, <<>>, "pytask"))

PDo(e, f, r) == /\ Len(hist) < MaxPathOps
                /\ fs' = f /\ res' = r /\ objs' = objs /\ hist' = Append(hist, e)
Ensure   == \E p \in Paths, d \in BOOLEAN : PathMode /\
               LET r == EnsureEff(fs, p, d) IN PDo([op |-> "ensure", p |-> p, d |-> d], r.fs, Exc(r.exc))
Sanitize == \E nm \in FNames : PathMode /\ (Big \/ hist = <<>>) /\ PDo([op |-> "sanitize", p |-> nm, d |-> FALSE], fs, Res(IF Sanitary(nm) THEN "" ELSE "ValueError", None, Sanitary(nm)))

Next == New \/ From \/ NewBad \/ SetSec \/ Set \/ SetIn \/ Del \/ Get \/ GetDef \/ Copy \/ Update \/ Eq \/ Round \/ Consume
        \/ Ensure \/ Sanitize
Spec == Init /\ [][Next]_vars

(* ---------------------------------------------------------------- laws *)
Last == hist'[Len(hist')]
Trees(os) == [i \in DOMAIN os |-> os[i].tree]
AllPaths == {<<s>> : s \in Sections} \cup {<<s, k>> : s \in Sections, k \in Keys} \cup {<<s, k, "k">> : s \in Sections, k \in Keys}
(* every step: what was written is read back, nothing else moves, a failing operation and a lookup change nothing,
   a copy is equal to its source and leaves it alone *)
LawStep ==
   ConfMode' /\ hist' # hist =>
   LET e == Last IN
   /\ res'.exc # "" => Trees(objs') = Trees(objs)
   /\ e.op \in {"get", "getdef", "eq", "consume", "newbad"} => Trees(objs') = Trees(objs)
   /\ \A i \in DOMAIN objs : i # e.a => objs'[i].tree = objs[i].tree                    \* other objects untouched
   /\ e.op = "set" /\ res'.exc = "" =>
         /\ Lookup(objs'[e.a].tree, <<e.s, e.k>>) = [exc |-> "", val |-> e.v]            \* get after set
         /\ \A p \in AllPaths : (p[1] # e.s \/ (Len(p) >= 2 /\ p[2] # e.k)) =>          \* other paths undisturbed
               Lookup(objs'[e.a].tree, p) = Lookup(objs[e.a].tree, p)
   /\ e.op = "setin" /\ res'.exc = "" =>
         /\ Lookup(objs'[e.a].tree, <<e.s, e.k, e.k2>>) = [exc |-> "", val |-> e.v]
         /\ \A p \in AllPaths : (p[1] # e.s \/ (Len(p) >= 2 /\ p[2] # e.k)) => Lookup(objs'[e.a].tree, p) = Lookup(objs[e.a].tree, p)
   /\ e.op = "setsec" => Lookup(objs'[e.a].tree, <<e.s>>) = [exc |-> "", val |-> Node(e.m)]
                         /\ \A s \in Sections \ {e.s} : Lookup(objs'[e.a].tree, <<s>>) = Lookup(objs[e.a].tree, <<s>>)
   /\ e.op = "del" /\ res'.exc = "" => Lookup(objs'[e.a].tree, <<e.s>>).exc = "KeyError"
   /\ e.op = "copy" => /\ objs'[e.a].tree = objs[e.a].tree
                       /\ e.kind # "ctor" => objs'[Len(objs')].tree = objs[e.a].tree
   /\ e.op = "get" => (res'.exc = "KeyError") =
                         (\/ e.s \notin DOMAIN objs[e.a].tree
                          \/ e.n >= 2 /\ e.k \notin DOMAIN objs[e.a].tree[e.s]
                          \/ e.n = 3 /\ objs[e.a].tree[e.s][e.k].t = "node" /\ e.k2 \notin DOMAIN objs[e.a].tree[e.s][e.k].m)
LawSteps == [][LawStep]_vars

HasDefaults(t) == "path" \in DOMAIN t /\ DefKeys \subseteq DOMAIN t["path"]
(* every object ever built by a constructor has the three defaults; == is an equivalence on the objects *)
LawObjects ==
   /\ \A i, j, k \in DOMAIN objs :
         LET eq(x, y) == Eff(objs, E("eq", x, y, "", "", "", 0, None, <<>>, "")).res.b IN
         /\ eq(i, i) /\ (eq(i, j) => eq(j, i)) /\ (eq(i, j) /\ eq(j, k) => eq(i, k))
   /\ \A i \in DOMAIN objs :                                          \* round trip through the serialisation
         HasDefaults(objs[i].tree) => WithDefaults(objs[i].tree) = objs[i].tree

(* the laws of the layers and of path.py, over the whole small domain (evaluated once, in the initial state) *)
Precedence(wd(_)) ==
   \A m \in Lits : LET t == wd(m) IN
      /\ \A k \in DefKeys : k \in DOMAIN t["path"] /\ t["path"][k] = IF k \in DOMAIN PathOf(m) THEN m["path"][k] ELSE Def(k)     \* key by key
      /\ \A s \in DOMAIN m : \A k \in DOMAIN m[s] : t[s][k] = m[s][k]                                   \* the file is kept
      /\ DOMAIN t = DOMAIN m \cup {"path"}
      /\ \A arg \in {Leaf(v) : v \in StrToks}, k \in DefKeys :                                          \* argument > file > default
            /\ Resolve(arg, t, k, TRUE).val = arg
            /\ Resolve(None, t, k, FALSE) = [exc |-> "", val |-> t["path"][k]]
            /\ Resolve(None, t, k, TRUE).exc = "" => Resolve(None, t, k, TRUE).val = t["path"][k]
LawLayers ==
   hist = <<>> =>
   /\ Precedence(WithDefaults)
   /\ ~Precedence(WithDefaultsBySection)                              \* negative self-test: the wrong variant is told apart
   /\ \A m \in Lits : WithDefaults(WithDefaults(m)) = WithDefaults(m)
   /\ \A nm \in FNames : Sanitary(nm) = (/\ Len(nm) > 0 /\ ~(\E i \in DOMAIN nm : nm[i] \in {"/", "0"})
                                           /\ ~(Len(nm) <= 2 /\ \A i \in DOMAIN nm : nm[i] = "."))
LawEnsure ==
   PathMode /\ hist # <<>> /\ hist[Len(hist)].op = "ensure" /\ res.exc = "" =>
      LET e == hist[Len(hist)] IN
      /\ Exists(fs, e.p) /\ Prefixes(e.p) \subseteq fs.dirs
      /\ fs.dirs \cap fs.files = {}
LawEnsureStep ==
   PathMode' /\ hist' # hist /\ Last.op = "ensure" =>
      /\ fs.dirs \subseteq fs'.dirs /\ fs.files \subseteq fs'.files                          \* nothing is removed or retyped
      /\ Exists(fs, Last.p) => fs' = fs                                                        \* an existing path is left alone
      /\ res'.exc # "" => fs' = fs
LawEnsureSteps == [][LawEnsureStep]_vars

TypeOK == /\ Len(objs) <= MaxObjs /\ Len(hist) <= MaxOps
          /\ \A i \in DOMAIN objs : DOMAIN objs[i].tree \subseteq Sections /\ \A s \in DOMAIN objs[i].tree : DOMAIN objs[i].tree[s] \subseteq Keys

(* ---------------------------------------------------------------- witnesses (negated reachability) *)
HistHas(P(_)) == \E i \in DOMAIN hist : P(hist[i])
W_FileOverridesOneDefault == ~(\E i \in DOMAIN objs : LET p == objs[i].tree IN
                                 "path" \in DOMAIN p /\ DefKeys \subseteq DOMAIN p["path"]
                                 /\ p["path"]["out"].t = "leaf" /\ p["path"]["log"].t = "def")
W_MissingKey     == ~(res.exc = "KeyError" /\ hist # <<>> /\ hist[Len(hist)].op = "get")
W_TypeError      == ~(res.exc = "TypeError")
W_Unspecified    == ~(res.exc = "unspecified")
W_NestedSet      == ~(hist # <<>> /\ hist[Len(hist)].op = "setin" /\ res.exc = "")
W_CopyDiverged   == ~(Len(objs) = 2 /\ objs[1].tree # objs[2].tree /\ HistHas(LAMBDA e : e.op = "copy"))
W_AliasedTopLevel == ~(Len(objs) = 2 /\ objs[1].alias /\ hist[Len(hist)].op \in {"setsec", "del", "update"})
W_EqualByOtherHistory == ~(Len(objs) = 2 /\ objs[1].tree = objs[2].tree /\ ~HistHas(LAMBDA e : e.op \in {"copy", "round"})
                           /\ hist[Len(hist)].op = "eq" /\ res.b)
W_Unequal        == ~(hist # <<>> /\ hist[Len(hist)].op = "eq" /\ hist[Len(hist)].kind = "" /\ ~res.b)
W_DefaultsLost   == ~(\E i \in DOMAIN objs : ~HasDefaults(objs[i].tree))
W_ArgWins        == ~(hist # <<>> /\ hist[Len(hist)].op = "consume" /\ hist[Len(hist)].v # None /\ res.exc = "")
W_ConsumeFile    == ~(hist # <<>> /\ hist[Len(hist)].op = "consume" /\ res.exc = "" /\ res.val.t = "leaf" /\ hist[Len(hist)].v = None)
W_EnsureBlocked  == ~(res.exc = "OSError")
W_EnsureParents  == ~(\E p \in fs.files : Len(p) = 3)
W_BadName        == ~(res.exc = "ValueError" /\ hist # <<>> /\ hist[Len(hist)].op = "sanitize")

WitnessNames == <<"W_FileOverridesOneDefault", "W_MissingKey", "W_TypeError", "W_NestedSet", "W_CopyDiverged", "W_AliasedTopLevel",
                  "W_EqualByOtherHistory", "W_Unequal", "W_DefaultsLost", "W_ArgWins", "W_ConsumeFile", "W_EnsureBlocked",
                  "W_EnsureParents", "W_BadName", "W_Unspecified">>
WitnessVals  == <<W_FileOverridesOneDefault, W_MissingKey, W_TypeError, W_NestedSet, W_CopyDiverged, W_AliasedTopLevel,
                  W_EqualByOtherHistory, W_Unequal, W_DefaultsLost, W_ArgWins, W_ConsumeFile, W_EnsureBlocked,
                  W_EnsureParents, W_BadName, W_Unspecified>>
(* one run (-workers 1) records which witnesses were violated: register 100 + i is set when witness i is reached *)
WInit == Init /\ \A i \in DOMAIN WitnessNames : TLCSet(100 + i, FALSE)
WSpec == WInit /\ [][Next]_vars
WitnessProbe == \A i \in DOMAIN WitnessVals : WitnessVals[i] \/ TLCSet(100 + i, TRUE)
Post == JsonSerialize(IOEnv.VERIF_OUT, [names |-> WitnessNames, reached |-> [i \in DOMAIN WitnessNames |-> TLCGet(100 + i)]])
=============================================================================
