----------------------------- MODULE StatsTrace -----------------------------
(* Code -> spec direction for C18: cases recorded from the implementation
   (inputs and the observed projection of the evaluated summary) are checked
   one per step against the operators of Stats.  Names are compared as bags
   (the statement does not fix an order inside a class).  Every mismatching
   case is collected as <<case id, clause>>. *)
EXTENDS Integers, Sequences, FiniteSets, TLC, Json, IOUtils

Cases == JsonDeserialize(IOEnv.VERIF_CASES)
NCases == Len(Cases)

CONSTANTS TNames, RNames     \* all task / test names of the batch (for the bag comparisons of the invariants)
Kinds == {}  MaxTasks == 0  MaxRes == 0  Statuses == {}  LNames == {}  LVals == {}  XLNames == {}  MaxSel == 0
VARIABLES kind, tasks, sel, out, pc
S == INSTANCE Stats

VARIABLES i, bad
tvars == <<kind, tasks, sel, out, pc, i, bad>>

Range(s) == {s[k] : k \in DOMAIN s}
ToFn(pairs) == [k \in {p[1] : p \in Range(pairs)} |-> (CHOOSE p \in Range(pairs) : p[1] = k)[2]]
ResOf(j) == [name |-> j.name, ok |-> j.ok, labels |-> ToFn(j.labels)]
TaskOf(j) == [name |-> j.name, status |-> j.status, hasResult |-> j.hasResult,
              results |-> [k \in DOMAIN j.results |-> ResOf(j.results[k])]]
TasksOf(c) == [k \in DOMAIN c.tasks |-> TaskOf(c.tasks[k])]

Expected(c) == CASE c.kind = "tasks" -> S!TaskStats(TasksOf(c))
                 [] c.kind = "tests" -> S!TestStats(TasksOf(c))
                 [] c.kind = "bylabels" -> S!ByLabels(TasksOf(c), c.sel)

BagEq(s, t) == /\ Len(s) = Len(t)
               /\ \A x \in Range(s) \cup Range(t) : S!Count(s, x) = S!Count(t, x)

(* observed classify: list of <<class name, list of names>>; classes not listed are empty *)
ObsClass(c, cls) == IF \E p \in Range(c.obs.classify) : p[1] = cls
                    THEN (CHOOSE p \in Range(c.obs.classify) : p[1] = cls)[2] ELSE <<>>
ClassBad(c, e, classes) ==
   (IF \E cls \in classes : ~BagEq(ObsClass(c, cls), e.classify[cls]) THEN {"classify"} ELSE {})
   \cup (IF \E p \in Range(c.obs.classify) : p[1] \notin classes THEN {"unknown-class"} ELSE {})
   \cup (IF c.obs.raised THEN {"raised"} ELSE {})
   \cup (IF ~c.obs.raised /\ c.obs.success # e.success THEN {"success"} ELSE {})

ObsRows(c) == {[labels |-> r.labels, OK |-> r.OK, KO |-> r.KO, total |-> r.total] : r \in Range(c.obs.rows)}
LabelsBad(c, e) ==
   IF c.obs.raised THEN {"raised"}
   ELSE IF c.obs.error # e.error THEN {"error"}
   ELSE IF e.error THEN {}
   ELSE (IF ObsRows(c) # e.rows \/ Len(c.obs.rows) # Cardinality(e.rows) THEN {"rows"} ELSE {})
        \cup (IF c.obs.missing # e.missing THEN {"missing"} ELSE {})
        \cup (IF c.obs.success # e.success THEN {"success"} ELSE {})
        \cup (IF \E k \in DOMAIN c.obs.rows : c.obs.oracles[k] # (c.obs.rows[k].OK = c.obs.rows[k].total) THEN {"oracles"} ELSE {})

CaseBad(c) == LET e == Expected(c) IN
              {<<c.id, w>> : w \in CASE c.kind = "tasks" -> ClassBad(c, e, S!AllStatuses)
                                     [] c.kind = "tests" -> ClassBad(c, e, S!Outcomes)
                                     [] c.kind = "bylabels" -> LabelsBad(c, e)}

TInit == /\ i = 1 /\ bad = {} /\ kind = "" /\ tasks = <<>> /\ sel = <<>> /\ out = <<>> /\ pc = "todo"
TStep == /\ i <= NCases
         /\ i' = i + 1
         /\ kind' = Cases[i].kind /\ tasks' = TasksOf(Cases[i]) /\ sel' = Cases[i].sel
         /\ out' = Expected(Cases[i]) /\ pc' = "done"
         /\ bad' = bad \cup CaseBad(Cases[i])
         /\ (i = NCases => TLCSet(1, bad'))
TSpec == TInit /\ [][TStep]_tvars

(* the invariants of the property-level spec are evaluated on every consumed case *)
TaskPartition == S!TaskPartition
TestPartition == S!TestPartition
ByLabelsSum == S!ByLabelsSum
SelectionOrder == S!SelectionOrder
SuccessIff == S!SuccessIff
VacuousSuccess == S!VacuousSuccess

Post == /\ TLCGet("stats").diameter = NCases + 1
        /\ JsonSerialize(IOEnv.VERIF_OUT, [bad |-> TLCGet(1)])
=============================================================================
