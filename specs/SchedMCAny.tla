---------------------------- MODULE SchedMCAny ----------------------------
(* Configuration spaces with arbitrary (also cyclic) graphs; kept apart from SchedMC because TLC evaluates every
   constant definition of the root module at start-up, once per worker. *)
EXTENDS Sched
MC_AnyEmpty     == AnyConfigs({"ok", "fail"}, {"ABSENT"})
MC_AnyInit      == AnyConfigs({"ok"}, {"ABSENT", "DONE", "FAILED"})
=============================================================================
