----------------------------- MODULE DepGraphAlg -----------------------------
(* C16, the function-like half: topological sort, transitive reduction and
   closure, depends / dependees / initial / terminal and flattening, evaluated on
   EVERY labelled graph of a family (Init enumerates the family, the single
   action Eval computes the expected results into `res`).  The dump of the
   reachable states is the table the implementation is tested against; the
   clauses of the property about the mathematical objects are invariants.

   Family:  node sets NodeSets (a set of subsets of Names), every edge set over
   each of them (self-loops iff SelfLoops), restricted to acyclic graphs iff
   OnlyDags.  Graph-valued nodes (DOMAIN Content) may be among the names: that
   gives every nested graph with one level of nesting. *)
EXTENDS DepGraph

CONSTANTS NodeSets,   \* the node sets enumerated
          OnlyDags,   \* BOOLEAN
          WithSorts,  \* BOOLEAN: compute the set of all topological sorts
          Minimal     \* BOOLEAN: check ReduceMinimal (exponential)

VARIABLES res, pc
avars == <<gr, live, steps, hist, res, pc>>

PairsOver(N) == IF SelfLoops THEN N \X N ELSE {e \in N \X N : e[1] # e[2]}

NoRes == [cyclic |-> FALSE, sorts |-> {}, reach |-> {}, red |-> {}, clo |-> {},
          initial |-> {}, terminal |-> {}, flat |-> Empty, ord |-> {}]

AInit == /\ \E N \in NodeSets : \E E \in SUBSET PairsOver(N) :          \* the family
              LET G == [nodes |-> N, edges |-> E] IN
              (OnlyDags => ~Cyclic(G)) /\ gr = [s \in Slots |-> G]
         /\ live = Slots /\ steps = 0 /\ hist = <<>>
         /\ res = NoRes /\ pc = "todo"

Eval == /\ pc = "todo" /\ pc' = "done"
        /\ LET G == gr[1]
               acyc == ~Cyclic(G) IN
           res' = [cyclic   |-> ~acyc,
                   sorts    |-> IF acyc /\ WithSorts THEN TopoSorts(G) ELSE {},
                   reach    |-> IF acyc THEN Reach(G) ELSE {},
                   red      |-> IF acyc THEN TransReduction(G).edges ELSE {},
                   clo      |-> IF acyc THEN TransClosure(G).edges ELSE {},
                   initial  |-> Initial(G),
                   terminal |-> Terminal(G),
                   flat     |-> IF acyc THEN Flatten(G, Content) ELSE Empty,
                   ord      |-> IF acyc THEN NestedOrd(G, Content) ELSE {}]
        /\ UNCHANGED <<gr, live, steps, hist>>

ANext == Eval
ASpec == AInit /\ [][ANext]_avars

-----------------------------------------------------------------------------
Done == pc = "done"
G1 == gr[1]

(* a topological sort exists exactly on the acyclic graphs; every one of them
   lists each node once after all its dependencies *)
SortsOK == Done /\ WithSorts =>
              /\ (res.sorts = {}) = res.cyclic
              /\ \A p \in res.sorts : /\ Len(p) = Cardinality(G1.nodes)
                                      /\ \A i, j \in DOMAIN p : i < j => <<p[i], p[j]>> \notin res.reach
(* reduction and closure keep reachability with the fewest / most edges *)
ReductionOK == Done /\ ~res.cyclic => ReduceCloseOK(G1) /\ (Minimal => ReduceMinimal(G1))
(* flattening: independent of the grafting order; the ordering constraints
   between the plain nodes are those of the nested graph *)
FlattenOK == Done /\ ~res.cyclic =>
                /\ FlattenConfluent(G1, Content)
                /\ FlattenKeepsOrder(G1, Content)
                /\ GraftKeepsOrder(G1, Content)
                /\ res.flat.nodes \cap DOMAIN Content = {}
ViewsOK == ViewsAgree(G1) /\ IsGraph(G1)

(* witnesses: TLC must violate them *)
W_ManySorts   == ~(Done /\ Cardinality(res.sorts) >= 6)
W_Reducible   == ~(Done /\ ~res.cyclic /\ res.red # G1.edges /\ res.clo # G1.edges)
W_EmptyNested == ~(Done /\ ~res.cyclic /\ \E g \in GraphNodes(G1, Content) :
                      Content[g].nodes = {} /\ Deps(G1, g) # {} /\ Dependees(G1, g) # {})
W_CyclicSeen  == ~(Done /\ res.cyclic)
(* two different graph-valued nodes with the same content (distinct nested graphs that compare equal in the
   implementation), one depending on the other, between a dependee and a dependency *)
W_TwinNested  == ~(Done /\ ~res.cyclic /\ \E g, h \in GraphNodes(G1, Content) :
                      /\ g # h /\ Content[g] = Content[h] /\ <<g, h>> \in G1.edges
                      /\ Dependees(G1, g) # {} /\ Deps(G1, h) # {} /\ res.ord # {})
=============================================================================
