----------------------------- MODULE SchedTrace -----------------------------
(* Code -> spec direction for C01-C03: executions of the real queue backend
   recorded under the deterministic scheduler (one event per controller step:
   the thread that moved and the projected state afterwards) are validated, a
   whole batch per TLC run, against Sched.

   Strict = TRUE   every event must be a step of the named thread allowed by
                   Sched!Next whose successor agrees with every logged field
                   (the master's private loop variables are not logged: TLC
                   infers them).  A trace that stops being accepted at event l
                   is reported (tid, l): the implementation no longer follows
                   the implementation-level model ("drift").
   Strict = FALSE  observer mode: the logged fields are bound to the variables
                   without constraining the step, so that the property-level
                   invariants C01_*, C02_*, C03_* of Sched are evaluated by TLC
                   on the states the implementation really went through, even
                   when its step structure differs from the model.
*)
EXTENDS Sched, Json, IOUtils

CONSTANT Strict

Traces  == JsonDeserialize(IOEnv.VERIF_TRACES)
NTraces == Len(Traces)

VARIABLES tid, l
tvars == <<vars, tid, l>>

KindOf(c) == [p \in AllPairs |->
                IF \E i \in DOMAIN c.edges : c.edges[i][1] = p[1] /\ c.edges[i][2] = p[2]
                THEN LET i == CHOOSE i \in DOMAIN c.edges : c.edges[i][1] = p[1] /\ c.edges[i][2] = p[2]
                     IN c.edges[i][3]
                ELSE "none"]
CfgOf(c) == [kind |-> KindOf(c), outc |-> [t \in Tasks |-> c.outcome[t]],
             init |-> [t \in Tasks |-> c.init[t]], order |-> c.order]

SeenOf(e) == [t \in Tasks |->
                [d \in {e.seen[t][i].d : i \in DOMAIN e.seen[t]} |->
                   LET i == CHOOSE i \in DOMAIN e.seen[t] : e.seen[t][i].d = d
                   IN [st |-> e.seen[t][i].st, pay |-> e.seen[t][i].pay, clk |-> e.seen[t][i].clk, ex |-> e.seen[t][i].ex]]]

(* the logged fields, as constraints on the successor state *)
Bind(e) ==
   /\ st' = [t \in Tasks |-> e.st[t]]
   /\ pay' = [t \in Tasks |-> e.pay[t]]
   /\ clk' = [t \in Tasks |-> e.clk[t]]
   /\ queue' = e.queue
   /\ unfinished' = e.unfinished
   /\ mpc' = e.mpc
   /\ wpc' = [w \in Workers |-> e.wpc[w]]
   /\ cvOwner' = e.cvOwner /\ cvWaiting' = e.cvWaiting /\ cvNotified' = e.cvNotified
   /\ execs' = [t \in Tasks |-> e.execs[t]]
   /\ seen' = SeenOf(e)

(* cur is only meaningful while a worker holds a task *)
BindCur(e) == \A w \in Workers : e.wpc[w] \in {"dostart", "publish", "taskdone", "notify"} => cur'[w] = e.cur[w]

TInit ==
   /\ tid \in 1 .. NTraces
   /\ l = 1
   /\ LET c == CfgOf(Traces[tid].cfg) IN
      /\ kind = c.kind /\ outc = c.outc /\ order = c.order
      /\ st  = [t \in Tasks |-> c.init[t]]
      /\ pay = [t \in Tasks |-> IF c.init[t] = "DONE" THEN 1 ELSE 0]
      /\ clk = [t \in Tasks |-> IF c.init[t] = "DONE" THEN "init" ELSE "none"]
   /\ queue = <<>> /\ unfinished = 0
   /\ mpc = "start" /\ left = <<>> /\ idx = 0 /\ newleft = <<>> /\ nbefore = 0 /\ k = 0 /\ raised = FALSE /\ call = 1
   /\ wpc = [w \in Workers |-> "none"] /\ cur = [w \in Workers |-> 0]
   /\ cvOwner = 0 /\ cvWaiting = FALSE /\ cvNotified = FALSE
   /\ seen = [t \in Tasks |-> <<>>] /\ execs = [t \in Tasks |-> 0]
   /\ TLCSet(tid, 1) /\ TLCSet(NTraces + tid, {})

EmptyInitT == \A t \in Tasks : Traces[tid].cfg.init[t] = "ABSENT"
AcyclicT   == ~Cyclic

(* names of the property-level invariants that are false in the current state *)
Failing ==
   {n \in {"C01_DepsFinal", "C01_PayloadVisible", "C01_RunningState", "C01_NoLateDep", "C02_AtMostOnce", "C02_Outcome",
           "C02_NoForeignUpdate", "C02_SoftNeverSkips", "C02_FromEmptyNeverRaises", "C03_Clean", "C03_NotTerminated"} :
      CASE n = "C01_DepsFinal"       -> ~C01_DepsFinal
        [] n = "C01_PayloadVisible"  -> ~C01_PayloadVisible
        [] n = "C01_RunningState"    -> ~C01_RunningState
        [] n = "C01_NoLateDep"       -> ~C01_NoLateDep
        [] n = "C02_AtMostOnce"      -> EmptyInitT /\ ~C02_AtMostOnce
        [] n = "C02_Outcome"         -> EmptyInitT /\ AcyclicT /\ ~C02_Outcome
        [] n = "C02_NoForeignUpdate" -> ~C02_NoForeignUpdate
        [] n = "C02_SoftNeverSkips"  -> EmptyInitT /\ AcyclicT /\ ~C02_SoftNeverSkips
        [] n = "C02_FromEmptyNeverRaises" -> EmptyInitT /\ AcyclicT /\ ~C02_FromEmptyNeverRaises
        [] n = "C03_Clean"           -> ~C03_Clean
        [] n = "C03_NotTerminated"   -> l = Len(Traces[tid].events) + 1 /\ ~Terminated}

Note(r) == TLCSet(NTraces + tid, TLCGet(NTraces + tid) \cup r)

TStep ==
   /\ l <= Len(Traces[tid].events)
   /\ Note(Failing)
   /\ LET e == Traces[tid].events[l] IN
      IF Strict
      THEN /\ (IF e.thr = 0 THEN MasterNext ELSE WorkerNext(e.thr))
           /\ Bind(e) /\ BindCur(e)
      ELSE /\ Bind(e)
           /\ cur' = [w \in Workers |-> e.cur[w]]
           /\ UNCHANGED <<cfgvars, left, idx, newleft, nbefore, k, raised, call>>
   /\ l' = l + 1 /\ tid' = tid
   /\ TLCSet(tid, l + 1)

(* one extra step after the last event so that the final state is judged too *)
TEnd ==
   /\ l = Len(Traces[tid].events) + 1
   /\ Note(Failing)
   /\ l' = l + 1 /\ TLCSet(tid, l + 1)
   /\ UNCHANGED <<vars, tid>>

TSpec == TInit /\ [][TStep \/ TEnd]_tvars

Post == JsonSerialize(IOEnv.VERIF_OUT, [reached |-> [t \in 1 .. NTraces |-> TLCGet(t)],
                                        failing |-> [t \in 1 .. NTraces |-> TLCGet(NTraces + t)]])
=============================================================================
