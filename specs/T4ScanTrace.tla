---------------------------- MODULE T4ScanTrace ----------------------------
(* Code -> spec direction for C11.

   The harness cuts real listings at byte offsets, runs parse.Parser on every
   prefix and records, per listing,
     lines  the abstract lines of the COMPLETE listing (kind, integer field, id =
            physical line number; lines without scanner keyword are left out)
     cases  one record per distinct (prefix, observation):
              pos      number of complete significant lines in the prefix
              last     <<>> or <<[kind, num]>>: the unterminated last line
              outcome  "ParserError" | "Ok" | "Other" (any other exception, hang)
              keys     batch numbers stored by the scanner, in order
              eds      per stored edition: n, first/last line id of its block,
                       ok (parse_from_number succeeded), times reported for n
              times    every (time key, batch number, value) of the scanner
   Cases are sorted by pos.  The behaviour reads every listing twice, one TLC
   step per line with the scanner of T4Scan: the first pass gives the scan of the
   complete listing (fin), the second validates the cases at their prefix.  For
   every case TLC decides
     * the PROPERTY  (Prop): allowed outcome, and every successfully parsed
       edition is an edition of the complete listing as scanned by the model
       (fin), same block, same times where both have one;
     * conformance (Conf): the observation is what T4Scan computes for that
       prefix, either dropping or interpreting the unterminated line.
   Verdicts are total: the ids of all failing cases are written out. *)
EXTENDS Integers, Sequences, FiniteSets, TLC, Json, IOUtils

MaxLines == 0  MaxEditions == 0  MinEditions == 1  Modes == {}  Rich == FALSE
VARIABLES full, pos, cut, st, alt, out
T == INSTANCE T4Scan

Data == JsonDeserialize(IOEnv.VERIF_CASES)
NFiles == Len(Data)
MkLine(r, eol) == [kind |-> r.kind, num |-> r.num, eol |-> eol, id |-> r.id]
AllLines == [f \in 1 .. NFiles |-> [i \in 1 .. Len(Data[f].lines) |-> MkLine(Data[f].lines[i], TRUE)]]

VARIABLES fi,        \* current listing
          phase,     \* "final": first pass over its lines (computes fin); "check": second pass, cases validated
          fin,       \* scanner state on the complete current listing
          ci,        \* next case of the current listing
          bad, drift, nofinal, modelbad
tvars == <<full, pos, cut, st, alt, out, fi, phase, fin, ci, bad, drift, nofinal, modelbad>>

Last(s) == s[Len(s)]

TimeSet(e) == {<<e.times[x].k, e.times[x].t>> : x \in DOMAIN e.times}

(* the property, on one observation, against the complete listing's scan F *)
Prop(c, F) ==
   /\ c.outcome \in {"ParserError", "Ok"}
   /\ \A j \in DOMAIN c.eds :
        LET e == c.eds[j] IN
        e.ok => /\ e.n \in T!OkEditions(F)
                /\ e.first = F.blocks[e.n].lines[1] /\ e.last = Last(F.blocks[e.n].lines)
                /\ \A kt \in TimeSet(e) : e.n \in DOMAIN F.times[kt[1]] => F.times[kt[1]][e.n] = kt[2]

AllTimes(s) == UNION {{<<k, b, s.times[k][b]>> : b \in DOMAIN s.times[k]} : k \in T!TimeKeys}

(* conformance of one observation with a model state *)
Conf(c, s) ==
   /\ c.outcome = T!OpenOutcome(s)
   /\ c.outcome = "Ok" =>
        /\ c.keys = s.keys
        /\ {<<c.times[x].k, c.times[x].b, c.times[x].t>> : x \in DOMAIN c.times} = AllTimes(s)
        /\ \A j \in DOMAIN c.eds :
             LET e == c.eds[j] IN
             /\ e.n \in T!KeySet(s)
             /\ e.first = s.blocks[e.n].lines[1] /\ e.last = Last(s.blocks[e.n].lines)
             /\ e.ok => T!EditionOutcome(s, e.n) = "Ok"

NL(f) == Len(AllLines[f])
NC(f) == Len(Data[f].cases)

TInit == /\ fi = 1 /\ phase = "final" /\ fin = T!Scan0 /\ ci = 1
         /\ bad = {} /\ drift = {} /\ nofinal = {} /\ modelbad = {}
         /\ full = <<>> /\ pos = 0 /\ cut = "none" /\ st = T!Scan0 /\ alt = T!Scan0
         /\ out = T!Verdicts(T!Scan0, T!Scan0)

Results == [bad |-> bad, drift |-> drift, nofinal |-> nofinal, modelbad |-> modelbad]

(* one line of the current listing read by the model scanner (both passes) *)
ReadLine ==
   /\ fi <= NFiles /\ pos < NL(fi)
   /\ phase = "final" \/ (ci <= NC(fi) /\ Data[fi].cases[ci].pos > pos)
   /\ st' = T!StepDrop(st, AllLines[fi][pos + 1])
   /\ alt' = st' /\ pos' = pos + 1 /\ cut' = "none" /\ out' = T!Verdicts(st', st')
   /\ UNCHANGED <<full, fi, phase, fin, ci, bad, drift, nofinal, modelbad>>

(* end of the first pass: the scan of the complete listing is known *)
FinalKnown ==
   /\ fi <= NFiles /\ phase = "final" /\ pos = NL(fi)
   /\ fin' = st /\ phase' = "check" /\ pos' = 0 /\ st' = T!Scan0 /\ alt' = T!Scan0 /\ ci' = 1
   /\ cut' = "none" /\ out' = T!Verdicts(T!Scan0, T!Scan0)
   /\ UNCHANGED <<full, fi, bad, drift, nofinal, modelbad>>

(* one recorded observation validated: st is the scanner after its complete lines *)
CheckCase ==
   /\ fi <= NFiles /\ phase = "check" /\ ci <= NC(fi) /\ Data[fi].cases[ci].pos <= pos
   /\ LET c == Data[fi].cases[ci]
          a == IF c.last = <<>> THEN st ELSE T!Step(st, MkLine(c.last[1], FALSE))
      IN /\ c.pos = pos                               \* cases are sorted
         /\ alt' = a
         /\ cut' = (IF c.last = <<>> THEN "none" ELSE "cut")
         /\ out' = T!Verdicts(st, a)
         /\ bad' = IF Prop(c, fin) THEN bad ELSE bad \cup {<<fi, c.id>>}
         /\ drift' = IF Conf(c, st) \/ Conf(c, a) THEN drift ELSE drift \cup {<<fi, c.id>>}
         /\ nofinal' = IF c.complete /\ ~Conf(c, fin) THEN nofinal \cup {fi} ELSE nofinal
         /\ modelbad' = IF T!Agrees(st, fin) THEN modelbad ELSE modelbad \cup {<<fi, c.id>>}
         /\ ci' = ci + 1
   /\ UNCHANGED <<full, pos, st, fi, phase, fin>>

NextListing ==
   /\ fi <= NFiles /\ phase = "check" /\ ci > NC(fi)
   /\ fi' = fi + 1 /\ phase' = "final" /\ fin' = T!Scan0 /\ ci' = 1
   /\ pos' = 0 /\ st' = T!Scan0 /\ alt' = T!Scan0 /\ cut' = "none" /\ out' = T!Verdicts(T!Scan0, T!Scan0)
   /\ (fi = NFiles => TLCSet(1, Results))
   /\ UNCHANGED <<full, bad, drift, nofinal, modelbad>>

TStep == ReadLine \/ FinalKnown \/ CheckCase \/ NextListing
TSpec == TInit /\ [][TStep]_tvars

(* modelbad collects the prefixes of REAL listings on which the model scanner itself
   (dropping the unterminated line) would break the property: must stay empty.
   Invariants of the property-level spec evaluated on every state of both passes: *)
TimesKeyedByStored == T!TimesKeyedByStored
NoScanErrorOnCompleteLines == T!NoScanErrorOnCompleteLines

Post == JsonSerialize(IOEnv.VERIF_OUT, TLCGet(1))
=============================================================================
