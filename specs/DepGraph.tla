------------------------------ MODULE DepGraph ------------------------------
(* C16 -- the dependency graph mirrors a plain node/edge set under any edit
   history.

   Abstract view.  A graph is a record [nodes, edges] with edges a set of pairs
   <<n, m>> read "n depends on m".  Nodes are names (strings): the plain nodes
   `Plain` and the graph-valued nodes DOMAIN Content; Content[g] is the
   (immutable, one level deep, acyclic) graph over Plain that the node g *is*.
   A name stands for an OBJECT: two graph-valued names may well have the same
   Content (two empty nested graphs, two with the same nodes and edges) -- the
   implementation's objects then compare equal, but they are two nodes, like the
   two names here.  The same holds for plain nodes that compare equal.
   A client program holds graphs in the variables 1..k (`Slots`); `live` is the
   set of variables that currently hold a graph.  Every public editing
   operation of valjean.cosette.depgraph.DepGraph is an action on one or more
   slots; copies, inverses and sums create a graph in another slot, and the
   property says that from then on the two evolve independently, which is
   exactly what a function Slots -> graph means.

   The first half of the module is a library of pure operators (also used by
   DepGraphAlg, DepGraphImpl and DepGraphTrace); the second half is the state
   machine of edit histories. *)
EXTENDS Integers, Sequences, FiniteSets, TLC

CONSTANTS Plain,      \* plain node names
          Content,    \* [graph-valued node name -> graph over Plain]
          Slots,      \* 1 .. k
          MaxOps,     \* bound on the length of a history
          Ops,        \* enabled operation kinds (strings, see Next)
          SelfLoops,  \* BOOLEAN: is add_dependency(n, on=n) generated?
          HistMode    \* "none" | "last" | "full": what `hist` remembers

-----------------------------------------------------------------------------
(* library: graphs as sets *)

Empty == [nodes |-> {}, edges |-> {}]
IsGraph(G) == G.edges \subseteq (G.nodes \X G.nodes)

Deps(G, n)      == {m \in G.nodes : <<n, m>> \in G.edges}
Dependees(G, n) == {m \in G.nodes : <<m, n>> \in G.edges}
Initial(G)      == {n \in G.nodes : Dependees(G, n) = {}}   \* nobody depends on them
Terminal(G)     == {n \in G.nodes : Deps(G, n) = {}}        \* they depend on nothing

AddNode(G, n)      == [nodes |-> G.nodes \cup {n}, edges |-> G.edges]
RemoveNode(G, n)   == [nodes |-> G.nodes \ {n}, edges |-> {e \in G.edges : e[1] # n /\ e[2] # n}]
AddDep(G, n, m)    == [nodes |-> G.nodes \cup {n, m}, edges |-> G.edges \cup {<<n, m>>}]
RemoveDep(G, n, m) == [nodes |-> G.nodes, edges |-> G.edges \ {<<n, m>>}]
Union(G, H)        == [nodes |-> G.nodes \cup H.nodes, edges |-> G.edges \cup H.edges]
Invert(G)          == [nodes |-> G.nodes, edges |-> {<<e[2], e[1]>> : e \in G.edges}]
SubGraph(G, H)     == G.nodes \subseteq H.nodes /\ G.edges \subseteq H.edges

(* transitive closure of the relation E with intermediate vertices N (Warshall) *)
RECURSIVE Warshall(_, _)
Warshall(E, N) == IF N = {} THEN E
                  ELSE LET k == CHOOSE k \in N : TRUE
                           R == Warshall(E, N \ {k})
                       IN  R \cup {<<a[1], b[2]>> : a \in {e \in R : e[2] = k},
                                                    b \in {e \in R : e[1] = k}}
Reach(G)  == Warshall(G.edges, G.nodes)         \* <<n, m>>: n depends on m, directly or not
(* acyclic: peeling off the nodes without dependencies empties the graph *)
RECURSIVE Peels(_, _)
Peels(N, E) == IF N = {} THEN TRUE
               ELSE LET T == {n \in N : ~ \E e \in E : e[1] = n} IN
                    T # {} /\ Peels(N \ T, {e \in E : e[2] \notin T})
Cyclic(G) == ~Peels(G.nodes, G.edges)

TransClosure(G) == [nodes |-> G.nodes, edges |-> Reach(G)]
(* on an acyclic graph: drop the edges doubled by a longer path *)
TransReduction(G) == LET R == Reach(G) IN
   [nodes |-> G.nodes,
    edges |-> {e \in G.edges : ~ \E c \in G.nodes \ {e[1], e[2]} : <<e[1], c>> \in R /\ <<c, e[2]>> \in R}]

(* sequences without repetition over a set *)
RECURSIVE Perms(_)
Perms(S) == IF S = {} THEN {<<>>}
            ELSE UNION {{<<x>> \o p : p \in Perms(S \ {x})} : x \in S}
Pos(sq, x) == CHOOSE i \in DOMAIN sq : sq[i] = x
IsTopoSort(sq, G) == /\ Len(sq) = Cardinality(G.nodes)
                     /\ {sq[i] : i \in DOMAIN sq} = G.nodes
                     /\ \A e \in G.edges : Pos(sq, e[2]) < Pos(sq, e[1])   \* every dependency earlier
TopoSorts(G) == {p \in Perms(G.nodes) : IsTopoSort(p, G)}

(* graft(g): the node g of G is replaced by its content C; the dependees of g
   now depend on the initial nodes of C and the terminal nodes of C on the
   dependencies of g.  An empty C has neither, and g was still a link of the
   ordering, so its dependees are connected to its dependencies. *)
Graft(G, g, C) ==
   LET deps == Deps(G, g) \ {g}
       dees == Dependees(G, g) \ {g}
       R    == Union(RemoveNode(G, g), C)
       link == IF C.nodes = {} THEN dees \X deps
               ELSE (dees \X Initial(C)) \cup (Terminal(C) \X deps)
   IN  [nodes |-> R.nodes, edges |-> R.edges \cup link]

GraphNodes(G, Cont) == G.nodes \cap DOMAIN Cont
RECURSIVE FlattenResults(_, _, _)
FlattenResults(G, S, Cont) ==       \* all results of grafting the nodes S in any order
   IF S = {} THEN {G}
   ELSE UNION {FlattenResults(Graft(G, g, Cont[g]), S \ {g}, Cont) : g \in S}
Flatten(G, Cont) == CHOOSE F \in FlattenResults(G, GraphNodes(G, Cont), Cont) : TRUE

(* ordering constraints between plain nodes expressed by a nested graph: a
   graph-valued node g stands for all the nodes of its content: what depends on g
   comes after every node of Content[g], what g depends on comes before every one
   of them, and g is transparent (x -> g -> y orders x after y even if g is empty).
   Vertices are tagged pairs so that g can be split into a top and a bottom. *)
PlainOf(G, Cont) == (G.nodes \ DOMAIN Cont) \cup UNION {Cont[g].nodes : g \in GraphNodes(G, Cont)}
NestedOrd(G, Cont) ==
   LET Top(x) == IF x \in DOMAIN Cont THEN <<x, "top">> ELSE <<x, "p">>
       Bot(x) == IF x \in DOMAIN Cont THEN <<x, "bot">> ELSE <<x, "p">>
       gs == GraphNodes(G, Cont)
       V  == {<<x, "p">> : x \in PlainOf(G, Cont)} \cup {<<g, "top">> : g \in gs} \cup {<<g, "bot">> : g \in gs}
       E  == {<<Bot(e[1]), Top(e[2])>> : e \in G.edges}
             \cup {<<<<g, "top">>, <<g, "bot">>>> : g \in gs}
             \cup UNION {{<<<<g, "top">>, <<n, "p">>>> : n \in Cont[g].nodes} : g \in gs}
             \cup UNION {{<<<<n, "p">>, <<g, "bot">>>> : n \in Cont[g].nodes} : g \in gs}
             \cup UNION {{<<<<e[1], "p">>, <<e[2], "p">>>> : e \in Cont[g].edges} : g \in gs}
       R  == Warshall(E, V)
   IN  {<<x, y>> \in PlainOf(G, Cont) \X PlainOf(G, Cont) : <<<<x, "p">>, <<y, "p">>>> \in R}
PlainOrd(G, Cont) == {e \in Reach(G) : e[1] \notin DOMAIN Cont /\ e[2] \notin DOMAIN Cont}

-----------------------------------------------------------------------------
(* state machine: histories of editing operations *)

GNodes == DOMAIN Content
Names  == Plain \cup GNodes

ASSUME /\ \A g \in GNodes : /\ IsGraph(Content[g]) /\ Content[g].nodes \subseteq Plain
                            /\ ~Cyclic(Content[g])
       /\ Plain \cap GNodes = {}

VARIABLES gr,     \* [Slots -> graph]
          live,   \* slots that hold a graph
          steps,  \* length of the history so far (stays 0 when MaxOps = 0: unbounded)
          hist    \* the operations applied (see HistMode)
vars == <<gr, live, steps, hist>>

OpRec(o, s, t, u, x, y) == [op |-> o, s |-> s, t |-> t, u |-> u, x |-> x, y |-> y]

(* the effect of one operation on the slots, a function of the state before;
   DepGraphTrace applies it to recorded operations *)
Apply(G, L, r, Cont) ==
   CASE r.op = "addnode"  -> [gr |-> [G EXCEPT ![r.s] = AddNode(@, r.x)], live |-> L]
     [] r.op = "rmnode"   -> [gr |-> [G EXCEPT ![r.s] = RemoveNode(@, r.x)], live |-> L]
     [] r.op = "adddep"   -> [gr |-> [G EXCEPT ![r.s] = AddDep(@, r.x, r.y)], live |-> L]
     [] r.op = "rmdep"    -> [gr |-> [G EXCEPT ![r.s] = RemoveDep(@, r.x, r.y)], live |-> L]
     [] r.op = "merge"    -> [gr |-> [G EXCEPT ![r.s] = Union(@, G[r.t])], live |-> L]
     [] r.op = "copy"     -> [gr |-> [G EXCEPT ![r.t] = G[r.s]], live |-> L \cup {r.t}]
     [] r.op = "invert"   -> [gr |-> [G EXCEPT ![r.t] = Invert(G[r.s])], live |-> L \cup {r.t}]
     [] r.op = "sum"      -> [gr |-> [G EXCEPT ![r.u] = Union(G[r.s], G[r.t])], live |-> L \cup {r.u}]
     [] r.op = "graft"    -> [gr |-> [G EXCEPT ![r.s] = Graft(@, r.x, Cont[r.x])], live |-> L]
     [] r.op = "flatten"  -> [gr |-> [G EXCEPT ![r.s] = Flatten(@, Cont)], live |-> L]
     [] r.op = "reduce"   -> [gr |-> [G EXCEPT ![r.s] = TransReduction(@)], live |-> L]
     [] r.op = "close"    -> [gr |-> [G EXCEPT ![r.s] = TransClosure(@)], live |-> L]
     [] r.op = "rebuild"  -> [gr |-> G, live |-> L]     \* the same graph constructed another way (from a dependency
                                                        \* dictionary, the full constructor, a copy, a sum ...) is the same graph
     [] OTHER             -> [gr |-> G, live |-> L]     \* queries do not change anything

(* the slot an operation writes *)
Target(r) == CASE r.op \in {"copy", "invert"} -> r.t [] r.op = "sum" -> r.u [] OTHER -> r.s

Init == /\ gr = [s \in Slots |-> Empty]
        /\ live = {1}
        /\ steps = 0
        /\ hist = <<>>

Step(r) == /\ r.op \in Ops
           /\ MaxOps = 0 \/ steps < MaxOps
           /\ LET a == Apply(gr, live, r, Content) IN gr' = a.gr /\ live' = a.live
           /\ steps' = IF MaxOps = 0 THEN 0 ELSE steps + 1
           /\ hist' = CASE HistMode = "full" -> Append(hist, r)
                        [] HistMode = "last" -> <<r>>
                        [] OTHER -> <<>>

AddNodeOp    == \E s \in live, x \in Names : Step(OpRec("addnode", s, 0, 0, x, ""))
RemoveNodeOp == \E s \in live, x \in Names : Step(OpRec("rmnode", s, 0, 0, x, ""))   \* absent node: documented no-op
AddDepOp     == \E s \in live, x \in Names, y \in Names :
                   (SelfLoops \/ x # y) /\ Step(OpRec("adddep", s, 0, 0, x, y))
(* removing a missing edge between present nodes: the code raises KeyError and
   the graph must not change *)
RemoveDepOp  == \E s \in live : \E x \in gr[s].nodes, y \in gr[s].nodes :
                   (SelfLoops \/ x # y) /\ Step(OpRec("rmdep", s, 0, 0, x, y))
MergeOp      == \E s \in live, t \in live : Step(OpRec("merge", s, t, 0, "", ""))
CopyOp       == \E s \in live, t \in Slots : s # t /\ Step(OpRec("copy", s, t, 0, "", ""))
InvertOp     == \E s \in live, t \in Slots : Step(OpRec("invert", s, t, 0, "", ""))
SumOp        == \E s \in live, t \in live, u \in Slots : Step(OpRec("sum", s, t, u, "", ""))
(* grafting, flattening, reduction and closure are operations on dependency
   graphs proper, i.e. acyclic ones *)
GraftOp(A)   == \E s \in A : \E x \in GraphNodes(gr[s], Content) : Step(OpRec("graft", s, 0, 0, x, ""))
FlattenOp(A) == \E s \in A : GraphNodes(gr[s], Content) # {} /\ Step(OpRec("flatten", s, 0, 0, "", ""))
ReduceOp(A)  == \E s \in A : gr[s].edges # {} /\ Step(OpRec("reduce", s, 0, 0, "", ""))
CloseOp(A)   == \E s \in A : gr[s].edges # {} /\ Step(OpRec("close", s, 0, 0, "", ""))

Next == \/ AddNodeOp \/ RemoveNodeOp \/ AddDepOp \/ RemoveDepOp
        \/ MergeOp \/ CopyOp \/ InvertOp \/ SumOp
        \/ LET A == {s \in live : ~Cyclic(gr[s])} IN
           GraftOp(A) \/ FlattenOp(A) \/ ReduceOp(A) \/ CloseOp(A)
Spec == Init /\ [][Next]_vars

-----------------------------------------------------------------------------
(* C16, the clauses that are about the mathematical graph itself *)

TypeOK == /\ live \subseteq Slots /\ 1 \in live
          /\ \A s \in Slots : IsGraph(gr[s]) /\ gr[s].nodes \subseteq Names
          /\ \A s \in Slots \ live : gr[s] = Empty

(* the three views of an edge agree *)
ViewsAgree(G) == \A n \in G.nodes : \A m \in G.nodes : (m \in Deps(G, n)) <=> (n \in Dependees(G, m))

(* grafting the graph-valued nodes in any order gives one result *)
FlattenConfluent(G, Cont) == Cardinality(FlattenResults(G, GraphNodes(G, Cont), Cont)) = 1

(* flattening, and every single graft, preserves the ordering constraints
   between all plain nodes *)
FlattenKeepsOrder(G, Cont) == LET F == Flatten(G, Cont) IN
                              /\ F.nodes = PlainOf(G, Cont)
                              /\ Reach(F) = NestedOrd(G, Cont)
GraftKeepsOrder(G, Cont) == \A g \in GraphNodes(G, Cont) :
                               NestedOrd(Graft(G, g, Cont[g]), Cont) = NestedOrd(G, Cont)

(* reduction / closure: same reachability, fewest / most edges *)
ReduceCloseOK(G) ==
   LET R == Reach(G) T == TransReduction(G) K == TransClosure(G) IN
   /\ Reach(T) = R /\ Reach(K) = R /\ SubGraph(T, G) /\ SubGraph(G, K)
   /\ \A e \in T.edges : Reach(RemoveDep(T, e[1], e[2])) # R         \* every edge of T is needed
   /\ K.edges = R                                                     \* nothing can be added
(* ... fewest among all graphs with the same reachability (exponential: small graphs only) *)
ReduceMinimal(G) ==
   LET R == Reach(G) T == TransReduction(G) IN
   \A F \in SUBSET R : Reach([nodes |-> G.nodes, edges |-> F]) = R => Cardinality(F) >= Cardinality(T.edges)

GraphLaws == \A s \in live :
   /\ ViewsAgree(gr[s])
   /\ ~Cyclic(gr[s]) => /\ FlattenConfluent(gr[s], Content)
                        /\ FlattenKeepsOrder(gr[s], Content)
                        /\ GraftKeepsOrder(gr[s], Content)
                        /\ ReduceCloseOK(gr[s])

(* an operation changes at most the one slot it is applied to / creates: copies
   and derived graphs are independent of the original *)
Independence == [][\E s \in Slots : \A t \in Slots \ {s} : gr'[t] = gr[t]]_vars

(* witnesses (negated reachability): TLC must violate them *)
W_TwoLive      == ~(\E s, t \in live : s # t /\ gr[s] # gr[t] /\ gr[s].edges # {} /\ gr[t].edges # {})
W_EmptyLink    == ~(\E s \in live : \E g \in GraphNodes(gr[s], Content) :
                       Content[g].nodes = {} /\ Deps(gr[s], g) # {} /\ Dependees(gr[s], g) # {} /\ ~Cyclic(gr[s]))
W_Cyclic       == ~(\E s \in live : Cyclic(gr[s]))
=============================================================================
