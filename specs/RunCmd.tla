------------------------------ MODULE RunCmd ------------------------------
(* C19 -- a task that runs external commands.

   op = "run":   a list of commands; command i has an exit status (an integer,
                 or NoStart when it cannot be started) and writes nout / nerr
                 tokens <<i, 1>>, <<i, 2>>, .. on its standard output / error.
                 The machine runs them one at a time (Exec) and finishes
                 (Finish).  mode = "direct" is a call of the task, mode =
                 "sched" the same task under the scheduler.
   op = "names": a list of tasks with distinct names run one after the other
                 under one output root (RunNamed); a name is a sequence of
                 atoms ("a", ".", "/", "NUL", "stdout", "dol", ..), the file system is
                 the set of paths (sequences of components) created so far,
                 each owned by the task that created it.

   The clauses of the property are written as predicates over an observation
   (so that RunCmdTrace can evaluate them on what the implementation did) and
   are invariants of the step-by-step machine. *)
EXTENDS Integers, Sequences, FiniteSets, TLC

CONSTANTS MaxCmds,     \* commands per task
          Codes,       \* exit statuses (integers, 0 among them)
          Outs,        \* numbers of tokens a command may write per stream
          Modes,       \* subset of {"direct", "sched"}
          Ops,         \* subset of {"run", "names"}
          NameLists,   \* set of sequences of distinct names
          NameAlphabets, \* set of sets of atoms: the sub-alphabets of NL_Sub (chosen by the harness, rotating)
          RejectEmpty, \* BOOLEAN: the empty name is invalid (TRUE = intended; FALSE = the rule as coded)
          NoStart      \* model value: the command cannot be started

VARIABLES op, mode, cmds, pc, rcs, out, err, status, raised, escaped,    \* op = "run"
          names, k, accepted, fs                                           \* op = "names"
vars == <<op, mode, cmds, pc, rcs, out, err, status, raised, escaped, names, k, accepted, fs>>

CmdRec == [exit : Codes \cup {NoStart}, nout : Outs, nerr : Outs]
Toks(i, n) == [j \in 1 .. n |-> <<i, j>>]

-----------------------------------------------------------------------------
(* closed forms: what the statement says about a whole command list *)

Starts(cs, i) == cs[i].exit # NoStart
(* index of the first command that ends the task: non-zero status or cannot start; Len+1 if none *)
FirstBad(cs) == IF \E i \in DOMAIN cs : cs[i].exit # 0
                THEN CHOOSE i \in DOMAIN cs : cs[i].exit # 0 /\ \A j \in 1 .. i - 1 : cs[j].exit = 0
                ELSE Len(cs) + 1
(* commands actually run: up to and including the first failing one, but not one that cannot start *)
NRun(cs) == LET b == FirstBad(cs) IN
            IF b > Len(cs) THEN Len(cs) ELSE IF Starts(cs, b) THEN b ELSE b - 1
ExpRcs(cs) == [i \in 1 .. NRun(cs) |-> cs[i].exit]
RECURSIVE Cat(_, _, _)
Cat(cs, n, stream) == IF n = 0 THEN <<>>
                      ELSE Cat(cs, n - 1, stream) \o Toks(n, IF stream = "out" THEN cs[n].nout ELSE cs[n].nerr)
ExpOut(cs) == Cat(cs, NRun(cs), "out")
ExpErr(cs) == Cat(cs, NRun(cs), "err")
AllZero(cs) == \A i \in DOMAIN cs : cs[i].exit = 0
CannotStart(cs) == FirstBad(cs) <= Len(cs) /\ ~Starts(cs, FirstBad(cs))

(* clauses over an observation o = [status, raised, escaped, rcs, out, err] *)
DoneIffAllZero(cs, o) == (o.status = "DONE") <=> (AllZero(cs) /\ ~o.raised)
FailedOtherwise(cs, m, o) ==
   /\ o.status \in {"DONE", "FAILED", "NONE"}
   /\ o.status = "NONE" => (o.raised /\ m = "direct")       \* only a raise out of a direct call carries no status ...
   /\ (o.raised /\ m = "direct") => o.status \in {"NONE", "FAILED"}   \* ... or do() itself reports the failure (the statement asks
                                                             \* that the task fails rather than the run; third audit, benign3-C19)
   /\ o.raised => CannotStart(cs)                           \* only a command that cannot start may raise
   /\ (m = "sched" /\ ~AllZero(cs)) => o.status = "FAILED"  \* ... and under the scheduler the task is FAILED
StopAtFirst(cs, o) == ~o.raised => Len(o.rcs) = NRun(cs)
CodesOfRun(cs, o) == ~o.raised => o.rcs = ExpRcs(cs)
Capture(cs, o) == o.out = ExpOut(cs) /\ o.err = ExpErr(cs)
NeverEscapes(o) == ~o.escaped

Obs == [status |-> status, raised |-> raised, escaped |-> escaped, rcs |-> rcs, out |-> out, err |-> err]

-----------------------------------------------------------------------------
(* names and paths *)

(* Only "/" and "NUL" cannot be part of a file name, and "", ".", ".." are no names of a directory of one's own.  Every
   other atom is a letter like any other -- whatever a shell, the process environment, glob or path expansion would make
   of it ("dol" = $, "dolbr" = ${, "rbr" = }, "tilde" = ~, "star", "qm", "pct", "bsl", quotes, newline, a leading "dash",
   names that spell a reference to a variable of the process environment, ..): the directory of the task is named by
   the name as it is written, so that DirOf is injective on valid names and stays below the root. *)
Valid(n) == /\ RejectEmpty => n # <<>>
            /\ \A i \in DOMAIN n : n[i] \notin {"/", "NUL"}
            /\ n # <<".">> /\ n # <<".", ".">>

(* components of a name: split at "/" *)
RECURSIVE Split(_, _, _)
Split(n, i, cur) == IF i > Len(n) THEN <<cur>>
                    ELSE IF n[i] = "/" THEN <<cur>> \o Split(n, i + 1, <<>>)
                    ELSE Split(n, i + 1, Append(cur, n[i]))
Components(n) == Split(n, 1, <<>>)

(* what the operating system makes of <root>/<components>: "" and "." vanish, ".." goes up;
   Outside when the path leaves the root *)
Outside == <<<<"OUTSIDE">>>>
RECURSIVE Resolve(_, _)
Resolve(done, todo) ==
   IF todo = <<>> THEN done
   ELSE LET c == Head(todo) IN
        IF c = <<>> \/ c = <<".">> THEN Resolve(done, Tail(todo))
        ELSE IF c = <<".", ".">> THEN (IF done = <<>> THEN Outside ELSE Resolve(SubSeq(done, 1, Len(done) - 1), Tail(todo)))
        ELSE Resolve(Append(done, c), Tail(todo))
HasNul(n) == \E i \in DOMAIN n : n[i] = "NUL"
DirOf(n) == Resolve(<<>>, Components(n))          \* path of the task directory below the root
CapOut(n) == Append(DirOf(n), <<"stdout">>)
CapErr(n) == Append(DirOf(n), <<"stderr">>)

(* the entries task i creates: its directory (and the directories above it) and two capture files *)
Prefixes(p) == {SubSeq(p, 1, j) : j \in 1 .. Len(p)}
Created(i, n) == {[path |-> q, kind |-> "dir", owner |-> i] : q \in Prefixes(DirOf(n))}
                 \cup {[path |-> CapOut(n), kind |-> "file", owner |-> i], [path |-> CapErr(n), kind |-> "file", owner |-> i]}

(* name lists for the configurations (cfg: NameLists <- NL_...) *)
Atoms == {"a", ".", "/", "NUL", "stdout"}
NamesUpTo(n) == UNION {[1 .. m -> Atoms] : m \in 0 .. n}
ListsOver(U, m) == {l \in UNION {[1 .. j -> U] : j \in 1 .. m} : \A i, j \in DOMAIN l : l[i] = l[j] => i = j}
Eight == {<<>>, <<"a">>, <<"b">>, <<".">>, <<".", ".">>, <<"a", "/", "b">>, <<"stdout">>, <<"a", "NUL">>, <<".", ".", "/", "a">>, <<"a", ".">>}
NL_None == {}
NL_Singles == ListsOver(NamesUpTo(3), 1)
NL_Pairs == ListsOver(NamesUpTo(2), 2)
NL_Triples == ListsOver(Eight, 3)
(* names over each sub-alphabet the harness passes (letters that are also names of other tasks / of environment variables,
   and atoms some layer would interpret): all pairs of names of up to two atoms, all single names of up to three *)
NamesOver(A, n) == UNION {[1 .. m -> A] : m \in 0 .. n}
NL_Sub == UNION {ListsOver(NamesOver(A, 2), 2) \cup ListsOver(NamesOver(A, 3), 1) : A \in NameAlphabets}
NL_SinglesSub == NL_Singles \cup NL_Sub
(* names related the way file-name handling could conflate: they differ only after the last dot, only by case, by a trailing
   dot / space, one is a prefix of the other, one is another plus ".log" / ".stdout", several dots, a leading dot *)
Related == {<<"a">>, <<"A">>, <<"a", ".">>, <<"a", "sp">>, <<".", "a">>, <<"a", "b">>, <<"a", ".", "a">>, <<"a", ".", "b">>,
            <<"a", ".", "log">>, <<"a", ".", "stdout">>, <<"a", ".", "a", ".", "a">>, <<"a", ".", "a", ".", "b">>,
            <<".", "a", ".", "b">>, <<"a", ".", ".", "b">>}
NL_TriplesRel == NL_Triples \cup ListsOver(Related, 2)
NL_Related == ListsOver(Related, 3)

-----------------------------------------------------------------------------
NoCmds == <<>>
Init ==
   /\ op \in Ops
   /\ IF op = "run"
      THEN /\ mode \in Modes
           /\ \E n \in 0 .. MaxCmds : cmds \in [1 .. n -> CmdRec]
           /\ names = <<>>
      ELSE /\ mode = "direct" /\ cmds = NoCmds
           /\ names \in NameLists
   /\ pc = 1 /\ rcs = <<>> /\ out = <<>> /\ err = <<>>
   /\ status = "PENDING" /\ raised = FALSE /\ escaped = FALSE
   /\ k = 1 /\ accepted = {} /\ fs = {}

(* run the next command *)
Exec ==
   /\ op = "run" /\ status = "PENDING" /\ pc <= Len(cmds)
   /\ LET c == cmds[pc] IN
      IF c.exit = NoStart
      THEN (* the task fails; called directly the failure is an exception, under the scheduler status FAILED *)
           /\ raised' = TRUE
           /\ status' = IF mode = "sched" THEN "FAILED" ELSE "NONE"
           /\ UNCHANGED <<rcs, out, err, pc>>
      ELSE /\ rcs' = Append(rcs, c.exit)
           /\ out' = out \o Toks(pc, c.nout)
           /\ err' = err \o Toks(pc, c.nerr)
           /\ IF c.exit = 0 THEN pc' = pc + 1 /\ UNCHANGED status
                            ELSE status' = "FAILED" /\ UNCHANGED pc
           /\ UNCHANGED raised
   /\ UNCHANGED <<op, mode, cmds, escaped, names, k, accepted, fs>>

Finish ==
   /\ op = "run" /\ status = "PENDING" /\ pc > Len(cmds)
   /\ status' = "DONE"
   /\ UNCHANGED <<op, mode, cmds, pc, rcs, out, err, raised, escaped, names, k, accepted, fs>>

(* the k-th named task runs (one trivial command): rejected before anything is created, or it
   creates its directory and capture files *)
RunNamed ==
   /\ op = "names" /\ k <= Len(names)
   /\ LET n == names[k] IN
      IF Valid(n) THEN /\ accepted' = accepted \cup {k}
                       /\ fs' = fs \cup Created(k, n)
                  ELSE UNCHANGED <<accepted, fs>>
   /\ k' = k + 1
   /\ UNCHANGED <<op, mode, cmds, pc, rcs, out, err, status, raised, escaped, names>>

Next == Exec \/ Finish \/ RunNamed
Spec == Init /\ [][Next]_vars

-----------------------------------------------------------------------------
Ended == op = "run" /\ status # "PENDING"

C19_DoneIffAllZero == Ended => DoneIffAllZero(cmds, Obs)
C19_FailedOtherwise == Ended => FailedOtherwise(cmds, mode, Obs)
C19_StopAtFirst    == Ended => StopAtFirst(cmds, Obs)
C19_CodesOfRun     == Ended => CodesOfRun(cmds, Obs)
C19_Capture        == Ended => Capture(cmds, Obs)
C19_NeverEscapes   == NeverEscapes(Obs)
(* while running: only zero codes so far, and as many as commands passed *)
C19_Progress == (op = "run" /\ status = "PENDING") => Len(rcs) = pc - 1 /\ \A i \in DOMAIN rcs : rcs[i] = 0

(* clauses about directories, over D = the directory (path below the root) of every accepted task *)
DirBelowRoot(D) == \A i \in DOMAIN D : D[i] # Outside /\ Len(D[i]) >= 1
DirInjective(D) == \A i, j \in DOMAIN D : i # j => D[i] # D[j]
(* a task's directory or capture file is no other task's capture file *)
DirNotCapture(D) == \A i, j \in DOMAIN D : i # j =>
                       LET ci == {Append(D[i], <<"stdout">>), Append(D[i], <<"stderr">>)}
                           cj == {Append(D[j], <<"stdout">>), Append(D[j], <<"stderr">>)} IN
                       D[i] \notin cj /\ ci \cap cj = {}
(* one kind per path, one owner per file *)
FsConsistent(F) == \A e1, e2 \in F : e1.path = e2.path => (e1.kind = e2.kind /\ (e1.kind = "file" => e1.owner = e2.owner))
(* exactly the valid names are accepted (ns = the names handled so far) *)
InvalidRejected(ns, A) == A = {i \in DOMAIN ns : Valid(ns[i])}
(* what the statement requires to exist below the root after the first n tasks: the directory and the two capture
   files of every accepted task (fs, in the machine, holds exactly these entries) *)
RECURSIVE FsOf(_, _)
FsOf(ns, n) == IF n = 0 THEN {} ELSE FsOf(ns, n - 1) \cup (IF Valid(ns[n]) THEN Created(n, ns[n]) ELSE {})
DirsOf(ns, n) == [j \in {j \in 1 .. n : Valid(ns[j])} |-> DirOf(ns[j])]
Files(F) == {[path |-> e.path, owner |-> e.owner] : e \in {x \in F : x.kind = "file"}}
DirPaths(F) == {e.path : e \in {x \in F : x.kind = "dir"}}
(* The statement says what the capture files contain and that they lie in a directory of the task's own; it does not
   say that the task leaves nothing else there.  So, of a file system F found below the root (G = the required entries,
   D = the directory of every accepted task):
     - every required entry is there (a capture file with the tokens of its task only);
     - anything else lies strictly below the directory of an accepted task, and on nobody's directory or capture path.
   Hence a rejected task created nothing, and nothing appears next to the task directories. *)
IsProperPrefix(p, q) == Len(p) < Len(q) /\ SubSeq(q, 1, Len(p)) = p
Reserved(D) == UNION {{D[i], Append(D[i], <<"stdout">>), Append(D[i], <<"stderr">>)} : i \in DOMAIN D}
ExtraAllowed(e, D) == /\ \E j \in DOMAIN D : IsProperPrefix(D[j], e.path)
                      /\ e.path \notin Reserved(D)
Required(e, G) == \/ e.kind = "file" /\ [path |-> e.path, owner |-> e.owner] \in Files(G)
                  \/ e.kind = "dir" /\ e.path \in DirPaths(G)
FsCovers(F, G, D) == /\ Files(G) \subseteq Files(F) /\ DirPaths(G) \subseteq DirPaths(F)
                     /\ \A e \in F : Required(e, G) \/ ExtraAllowed(e, D)

(* the capture files belong to one task only: P[i] = the set of capture files of task i *)
OwnFiles(P) == \A i, j \in DOMAIN P : i # j => P[i] \cap P[j] = {}

DirsNow == [i \in accepted |-> DirOf(names[i])]
C19_DirBelowRoot  == op = "names" => DirBelowRoot(DirsNow)
C19_DirInjective  == op = "names" => DirInjective(DirsNow)
C19_DirNotCapture == op = "names" => DirNotCapture(DirsNow) /\ FsConsistent(fs)
C19_OwnFiles      == op = "names" => OwnFiles([i \in accepted |-> {CapOut(names[i]), CapErr(names[i])}])
C19_Rejected      == op = "names" => /\ InvalidRejected(SubSeq(names, 1, k - 1), accepted)
                                     /\ FsCovers(fs, FsOf(names, k - 1), DirsNow)
                                     /\ DirsNow = DirsOf(names, k - 1)
                                     /\ \A e \in fs : e.owner \in accepted

-----------------------------------------------------------------------------
(* witnesses: TLC must find each violated *)
W_StopsEarly   == ~(Ended /\ status = "FAILED" /\ ~raised /\ Len(rcs) < Len(cmds))
W_NoStartLater == ~(Ended /\ raised /\ Len(rcs) >= 1 /\ Len(out) >= 1)
W_DoneAll      == ~(Ended /\ status = "DONE" /\ Len(rcs) >= 2 /\ Len(err) >= 2)
W_SchedFailed  == ~(Ended /\ mode = "sched" /\ raised /\ status = "FAILED")
W_Rejected     == ~(op = "names" /\ k > Len(names) /\ Cardinality(accepted) < Len(names) /\ accepted # {})
W_NestedName   == ~(op = "names" /\ \E i \in DOMAIN names : Len(Components(names[i])) > 1)
(* two accepted tasks: one name holds an atom some layer would interpret, the other is made of the letters "a" / "b" only
   (e.g. <<"dol", "a">> and <<"b">>) *)
W_OddNamePair  == ~(op = "names" /\ k > Len(names) /\ Cardinality(accepted) = 2
                    /\ \E i, j \in accepted : /\ \E x \in DOMAIN names[i] : names[i][x] \notin Atoms \cup {"b"}
                                              /\ names[j] # <<>> /\ \A x \in DOMAIN names[j] : names[j][x] \in {"a", "b"})
(* two accepted tasks whose names differ only after the last dot (<<"a", ".", "a">> and <<"a", ".", "b">>) *)
W_RelatedPair  == ~(op = "names" /\ k > Len(names)
                    /\ \E i, j \in accepted : /\ i # j /\ Len(names[i]) = Len(names[j]) /\ Len(names[i]) >= 3
                                              /\ names[i][Len(names[i]) - 1] = "."
                                              /\ SubSeq(names[i], 1, Len(names[i]) - 1) = SubSeq(names[j], 1, Len(names[j]) - 1))
=============================================================================
