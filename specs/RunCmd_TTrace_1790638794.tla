---- MODULE RunCmd_TTrace_1790638794 ----
EXTENDS Sequences, TLCExt, Toolbox, Naturals, TLC, RunCmd

_expression ==
    LET RunCmd_TEExpression == INSTANCE RunCmd_TEExpression
    IN RunCmd_TEExpression!expression
----

_trace ==
    LET RunCmd_TETrace == INSTANCE RunCmd_TETrace
    IN RunCmd_TETrace!trace
----

_inv ==
    ~(
        TLCGet("level") = Len(_TETrace)
        /\
        op = ("names")
        /\
        rcs = (<<>>)
        /\
        err = (<<>>)
        /\
        raised = (FALSE)
        /\
        accepted = ({1})
        /\
        k = (2)
        /\
        fs = ({[path |-> <<<<"stdout">>>>, kind |-> "file", owner |-> 1], [path |-> <<<<"stderr">>>>, kind |-> "file", owner |-> 1]})
        /\
        out = (<<>>)
        /\
        escaped = (FALSE)
        /\
        mode = ("direct")
        /\
        pc = (1)
        /\
        names = (<<<<>>>>)
        /\
        cmds = (<<>>)
        /\
        status = ("PENDING")
    )
----

_init ==
    /\ escaped = _TETrace[1].escaped
    /\ raised = _TETrace[1].raised
    /\ mode = _TETrace[1].mode
    /\ op = _TETrace[1].op
    /\ k = _TETrace[1].k
    /\ accepted = _TETrace[1].accepted
    /\ out = _TETrace[1].out
    /\ pc = _TETrace[1].pc
    /\ rcs = _TETrace[1].rcs
    /\ cmds = _TETrace[1].cmds
    /\ fs = _TETrace[1].fs
    /\ status = _TETrace[1].status
    /\ err = _TETrace[1].err
    /\ names = _TETrace[1].names
----

_next ==
    /\ \E i,j \in DOMAIN _TETrace:
        /\ \/ /\ j = i + 1
              /\ i = TLCGet("level")
        /\ escaped  = _TETrace[i].escaped
        /\ escaped' = _TETrace[j].escaped
        /\ raised  = _TETrace[i].raised
        /\ raised' = _TETrace[j].raised
        /\ mode  = _TETrace[i].mode
        /\ mode' = _TETrace[j].mode
        /\ op  = _TETrace[i].op
        /\ op' = _TETrace[j].op
        /\ k  = _TETrace[i].k
        /\ k' = _TETrace[j].k
        /\ accepted  = _TETrace[i].accepted
        /\ accepted' = _TETrace[j].accepted
        /\ out  = _TETrace[i].out
        /\ out' = _TETrace[j].out
        /\ pc  = _TETrace[i].pc
        /\ pc' = _TETrace[j].pc
        /\ rcs  = _TETrace[i].rcs
        /\ rcs' = _TETrace[j].rcs
        /\ cmds  = _TETrace[i].cmds
        /\ cmds' = _TETrace[j].cmds
        /\ fs  = _TETrace[i].fs
        /\ fs' = _TETrace[j].fs
        /\ status  = _TETrace[i].status
        /\ status' = _TETrace[j].status
        /\ err  = _TETrace[i].err
        /\ err' = _TETrace[j].err
        /\ names  = _TETrace[i].names
        /\ names' = _TETrace[j].names

\* Uncomment the ASSUME below to write the states of the error trace
\* to the given file in Json format. Note that you can pass any tuple
\* to `JsonSerialize`. For example, a sub-sequence of _TETrace.
    \* ASSUME
    \*     LET J == INSTANCE Json
    \*         IN J!JsonSerialize("RunCmd_TTrace_1790638794.json", _TETrace)

=============================================================================

 Note that you can extract this module `RunCmd_TEExpression`
  to a dedicated file to reuse `expression` (the module in the 
  dedicated `RunCmd_TEExpression.tla` file takes precedence 
  over the module `RunCmd_TEExpression` below).

---- MODULE RunCmd_TEExpression ----
EXTENDS Sequences, TLCExt, Toolbox, Naturals, TLC, RunCmd

expression == 
    [
        \* To hide variables of the `RunCmd` spec from the error trace,
        \* remove the variables below.  The trace will be written in the order
        \* of the fields of this record.
        escaped |-> escaped
        ,raised |-> raised
        ,mode |-> mode
        ,op |-> op
        ,k |-> k
        ,accepted |-> accepted
        ,out |-> out
        ,pc |-> pc
        ,rcs |-> rcs
        ,cmds |-> cmds
        ,fs |-> fs
        ,status |-> status
        ,err |-> err
        ,names |-> names
        
        \* Put additional constant-, state-, and action-level expressions here:
        \* ,_stateNumber |-> _TEPosition
        \* ,_escapedUnchanged |-> escaped = escaped'
        
        \* Format the `escaped` variable as Json value.
        \* ,_escapedJson |->
        \*     LET J == INSTANCE Json
        \*     IN J!ToJson(escaped)
        
        \* Lastly, you may build expressions over arbitrary sets of states by
        \* leveraging the _TETrace operator.  For example, this is how to
        \* count the number of times a spec variable changed up to the current
        \* state in the trace.
        \* ,_escapedModCount |->
        \*     LET F[s \in DOMAIN _TETrace] ==
        \*         IF s = 1 THEN 0
        \*         ELSE IF _TETrace[s].escaped # _TETrace[s-1].escaped
        \*             THEN 1 + F[s-1] ELSE F[s-1]
        \*     IN F[_TEPosition - 1]
    ]

=============================================================================



Parsing and semantic processing can take forever if the trace below is long.
 In this case, it is advised to uncomment the module below to deserialize the
 trace from a generated binary file.

\*
\*---- MODULE RunCmd_TETrace ----
\*EXTENDS IOUtils, TLC, RunCmd
\*
\*trace == IODeserialize("RunCmd_TTrace_1790638794.bin", TRUE)
\*
\*=============================================================================
\*

---- MODULE RunCmd_TETrace ----
EXTENDS TLC, RunCmd

trace == 
    <<
    ([op |-> "names",rcs |-> <<>>,err |-> <<>>,raised |-> FALSE,accepted |-> {},k |-> 1,fs |-> {},out |-> <<>>,escaped |-> FALSE,mode |-> "direct",pc |-> 1,names |-> <<<<>>>>,cmds |-> <<>>,status |-> "PENDING"]),
    ([op |-> "names",rcs |-> <<>>,err |-> <<>>,raised |-> FALSE,accepted |-> {1},k |-> 2,fs |-> {[path |-> <<<<"stdout">>>>, kind |-> "file", owner |-> 1], [path |-> <<<<"stderr">>>>, kind |-> "file", owner |-> 1]},out |-> <<>>,escaped |-> FALSE,mode |-> "direct",pc |-> 1,names |-> <<<<>>>>,cmds |-> <<>>,status |-> "PENDING"])
    >>
----


=============================================================================

---- CONFIG RunCmd_TTrace_1790638794 ----
CONSTANTS
    MaxCmds = 3
    Codes = { 0 , 1 , 3 }
    Outs = { 0 , 1 }
    Modes = { "direct" , "sched" }
    Ops = { "names" }
    NameLists <- NL_Triples
    RejectEmpty = FALSE
    NoStart = NoStart
    NoStart = NoStart

INVARIANT
    _inv

CHECK_DEADLOCK
    \* CHECK_DEADLOCK off because of PROPERTY or INVARIANT above.
    FALSE

INIT
    _init

NEXT
    _next

CONSTANT
    _TETrace <- _trace

ALIAS
    _expression
=============================================================================
\* Generated on Mon Sep 28 23:39:56 UTC 2026