------------------------------- MODULE Stats -------------------------------
(* C18 -- diagnostic statistics count every task and every test result
   exactly once.

   Inputs (the quantifier of C18): a collection of task environments
        [name, status, hasResult, results]
   where `results` (present only when hasResult) is a non-empty list of test
   results [name, ok, labels]; `ok` is the verdict, `labels` the label
   dictionary of the test; and, for the per-label summary, a selection `sel`
   of distinct label names (order matters for the presentation only).

   Three summaries:
     TaskStats   partition of the observed tasks by the status they ended with
     TestStats   every evaluated result once, under SUCCESS or FAILURE by its
                 verdict; every task without results once under MISSING
     ByLabels    one row per combination of values of the selected labels that
                 is carried by at least one result carrying ALL selected
                 labels, with OK + KO = total = number of such results;
                 `missing` = the results lacking one of the labels.
   A summary is successful exactly when everything it observed succeeded; a
   summary that observed nothing is successful (vacuous truth -- the reading
   of the statement taken by this specification, see DESIGN 8.1).

   Degenerate state machine (style of Slice.tla): Init enumerates the inputs,
   Eval computes the summary into `out`; the dumped states are the table of
   implementation tests. *)
EXTENDS Integers, Sequences, FiniteSets, TLC

CONSTANTS Kinds,      \* subset of {"tasks", "tests", "bylabels"}
          MaxTasks,   \* number of task environments 0..MaxTasks
          MaxRes,     \* results per task 1..MaxRes (when the task has results)
          TNames,     \* task names (repetitions possible)
          RNames,     \* test names (repetitions possible)
          Statuses,   \* final task statuses enumerated for the task summary
          LNames,     \* label names tests may carry
          LVals,      \* label values
          XLNames,    \* label names used in selections only (carried by no test)
          MaxSel      \* length of label selections 1..MaxSel

AllStatuses == {"WAITING", "PENDING", "DONE", "FAILED", "SKIPPED"}
Outcomes == {"SUCCESS", "FAILURE", "MISSING"}

VARIABLES kind, tasks, sel, out, pc
vars == <<kind, tasks, sel, out, pc>>

-----------------------------------------------------------------------------
PFuns(D, R) == UNION {[S -> R] : S \in SUBSET D}
Range(s) == {s[i] : i \in DOMAIN s}
SeqsUpTo(S, lo, hi) == UNION {[1 .. n -> S] : n \in lo .. hi}

(* names, in input order, of the elements of `s` that satisfy P *)
NamesWhere(s, P(_)) == LET sub == SelectSeq(s, P) IN [i \in DOMAIN sub |-> sub[i].name]

(* all evaluated results, task after task *)
RECURSIVE Flat(_)
Flat(ts) == IF ts = <<>> THEN <<>>
            ELSE (IF Head(ts).hasResult THEN Head(ts).results ELSE <<>>) \o Flat(Tail(ts))

TaskStats(ts) ==
   [classify |-> [s \in AllStatuses |-> NamesWhere(ts, LAMBDA t : t.status = s)],
    success  |-> \A i \in DOMAIN ts : ts[i].status = "DONE"]

TestStats(ts) ==
   LET rs == Flat(ts) IN
   [classify |-> [o \in Outcomes |->
                     CASE o = "SUCCESS" -> NamesWhere(rs, LAMBDA r : r.ok)
                       [] o = "FAILURE" -> NamesWhere(rs, LAMBDA r : ~r.ok)
                       [] o = "MISSING" -> NamesWhere(ts, LAMBDA t : ~t.hasResult)],
    success  |-> /\ \A i \in DOMAIN rs : rs[i].ok
                 /\ \A i \in DOMAIN ts : ts[i].hasResult]

Carries(r, L) == \A k \in DOMAIN L : L[k] \in DOMAIN r.labels
Combo(r, L) == [k \in DOMAIN L |-> r.labels[L[k]]]

ByLabels(ts, L) ==
   LET rs == Flat(ts)
       carriers == {i \in DOMAIN rs : Carries(rs[i], L)}
       combos == {Combo(rs[i], L) : i \in carriers}
       Members(c) == {i \in carriers : Combo(rs[i], L) = c}
       Row(c) == [labels |-> c,
                  OK |-> Cardinality({i \in Members(c) : rs[i].ok}),
                  KO |-> Cardinality({i \in Members(c) : ~rs[i].ok}),
                  total |-> Cardinality(Members(c))]
       (* documented: a requested label that no test carries is an error *)
       error == \E k \in DOMAIN L : \A i \in DOMAIN rs : L[k] \notin DOMAIN rs[i].labels
   IN [error   |-> error,
       rows    |-> IF error THEN {} ELSE {Row(c) : c \in combos},
       missing |-> Len(rs) - Cardinality(carriers),
       n       |-> Len(rs),
       success |-> \A c \in combos : Row(c).OK = Row(c).total]

-----------------------------------------------------------------------------
ResRecs == [name : RNames, ok : BOOLEAN, labels : PFuns(LNames, LVals)]
TaskRecs(k) == IF k = "tasks"
               THEN [name : TNames, status : Statuses, hasResult : {FALSE}, results : {<<>>}]
               ELSE [name : TNames, status : {"DONE"}, hasResult : {FALSE}, results : {<<>>}]
                    \cup [name : TNames, status : {"DONE"}, hasResult : {TRUE}, results : SeqsUpTo(ResRecs, 1, MaxRes)]
Distinct(s) == \A i, j \in DOMAIN s : i # j => s[i] # s[j]
Sels == {s \in SeqsUpTo(LNames \cup XLNames, 1, MaxSel) : Distinct(s)}

Init == /\ kind \in Kinds
        /\ tasks \in SeqsUpTo(TaskRecs(kind), 0, MaxTasks)
        /\ sel \in IF kind = "bylabels" THEN Sels ELSE {<<>>}
        /\ out = <<>> /\ pc = "todo"

Eval == /\ pc = "todo" /\ pc' = "done"
        /\ out' = CASE kind = "tasks" -> TaskStats(tasks)
                    [] kind = "tests" -> TestStats(tasks)
                    [] kind = "bylabels" -> ByLabels(tasks, sel)
        /\ UNCHANGED <<kind, tasks, sel>>

Next == Eval
Spec == Init /\ [][Next]_vars

-----------------------------------------------------------------------------
(* the clauses of C18 that are about the definition itself *)

Evaluated == pc = "done"
Count(s, x) == Cardinality({i \in DOMAIN s : s[i] = x})
SumLens(f) == LET RECURSIVE S(_)
                  S(D) == IF D = {} THEN 0 ELSE LET d == CHOOSE d \in D : TRUE IN Len(f[d]) + S(D \ {d})
              IN S(DOMAIN f)
SumOf(R, F(_)) == LET RECURSIVE S(_)
                      S(D) == IF D = {} THEN 0 ELSE LET d == CHOOSE d \in D : TRUE IN F(d) + S(D \ {d})
                  IN S(R)

(* every observed task is listed once, under the status it ended with *)
TaskPartition ==
   Evaluated /\ kind = "tasks" =>
      /\ SumLens(out.classify) = Len(tasks)
      /\ \A s \in AllStatuses : \A nm \in TNames :
            Count(out.classify[s], nm) = Cardinality({i \in DOMAIN tasks : tasks[i].name = nm /\ tasks[i].status = s})

(* every evaluated result once, by verdict; tasks without results as missing *)
TestPartition ==
   Evaluated /\ kind = "tests" =>
      LET rs == Flat(tasks) IN
      /\ Len(out.classify["SUCCESS"]) + Len(out.classify["FAILURE"]) = Len(rs)
      /\ Len(out.classify["MISSING"]) = Cardinality({i \in DOMAIN tasks : ~tasks[i].hasResult})
      /\ \A nm \in RNames :
            /\ Count(out.classify["SUCCESS"], nm) = Cardinality({i \in DOMAIN rs : rs[i].name = nm /\ rs[i].ok})
            /\ Count(out.classify["FAILURE"], nm) = Cardinality({i \in DOMAIN rs : rs[i].name = nm /\ ~rs[i].ok})

(* successes plus failures equal the number of results carrying the requested labels *)
ByLabelsSum ==
   Evaluated /\ kind = "bylabels" /\ ~out.error =>
      LET rs == Flat(tasks) IN
      /\ \A r \in out.rows : r.OK + r.KO = r.total /\ r.total > 0 /\ Len(r.labels) = Len(sel)
      /\ \A r1, r2 \in out.rows : r1.labels = r2.labels => r1 = r2
      /\ SumOf(out.rows, LAMBDA r : r.total) = Cardinality({i \in DOMAIN rs : Carries(rs[i], sel)})
      /\ SumOf(out.rows, LAMBDA r : r.total) + out.missing = out.n
      /\ out.n = Len(rs)
      /\ \A i \in DOMAIN rs : Carries(rs[i], sel) => \E r \in out.rows : r.labels = Combo(rs[i], sel)

(* the order of the selection only permutes the label columns *)
Permuted(r, p) == [r EXCEPT !.labels = [k \in DOMAIN r.labels |-> r.labels[p[k]]]]
SelectionOrder ==
   Evaluated /\ kind = "bylabels" /\ ~out.error /\ Len(sel) = 2 =>
      LET swap == <<2, 1>>  other == ByLabels(tasks, <<sel[2], sel[1]>>) IN
      other.rows = {Permuted(r, swap) : r \in out.rows} /\ other.missing = out.missing

(* a summary is successful exactly when everything it observed succeeded *)
SuccessIff ==
   Evaluated =>
      CASE kind = "tasks" -> out.success <=> (SumLens(out.classify) = Len(out.classify["DONE"]))
        [] kind = "tests" -> out.success <=> (Len(out.classify["FAILURE"]) = 0 /\ Len(out.classify["MISSING"]) = 0)
        [] kind = "bylabels" -> out.success <=> (\A r \in out.rows : r.KO = 0)
VacuousSuccess == Evaluated /\ tasks = <<>> => out.success

(* witnesses (negated reachability): TLC must find each of them violated *)
W_MixedStatuses == ~(Evaluated /\ kind = "tasks" /\ Cardinality({s \in AllStatuses : out.classify[s] # <<>>}) >= 3)
W_RepeatedName == ~(Evaluated /\ kind = "tasks" /\ \E s \in AllStatuses : Len(out.classify[s]) = 2 /\ out.classify[s][1] = out.classify[s][2])
W_MissingAndFailure == ~(Evaluated /\ kind = "tests" /\ out.classify["MISSING"] # <<>> /\ out.classify["FAILURE"] # <<>> /\ out.classify["SUCCESS"] # <<>>)
W_OnlyMissingFails == ~(Evaluated /\ kind = "tests" /\ out.classify["FAILURE"] = <<>> /\ out.classify["SUCCESS"] # <<>> /\ ~out.success)
W_MissingLabels == ~(Evaluated /\ kind = "bylabels" /\ ~out.error /\ out.missing > 0 /\ out.rows # {})
W_TwoLabelRow == ~(Evaluated /\ kind = "bylabels" /\ \E r \in out.rows : Len(r.labels) = 2 /\ r.total = 2 /\ r.OK = 1)
W_UnknownLabel == ~(Evaluated /\ kind = "bylabels" /\ out.error /\ out.n > 0)
W_FailureOutsideRows == ~(Evaluated /\ kind = "bylabels" /\ ~out.error /\ out.success /\ \E i \in DOMAIN Flat(tasks) : ~Flat(tasks)[i].ok)
=============================================================================
