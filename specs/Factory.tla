------------------------------ MODULE Factory ------------------------------
(* C15 -- generated tasks correspond one-to-one to what was asked for.

   op = "hist":  a history of requests made to the task generators of one
   process, as the property wants them answered.

   A request is
      use   the argument-injection wrapper of function `func` whose call
            receives, positionally and in this order, the entries pos[i] =
            (task, key), and as keyword arguments the entries of kw =
            {(kw, task, key)}; soft = the dependency on the injected tasks is
            soft.  An injected task is one of the pre-existing tasks (Bases)
            or "#k", the task with identity k generated earlier (this is what
            Use.map does);
      make  factory `fac` is asked for a task with the optional explicit name,
            the extra command-line arguments args, dependencies deps and soft
            dependencies sdeps.
   Two requests are identical iff all these parameters are (separately created
   wrappers with identical parameters are the same request; different factory
   objects are different requests -- DESIGN 8.1).

   The answer is a task identity (1, 2, ..) or 0 = an explicit error.
   behav[k] is what task k does when executed (Meaning of the request it was
   created for).

   op = "collect":  the tasks of a job: transitive closure over hard and soft
   dependencies, every task once, two different tasks with one name rejected.
   job is the SET of task objects in the list that job() returns: a task
   object listed two or three times is one task (the harness derives the
   list spellings -- order, repetitions -- of every job set TLC enumerates and
   sends them through valjean.cambronne.common.collect_tasks / build_graphs).
   The collected tasks are the least set that contains job and is closed under
   hard and soft dependencies; the job is rejected iff two DISTINCT collected
   tasks share a name, wherever they sit (both listed, one listed and one a
   dependency, both reached only as -- hard or soft -- dependencies). *)
EXTENDS Integers, Sequences, FiniteSets, TLC

CONSTANTS Funcs, Bases, Keys, KwNames,       \* use requests
          Facs, UserNames, ArgLists, DepSets, SDepSets,   \* make requests
          MaxPos,      \* positional injections per wrapper
          MixPosKw,    \* BOOLEAN: one wrapper may inject positionally and by keyword
          MaxLen,      \* requests per history
          AllowMap,    \* BOOLEAN: tasks generated earlier can be injected
          AllowError,  \* BOOLEAN: a request that differs from an earlier one may be answered by an error
          Ops,         \* subset of {"hist", "collect"}
          NTasks, TaskNames,   \* op = "collect": tasks 1 .. NTasks, named from TaskNames
          RelKinds             \* how a task may depend on an earlier one: subset of {"none", "hard", "soft", "both"}

VARIABLES op,
          hist,      \* sequence of [req, resp]
          behav,     \* task identity -> what the task does
          rel, tname, job, visited, frontier, cdone, rejected     \* op = "collect"
vars == <<op, hist, behav, rel, tname, job, visited, frontier, cdone, rejected>>

-----------------------------------------------------------------------------
UseReq(f, p, w, s) == [kind |-> "use", func |-> f, pos |-> p, kw |-> w, soft |-> s,
                       fac |-> "-", name |-> "-", args |-> <<>>, deps |-> {}, sdeps |-> {}]
MakeReq(F, n, a, d, sd) == [kind |-> "make", func |-> "-", pos |-> <<>>, kw |-> {}, soft |-> FALSE,
                            fac |-> F, name |-> n, args |-> a, deps |-> d, sdeps |-> sd]

Injected(r) == {r.pos[i].task : i \in DOMAIN r.pos} \cup {x.task : x \in r.kw}

(* what the task generated for request r must do when executed, and on what it must depend *)
Meaning(r) == IF r.kind = "use"
              THEN [kind |-> "use", func |-> r.func, pos |-> r.pos, kw |-> r.kw, fac |-> "-", args |-> <<>>,
                    hard |-> IF r.soft THEN {} ELSE Injected(r), soft |-> IF r.soft THEN Injected(r) ELSE {}]
              ELSE [kind |-> "make", func |-> "-", pos |-> <<>>, kw |-> {}, fac |-> r.fac, args |-> r.args,
                    hard |-> r.deps, soft |-> r.sdeps]

(* argument lists for the configurations (cfg: ArgLists <- AL_...) *)
AL_Two == {<<"a">>, <<"b">>}
AL_Three == {<<>>, <<"a">>, <<"a", "b">>}

(* the requests that can be made in the current state *)
Ref(k) == "#" \o ToString(k)
Targets == Bases \cup (IF AllowMap THEN {Ref(k) : k \in {j \in DOMAIN behav : behav[j].kind = "use"}} ELSE {})
PosSeqs(T) == UNION {[1 .. n -> [task : T, key : Keys]] : n \in 0 .. MaxPos}
KwSets(T) == {{}} \cup {{[kw |-> x, task |-> t, key |-> y]} : x \in KwNames, t \in T, y \in Keys}
UseReqs == {UseReq(f, p, w, s) : f \in Funcs, p \in PosSeqs(Targets), w \in KwSets(Targets), s \in BOOLEAN}
MakeReqs == {MakeReq(F, n, a, d, sd) : F \in Facs, n \in UserNames \cup {"-"}, a \in ArgLists, d \in DepSets, sd \in SDepSets}
Requests == {r \in UseReqs : Injected(r) # {} /\ (MixPosKw \/ r.pos = <<>> \/ r.kw = {})} \cup MakeReqs

-----------------------------------------------------------------------------
(* op = "collect": rel[<<i, j>>] for j < i says how task i depends on task j *)
Pairs == {p \in (1 .. NTasks) \X (1 .. NTasks) : p[2] < p[1]}
DepsOf(r, i) == {j \in 1 .. NTasks : j < i /\ r[<<i, j>>] # "none"}
RECURSIVE ReachN(_, _, _)
ReachN(r, S, n) == IF n = 0 THEN S
                   ELSE LET S1 == ReachN(r, S, n - 1) IN S1 \cup UNION {DepsOf(r, i) : i \in S1}
Reach(r, S) == ReachN(r, S, NTasks)
DupNames(nm, S) == \E i, j \in S : i # j /\ nm[i] = nm[j]

Init ==
   /\ op \in Ops
   /\ hist = <<>> /\ behav = <<>>
   /\ IF op = "collect"
      THEN /\ rel \in [Pairs -> RelKinds]
           /\ tname \in [1 .. NTasks -> TaskNames]
           /\ job \in (SUBSET (1 .. NTasks)) \ {{}}
           /\ visited = job /\ frontier = job
      ELSE /\ rel = <<>> /\ tname = <<>> /\ job = {} /\ visited = {} /\ frontier = {}
   /\ cdone = FALSE /\ rejected = FALSE

(* the request r is answered *)
Request(r) ==
   /\ op = "hist" /\ Len(hist) < MaxLen
   /\ LET prev == {j \in DOMAIN hist : hist[j].req = r /\ hist[j].resp # 0} IN
      IF prev # {}
      THEN (* identical requests get the same task *)
           /\ hist' = Append(hist, [req |-> r, resp |-> hist[CHOOSE j \in prev : TRUE].resp])
           /\ UNCHANGED behav
      ELSE \/ (* a new request gets a new task that does what was asked *)
              /\ hist' = Append(hist, [req |-> r, resp |-> Len(behav) + 1])
              /\ behav' = Append(behav, Meaning(r))
           \/ (* ... or, when something else was asked before, an explicit error *)
              /\ AllowError /\ \E j \in DOMAIN hist : hist[j].req # r
              /\ hist' = Append(hist, [req |-> r, resp |-> 0])
              /\ UNCHANGED behav
   /\ UNCHANGED <<op, rel, job, visited, frontier, cdone, rejected, tname>>

(* one round of the closure: the dependencies of the frontier *)
CStep ==
   /\ op = "collect" /\ ~cdone /\ frontier # {}
   /\ LET new == UNION {DepsOf(rel, i) : i \in frontier} IN
      /\ visited' = visited \cup new
      /\ frontier' = new
   /\ UNCHANGED <<op, hist, behav, rel, job, cdone, rejected, tname>>

CFinish ==
   /\ op = "collect" /\ ~cdone /\ frontier = {}
   /\ cdone' = TRUE
   /\ rejected' = DupNames(tname, visited)
   /\ UNCHANGED <<op, hist, behav, rel, job, visited, frontier, tname>>

(* (the guard is repeated in front of the quantifier so that TLC does not build the set of requests
   in the final states) *)
AnyRequest == op = "hist" /\ Len(hist) < MaxLen /\ \E r \in Requests : Request(r)

Next == AnyRequest \/ CStep \/ CFinish
Spec == Init /\ [][Next]_vars

-----------------------------------------------------------------------------
(* the clauses, for one answered request: h = the history before it, r the request, a the answer
   (a task identity or 0), m what the returned task was seen to do *)
StepSame(h, r, a)    == \A j \in DOMAIN h : (h[j].req = r /\ h[j].resp # 0) => a = h[j].resp
StepInj(h, r, a)     == \A j \in DOMAIN h : (h[j].resp = a /\ a # 0) => h[j].req = r
StepActs(r, a, m)    == a # 0 => m = Meaning(r)
(* an explicit error is an answer only to a request that differs from an earlier one *)
StepErrorOK(h, r, a) == a = 0 => \E j \in DOMAIN h : h[j].req # r

(* a BLOCK of answered requests (the harness's filler requests: many cheap requests made between two identical ones):
   as[k] answers the k-th request of the block; the requests of the block differ pairwise and from every request
   of h, so that StepSame is vacuous on them and the conjunction of StepInj / StepErrorOK over the block is, in a
   form that is linear in the length of the block (FactoryTrace checks the equivalence on the short blocks):
   no answer is a task that answered an earlier request, and no two answers are the same task *)
BlockInj(h, as)     == LET ids == {as[k] : k \in DOMAIN as} \ {0} IN
                       /\ \A j \in DOMAIN h : h[j].resp \notin ids
                       /\ Cardinality(ids) = Cardinality({k \in DOMAIN as : as[k] # 0})
BlockErrorOK(h, as) == (as # <<>> /\ as[1] = 0) => h # <<>>

Before(n) == SubSeq(hist, 1, n - 1)
C15_Same == \A n \in DOMAIN hist : StepSame(Before(n), hist[n].req, hist[n].resp)
C15_Inj  == \A n \in DOMAIN hist : StepInj(Before(n), hist[n].req, hist[n].resp)
C15_Acts == \A n \in DOMAIN hist : hist[n].resp # 0 =>
               (hist[n].resp \in DOMAIN behav /\ StepActs(hist[n].req, hist[n].resp, behav[hist[n].resp]))
C15_ErrorOK == \A n \in DOMAIN hist : StepErrorOK(Before(n), hist[n].req, hist[n].resp)

(* collected = the sequence returned; it must list the closure, every task once *)
CollectOK(r, J, collected) == /\ {collected[i] : i \in DOMAIN collected} = Reach(r, J)
                              /\ \A i, j \in DOMAIN collected : collected[i] = collected[j] => i = j
RejectOK(r, nm, J, rej) == rej = DupNames(nm, Reach(r, J))
C15_Collect == cdone => visited = Reach(rel, job) /\ RejectOK(rel, tname, job, rejected)

-----------------------------------------------------------------------------
(* witnesses *)
W_Repeat   == ~(\E i, j \in DOMAIN hist : i < j /\ hist[i].req = hist[j].req)
W_Error    == ~(\E i \in DOMAIN hist : hist[i].resp = 0)
W_Mapped   == ~(\E i \in DOMAIN hist : \E t \in Injected(hist[i].req) : t \notin Bases)
W_Mixed    == ~(\E i, j \in DOMAIN hist : hist[i].req.kind = "use" /\ hist[j].req.kind = "make")
W_Rejected == ~(cdone /\ rejected /\ Cardinality(visited) < NTasks)
W_Deep     == ~(cdone /\ Cardinality(job) = 1 /\ Cardinality(visited) = NTasks /\ NTasks >= 3)
(* a name clash between two tasks of which neither is listed by the job, reached through soft dependencies only *)
W_DeepSoftClash == ~(/\ cdone /\ rejected /\ ~DupNames(tname, job)
                     /\ \A p \in Pairs : rel[p] \in {"none", "soft"}
                     /\ \E i, j \in visited \ job : i # j /\ tname[i] = tname[j])
=============================================================================
