-------------------------- MODULE ReportTreeTrace --------------------------
(* Code -> spec direction for C20 (and the judge of the spec -> code direction).

   A case is one real write -- any write of a usage history of the formatter
   and of the formatted report (the same FormattedRst written to several
   directories or twice into one, one Rst formatting several reports, A-B-A):
   the tree that was written (parent vector in pre-order numbering, title
   facts, results per section) and the projection of the directory after
   Rst(...).format_report(...).write(dir): whether the call raised (rejected),
   whether anything exists in the target directory, the names that appeared
   next to it (outside), every *.rst page with its path, header titles,
   section-text tokens, the results that appear on it (field "anchors": a
   result is recognised by its own description and by any explicit target
   carrying its fingerprint, whatever the label is called), toctree entries
   and image targets, and the figure files present.  Every clause of ReportTree.tla is evaluated on
   every case; the names of the false clauses are collected with the case id. *)
EXTENDS Integers, Sequences, FiniteSets, TLC, Json, IOUtils

MaxNodes == 0  TitleNames == {}  ResPatterns == {}  MaxDepth == 0  WithFigures == FALSE
VARIABLES tree, phase, pages, figs, aux, outside, next
R == INSTANCE ReportTree

Cases == JsonDeserialize(IOEnv.VERIF_CASES)
NCases == Len(Cases)

VARIABLES i, bad
tvars == <<tree, phase, pages, figs, aux, outside, next, i, bad>>

TreeOf(c) == [parent |-> c.parent, title |-> c.title, nres |-> c.nres]
DiskOf(c) == [rejected |-> c.rejected,
              pages    |-> {c.pages[k] : k \in DOMAIN c.pages},
              figs     |-> R!Range(c.figs),
              created  |-> c.created,
              outside  |-> R!Range(c.outside)]

(* the encoding of the tree itself is checked: a case that is not a tree in pre-order is a harness error *)
WellFormed(c) == /\ Len(c.parent) >= 1 /\ Len(c.title) = Len(c.parent) /\ Len(c.nres) = Len(c.parent)
                 /\ c.parent[1] = 0 /\ \A k \in 2 .. Len(c.parent) : c.parent[k] \in 1 .. k - 1
                 /\ R!PreOrder(c.parent)

Failed(c) ==
   LET t == TreeOf(c)  d == DiskOf(c) IN
          (IF R!P_RejectClean(t, d) THEN {} ELSE {"RejectClean"})
     \cup (IF R!P_Contained(t, d) THEN {} ELSE {"Contained"})
     \cup (IF R!P_Written(t, d) THEN {} ELSE {"Written"})
     \cup (IF R!P_Root(t, d) THEN {} ELSE {"Root"})
     \cup (IF R!P_Pages(t, d) THEN {} ELSE {"Pages"})
     \cup (IF R!P_NoLoss(t, d) THEN {} ELSE {"NoLoss"})
     \cup (IF R!P_Once(t, d) THEN {} ELSE {"Once"})
     \cup (IF R!P_Toc(t, d) THEN {} ELSE {"Toc"})
     \cup (IF R!P_Images(t, d) THEN {} ELSE {"Images"})

TInit == /\ i = 1 /\ bad = {} /\ tree = <<>> /\ phase = "init" /\ pages = <<>> /\ figs = {} /\ aux = FALSE
         /\ outside = {} /\ next = 1
TStep == /\ i <= NCases
         /\ i' = i + 1
         /\ Assert(WellFormed(Cases[i]), <<"case is not a tree in pre-order", Cases[i].id>>)
         /\ tree' = TreeOf(Cases[i])
         /\ phase' = IF Cases[i].rejected THEN "rejected" ELSE "done"
         /\ pages' = Cases[i].pages /\ figs' = R!Range(Cases[i].figs) /\ aux' = Cases[i].created
         /\ outside' = R!Range(Cases[i].outside) /\ next' = 1
         /\ bad' = IF Failed(Cases[i]) = {} THEN bad ELSE bad \cup {<<Cases[i].id, Failed(Cases[i])>>}
         /\ (i = NCases => TLCSet(1, bad'))
TSpec == TInit /\ [][TStep]_tvars

Post == /\ TLCGet("stats").diameter = NCases + 1
        /\ JsonSerialize(IOEnv.VERIF_OUT, [bad |-> TLCGet(1)])
=============================================================================
