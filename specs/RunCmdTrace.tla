---------------------------- MODULE RunCmdTrace ----------------------------
(* Code -> spec direction for C19.  One recorded implementation case per step:

   op = "run"   : the command list, the mode and what was observed -- status,
                  whether the task ended by an exception, whether an exception
                  escaped the scheduler, return codes, and the tokens found in
                  the capture files (echo lines on stderr are not tokens); when the
                  task is one of a family of tasks with related names run in the
                  same roots, the observation is made after all of them have run
                  and carries the capture files of the task and of the others;
   op = "names" : the names of the tasks run one after the other, the indices
                  of those that were accepted, the directory each of them
                  reported and the file system found below the output root
                  (a component the names do not explain is one atom "?...").

   The clauses of RunCmd are evaluated on the observation; every failing
   <<case id, clause>> is collected (total verdict). *)
EXTENDS Integers, Sequences, FiniteSets, TLC, Json, IOUtils

CONSTANT NoStart
MaxCmds == 0  Codes == {}  Outs == {}  Modes == {}  Ops == {}  NameLists == {}  NameAlphabets == {}  RejectEmpty == TRUE
VARIABLES op, mode, cmds, pc, rcs, out, err, status, raised, escaped, names, k, accepted, fs
R == INSTANCE RunCmd

Cases == JsonDeserialize(IOEnv.VERIF_CASES)
NCases == Len(Cases)
VARIABLE i
tvars == <<op, mode, cmds, pc, rcs, out, err, status, raised, escaped, names, k, accepted, fs, i>>

Set(s) == {s[j] : j \in DOMAIN s}
CmdsOf(c) == [j \in 1 .. Len(c.cmds) |->
                [exit |-> IF Len(c.cmds[j].exit) = 0 THEN NoStart ELSE c.cmds[j].exit[1],
                 nout |-> c.cmds[j].nout, nerr |-> c.cmds[j].nerr]]
ObsOf(c) == [status |-> c.obs.status, raised |-> c.obs.raised, escaped |-> c.obs.escaped,
             rcs |-> c.obs.rcs, out |-> c.obs.out, err |-> c.obs.err]

RunFailing(c) ==
   LET cs == CmdsOf(c)  o == ObsOf(c) IN
   {cl \in {"DoneIffAllZero", "FailedOtherwise", "StopAtFirst", "CodesOfRun", "Capture", "NeverEscapes", "OwnFiles"} :
       \/ cl = "DoneIffAllZero" /\ ~R!DoneIffAllZero(cs, o)
       \/ cl = "FailedOtherwise" /\ ~R!FailedOtherwise(cs, c.mode, o)
       \/ cl = "StopAtFirst" /\ ~R!StopAtFirst(cs, o)
       \/ cl = "CodesOfRun" /\ ~R!CodesOfRun(cs, o)
       \/ cl = "Capture" /\ ~R!Capture(cs, o)
       \/ cl = "NeverEscapes" /\ ~R!NeverEscapes(o)
       (* a task of a family run in the same roots: its capture files (numbered by the harness) and those of the others *)
       \/ cl = "OwnFiles" /\ ~R!OwnFiles(<<Set(c.obs.files), Set(c.obs.others)>>)}

(* observed directories: c.dirs[j] = <<>> (task j rejected) or <<path>> *)
ObsAccepted(c) == Set(c.accepted)
ObsDirs(c) == [j \in ObsAccepted(c) |-> c.dirs[j][1]]
ObsFs(c) == {[path |-> e.path, kind |-> e.kind, owner |-> e.owner] : e \in Set(c.fs)}

NamesFailing(c) ==
   LET ns == c.names  A == ObsAccepted(c)  D == ObsDirs(c)  F == ObsFs(c) IN
   {cl \in {"Rejected", "Fs", "DirBelowRoot", "DirInjective", "DirNotCapture", "DirAsSpecified"} :
       \/ cl = "Rejected" /\ ~R!InvalidRejected(ns, A)
       \/ cl = "Fs" /\ ~R!FsCovers(F, R!FsOf(ns, Len(ns)), R!DirsOf(ns, Len(ns)))
       \/ cl = "DirBelowRoot" /\ ~R!DirBelowRoot(D)
       \/ cl = "DirInjective" /\ ~R!DirInjective(D)
       \/ cl = "DirNotCapture" /\ ~(R!DirNotCapture(D) /\ R!FsConsistent(F))
       \/ cl = "DirAsSpecified" /\ ~(\A j \in A : R!Valid(ns[j]) => D[j] = R!DirOf(ns[j]))}

Failing(c) == IF c.op = "run" THEN RunFailing(c) ELSE NamesFailing(c)

TInit == /\ i = 1 /\ TLCSet(1, {})
         /\ op = "" /\ mode = "" /\ cmds = <<>> /\ pc = 1 /\ rcs = <<>> /\ out = <<>> /\ err = <<>>
         /\ status = "PENDING" /\ raised = FALSE /\ escaped = FALSE
         /\ names = <<>> /\ k = 1 /\ accepted = {} /\ fs = {}

(* the state shows the expectation of the specification for the case (closed forms) *)
TStep == /\ i <= NCases
         /\ i' = i + 1
         /\ LET c == Cases[i] IN
            /\ op' = c.op /\ mode' = c.mode
            /\ IF c.op = "run"
               THEN LET cs == CmdsOf(c) IN
                    /\ cmds' = cs /\ pc' = R!NRun(cs) + 1 /\ rcs' = R!ExpRcs(cs)
                    /\ out' = R!ExpOut(cs) /\ err' = R!ExpErr(cs)
                    /\ raised' = R!CannotStart(cs) /\ escaped' = FALSE
                    /\ status' = IF R!AllZero(cs) THEN "DONE"
                                 ELSE IF R!CannotStart(cs) /\ c.mode = "direct" THEN "NONE" ELSE "FAILED"
                    /\ names' = <<>> /\ k' = 1 /\ accepted' = {} /\ fs' = {}
               ELSE /\ cmds' = <<>> /\ pc' = 1 /\ rcs' = <<>> /\ out' = <<>> /\ err' = <<>>
                    /\ raised' = FALSE /\ escaped' = FALSE /\ status' = "PENDING"
                    /\ names' = c.names /\ k' = Len(c.names) + 1
                    /\ accepted' = {j \in DOMAIN c.names : R!Valid(c.names[j])}
                    /\ fs' = R!FsOf(c.names, Len(c.names))
            /\ LET f == Failing(c) IN
               IF f = {} THEN TRUE ELSE TLCSet(1, TLCGet(1) \cup {<<c.id, cl>> : cl \in f})
TSpec == TInit /\ [][TStep]_tvars

(* the invariants of RunCmd hold on the expectation shown in the state *)
C19_DoneIffAllZero == i > 1 => R!C19_DoneIffAllZero
C19_CodesOfRun == i > 1 => R!C19_CodesOfRun
C19_Capture == i > 1 => R!C19_Capture
C19_DirBelowRoot == i > 1 => R!C19_DirBelowRoot
C19_DirInjective == i > 1 => R!C19_DirInjective
C19_DirNotCapture == i > 1 => R!C19_DirNotCapture
C19_Rejected == i > 1 => R!C19_Rejected
C19_OwnFiles == i > 1 => R!C19_OwnFiles

Post == /\ TLCGet("stats").diameter = NCases + 1
        /\ JsonSerialize(IOEnv.VERIF_OUT, [bad |-> TLCGet(1)])
=============================================================================
