-------------------------------- MODULE RList --------------------------------
(* valjean.cosette.rlist.RList -- a list with a reverse index (key -> positions)
   kept up to date by set / delete / insert / swap / append.  The abstract
   object is a plain sequence; every observation is defined on it.  Anchored
   in C16 (DepGraph keeps its nodes in an RList and removes a node by swapping
   it with the last one) but specified for itself: duplicates, negative and
   out-of-range indices, custom keys.

   Positions are 0-based as in Python; `seq[p + 1]` is the element at p. *)
EXTENDS Integers, Sequences, FiniteSets, TLC

CONSTANTS Vals,      \* alphabet of elements
          MaxLen,    \* bound on the length
          MaxOps     \* bound on the number of editing operations of a history

VARIABLES seq, hist
vars == <<seq, hist>>

Len0 == Len(seq)
Norm(i) == IF i < 0 THEN i + Len0 ELSE i                 \* Python negative index
Valid(i) == Norm(i) \in 0 .. Len0 - 1
Clamp(i) == LET n == Norm(i) IN IF n < 0 THEN 0 ELSE IF n > Len0 THEN Len0 ELSE n    \* list.insert semantics

SetAt(s, p, v)    == [k \in 1 .. Len(s) |-> IF k = p + 1 THEN v ELSE s[k]]
DelAt(s, p)       == [k \in 1 .. Len(s) - 1 |-> IF k <= p THEN s[k] ELSE s[k + 1]]
InsAt(s, p, v)    == [k \in 1 .. Len(s) + 1 |-> IF k <= p THEN s[k] ELSE IF k = p + 1 THEN v ELSE s[k - 1]]

Idx == -(MaxLen + 1) .. MaxLen + 1

Init == seq \in UNION {[1 .. n -> Vals] : n \in 0 .. 2} /\ hist = <<>>

Log(op) == hist' = Append(hist, op)
Budget  == Len(hist) < MaxOps

Set(i, v)    == /\ Budget /\ Valid(i) /\ seq' = SetAt(seq, Norm(i), v) /\ Log([op |-> "set", i |-> i, j |-> 0, v |-> v])
Del(i)       == /\ Budget /\ Valid(i) /\ seq' = DelAt(seq, Norm(i)) /\ Log([op |-> "del", i |-> i, j |-> 0, v |-> ""])
Insert(i, v) == /\ Budget /\ Len0 < MaxLen /\ seq' = InsAt(seq, Clamp(i), v) /\ Log([op |-> "insert", i |-> i, j |-> 0, v |-> v])
Appendv(v)   == /\ Budget /\ Len0 < MaxLen /\ seq' = Append(seq, v) /\ Log([op |-> "append", i |-> 0, j |-> 0, v |-> v])
Swap(i, j)   == /\ Budget /\ Valid(i) /\ Valid(j)
                /\ seq' = SetAt(SetAt(seq, Norm(i), seq[Norm(j) + 1]), Norm(j), seq[Norm(i) + 1])
                /\ Log([op |-> "swap", i |-> i, j |-> j, v |-> ""])
(* out-of-range set / del / swap raise IndexError and leave the list unchanged *)
Bad(op, i)   == /\ Budget /\ ~Valid(i) /\ seq' = seq /\ Log([op |-> op, i |-> i, j |-> 0, v |-> ""])

Next == \/ \E i \in Idx, v \in Vals : Set(i, v) \/ Insert(i, v)
        \/ \E i \in Idx : Del(i) \/ Bad("del", i) \/ Bad("setbad", i)
        \/ \E v \in Vals : Appendv(v)
        \/ \E i, j \in Idx : Swap(i, j)
Spec == Init /\ [][Next]_vars

-----------------------------------------------------------------------------
(* observations, all functions of the abstract sequence *)
Positions(s, v) == {p \in 0 .. Len(s) - 1 : s[p + 1] = v}
Contains(s, v)  == Positions(s, v) # {}
Min(S) == CHOOSE x \in S : \A y \in S : x <= y
(* index(v, start, stop): the first occurrence in [start, stop) ; -1 stands for ValueError *)
IndexOf(s, v, start, stop) ==
   LET c == {p \in Positions(s, v) : p >= start /\ p < stop} IN IF c = {} THEN -1 ELSE Min(c)

(* laws of the editing operations, checked on the definitions *)
TypeOK == Len(seq) <= MaxLen /\ \A k \in DOMAIN seq : seq[k] \in Vals
W_Duplicates == ~(\E v \in Vals : Cardinality(Positions(seq, v)) >= 2 /\ Len(hist) >= 2)
W_NegIndex   == ~(\E k \in DOMAIN hist : hist[k].op \in {"set", "del", "insert"} /\ hist[k].i < 0)
W_Full       == ~(Len(hist) = MaxOps)
=============================================================================
