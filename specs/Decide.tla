------------------------------- MODULE Decide -------------------------------
(* The decision function of the queue backend (QueueScheduling.decide_new_state
   with decide_new_state_waiting and last_end_time) for ONE task, enumerated
   over all inputs: own entry, and per dependency its kind, status and end clock.
   Function-like module: Init enumerates, Eval computes; the declarative reading
   of the decision is a set of invariants.  Serves C02 (release / skip rule) and
   C04 (DONE short-cut).  The same operator is used, over whole graphs, by
   Sched!Decision and Runs!Decision. *)
EXTENDS Integers, Sequences, FiniteSets, TLC

CONSTANTS MaxDeps,      \* dependencies 1 .. n, n <= MaxDeps
          Clocks,       \* candidate clock values (positive integers); -1 stands for "no clock"
          OwnStatuses   \* statuses the task itself may have on entry

DepStatuses == {"ABSENT", "WAITING", "PENDING", "DONE", "FAILED", "SKIPPED"}
Final == {"DONE", "FAILED", "SKIPPED"}

VARIABLES own, deps, out, pc
vars == <<own, deps, out, pc>>

OwnRec == [st : OwnStatuses, s : Clocks \cup {-1}]
DepRec == [hard : BOOLEAN, st : DepStatuses, e : Clocks \cup {-1}]

(* entries that cannot occur: an absent entry has no clock *)
Sane(o, ds) == /\ (o.st = "ABSENT" => o.s = -1)
               /\ \A i \in DOMAIN ds : ds[i].st = "ABSENT" => ds[i].e = -1

Blocking(d) == d.st \in {"ABSENT", "PENDING", "WAITING"}
Ends(ds)    == {ds[i].e : i \in {j \in DOMAIN ds : ds[j].e # -1}}
UpToDate(o, ds) == Ends(ds) = {} \/ (o.s # -1 /\ \A e \in Ends(ds) : e <= o.s)
Decision(o, ds) ==
   IF \E i \in DOMAIN ds : Blocking(ds[i])                                   THEN "WAITING"
   ELSE IF \E i \in DOMAIN ds : ds[i].hard /\ ds[i].st \in {"FAILED", "SKIPPED"} THEN "SKIPPED"
   ELSE IF o.st = "DONE"                          THEN (IF UpToDate(o, ds) THEN "DROP" ELSE "PENDING")
   ELSE IF o.st \in {"ABSENT", "WAITING"}         THEN "PENDING"
   ELSE "ASSERT"
(* status of the task afterwards *)
StatusAfter(o, d) == IF d \in {"WAITING", "SKIPPED", "PENDING"} THEN d ELSE o.st    \* DROP, ASSERT: entry untouched
NewStatus(o, ds) == StatusAfter(o, Decision(o, ds))

(* Decision is what the code does today, and what Sched and Runs use.  What C01, C02 and C04 REQUIRE of one decision is
   less: the set of acceptable decisions.
   - A task with a FAILED / SKIPPED hard dependency may be skipped at once or only when every dependency is final
     (the statements speak of what is executed and of the final map, not of when a doomed task is marked).
   - Own entries FAILED / SKIPPED / PENDING are never met by a scheduling pass the properties quantify over (C02: empty
     environment; C04: only DONE entries are carried over): nothing is required there ("ASSERT" = any exception). *)
FreeOwn(o)     == o.st \in {"FAILED", "SKIPPED", "PENDING"}
BadHardOf(ds)  == \E i \in DOMAIN ds : ds[i].hard /\ ds[i].st \in {"FAILED", "SKIPPED"}
SomeBlocking(ds) == \E i \in DOMAIN ds : Blocking(ds[i])
Decisions == {"WAITING", "SKIPPED", "PENDING", "DROP", "ASSERT"}
Allowed(o, ds) ==
   IF FreeOwn(o) THEN Decisions
   ELSE IF BadHardOf(ds) THEN {"SKIPPED"} \cup (IF SomeBlocking(ds) THEN {"WAITING"} ELSE {})
   ELSE IF SomeBlocking(ds) THEN {"WAITING"}
   ELSE {Decision(o, ds)}
(* an observed <<decision, status afterwards>> is acceptable *)
Accepts(o, ds, obs) == /\ obs.decision \in Allowed(o, ds)
                       /\ (FreeOwn(o) \/ obs.status = StatusAfter(o, obs.decision))

Init == /\ own \in OwnRec
        /\ \E n \in 0 .. MaxDeps : deps \in [1 .. n -> DepRec]
        /\ Sane(own, deps)
        /\ out = [decision |-> "", status |-> "", allowed |-> {}, free |-> FALSE] /\ pc = "todo"
Eval == /\ pc = "todo" /\ pc' = "done"
        /\ out' = [decision |-> Decision(own, deps), status |-> NewStatus(own, deps),
                   allowed |-> Allowed(own, deps), free |-> FreeOwn(own)]
        /\ UNCHANGED <<own, deps>>
Spec == Init /\ [][Eval]_vars

Evaluated == pc = "done"
AllFinal  == \A i \in DOMAIN deps : deps[i].st \in Final
BadHard   == \E i \in DOMAIN deps : deps[i].hard /\ deps[i].st \in {"FAILED", "SKIPPED"}
Newer     == \E i \in DOMAIN deps : deps[i].e # -1 /\ (own.s = -1 \/ deps[i].e > own.s)

(* declarative reading, over every acceptable decision d of a constrained input *)
Constrained == Evaluated /\ ~FreeOwn(own)
ReferenceAllowed        == Evaluated => out.decision \in out.allowed
SomethingAllowed        == Evaluated => out.allowed # {}
ReleaseOnlyWhenAllFinal == Constrained => \A d \in out.allowed : d \in {"PENDING", "DROP"} => AllFinal
WaitOnlyIfNotFinal      == Constrained => \A d \in out.allowed : d = "WAITING" => ~AllFinal
NoWaitWhenAllFinal      == Constrained /\ AllFinal => "WAITING" \notin out.allowed
SkipIffBadHard          == Constrained => \A d \in out.allowed : d = "SKIPPED" => BadHard
SkipWhenFinalAndBadHard == Constrained /\ AllFinal /\ BadHard => out.allowed = {"SKIPPED"}
NeverRunWithBadHard     == Constrained => \A d \in out.allowed : d \in {"PENDING", "DROP"} => ~BadHard
DropOnlyIfDoneAndFresh  == Constrained => \A d \in out.allowed : d = "DROP" => own.st = "DONE" /\ ~Newer
DoneAndFreshIsDropped   == Constrained /\ AllFinal /\ ~BadHard /\ own.st = "DONE" /\ ~Newer => out.allowed = {"DROP"}
NoAssertWhenConstrained == Constrained => "ASSERT" \notin out.allowed
StatusFollows           == Evaluated => out.status = StatusAfter(own, out.decision)

W_EarlySkip == ~(Evaluated /\ out.allowed = {"SKIPPED", "WAITING"})
W_Drop    == ~(Evaluated /\ out.decision = "DROP" /\ Cardinality(DOMAIN deps) = 2)
W_Stale   == ~(Evaluated /\ own.st = "DONE" /\ out.decision = "PENDING")
W_NoClock == ~(Evaluated /\ out.decision = "PENDING" /\ own.st = "DONE" /\ \E i \in DOMAIN deps : deps[i].e = -1)
=============================================================================
