------------------------------- MODULE Decide -------------------------------
(* The decision function of the queue backend (QueueScheduling.decide_new_state
   with decide_new_state_waiting and last_end_time) for ONE task, enumerated
   over all inputs: own entry, and per dependency its kind, status and end clock.
   Function-like module: Init enumerates, Eval computes; the declarative reading
   of the decision is a set of invariants.  Serves C02 (release / skip rule) and
   C04 (DONE short-cut).  The same operator is used, over whole graphs, by
   Sched!Decision and Runs!Decision. *)
EXTENDS Integers, Sequences, FiniteSets, TLC

CONSTANTS MaxDeps,      \* dependencies 1 .. n, n <= MaxDeps
          Clocks,       \* candidate clock values (positive integers); -1 stands for "no clock"
          OwnStatuses   \* statuses the task itself may have on entry

DepStatuses == {"ABSENT", "WAITING", "PENDING", "DONE", "FAILED", "SKIPPED"}
Final == {"DONE", "FAILED", "SKIPPED"}

VARIABLES own, deps, out, pc
vars == <<own, deps, out, pc>>

OwnRec == [st : OwnStatuses, s : Clocks \cup {-1}]
DepRec == [hard : BOOLEAN, st : DepStatuses, e : Clocks \cup {-1}]

(* entries that cannot occur: an absent entry has no clock *)
Sane(o, ds) == /\ (o.st = "ABSENT" => o.s = -1)
               /\ \A i \in DOMAIN ds : ds[i].st = "ABSENT" => ds[i].e = -1

Blocking(d) == d.st \in {"ABSENT", "PENDING", "WAITING"}
Ends(ds)    == {ds[i].e : i \in {j \in DOMAIN ds : ds[j].e # -1}}
UpToDate(o, ds) == Ends(ds) = {} \/ (o.s # -1 /\ \A e \in Ends(ds) : e <= o.s)
Decision(o, ds) ==
   IF \E i \in DOMAIN ds : Blocking(ds[i])                                   THEN "WAITING"
   ELSE IF \E i \in DOMAIN ds : ds[i].hard /\ ds[i].st \in {"FAILED", "SKIPPED"} THEN "SKIPPED"
   ELSE IF o.st = "DONE"                          THEN (IF UpToDate(o, ds) THEN "DROP" ELSE "PENDING")
   ELSE IF o.st \in {"ABSENT", "WAITING"}         THEN "PENDING"
   ELSE "ASSERT"
(* status of the task afterwards *)
NewStatus(o, ds) == LET d == Decision(o, ds) IN
                    IF d \in {"WAITING", "SKIPPED", "PENDING"} THEN d
                    ELSE IF d = "ASSERT" THEN o.st
                    ELSE o.st     \* DROP: entry untouched

Init == /\ own \in OwnRec
        /\ \E n \in 0 .. MaxDeps : deps \in [1 .. n -> DepRec]
        /\ Sane(own, deps)
        /\ out = [decision |-> "", status |-> ""] /\ pc = "todo"
Eval == /\ pc = "todo" /\ pc' = "done"
        /\ out' = [decision |-> Decision(own, deps), status |-> NewStatus(own, deps)]
        /\ UNCHANGED <<own, deps>>
Spec == Init /\ [][Eval]_vars

Evaluated == pc = "done"
AllFinal  == \A i \in DOMAIN deps : deps[i].st \in Final
BadHard   == \E i \in DOMAIN deps : deps[i].hard /\ deps[i].st \in {"FAILED", "SKIPPED"}
Newer     == \E i \in DOMAIN deps : deps[i].e # -1 /\ (own.s = -1 \/ deps[i].e > own.s)

(* declarative reading *)
ReleaseOnlyWhenAllFinal == Evaluated /\ out.decision \in {"PENDING", "DROP", "SKIPPED"} => AllFinal
WaitIffNotFinal         == Evaluated => (out.decision = "WAITING" <=> ~AllFinal)
SkipIffBadHard          == Evaluated /\ AllFinal => (out.decision = "SKIPPED" <=> BadHard)
NeverRunWithBadHard     == Evaluated /\ out.decision \in {"PENDING", "DROP"} => ~BadHard
DropOnlyIfDoneAndFresh  == Evaluated /\ out.decision = "DROP" => own.st = "DONE" /\ ~Newer
DoneAndFreshIsDropped   == Evaluated /\ AllFinal /\ ~BadHard /\ own.st = "DONE" /\ ~Newer => out.decision = "DROP"
StatusFollows           == Evaluated => out.status = (IF out.decision \in {"WAITING", "SKIPPED", "PENDING"} THEN out.decision ELSE own.st)

W_Drop    == ~(Evaluated /\ out.decision = "DROP" /\ Cardinality(DOMAIN deps) = 2)
W_Stale   == ~(Evaluated /\ own.st = "DONE" /\ out.decision = "PENDING")
W_NoClock == ~(Evaluated /\ out.decision = "PENDING" /\ own.st = "DONE" /\ \E i \in DOMAIN deps : deps[i].e = -1)
=============================================================================
