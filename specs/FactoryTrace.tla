---------------------------- MODULE FactoryTrace ----------------------------
(* Code -> spec direction for C15.  Events recorded from the implementation:

   "reset"    a new process (emptied caches) starts
   "req"      one call of a wrapper / factory / map: the request, the identity
              class of the task that came back (0 = an exception was raised)
              and what that task was seen to do when executed on a prepared
              environment (function / command line, injected values,
              depends_on, soft_depends_on)
   "collect"  a job file whose job() returns the list e.job of real tasks (a
              task may be listed several times) went through
              valjean.cambronne.common.collect_tasks, build_graphs, or
              close_dependency_graph + check_unique_task_names: whether the
              job was rejected, whether a list of tasks came back (returned;
              nothing comes back from a rejected collect_tasks) and that list.
              names / rel are the names and the hard / soft dependencies of
              the real task objects (tasks numbered dependencies first).

   "fill"     e.n filler requests, numbered x = e.start .. e.start + e.n - 1,
              were made one after the other: request x is the template
              e.templates[(x % number of templates) + 1] with the function
              "fill<x>" (use) resp. the additional last argument "fill<x>"
              (make) -- distinct cheap requests that nothing else in the
              history makes; e.resps[k] is the identity class of the k-th
              answer (0 = an exception).  The tasks are not executed.  The
              block enters the history request by request, so that every
              later answer is judged against the fillers as well; the block
              itself is judged by Factory!BlockInj / BlockErrorOK.

   The step clauses of Factory are evaluated on every event; every failing
   <<trace id, step, clause>> is collected (total verdict). *)
EXTENDS Integers, Sequences, FiniteSets, TLC, Json, IOUtils

Data == JsonDeserialize(IOEnv.VERIF_CASES)
Events == Data.events
NEvents == Len(Events)

Funcs == {}  Bases == {}  Keys == {}  KwNames == {}  Facs == {}  UserNames == {}  ArgLists == {}
DepSets == {}  SDepSets == {}  MaxPos == 0  MixPosKw == TRUE  MaxLen == 1000000  AllowMap == TRUE  AllowError == TRUE
Ops == {}  NTasks == Data.ntasks  TaskNames == {}  RelKinds == {}
VARIABLES op, hist, behav, rel, tname, job, visited, frontier, cdone, rejected
F == INSTANCE Factory

VARIABLE i
tvars == <<op, hist, behav, rel, tname, job, visited, frontier, cdone, rejected, i>>

Set(s) == {s[n] : n \in DOMAIN s}
ReqOf(q) == [kind |-> q.kind, func |-> q.func,
             pos |-> [n \in 1 .. Len(q.pos) |-> [task |-> q.pos[n].task, key |-> q.pos[n].key]],
             kw |-> {[kw |-> x.kw, task |-> x.task, key |-> x.key] : x \in Set(q.kw)},
             soft |-> q.soft, fac |-> q.fac, name |-> q.name, args |-> q.args,
             deps |-> Set(q.deps), sdeps |-> Set(q.sdeps)]
ObsOf(o) == [kind |-> o.kind, func |-> o.func,
             pos |-> [n \in 1 .. Len(o.pos) |-> [task |-> o.pos[n].task, key |-> o.pos[n].key]],
             kw |-> {[kw |-> x.kw, task |-> x.task, key |-> x.key] : x \in Set(o.kw)},
             fac |-> o.fac, args |-> o.args, hard |-> Set(o.hard), soft |-> Set(o.soft)]

RelOf(e) == [p \in F!Pairs |->
               IF \E x \in Set(e.rel) : x.i = p[1] /\ x.j = p[2]
               THEN (CHOOSE x \in Set(e.rel) : x.i = p[1] /\ x.j = p[2]).how ELSE "none"]
NamesOf(e) == [n \in 1 .. NTasks |-> IF n <= Len(e.names) THEN e.names[n] ELSE "unused"]

ReqFailing(e) ==
   LET r == ReqOf(e.req) IN
   {c \in {"Same", "Inj", "Acts", "ErrorOK"} :
       \/ c = "Same" /\ ~F!StepSame(hist, r, e.resp)
       \/ c = "Inj" /\ ~F!StepInj(hist, r, e.resp)
       \/ c = "Acts" /\ e.resp # 0 /\ ~F!StepActs(r, e.resp, ObsOf(e.obs))
       \/ c = "ErrorOK" /\ ~F!StepErrorOK(hist, r, e.resp)}

CollectFailing(e) ==
   LET r == RelOf(e)  J == Set(e.job) IN
   {c \in {"Closure", "Unique"} :
       \/ c = "Closure" /\ e.returned /\ ~F!CollectOK(r, J, e.collected)
       \/ c = "Unique" /\ ~F!RejectOK(r, NamesOf(e), J, e.rejected)}

FillTag(x) == "fill" \o ToString(x)
FillReq(e, k) == LET x == e.start + k - 1
                     q == ReqOf(e.templates[(x % Len(e.templates)) + 1]) IN
                 IF q.kind = "use" THEN [q EXCEPT !.func = FillTag(x)] ELSE [q EXCEPT !.args = Append(q.args, FillTag(x))]
FillHist(e) == [k \in 1 .. e.n |-> [req |-> FillReq(e, k), resp |-> e.resps[k]]]
FillBehav == [kind |-> "fill", func |-> "-", pos |-> <<>>, kw |-> {}, fac |-> "-", args |-> <<>>, hard |-> {}, soft |-> {}]
FillFailing(e) == {c \in {"Inj", "ErrorOK"} : \/ c = "Inj" /\ ~F!BlockInj(hist, e.resps)
                                              \/ c = "ErrorOK" /\ ~F!BlockErrorOK(hist, e.resps)}
(* the same request by request with the step clauses (quadratic: for the short blocks, as a check of the block clauses) *)
SlowMax == 12
FillFailingSlow(e) ==
   LET fh == FillHist(e)  all == hist \o fh IN
   {c \in {"Same", "Inj", "ErrorOK"} :
       \E k \in 1 .. e.n : LET h == SubSeq(all, 1, Len(hist) + k - 1) IN
           \/ c = "Same" /\ ~F!StepSame(h, fh[k].req, fh[k].resp)
           \/ c = "Inj" /\ ~F!StepInj(h, fh[k].req, fh[k].resp)
           \/ c = "ErrorOK" /\ ~F!StepErrorOK(h, fh[k].req, fh[k].resp)}

Record(new) == IF new = {} THEN TRUE ELSE TLCSet(1, TLCGet(1) \cup new)

TInit == /\ i = 1 /\ TLCSet(1, {})
         /\ op = "hist" /\ hist = <<>> /\ behav = <<>>
         /\ rel = <<>> /\ tname = <<>> /\ job = {} /\ visited = {} /\ frontier = {}
         /\ cdone = FALSE /\ rejected = FALSE

TStep ==
   /\ i <= NEvents
   /\ i' = i + 1
   /\ LET e == Events[i] IN
      CASE e.op = "reset" ->
              /\ op' = "hist" /\ hist' = <<>> /\ behav' = <<>>
              /\ UNCHANGED <<rel, tname, job, visited, frontier, cdone, rejected>>
        [] e.op = "req" ->
              /\ Record({<<e.tid, e.step, c>> : c \in ReqFailing(e)})
              /\ hist' = Append(hist, [req |-> ReqOf(e.req), resp |-> e.resp])
              /\ behav' = IF e.resp = Len(behav) + 1 THEN Append(behav, ObsOf(e.obs)) ELSE behav
              /\ UNCHANGED <<op, rel, tname, job, visited, frontier, cdone, rejected>>
        [] e.op = "fill" ->
              LET newids == {a \in Set(e.resps) : a > Len(behav)} IN
              /\ Record({<<e.tid, e.step, c>> : c \in FillFailing(e)}
                        \cup (IF e.n <= SlowMax /\ FillFailingSlow(e) # FillFailing(e)
                              THEN {<<e.tid, e.step, "BlockMismatch">>} ELSE {}))
              /\ hist' = hist \o FillHist(e)
              /\ behav' = behav \o [k \in 1 .. Cardinality(newids) |-> FillBehav]
              /\ UNCHANGED <<op, rel, tname, job, visited, frontier, cdone, rejected>>
        [] e.op = "collect" ->
              LET r == RelOf(e)  J == Set(e.job)  reach == F!Reach(r, J) IN
              /\ Record({<<e.tid, e.step, c>> : c \in CollectFailing(e)})
              /\ op' = "collect" /\ hist' = <<>> /\ behav' = <<>>
              /\ rel' = r /\ tname' = NamesOf(e) /\ job' = J
              /\ visited' = reach /\ frontier' = {}
              /\ cdone' = TRUE /\ rejected' = F!DupNames(NamesOf(e), reach)
TSpec == TInit /\ [][TStep]_tvars

(* on the expectation shown in the state *)
C15_Collect == F!C15_Collect

Post == /\ TLCGet("stats").diameter = NEvents + 1
        /\ JsonSerialize(IOEnv.VERIF_OUT, [bad |-> TLCGet(1)])
=============================================================================
