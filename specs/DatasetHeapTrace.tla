------------------------- MODULE DatasetHeapTrace -------------------------
(* Code -> spec direction for the structural part of C08.  The input is a flat
   list of steps recorded while real Dataset objects were driven through
   sequences of operations (several traces one after the other; a step with
   op = "init" starts a trace and carries the initial pool).  Each step says
   what was done (op, i, rkind, j, buf, dim: the fields of DatasetHeap's step
   records) and what was observed afterwards:
      new   <<>> or <<r>>: the dataset appended to the pool
      mod   pairs <<k, r>>: entries of the pool whose record changed (for "init":
            the whole initial pool)
      ct    pairs <<b, t>>: data token of every array that is new or whose data changed
      al    pairs <<a, b>>: arrays newly found to share memory (np.shares_memory)
   The trace spec keeps the *observed* pool as its state and lets
   DatasetHeap!Clauses and DatasetHeap!CopyClauses judge every step; the verdict
   is total: all <<trace, step, clauses>> with a violated clause are reported
   ("missing-step": the recorded steps of a trace are not consecutive -- a
   defect of the recording, not of the implementation). *)
EXTENDS Integers, Sequences, FiniteSets, TLC, Json, IOUtils

MaxDs == 0  MaxSteps == 0  InitShapes == {}  UserWrites == TRUE
VARIABLES pool, content, alias, nbuf, ntok, last, copies, steps, hist, setup
H == INSTANCE DatasetHeap

Cases == JsonDeserialize(IOEnv.VERIF_CASES)
NCases == Len(Cases)

VARIABLES i, bad
tvars == <<pool, content, alias, nbuf, ntok, last, copies, steps, hist, setup, i, bad>>

Rec(r) == [shape |-> r.shape, eshape |-> r.eshape, val |-> r.val, err |-> r.err, bins |-> r.bins,
           kinds |-> r.kinds, nonneg |-> r.nonneg, masked |-> r.masked]
StepOf(c) == [op |-> c.op, i |-> c.i, rkind |-> c.rkind, j |-> c.j, buf |-> c.buf, dim |-> c.dim]

RECURSIVE ApplyMods(_, _, _)
ApplyMods(p, mods, n) == IF n > Len(mods) THEN p
                         ELSE ApplyMods([p EXCEPT ![mods[n][1]] = Rec(mods[n][2])], mods, n + 1)
PoolAfter(p, c) == LET q == ApplyMods(p, c.mod, 1) IN
                   IF Len(c.new) = 0 THEN q ELSE Append(q, Rec(c.new[1]))
CtOf(c) == [b \in {c.ct[k][1] : k \in 1 .. Len(c.ct)} |->
              c.ct[CHOOSE k \in 1 .. Len(c.ct) : c.ct[k][1] = b][2]]
ContentAfter(ct, c) == CtOf(c) @@ ct
AliasAfter(al, c) == al \cup {{c.al[k][1], c.al[k][2]} : k \in 1 .. Len(c.al)}
InitPool(c) == [k \in 1 .. Len(c.mod) |-> Rec(c.mod[k][2])]

TInit == /\ i = 1 /\ bad = {}
         /\ pool = <<>> /\ content = <<>> /\ alias = {} /\ nbuf = 0 /\ ntok = 0
         /\ last = H!NoStep /\ copies = {} /\ steps = 0 /\ hist = <<>> /\ setup = <<>>

TStep ==
   /\ i <= NCases
   /\ i' = i + 1
   /\ LET c == Cases[i] s == StepOf(c) IN
      IF c.op = "init"
      THEN /\ pool' = InitPool(c) /\ content' = CtOf(c) /\ alias' = AliasAfter({}, c)
           /\ copies' = {} /\ bad' = bad
      ELSE LET p2 == PoolAfter(pool, c)
               ct2 == ContentAfter(content, c)
               al2 == AliasAfter(alias, c)
               cl == H!Clauses(pool, content, alias, p2, ct2, al2, s)
                     \cup H!CopyClauses(pool, p2, content, ct2, copies, s)
                     \cup (IF c.tid = Cases[i - 1].tid /\ c.k = Cases[i - 1].k + 1 THEN {} ELSE {"missing-step"})
           IN /\ pool' = p2 /\ content' = ct2 /\ alias' = al2
              /\ copies' = IF c.op = "copy" /\ Len(p2) = Len(pool) + 1 THEN copies \cup {<<c.i, Len(p2)>>} ELSE copies
              /\ bad' = IF cl = {} THEN bad ELSE bad \cup {<<c.tid, c.k, cl>>}
   /\ last' = StepOf(Cases[i])
   /\ (i = NCases => TLCSet(1, bad'))
   /\ UNCHANGED <<nbuf, ntok, steps, hist, setup>>
TSpec == TInit /\ [][TStep]_tvars

Post == /\ TLCGet("stats").diameter = NCases + 1
        /\ JsonSerialize(IOEnv.VERIF_OUT, [bad |-> TLCGet(1)])
=============================================================================
