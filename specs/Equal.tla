------------------------------- MODULE Equal -------------------------------
(* Extra module (outside the twenty listed properties): the non-statistical
   comparison tests of valjean.gavroche.test and the metadata test of
   valjean.gavroche.diagnostics.metadata.  Disagreements of the code with this
   module are OBSERVATIONS, never violations (harness/conf_equal.py).

   Sentences modelled (docstrings of valjean; "silent" = not documented, the
   reading taken is stated):

   test.py, module docstring    datasets that differ by a small noise are not
                                TestEqual but are TestApproxEqual (with the
                                default tolerances); a dataset is a value array,
                                an error array and bins.
   dataset.py                   "The bins object should have the same dimension
                                as the value, the order matches the dimensions."
   same_arrays                  "Return True if arr1 and arr2 are equal."
   same_bins                    "Return True if all the coordinate arrays are
                                compatible."
   same_bins_datasets           "Return True if all datasets have the same
                                coordinates."
   check_bins                   "Check if the datasets have compatible
                                coordinates, raise if not."  (CheckBinsException)
   TestDataset                  one reference dataset, at least one dataset
                                compared with it.
   TestEqual                    "Test if the datasets values are equal.  Errors
                                are ignored."  Result: a list with one boolean
                                array per compared dataset; bool(result) = all.
   TestApproxEqual              "Test if the datasets values are equal within
                                the given tolerances.  Errors are ignored.  ...
                                To get more details on rtol and atol parameters,
                                see numpy.isclose", i.e. (numpy documentation)
                                    absolute(a - b) <= atol + rtol * absolute(b)
                                with a = value of the REFERENCE, b = value of
                                the COMPARED dataset (the order in which
                                evaluate() hands them to isclose): the relative
                                tolerance scales with the compared dataset, so
                                the test is not symmetric unless rtol = 0.
                                numpy.isclose: NaN is close to nothing
                                (equal_nan = False), infinities are close
                                exactly when they are equal.
   TestResultFailed             "failed TestResults when an exception was raised
                                during the evaluation"; bool = False.
   eval_test_task               actually_eval_test: "returns the result of test
                                evaluation", a TestResultFailed "if the
                                underlying test raises any exception"; the task
                                stores one result per test, in the order of the
                                tests.
   TestMetadata                 exclude: "a tuple of keys that will not be
                                considered as metadata"; "Metadata are compared
                                with respect to the first one"; class Missing:
                                "Class for missing metadata" (placeholder that
                                equals no value); repository test-suite:
                                "outcomes that are consistent with direct
                                dictionary comparison".

   Silent, reading taken:
   * NaN in the values: numpy semantics (NaN equals nothing, also not itself).
   * bins: two datasets have the same coordinates when they name the same
     dimensions IN THE SAME ORDER with equal edge arrays (the order of the bins
     is the order of the dimensions of the value array).  class "order" below
     = same names and arrays, different order: refusal expected.
   * NaN among the edges: nothing is said; such comparisons are class "free"
     (not judged; the harness reports what the code does).
   * same bins but value arrays of different shapes (bins may hold edges or
     centres, or be absent): an element-wise comparison "per bin" has no
     meaning, the comparison must not produce a verdict (classes "shape" and,
     for datasets without any bins, "shape0": any exception is accepted).
   * metadata: which dictionary is "the first one" is not said (first given /
     first by name): the per-name booleans must be those of SOME reference
     dictionary; verdict and per-key verdicts do not depend on the choice.

   Numbers are exact.  A cell value is an integer n standing for n / vden, or
   one of the model values NaN, PInf, NInf.  Tolerances are rationals
   <<num, den>>.  Closeness is 1 (yes), 0 (no) or 2 ("band": exact equality of
   both sides with a tolerance that is not a dyadic rational and contributes
   to the bound, where the floating-point evaluation may fall on either side:
   not judged).

   Function-like module: Init enumerates the inputs, Eval computes every
   expected observable into `out`.  Mode "data"
   enumerates datasets, Mode "meta" metadata dictionaries.
*)
EXTENDS Integers, Sequences, FiniteSets, TLC

CONSTANTS NaN, PInf, NInf,      \* model values
          Vals,                 \* cell values (integers and any of NaN, PInf, NInf)
          VDen,                 \* the integer n stands for n / VDen
          Errs,                 \* error carried by all the cells of a dataset
          Geoms,                \* geometries [names, edges, shape] of the compared datasets
          RefGeoms,             \* geometries of the reference
          SameGeom,             \* TRUE: compared datasets take the geometry of the reference
          MaxDs,                \* 1 .. MaxDs compared datasets
          Tols,                 \* ascending sequence of rationals: grid of rtol and of atol
          RelSide,              \* "cmp" (documented) | "ref" (deliberately wrong variant for the self-test)
          Mode,                 \* "data" | "meta" (EqualTrace sets fam itself)
          NKeys, NVals, MaxDicts   \* metadata: keys 1..NKeys, values 1..NVals (0 = key missing)

VARIABLES fam,                  \* "data" | "meta": which family of tests the state is about
          ref, oth,             \* datasets [g |-> geometry, val |-> cells in C order, err |-> error]
          md, excl,             \* metadata dictionaries (sequence of [1..NKeys -> 0..NVals]) and excluded keys
          out, pc
vars == <<fam, ref, oth, md, excl, out, pc>>

-----------------------------------------------------------------------------
(* arithmetic *)
IsFin(x) == x # NaN /\ x # PInf /\ x # NInf
Abs(x) == IF x < 0 THEN -x ELSE x

RECURSIVE Prod(_)
Prod(s) == IF s = <<>> THEN 1 ELSE Head(s) * Prod(Tail(s))
NCells(g) == Prod(g.shape)

RECURSIVE IsPow2(_)
IsPow2(n) == IF n = 1 THEN TRUE ELSE IF n % 2 # 0 THEN FALSE ELSE IsPow2(n \div 2)
Dyadic(q) == IsPow2(q[2])
RatLe(p, q) == p[1] * q[2] <= q[1] * p[2]

(* TestEqual, one cell: numpy.equal *)
ValEq(a, b) == a # NaN /\ b # NaN /\ a = b

(* TestApproxEqual, one cell: a from the reference, b from the compared
   dataset; |a - b| / vden <= at + rt * |b| / vden, cross-multiplied *)
Close(a, b, rt, at, vden) ==
   IF a = NaN \/ b = NaN THEN 0
   ELSE IF ~IsFin(a) \/ ~IsFin(b) THEN (IF a = b THEN 1 ELSE 0)
   ELSE LET scale == IF RelSide = "cmp" THEN Abs(b) ELSE Abs(a)
            lhs == Abs(a - b) * at[2] * rt[2]
            rhs == at[1] * rt[2] * vden + rt[1] * scale * at[2] IN
        IF lhs < rhs THEN 1
        ELSE IF lhs > rhs THEN 0
        ELSE IF (Dyadic(rt) \/ rt[1] * scale = 0) /\ Dyadic(at) THEN 1 ELSE 2

Rank(c) == IF c = 0 THEN 0 ELSE IF c = 1 THEN 2 ELSE 1       \* no < band < yes

-----------------------------------------------------------------------------
(* coordinates *)
HasNaNEdge(g) == \E i \in DOMAIN g.edges : \E j \in DOMAIN g.edges[i] : g.edges[i][j] = NaN

(* same dimensions, listed in another order *)
Reordered(g1, g2) ==
   /\ Len(g1.names) = Len(g2.names)
   /\ g1.names # g2.names
   /\ \A i \in DOMAIN g1.names : \E j \in DOMAIN g2.names :
         g2.names[j] = g1.names[i] /\ g2.edges[j] = g1.edges[i]

BinsClass(g1, g2) ==
   IF Len(g1.names) # Len(g2.names) THEN "bins"
   ELSE IF g1.names # g2.names THEN (IF Reordered(g1, g2) THEN "order" ELSE "bins")
   ELSE IF g1.edges # g2.edges THEN "bins"                   \* number of edges or an edge differs
   ELSE IF HasNaNEdge(g1) THEN "free"
   ELSE "same"

(* class of one compared dataset d against the reference r:
   "bins" / "order" / "shape" / "shape0" (different shapes, with / without bins) -> the comparison
   is refused; "free" -> not judged; "ok" *)
DsClass(r, d) ==
   LET bc == BinsClass(r.g, d.g) IN
   IF bc \in {"bins", "order"} THEN bc
   ELSE IF r.g.shape # d.g.shape THEN (IF r.g.names = <<>> THEN "shape0" ELSE "shape")
   ELSE IF bc = "free" THEN "free" ELSE "ok"

Refusing == {"bins", "order", "shape", "shape0"}
ShapeClasses == {"shape", "shape0"}

V3(cells) ==      \* three-valued conjunction of closeness arrays (sequence of sequences)
   IF \E d \in DOMAIN cells : \E i \in DOMAIN cells[d] : cells[d][i] = 0 THEN "fail"
   ELSE IF \A d \in DOMAIN cells : \A i \in DOMAIN cells[d] : cells[d][i] = 1 THEN "pass"
   ELSE "undet"

(* every observable of TestEqual / TestApproxEqual(rtol = rts[r], atol = ats[a]) on (rf, ots) *)
Expected(rf, ots, vden, rts, ats) ==
   LET cls == [d \in DOMAIN ots |-> DsClass(rf, ots[d])]
       n   == NCells(rf.g)
       cmp(d) == cls[d] \in {"ok", "free"}
       refused == IF \E d \in DOMAIN ots : cls[d] \in Refusing THEN "yes"
                  ELSE IF \E d \in DOMAIN ots : cls[d] = "free" THEN "free" ELSE "no"
       exc == IF refused = "no" THEN "none"
              ELSE IF ~\E d \in DOMAIN ots : cls[d] \in ShapeClasses THEN "CheckBins"
              ELSE IF \E d \in DOMAIN ots : /\ cls[d] \in {"bins", "order"}
                                            /\ \A e \in 1 .. d - 1 : cls[e] = "ok" THEN "CheckBins"
              ELSE "any"
       eq == [d \in DOMAIN ots |-> IF cmp(d) THEN [i \in 1 .. n |-> ValEq(rf.val[i], ots[d].val[i])] ELSE <<>>]
       ap == [r \in DOMAIN rts |-> [a \in DOMAIN ats |-> [d \in DOMAIN ots |->
                IF cmp(d) THEN [i \in 1 .. n |-> Close(rf.val[i], ots[d].val[i], rts[r], ats[a], vden)] ELSE <<>>]]]
   IN [cls |-> cls, refused |-> refused, exc |-> exc,
       eq |-> eq,
       eqv |-> \A d \in DOMAIN ots : \A i \in DOMAIN eq[d] : eq[d][i],
       ap |-> ap,
       apv |-> [r \in DOMAIN rts |-> [a \in DOMAIN ats |-> V3(ap[r][a])]],
       \* the same test with the roles of reference and (single) compared dataset exchanged
       swap |-> IF Len(ots) = 1 /\ cmp(1)
                THEN [r \in DOMAIN rts |-> [a \in DOMAIN ats |->
                         [i \in 1 .. n |-> Close(ots[1].val[i], rf.val[i], rts[r], ats[a], vden)]]]
                ELSE <<>>,
       \* what a client that evaluates a list of tests (EvalTestTask) stores at the place of this test
       listed |-> IF refused = "yes" THEN "failed" ELSE IF refused = "free" THEN "free" ELSE "result"]

-----------------------------------------------------------------------------
(* metadata: ds = sequence of dictionaries [1..nk -> 0..], 0 = key missing; ex = excluded keys *)
MetaExpected(ds, ex, nk) ==
   LET K  == 1 .. nk
       ck == {k \in K \ ex : \E n \in DOMAIN ds : ds[n][k] # 0}      \* the keys that are compared
       perkey == [k \in K |-> IF k \notin ck THEN 2
                              ELSE IF \A n, m \in DOMAIN ds : ds[n][k] = ds[m][k] THEN 1 ELSE 0]
   IN [perkey  |-> perkey,                                    \* 2 = not compared
       verdict |-> \A k \in K : perkey[k] # 0,
       failed  |-> {k \in K : perkey[k] = 0},
       \* per-name booleans when dictionary r is "the first one"
       byref   |-> [r \in DOMAIN ds |-> [k \in K |-> [n \in DOMAIN ds |->
                      IF k \notin ck THEN 2 ELSE IF ds[n][k] = ds[r][k] THEN 1 ELSE 0]]]]

-----------------------------------------------------------------------------
NoOut == [refused |-> "none"]
NT == Len(Tols)

Datasets(G) == UNION {[g : {g}, val : [1 .. NCells(g) -> Vals], err : Errs] : g \in G}

InitData == /\ ref \in Datasets(RefGeoms)
            /\ \E nd \in 1 .. MaxDs : oth \in [1 .. nd -> Datasets(IF SameGeom THEN {ref.g} ELSE Geoms)]
            /\ md = <<>> /\ excl = {}

InitMeta == /\ \E nd \in 1 .. MaxDicts : md \in [1 .. nd -> [1 .. NKeys -> 0 .. NVals]]
            /\ excl \in SUBSET (1 .. NKeys)
            /\ ref = <<>> /\ oth = <<>>

Init == /\ fam = Mode
        /\ IF Mode = "data" THEN InitData ELSE InitMeta
        /\ out = NoOut /\ pc = "todo"

Compute == IF fam = "data" THEN Expected(ref, oth, VDen, Tols, Tols) ELSE MetaExpected(md, excl, NKeys)

Eval == /\ pc = "todo" /\ pc' = "done"
        /\ out' = Compute
        /\ UNCHANGED <<fam, ref, oth, md, excl>>

Next == Eval
Spec == Init /\ [][Next]_vars

-----------------------------------------------------------------------------
ASSUME TolsSane == /\ \A t \in DOMAIN Tols : Tols[t][1] >= 0 /\ Tols[t][2] > 0
                   /\ \A t \in 1 .. Len(Tols) - 1 : RatLe(Tols[t], Tols[t + 1]) /\ ~RatLe(Tols[t + 1], Tols[t])

Data == fam = "data"
Evaluated == pc = "done"
Judged == Data /\ Evaluated /\ out.refused # "yes"           \* a verdict exists (or is left free)
DS == DOMAIN oth
Cmp(d) == out.cls[d] \in {"ok", "free"}
Grid == (1 .. NT) \X (1 .. NT)
ZeroIdx == {t \in 1 .. NT : Tols[t][1] = 0}

(* evaluation does not touch the inputs; evaluating again (the inputs being what they were) gives
   the result already obtained *)
InputsUntouched == [][ref' = ref /\ oth' = oth /\ md' = md /\ excl' = excl]_vars
Idempotent == Evaluated => Compute = out

(* ---- check_bins ---- *)
(* refused exactly when some compared dataset's coordinates differ from the reference's
   (names in order, number of dimensions, number of edges, an edge), or the shapes differ *)
RefusedIff ==
   (Data /\ Evaluated) =>
      /\ (out.refused = "yes") = (\E d \in DS : \/ ref.g.names # oth[d].g.names
                                                \/ ref.g.edges # oth[d].g.edges
                                                \/ ref.g.shape # oth[d].g.shape)
      /\ (out.refused = "free") = (/\ \A d \in DS : oth[d].g = ref.g
                                   /\ HasNaNEdge(ref.g))
EqualBinsNeverRefused ==
   (Data /\ Evaluated) =>
      (((\A d \in DS : oth[d].g = ref.g) /\ ~HasNaNEdge(ref.g)) => (out.refused = "no" /\ out.exc = "none"))
(* a refusal is an exception, not a verdict: nothing is compared for a refusing dataset, and the
   client sees a failed result exactly then *)
RefusalIsNotAVerdict ==
   (Data /\ Evaluated) =>
      /\ \A d \in DS : (out.cls[d] \in Refusing) => (out.eq[d] = <<>> /\ \A p \in Grid : out.ap[p[1]][p[2]][d] = <<>>)
      /\ (out.listed = "failed") = (out.refused = "yes")
      /\ (out.exc = "none") = (out.refused = "no")

(* ---- TestEqual ---- *)
EqualDef ==
   Judged =>
      /\ \A d \in DS : Cmp(d) => /\ Len(out.eq[d]) = NCells(ref.g)
                                 /\ \A i \in DOMAIN out.eq[d] :
                                       out.eq[d][i] = (/\ ref.val[i] = oth[d].val[i] /\ ref.val[i] # NaN)
      /\ out.eqv = (\A d \in DS : \A i \in DOMAIN out.eq[d] : out.eq[d][i])
NaNEqualsNothing ==
   Judged => \A d \in DS : \A i \in DOMAIN out.eq[d] :
                (ref.val[i] = NaN \/ oth[d].val[i] = NaN) =>
                   (~out.eq[d][i] /\ \A p \in Grid : out.ap[p[1]][p[2]][d][i] = 0)
(* errors are ignored *)
ErrorsIgnored ==
   (Data /\ Evaluated) =>
      \A e \in Errs : /\ Expected([ref EXCEPT !.err = e], oth, VDen, Tols, Tols) = out
                      /\ \A d \in DS : Expected(ref, [oth EXCEPT ![d].err = e], VDen, Tols, Tols) = out

(* ---- TestApproxEqual ---- *)
ApproxVerdictDef ==
   Judged => \A p \in Grid :
      /\ (out.apv[p[1]][p[2]] = "pass") = (\A d \in DS : \A i \in DOMAIN out.ap[p[1]][p[2]][d] : out.ap[p[1]][p[2]][d][i] = 1)
      /\ (out.apv[p[1]][p[2]] = "fail") = (\E d \in DS : \E i \in DOMAIN out.ap[p[1]][p[2]][d] : out.ap[p[1]][p[2]][d][i] = 0)
(* monotone in the tolerances: passing with (rtol, atol) implies passing with any larger pair *)
Monotone ==
   Judged => \A p, q \in Grid :
      (p[1] <= q[1] /\ p[2] <= q[2]) =>
         /\ \A d \in DS : \A i \in DOMAIN out.ap[p[1]][p[2]][d] :
               Rank(out.ap[p[1]][p[2]][d][i]) <= Rank(out.ap[q[1]][q[2]][d][i])
         /\ (out.apv[p[1]][p[2]] = "pass" => out.apv[q[1]][q[2]] = "pass")
         /\ (out.apv[q[1]][q[2]] = "fail" => out.apv[p[1]][p[2]] = "fail")
(* equal cells are close for every tolerance >= 0; with both tolerances zero close = equal *)
EqualImpliesClose ==
   Judged =>
      /\ \A d \in DS : \A i \in DOMAIN out.eq[d] : out.eq[d][i] => \A p \in Grid : out.ap[p[1]][p[2]][d][i] = 1
      /\ out.eqv => \A p \in Grid : out.apv[p[1]][p[2]] = "pass"
      /\ \A z \in ZeroIdx : \A d \in DS : \A i \in DOMAIN out.eq[d] : (out.ap[z][z][d][i] = 1) = out.eq[d][i]
(* infinities: close exactly when equal, whatever the tolerances *)
Infinities ==
   Judged => \A d \in DS : \A i \in DOMAIN out.eq[d] :
      (ref.val[i] \in {PInf, NInf} \/ oth[d].val[i] \in {PInf, NInf}) =>
         \A p \in Grid : (out.ap[p[1]][p[2]][d][i] = 1) = (ref.val[i] = oth[d].val[i])
(* exchanging reference and compared dataset: same answer when rtol = 0 (and for TestEqual) *)
SymmetricAtZeroRtol ==
   (Judged /\ Len(oth) = 1) =>
      /\ \A z \in ZeroIdx : \A a \in 1 .. NT : out.swap[z][a] = out.ap[z][a][1]
      /\ Expected(oth[1], <<ref>>, VDen, Tols, Tols).eq = out.eq

(* ---- order of the compared datasets ---- *)
Perms(n) == {p \in [1 .. n -> 1 .. n] : \A i, j \in 1 .. n : i # j => p[i] # p[j]}
OrderIndependent ==
   (Data /\ Evaluated) =>
      \A p \in Perms(Len(oth)) :
         LET e == Expected(ref, [d \in DS |-> oth[p[d]]], VDen, Tols, Tols) IN
         /\ e.refused = out.refused
         /\ e.cls = [d \in DS |-> out.cls[p[d]]]
         /\ e.eq = [d \in DS |-> out.eq[p[d]]]
         /\ e.eqv = out.eqv /\ e.apv = out.apv
         /\ \A q \in Grid : e.ap[q[1]][q[2]] = [d \in DS |-> out.ap[q[1]][q[2]][p[d]]]

(* ---- TestMetadata ---- *)
Meta == fam = "meta" /\ Evaluated
Keys == 1 .. NKeys
(* "direct dictionary comparison" of the dictionaries restricted to the keys that are not excluded *)
MetaVerdictDef ==
   Meta => out.verdict = (\A n, m \in DOMAIN md : \A k \in Keys \ excl : md[n][k] = md[m][k])
MetaMissingFails ==
   Meta => ((\E k \in Keys \ excl : \E n, m \in DOMAIN md : md[n][k] = 0 /\ md[m][k] # 0) => ~out.verdict)
MetaExclude ==
   Meta => /\ \A k \in Keys : out.verdict => MetaExpected(md, excl \cup {k}, NKeys).verdict
           /\ MetaExpected(md, excl \cup out.failed, NKeys).verdict
           /\ \A k \in excl : out.perkey[k] = 2
MetaOrderIndependent ==
   Meta => \A p \in Perms(Len(md)) :
              LET e == MetaExpected([n \in DOMAIN md |-> md[p[n]]], excl, NKeys) IN
              e.verdict = out.verdict /\ e.perkey = out.perkey /\ e.failed = out.failed
MetaReference ==
   Meta => \A r \in DOMAIN md : \A k \in Keys :
              /\ (out.perkey[k] = 2) = (\A n \in DOMAIN md : out.byref[r][k][n] = 2)
              /\ (out.perkey[k] = 1) = (\A n \in DOMAIN md : out.byref[r][k][n] = 1)
              /\ out.perkey[k] # 2 => out.byref[r][k][r] = 1

-----------------------------------------------------------------------------
(* witnesses (negated reachability): TLC must find them violated *)
W_Asymmetric == ~(Judged /\ Len(oth) = 1 /\ \E p \in Grid : \E i \in DOMAIN out.eq[1] :
                     out.swap[p[1]][p[2]][i] = 1 /\ out.ap[p[1]][p[2]][1][i] = 0)
W_CloseNotEqual == ~(Judged /\ ~out.eqv /\ \E p \in Grid : out.apv[p[1]][p[2]] = "pass")
W_TolMatters == ~(Judged /\ \E p, q \in Grid : out.apv[p[1]][p[2]] = "fail" /\ out.apv[q[1]][q[2]] = "pass")
W_InfClose == ~(Judged /\ out.eqv /\ \E i \in DOMAIN ref.val : ref.val[i] = PInf)
W_NaNFails == ~(Judged /\ \E i \in DOMAIN out.eq[1] : ref.val[i] = NaN /\ oth[1].val[i] = NaN)
W_Boundary == ~(Judged /\ \E p \in Grid : \E i \in DOMAIN out.eq[1] :     \* |a - b| = tolerance exactly, a # b
                   /\ out.ap[p[1]][p[2]][1][i] = 1 /\ ~out.eq[1][i] /\ IsFin(ref.val[i]) /\ IsFin(oth[1].val[i])
                   /\ \A q \in Grid : (q[1] <= p[1] /\ q[2] <= p[2] /\ q # p) => out.ap[q[1]][q[2]][1][i] = 0)
W_Band == ~(Judged /\ \E p \in Grid : out.apv[p[1]][p[2]] = "undet")
W_RefusedBins == ~(Data /\ Evaluated /\ \E d \in DS : out.cls[d] = "bins")
W_RefusedOrder == ~(Data /\ Evaluated /\ \E d \in DS : out.cls[d] = "order")
W_RefusedShape == ~(Data /\ Evaluated /\ \E d \in DS : out.cls[d] = "shape")
W_RefusedShapeNoBins == ~(Data /\ Evaluated /\ \E d \in DS : out.cls[d] = "shape0")
W_FreeNaNEdge == ~(Data /\ Evaluated /\ out.refused = "free")
W_AnyException == ~(Data /\ Evaluated /\ out.exc = "any")
W_MixedVerdicts == ~(Judged /\ Len(oth) >= 2 /\ (\A i \in DOMAIN out.eq[1] : out.eq[1][i]) /\ (\E i \in DOMAIN out.eq[2] : ~out.eq[2][i]))
W_MetaPass == ~(Meta /\ out.verdict /\ Len(md) >= 2 /\ \E k \in Keys : out.perkey[k] = 1)
W_MetaMissing == ~(Meta /\ ~out.verdict /\ \E k \in out.failed : \E n \in DOMAIN md : md[n][k] = 0)
W_MetaExcludedDiffers == ~(Meta /\ out.verdict /\ \E k \in excl : \E n, m \in DOMAIN md : md[n][k] # md[m][k])
W_MetaAbsentEverywhere == ~(Meta /\ \E k \in Keys \ excl : out.perkey[k] = 2)
=============================================================================
