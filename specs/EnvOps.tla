------------------------------- MODULE EnvOps -------------------------------
(* valjean.cosette.env.Env as a mapping with its update operations: apply (recursive merge of an update),
   set_status / get_status (get_status inserts a WAITING entry for an unknown task), merge_done_tasks, copy.
   The environment is a tree: a value is a leaf [t |-> "leaf", v |-> token] or a mapping
   [t |-> "node", m |-> [keys -> values]].  Depth is bounded by 2 below the task level.

   The clause of C01 that rests on it: after apply(u) every key / value of u is readable from the environment
   (recursively), and nothing that u does not mention is lost. *)
EXTENDS Integers, Sequences, FiniteSets, TLC

CONSTANTS Tasks,     \* task names (top-level keys)
          Keys,      \* keys below the task level
          Leaves,    \* leaf tokens
          MaxOps

Leaf(v) == [t |-> "leaf", v |-> v]
Node(m) == [t |-> "node", m |-> m]
IsNode(x) == x.t = "node"

Maps(vals) == UNION {[S -> vals] : S \in SUBSET Keys}
L0 == {Leaf(v) : v \in Leaves}
L1 == L0 \cup {Node(m) : m \in Maps(L0)}               \* values inside a task entry: leaves or one nested mapping
Statuses == {"WAITING", "PENDING", "DONE", "FAILED", "SKIPPED"}

VARIABLES env, hist, raised
vars == <<env, hist, raised>>
(* env: [subset of Tasks -> [status : Statuses \cup {"none"}, e : Entries]] -- the status is kept apart from the
   other keys of the entry for readability; it lives in the same dictionary in the code *)

(* The update wins: a mapping of the update is merged into a mapping of the environment and REPLACES anything else it
   meets (a leaf left by an earlier run whose result had another shape).  Until repository commit 63b18ae the code
   recursed into the leaf and raised in the middle of the merge -- in the queue backend inside the worker thread,
   which made schedule() hang (C03); Clash is kept, constantly false, so that the trace clauses read the same. *)
Clash(old, upd) == FALSE
RECURSIVE Merge(_, _)
Merge(old, upd) ==
   [k \in DOMAIN old \cup DOMAIN upd |->
      IF k \notin DOMAIN upd THEN old[k]
      ELSE IF IsNode(upd[k]) /\ k \in DOMAIN old /\ IsNode(old[k])
           THEN Node(Merge(old[k].m, upd[k].m))
      ELSE upd[k]]

(* readable: every key/value of the update is found in the merged mapping, recursively *)
RECURSIVE Readable(_, _)
Readable(m, upd) == \A k \in DOMAIN upd :
                       /\ k \in DOMAIN m
                       /\ IF IsNode(upd[k]) THEN IsNode(m[k]) /\ Readable(m[k].m, upd[k].m)
                          ELSE m[k] = upd[k]
(* nothing else is lost: keys the update does not mention keep their value *)
RECURSIVE Preserved(_, _, _)
Preserved(old, m, upd) == \A k \in DOMAIN old :
                       /\ k \in DOMAIN m
                       /\ IF k \notin DOMAIN upd THEN m[k] = old[k]
                          ELSE IF IsNode(upd[k]) /\ IsNode(old[k]) THEN IsNode(m[k]) /\ Preserved(old[k].m, m[k].m, upd[k].m)
                          ELSE TRUE

NoEntryRec == [status |-> "none", e |-> Node(<<>>)]
Get(t) == IF t \in DOMAIN env THEN env[t] ELSE NoEntryRec

Init == env = <<>> /\ hist = <<>> /\ raised = FALSE
Budget == Len(hist) < MaxOps
Log(x) == hist' = Append(hist, x)

(* apply({t: u}) for a task-level update u (a mapping) *)
Apply(t, u) ==
   /\ Budget
   /\ LET old == Get(t).e.m IN
      IF Clash(old, u) THEN env' = env /\ raised' = TRUE
      ELSE /\ env' = [x \in DOMAIN env \cup {t} |-> IF x = t THEN [status |-> Get(t).status, e |-> Node(Merge(old, u))] ELSE env[x]]
           /\ raised' = FALSE
   /\ Log([op |-> "apply", t |-> t, u |-> u, s |-> ""])
SetStatus(t, s) ==
   /\ Budget /\ raised' = FALSE
   /\ env' = [x \in DOMAIN env \cup {t} |-> IF x = t THEN [status |-> s, e |-> Get(t).e] ELSE env[x]]
   /\ Log([op |-> "set_status", t |-> t, u |-> <<>>, s |-> s])
(* get_status inserts {'status': WAITING} for an unknown task *)
GetStatus(t) ==
   /\ Budget /\ raised' = FALSE
   /\ env' = IF t \in DOMAIN env /\ env[t].status # "none" THEN env
             ELSE [x \in DOMAIN env \cup {t} |-> IF x = t THEN [status |-> "WAITING", e |-> Get(t).e] ELSE env[x]]
   /\ Log([op |-> "get_status", t |-> t, u |-> <<>>, s |-> ""])

Next == \E t \in Tasks : \/ \E u \in Maps(L1) : Apply(t, u)
                         \/ \E s \in Statuses : SetStatus(t, s)
                         \/ GetStatus(t)
Spec == Init /\ [][Next]_vars

W_Nested == ~(\E t \in DOMAIN env : \E k \in DOMAIN env[t].e.m : IsNode(env[t].e.m[k]) /\ Cardinality(DOMAIN env[t].e.m[k].m) = 2)
W_Replaced == ~(\E i \in DOMAIN hist : hist[i].op = "apply" /\ i > 1 /\ \E k \in DOMAIN hist[i].u : IsNode(hist[i].u[k])
                 /\ \E j \in 1 .. i - 1 : hist[j].op = "apply" /\ hist[j].t = hist[i].t /\ k \in DOMAIN hist[j].u /\ ~IsNode(hist[j].u[k]))
=============================================================================
