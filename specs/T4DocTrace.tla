---------------------------- MODULE T4DocTrace ----------------------------
(* Code -> spec direction for C10 (Tripoli-4 part).

   Each case is a listing AS WRITTEN by the harness' random generator (beyond
   the bounds TLC enumerates: more editions, responses, zones, groups, time
   steps), the batch number requested from the parser, and what the parser
   returned, every number turned back into its integer code:
      printed   sequence of editions (see T4Doc.tla, WRITTEN)
      batch     requested edition
      time      simulation time reported for it
      obs       items [fn, name, zid, shape, ebins, tbins, val, sig, emesh, integ]
   TLC computes ReadOf(printed, batch) and compares.  The verdict is total: the
   ids of all mismatching cases are written out with the first differing item. *)
EXTENDS Integers, Sequences, FiniteSets, TLC, Json, IOUtils

MaxEditions == 0  MaxResponses == 0  MaxZones == 0  MaxE == 0  MaxT == 0  Thin == FALSE
Kinds == {}  ShapeIds == {}
VARIABLES doc, req, printed, expected, pc
D == INSTANCE T4Doc

Cases == JsonDeserialize(IOEnv.VERIF_CASES)
NCases == Len(Cases)

VARIABLES i, bad
tvars == <<doc, req, printed, expected, pc, i, bad>>

(* JSON has no way to say "sequence of sequences of records" differently from what
   T4Doc builds, so the observation is compared field by field *)
SameItem(e, o) ==
   /\ e.fn = o.fn /\ e.name = o.name /\ e.zid = o.zid
   /\ e.shape = o.shape
   /\ e.ebins = o.ebins /\ e.tbins = o.tbins
   /\ e.val = o.val /\ e.sig = o.sig
   /\ Len(e.emesh) = Len(o.emesh)
   /\ \A k \in DOMAIN e.emesh :
        /\ e.emesh[k].kind = o.emesh[k].kind
        /\ (e.emesh[k].kind = "yes" => e.emesh[k].val = o.emesh[k].val /\ e.emesh[k].sig = o.emesh[k].sig)
   /\ Len(e.integ) = Len(o.integ)
   /\ \A k \in DOMAIN e.integ :
        /\ e.integ[k].kind = o.integ[k].kind
        /\ (e.integ[k].kind = "yes" => e.integ[k].vn = o.integ[k].vn /\ e.integ[k].sn = o.integ[k].sn)

FirstDiff(e, o) ==
   IF Len(e) # Len(o) THEN 0
   ELSE IF \A k \in DOMAIN e : SameItem(e[k], o[k]) THEN -1
   ELSE CHOOSE k \in DOMAIN e : ~SameItem(e[k], o[k]) /\ \A j \in 1 .. k - 1 : SameItem(e[j], o[j])

Verdict(c) ==
   LET e == D!ReadOf(c.printed, c.batch) IN
   IF e.time # c.time THEN -2 ELSE FirstDiff(e.items, c.obs)

TInit == /\ i = 1 /\ bad = {}
         /\ doc = [ned |-> 0, resps |-> <<>>] /\ req = 0 /\ printed = <<>>
         /\ expected = [time |-> 0, items |-> <<>>] /\ pc = "todo"

TStep == /\ i <= NCases
         /\ i' = i + 1
         /\ printed' = Cases[i].printed /\ expected' = D!ReadOf(Cases[i].printed, Cases[i].batch)
         /\ req' = Cases[i].batch /\ pc' = "read" /\ UNCHANGED doc
         /\ bad' = IF Verdict(Cases[i]) = -1 THEN bad ELSE bad \cup {<<Cases[i].id, Verdict(Cases[i])>>}
         /\ (i = NCases => TLCSet(1, bad'))
TSpec == TInit /\ [][TStep]_tvars

(* the expected reading has increasing bins on every consumed case *)
BinsIncreasing ==
   pc = "read" => \A k \in DOMAIN expected.items :
                     LET e == expected.items[k].ebins t == expected.items[k].tbins IN
                     /\ \A j \in 1 .. Len(e) - 1 : e[j] < e[j + 1]
                     /\ \A j \in 1 .. Len(t) - 1 : t[j] < t[j + 1]

Post == /\ TLCGet("stats").diameter = NCases + 1
        /\ JsonSerialize(IOEnv.VERIF_OUT, [bad |-> TLCGet(1)])
=============================================================================
