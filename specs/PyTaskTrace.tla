---------------------------- MODULE PyTaskTrace ----------------------------
(* Code -> spec for PyTask.  The harness executes operations on real PythonTask / EvalTestTask / Env objects and
   records, around every operation, the state of the real objects in the vocabulary of PyTask: the heap of list
   objects (numbered by identity, `is`), the environment, the caller's objects, what each task holds, the update
   returned by the last `do`, what the function saw.  A case is (state before, operation, state after); TLC
   recomputes the effect of the operation on the OBSERVED state before with the operators of PyTask (Variant =
   "doc") and compares it with the observed state after, clause by clause.  Addresses are never compared: only
   what can be read through the roots and which roots are the same object (sharing is compared on the roots both
   states have: a root that exists on one side only already shows as a difference of the environment / the update).

   Input  VERIF_CASES: [states |-> <<state, ...>>, cases |-> <<[id, pre, post, op], ...>>]  (pre / post index states)
   Output VERIF_OUT:   [bad |-> {<<id, clause>>, ...}, done |-> number of cases judged] *)
EXTENDS PyTask, Json, IOUtils

Data == JsonDeserialize(IOEnv.VERIF_CASES)
NCases == Len(Data.cases)

SetOf(q) == {q[j] : j \in DOMAIN q}
Conv(j) == [heap |-> j.heap, env |-> j.env, orig |-> j.orig,
            task |-> [t \in DOMAIN j.task |-> [made |-> j.task[t].made, mode |-> j.task[t].mode, a |-> j.task[t].a, k |-> j.task[t].k,
                                                a0 |-> j.task[t].a0, k0 |-> j.task[t].k0, kw |-> SetOf(j.task[t].kw)]],
            pend |-> j.pend, kept |-> SetOf(j.kept), last |-> j.last]

Eff(s, o) == CASE o.op = "construct" -> ConstructEff(s, o.t, o.x)
               [] o.op = "caller"    -> CallerEff(s, o.t, o.x)
               [] o.op = "do"        -> DoEff(s, o.t, o.x)
               [] o.op = "apply"     -> ApplyEff(s)
               [] o.op = "use"       -> UseEff(s, o.t, o.x)

(* the roots of a state, the object each one holds, and the projection *)
RefKeys(m, T) == {K \in DOMAIN m[T] : m[T][K].t = "ref"}
ArgRoots(s) == {<<"arg", t, w>> : t \in {u \in DOMAIN s.task : s.task[u].made /\ s.task[u].mode # "eval"}, w \in {"a", "k"}}
Roots(s) == {<<"orig", t, w>> : t \in DOMAIN s.orig, w \in {"a", "k"}} \cup ArgRoots(s)
            \cup UNION {{<<"env", T, K>> : K \in RefKeys(s.env, T)} : T \in DOMAIN s.env}
            \cup UNION {{<<"pend", T, K>> : K \in RefKeys(s.pend.upd, T)} : T \in DOMAIN s.pend.upd}
Addr(s, r) == CASE r[1] = "orig" -> s.orig[r[2]][r[3]]
                [] r[1] = "arg"  -> s.task[r[2]][r[3]]
                [] r[1] = "env"  -> s.env[r[2]][r[3]].a
                [] r[1] = "pend" -> s.pend.upd[r[2]][r[3]].a
Content(s, R) == [r \in R |-> s.heap[Addr(s, r)]]
Same(s) == {{pr[1], pr[2]} : pr \in {q \in Roots(s) \X Roots(s) : q[1] # q[2] /\ Addr(s, q[1]) = Addr(s, q[2])}}
Touches(p, kind) == \E r \in p : r[1] = kind
OrigRoots(s) == {r \in Roots(s) : r[1] = "orig"}
TaskCore(s) == [t \in DOMAIN s.task |-> [made |-> s.task[t].made, mode |-> s.task[t].mode, a0 |-> s.task[t].a0, k0 |-> s.task[t].k0]]
Kw(s) == [t \in DOMAIN s.task |-> s.task[t].kw]

(* e: the state PyTask computes, o: the state observed after the operation *)
Clauses(e, o, op) ==
   LET common == Roots(e) \cap Roots(o)
       SameIn(s, kind, yes) == {p \in Same(s) : p \subseteq common /\ Touches(p, kind) = yes}
       argsDiffer == \/ ArgRoots(e) # ArgRoots(o)
                     \/ Content(e, ArgRoots(e)) # Content(o, ArgRoots(o))
                     \/ SameIn(e, "arg", TRUE) # SameIn(o, "arg", TRUE)
       seenDiffer == e.last.argseen # o.last.argseen \/ e.last.kwseen # o.last.kwseen
       pendDiffer == PendView(e) # PendView(o)
       envDiffer  == EnvView(e) # EnvView(o)
       isDo == op.op = "do"
       exc == isDo /\ op.x \in {"taskexc", "taskexc0"}
       evl == isDo /\ op.x = "evaltests"
   IN {c \in {"args-isolated-from-caller", "caller-objects-untouched", "args-as-constructed", "same-args-every-do", "kwargs-as-constructed",
              "env-only-through-updates", "env-handed-over", "taskexception-failed-why", "do-returns-function-result",
              "evaltests-results", "apply-publishes-update", "sharing", "bookkeeping"} :
         CASE c = "args-isolated-from-caller"  -> op.op \in {"construct", "caller"} /\ argsDiffer
           [] c = "caller-objects-untouched"   -> Content(e, OrigRoots(e)) # Content(o, OrigRoots(o))
           [] c = "args-as-constructed"        -> op.op \notin {"construct", "caller"} /\ argsDiffer
           [] c = "same-args-every-do"         -> seenDiffer
           [] c = "kwargs-as-constructed"      -> Kw(e) # Kw(o)
           [] c = "env-only-through-updates"   -> op.op # "apply" /\ envDiffer
           [] c = "env-handed-over"            -> \/ e.last.hasenv # o.last.hasenv \/ e.last.envseen # o.last.envseen
                                                  \/ e.last.cfgseen # o.last.cfgseen
           [] c = "taskexception-failed-why"   -> exc /\ pendDiffer
           [] c = "evaltests-results"          -> evl /\ pendDiffer
           [] c = "do-returns-function-result" -> isDo /\ ~exc /\ ~evl /\ pendDiffer
           [] c = "apply-publishes-update"     -> op.op = "apply" /\ (envDiffer \/ pendDiffer)
           [] c = "sharing"                    -> SameIn(e, "arg", FALSE) # SameIn(o, "arg", FALSE)
           [] c = "bookkeeping"                -> \/ TaskCore(e) # TaskCore(o) \/ e.kept # o.kept
                                                  \/ (~isDo /\ op.op # "apply" /\ pendDiffer /\ ~envDiffer)
                                                  \/ <<e.last.op, e.last.t, e.last.x>> # <<o.last.op, o.last.t, o.last.x>>}

VARIABLE i
tvars == <<vars, i>>

TInit == /\ i = 1
         /\ heap = <<>> /\ env = <<>> /\ orig = <<>> /\ task = <<>> /\ pend = NoPend /\ kept = {} /\ last = Blank /\ hist = <<>>

(* one step per case; the failing clauses of case i go to register i (kept out of the state: -workers 1) *)
TStep == /\ i <= NCases /\ i' = i + 1
         /\ LET c == Data.cases[i]
                pre == Conv(Data.states[c.pre])
                post == Conv(Data.states[c.post])
            IN /\ Becomes(post) /\ hist' = hist
               /\ TLCSet(i, Clauses(Eff(pre, c.op), post, c.op))
TSpec == TInit /\ [][TStep]_tvars
Post == /\ TLCGet("stats").diameter = NCases + 1
        /\ JsonSerialize(IOEnv.VERIF_OUT, [bad |-> UNION {{<<Data.cases[j].id, n>> : n \in TLCGet(j)} : j \in 1 .. NCases},
                                           done |-> NCases])
=============================================================================
