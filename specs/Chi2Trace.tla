----------------------------- MODULE Chi2Trace -----------------------------
(* Code -> spec direction for C07.  Cases recorded from valjean are consumed
   one per step and judged against the operators of Chi2; every mismatch is
   collected as <<id, what, dataset, bin, expected>>, judgements that fall in
   a critical-value band (or on ndf = 0) are counted as skipped.

   A case (JSON):
     id, ign, lev          option, level of the test (index into the levels)
     ref  [[vt, vn, et, en], ...]          cells, number = <<tag, n>>:
     oth  [[[vt, vn, et, en], ...], ...]     tag 0 finite n, 1 NaN, 2 +inf, 3 -inf
     verdict               bool(result)
     ndf   [n, ...]        result.test.ndf
     nzb   [[b, ...], ...] result.test.nonzero_bins, per dataset per bin
     chi2  [[kind, n, d], ...]  result.chi2 as a rational (kind 0 n/d, 1 infinite,
                           2 NaN, 3 no rational with a small denominator nearby)
     pab   [[b x NLev], ...]    result.pvalue > level j
     meta  [b, ...]        bool(result) of variants (bins permuted, datasets
                           swapped, common rescaling)
*)
EXTENDS Integers, Sequences, FiniteSets, TLC, Json, IOUtils

CONSTANTS NaN, PInf, NInf, Crit
Vals == {}  Errs == {}  MaxBins == 0  MaxDs == 0  Levs == {}  Igns == {}  Mode == "trace"  NRand == 0
VARIABLES ign, lev, ref, oth, cells, out, pc
S == INSTANCE Chi2

Cases == JsonDeserialize(IOEnv.VERIF_CASES)
NCases == Len(Cases)
MaxDen == 10000

VARIABLES i, bad, skipped, free
tvars == <<ign, lev, ref, oth, cells, out, pc, i, bad, skipped, free>>

Num(t, n) == IF t = 0 THEN n ELSE IF t = 1 THEN NaN ELSE IF t = 2 THEN PInf ELSE NInf
CellsOf(s) == [b \in 1 .. Len(s) |-> <<Num(s[b][1], s[b][2]), Num(s[b][3], s[b][4])>>]
RefOf(c) == CellsOf(c.ref)
OthOf(c) == [d \in 1 .. Len(c.oth) |-> CellsOf(c.oth[d])]
Exp(c) == S!Expected(RefOf(c), OthOf(c), c.ign, c.lev)

Wrong(o, e, yes, no) == (e = yes /\ ~o) \/ (e = no /\ o)

StatMatches(e, o) ==
   /\ e.k = "rat" => IF e.d <= MaxDen THEN o[1] = 0 /\ o[2] = e.n /\ o[3] = e.d
                     ELSE o[1] \in {0, 3}       \* the recorder only recovers rationals with a small denominator
   /\ e.k = "inf" => o[1] = 1
   /\ e.k = "nan" => o[1] = 2

DsOf(c) == 1 .. Len(c.oth)
BsOf(c) == 1 .. Len(c.ref)

Mismatches(c, e) ==
      (IF Wrong(c.verdict, e.verdict, "pass", "fail") THEN {<<c.id, "verdict", 0, 0, e.verdict>>} ELSE {})
   \cup (IF c.verdict = (\A d \in DsOf(c) : c.pab[d][c.lev]) THEN {}
         ELSE {<<c.id, "logic", 0, 0, "verdict is not: every probability exceeds the level">>})
   \cup {<<c.id, "ndf", d, 0, ToString(e.ndf[d])>> : d \in {x \in DsOf(c) : c.ndf[x] # e.ndf[x]}}
   \cup {<<c.id, "used", p[1], p[2], ToString(e.used[p[1]][p[2]])>> :
            p \in {q \in DsOf(c) \X BsOf(c) : c.nzb[q[1]][q[2]] # e.used[q[1]][q[2]]}}
   \cup {<<c.id, "chi2", d, 0, ToString(e.stat[d])>> : d \in {x \in DsOf(c) : ~StatMatches(e.stat[x], c.chi2[x])}}
   \cup {<<c.id, "pvalue", d, 0, ToString(e.pv[d])>> :
            d \in {x \in DsOf(c) : \E j \in 1 .. S!NLev : Wrong(c.pab[x][j], e.pv[x][j], "yes", "no")}}
   \cup {<<c.id, "meta", m, 0, e.verdict>> :
            m \in {n \in 1 .. Len(c.meta) : Wrong(c.meta[n], e.verdict, "pass", "fail")}}

(* judgements not made on this case because of kind k: "band" (statistic inside
   a critical-value band) or "free" (ndf = 0, undefined statistic at another
   level than the test's) *)
Unjudged(c, e, k) == Cardinality({<<d, j>> \in DsOf(c) \X (1 .. S!NLev) : e.pv[d][j] = k})

TInit == /\ i = 1 /\ bad = {} /\ skipped = 0 /\ free = 0
         /\ ign = FALSE /\ lev = 1 /\ ref = <<>> /\ oth = <<>> /\ cells = <<>> /\ out = S!NoOut /\ pc = "todo"
TStep == /\ i <= NCases
         /\ i' = i + 1
         /\ ign' = Cases[i].ign /\ lev' = Cases[i].lev
         /\ ref' = RefOf(Cases[i]) /\ oth' = OthOf(Cases[i]) /\ cells' = <<>>
         /\ out' = Exp(Cases[i]) /\ pc' = "done"
         /\ bad' = bad \cup Mismatches(Cases[i], out')            \* out' is a value by now: computed once
         /\ skipped' = skipped + Unjudged(Cases[i], out', "band")
         /\ free' = free + Unjudged(Cases[i], out', "free")
         /\ (i = NCases => TLCSet(1, [bad |-> bad', skipped |-> skipped', free |-> free', last |-> out']))
TSpec == TInit /\ [][TStep]_tvars

(* the invariants of the property-level spec are evaluated on every consumed case *)
LeftOutExactly == S!LeftOutExactly
NdfCountsUsed == S!NdfCountsUsed
LeftOutIrrelevant == S!LeftOutIrrelevant
PermutationInvariant == S!PermutationInvariant
UndefinedNeverPasses == S!UndefinedNeverPasses
VerdictDef == S!VerdictDef
StatSane == S!StatSane
Additive == S!Additive
Symmetric == S!Symmetric
OptionIrrelevantWithoutEmptyBins == S!OptionIrrelevantWithoutEmptyBins

Post == /\ TLCGet("stats").diameter = NCases + 1
        /\ JsonSerialize(IOEnv.VERIF_OUT, TLCGet(1))
=============================================================================
