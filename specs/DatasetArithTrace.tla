------------------------- MODULE DatasetArithTrace -------------------------
(* Code -> spec direction for the numerical part of C08.  One case = one
   arithmetic operation executed on real Datasets, recorded cell by cell:
   operand cells [v, e2] as exact rationals (e2 = error squared), and what the
   result holds in the same cell: ov, oe2 (observed error, squared) and oneg
   (the observed error is negative).  TLC evaluates DatasetArith!Cell on every
   cell and names the violated clauses:
      value            result value is not the plain array operation
      error            result error has the wrong magnitude
      negative-error   operands' errors are non-negative, the result's is negative *)
EXTENDS Integers, Sequences, FiniteSets, TLC, Json, IOUtils

Vals == {}  Errs == {}  RVals == {}  Scalars == {}  MaxN == 0  Ops == {}  RKinds == {}
VARIABLES op, rk, left, right, out, pc
A == INSTANCE DatasetArith

Cases == JsonDeserialize(IOEnv.VERIF_CASES)
NCases == Len(Cases)

VARIABLES i, bad
tvars == <<op, rk, left, right, out, pc, i, bad>>

R(x) == <<x[1], x[2]>>
L(c) == [v |-> R(c.lv), e2 |-> R(c.le2)]
Rt(c) == [v |-> R(c.rv), e2 |-> R(c.re2)]

Clauses(c) ==
   LET cells == c.cells
       exp == [k \in 1 .. Len(cells) |-> A!Cell(c.op, L(cells[k]), Rt(cells[k]))]
   IN    (IF \E k \in 1 .. Len(cells) : exp[k].v # R(cells[k].ov) THEN {"value"} ELSE {})
    \cup (IF \E k \in 1 .. Len(cells) : exp[k].e2 # R(cells[k].oe2) THEN {"error"} ELSE {})
    \cup (IF c.inNonNeg /\ \E k \in 1 .. Len(cells) : cells[k].oneg THEN {"negative-error"} ELSE {})

TInit == /\ i = 1 /\ bad = {}
         /\ op = "" /\ rk = "" /\ left = <<>> /\ right = <<>> /\ out = <<>> /\ pc = "todo"
TStep == /\ i <= NCases
         /\ i' = i + 1
         /\ LET c == Cases[i] cl == Clauses(c) IN
            /\ bad' = IF cl = {} THEN bad ELSE bad \cup {<<c.id, cl>>}
            /\ op' = c.op /\ rk' = c.rk
            /\ left' = [k \in 1 .. Len(c.cells) |-> L(c.cells[k])]
            /\ right' = [k \in 1 .. Len(c.cells) |-> Rt(c.cells[k])]
            /\ out' = A!Expected(c.op, left', right')
            /\ pc' = "done"
         /\ (i = NCases => TLCSet(1, bad'))
TSpec == TInit /\ [][TStep]_tvars

(* the invariants of the property-level spec hold on every consumed case *)
WellFormed == A!WellFormed
AbsoluteQuadrature == A!AbsoluteQuadrature
RelativeQuadrature == A!RelativeQuadrature
ConstantFactor == A!ConstantFactor

Post == /\ TLCGet("stats").diameter = NCases + 1
        /\ JsonSerialize(IOEnv.VERIF_OUT, [bad |-> TLCGet(1)])
=============================================================================
