-------------------------- MODULE ParseLockTrace --------------------------
(* Code -> spec direction for ParseLock: schedules of real parser threads run
   under the deterministic scheduler (harness/conf_parselock.py).

   One event per scheduling step: the thread, the action the step performed
   (Begin / Acquire / Set / Use, read off the operation the thread was waiting
   to do), for Set the kind that the new binding of grammar._otherdetails
   leaves out (read off the bound expression), and the holder of
   PYPARSING_LOCK after the step.  Per thread, how its result compares with the
   same listing parsed alone: "ok", "split" (parsed, differs) or "error".

   Strict validation: the schedule must be a behaviour of ParseLock with
   Locked = TRUE, with the logged binding, lock holder and outcomes.
   Independently of that (total verdict) the observed outcomes are judged by
   the property-level clause: every listing read as when read alone. *)
EXTENDS ParseLock, Json, IOUtils

Traces  == JsonDeserialize(IOEnv.VERIF_TRACES)
NTraces == Len(Traces)
T2 == 1 .. 2
T3 == 1 .. 3
AnyDocs == {}          \* doc is bound by TInit, Docs is not used

VARIABLES tid, l
tvars == <<vars, tid, l>>

DocOf(tr) == [t \in Threads |-> tr.docs[t]]

TInit == /\ tid \in 1 .. NTraces /\ l = 1
         /\ doc = DocOf(Traces[tid])
         /\ pc = [t \in Threads |-> "new"] /\ owner = None /\ fwd = Kinds
         /\ ri = [t \in Threads |-> 1] /\ rem = [t \in Threads |-> <<>>]
         /\ ngr = [t \in Threads |-> 0] /\ out = [t \in Threads |-> <<>>]
         /\ TLCSet(tid, 1)

Reach(x) == TLCSet(tid, IF TLCGet(tid) < x THEN x ELSE TLCGet(tid))
Ev == Traces[tid].events[l]

Class(t) == IF \E i \in DOMAIN out[t] : out[t][i] = 0 THEN "error"
            ELSE IF \E i \in DOMAIN out[t] : out[t][i] > 1 THEN "split" ELSE "ok"

TStep == /\ l <= Len(Traces[tid].events)
         /\ CASE Ev.a = "Begin"   -> Begin(Ev.t)
              [] Ev.a = "Acquire" -> Acquire(Ev.t)
              [] Ev.a = "Set"     -> Set(Ev.t) /\ fwd' = Kinds \ {Ev.excl}
              [] Ev.a = "Use"     -> Use(Ev.t)
         /\ owner' = Ev.owner
         /\ l' = l + 1 /\ tid' = tid /\ Reach(l + 1)

TEnd == /\ l = Len(Traces[tid].events) + 1
        /\ \A t \in Threads : pc[t] = "done" /\ Class(t) = Traces[tid].cls[t]
        /\ l' = l + 1 /\ Reach(l + 1) /\ UNCHANGED <<vars, tid>>

TSpec == TInit /\ [][TStep \/ TEnd]_tvars

(* property level, on what was observed *)
ObsRight(tr) == \A t \in DOMAIN tr.cls : tr.cls[t] = "ok"

Post == JsonSerialize(IOEnv.VERIF_OUT, [reached |-> [t \in 1 .. NTraces |-> TLCGet(t)],
                                        right   |-> [t \in 1 .. NTraces |-> ObsRight(Traces[t])]])
=============================================================================
