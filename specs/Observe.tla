------------------------------ MODULE Observe ------------------------------
(* C13 -- looking at a test result never changes its verdict or its inputs.

   A test of a given kind on given inputs yields a result -- OBTAINED in one
   of the legitimate ways (`origin`): returned by evaluate(), constructed
   directly from the recorded statistics with the optional arguments of the
   result class left to their documented defaults, or loaded back from a
   pickle -- whose ABSTRACT STATE is
        abs = [verdict, stats, data]
   the verdict (bool), the recorded statistics (arrays / classifications, as
   a digest) and the datasets / inputs it was computed from (digest).  After
   that, any number of read-only operations is applied in any order:
        bool, oracles, counts, data,            \* accessors (of the result / of its test)
        table(v), plot(v), full(v), rst(v),     \* representations at verbosity v
        draw(v),                                \* ... drawn by the plotting back-end
        fingerprint, copy, pickle,              \* identity / duplication
        reeval,                                 \* obtaining the result again, in the same way
        sibling                                 \* OTHER tests constructed over the same input objects are
                                                \* evaluated and read (then `reeval`: cross-test repeatability)
   (the sets of operation names are constants: the harness binds each name to
   the whole family of public read-only calls it stands for)
   C13 says: every one of them is a stuttering step of `abs`
        ReadOnly == [][pc = "ready" => UNCHANGED abs]_vars
   copies / unpickled results / a second evaluation carry the same abstract
   state (Deterministic), and the verdict is the one the inputs determine.

   `hist` records the operations applied, so that every reachable state is a
   complete test sequence for the implementation (the abstract state never
   changes: the value of the model is the set of operation sequences and the
   property they are checked against). *)
EXTENDS Integers, Sequences, FiniteSets, TLC

CONSTANTS Kinds,     \* result kinds
          Origins,   \* ways of obtaining the result ("evaluate", "direct", "unpickled")
          AlwaysBad, \* kinds that have no successful variant (a failed evaluation)
          PlainOps,  \* read-only operations without verbosity
          VerbOps,   \* representations: take a verbosity
          Verbs,     \* verbosity levels enumerated (subset of 0..5)
          MaxLen     \* length of the operation sequences

VARIABLES kind,  \* the kind of result
          origin,\* how the result object is obtained
          good,  \* whether the inputs are such that the test passes
          pc,    \* "new" (not obtained yet) / "ready"
          abs,   \* abstract state of the result
          dup,   \* abstract state of the last duplicate produced (copy / pickle / reeval)
          hist   \* operations applied so far
vars == <<kind, origin, good, pc, abs, dup, hist>>

NoVerb == 9
Ops == {[op |-> o, verb |-> NoVerb] : o \in PlainOps} \cup {[op |-> o, verb |-> v] : o \in VerbOps, v \in Verbs}
Duplicating == {"copy", "pickle", "reeval"}

(* the result is a function of the inputs and of the way it is obtained; the verdict of the inputs alone *)
AbsOf(k, o, g) == [verdict |-> g, stats |-> <<"stats", k, o, g>>, data |-> <<"data", k, o, g>>]
Unset == [verdict |-> FALSE, stats |-> <<"none", "", "", FALSE>>, data |-> <<"none", "", "", FALSE>>]

Init == /\ kind \in Kinds
        /\ origin \in Origins
        /\ good \in IF kind \in AlwaysBad THEN {FALSE} ELSE BOOLEAN
        /\ pc = "new" /\ abs = Unset /\ dup = Unset /\ hist = <<>>

Evaluate == /\ pc = "new" /\ pc' = "ready"
            /\ abs' = AbsOf(kind, origin, good) /\ dup' = AbsOf(kind, origin, good)
            /\ UNCHANGED <<kind, origin, good, hist>>

Read(o) == /\ pc = "ready" /\ Len(hist) < MaxLen
           /\ hist' = Append(hist, o)
           /\ dup' = IF o.op \in Duplicating THEN abs ELSE dup
           /\ UNCHANGED <<kind, origin, good, pc, abs>>

Next == Evaluate \/ \E o \in Ops : Read(o)
Spec == Init /\ [][Next]_vars

-----------------------------------------------------------------------------
(* C13 *)
ReadOnly == [][pc = "ready" => UNCHANGED abs]_vars
Deterministic == pc = "ready" => dup = abs /\ abs = AbsOf(kind, origin, good)
VerdictIsTruth == pc = "ready" => abs.verdict = good

(* witnesses (negated reachability): TLC must find them violated *)
W_ReprThenBool == ~(\E i, j \in DOMAIN hist : i < j /\ hist[i].op \in VerbOps /\ hist[j].op = "bool" /\ good)
W_OtherOrigin == ~(origin # "evaluate" /\ \E i, j \in DOMAIN hist : i < j /\ hist[i].op = "oracles" /\ hist[j].op \in VerbOps)
W_SiblingThenReeval == ~(\E i, j \in DOMAIN hist : i < j /\ hist[i].op = "sibling" /\ hist[j].op = "reeval")
W_AllVerbs == ~(/\ Len(hist) = MaxLen
                /\ \A i \in DOMAIN hist : hist[i].op \in VerbOps
                /\ Cardinality({hist[j].verb : j \in DOMAIN hist}) = IF Cardinality(Verbs) < MaxLen THEN Cardinality(Verbs) ELSE MaxLen)
=============================================================================
