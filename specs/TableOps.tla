----------------------------- MODULE TableOps -----------------------------
(* C12, second sentence -- "the tables produced are valid reStructuredText
   whose cells read back as the formatted inputs, also after a table has been
   sliced or joined".

   A table is a sequence of columns plus equally shaped highlight masks:
      [cols : Seq(Seq(Cell)), hls : Seq(Seq(BOOLEAN))]
   cols[c][r] is the cell of column c in row r.  What a reader sees is the
   sequence of ROWS: row r = the cells cols[c][r] of all columns, each with its
   flag hls[c][r].  SliceT / JoinT / CopyT are the table operations of
   valjean.javert.templates.TableTemplate (__getitem__ with a unit-step slice,
   join, copy); each keeps row r of every column and of every mask together.

   State machine: start from a source table whose cells are the triples
   <<table, column, row>> (so every cell is unique and remembers where it came
   from), apply up to MaxOps operations; a second source table is the operand of
   joins.  The invariants say that no sequence of operations tears a row apart
   or moves a highlight to another row. *)
EXTENDS Integers, Sequences, FiniteSets, TLC

CONSTANTS NCols,     \* columns of the source tables
          MaxRows,   \* rows of source table 1: 1..MaxRows
          MaxRows2,  \* rows of source table 2: 1..MaxRows2
          MaxB,      \* slice bounds range over -MaxB..MaxB and None
          MaxOps,
          None

Bounds == {None} \cup (-MaxB .. MaxB)

(* Python's slice.indices() for step 1 on n rows (as in Slice.tla) *)
Norm(x, n, dflt) == IF x = None THEN dflt
                    ELSE IF x < 0 THEN (IF x + n < 0 THEN 0 ELSE x + n)
                    ELSE IF x > n THEN n ELSE x
Lo(a, n) == Norm(a, n, 0)
Hi(b, n) == Norm(b, n, n)
NKept(a, b, n) == IF Hi(b, n) > Lo(a, n) THEN Hi(b, n) - Lo(a, n) ELSE 0

NRows(t) == IF t.cols = <<>> THEN 0 ELSE Len(t.cols[1])
SliceSeq(s, a, b) == [k \in 1 .. NKept(a, b, Len(s)) |-> s[Lo(a, Len(s)) + k]]

SliceT(t, a, b) == [cols |-> [c \in DOMAIN t.cols |-> SliceSeq(t.cols[c], a, b)],
                    hls  |-> [c \in DOMAIN t.hls  |-> SliceSeq(t.hls[c], a, b)]]
JoinT(t, u)     == [cols |-> [c \in DOMAIN t.cols |-> t.cols[c] \o u.cols[c]],
                    hls  |-> [c \in DOMAIN t.hls  |-> t.hls[c] \o u.hls[c]]]
CopyT(t)        == t

(* what is rendered: the rows, each a sequence of [s |-> cell, hl |-> flag] *)
RowsOf(t) == [r \in 1 .. NRows(t) |-> [c \in DOMAIN t.cols |-> [s |-> t.cols[c][r], hl |-> t.hls[c][r]]]]

(* apply a recorded operation; operand u for joins *)
Apply(t, op, u) == CASE op.op = "slice" -> SliceT(t, op.a, op.b)
                     [] op.op = "join"  -> JoinT(t, u)
                     [] op.op = "copy"  -> CopyT(t)
                     [] OTHER           -> t
RECURSIVE ApplyAll(_, _, _)
ApplyAll(t, ops, u) == IF ops = <<>> THEN t ELSE ApplyAll(Apply(t, Head(ops), u), Tail(ops), u)

(* bags of rows (order-insensitive comparison used by the trace specification) *)
Count(rows, x) == Cardinality({k \in DOMAIN rows : rows[k] = x})
SameBag(r1, r2) == /\ Len(r1) = Len(r2)
                   /\ \A k \in DOMAIN r1 : Count(r1, r1[k]) = Count(r2, r1[k])

-----------------------------------------------------------------------------
VARIABLES tab,     \* the current table
          src,     \* source table 1 (never changes)
          oth,     \* source table 2, the operand of joins (never changes)
          ops      \* the operations applied so far (for replaying into the implementation)
vars == <<tab, src, oth, ops>>

Source(t, n, mask) == [cols |-> [c \in 1 .. NCols |-> [r \in 1 .. n |-> <<t, c, r>>]],
                       hls  |-> [c \in 1 .. NCols |-> [r \in 1 .. n |-> c = NCols /\ mask[r]]]]

Init == /\ \E n \in 1 .. MaxRows  : \E m \in [1 .. n -> BOOLEAN] : src = Source(1, n, m)
        /\ \E n \in 1 .. MaxRows2 : \E m \in [1 .. n -> BOOLEAN] : oth = Source(2, n, m)
        /\ tab = src
        /\ ops = <<>>

Slice(a, b) == /\ NKept(a, b, NRows(tab)) > 0          \* an empty table has no rendering: not generated
               /\ tab' = SliceT(tab, a, b)
               /\ ops' = Append(ops, [op |-> "slice", a |-> a, b |-> b])
Join  == /\ tab' = JoinT(tab, oth)
         /\ ops' = Append(ops, [op |-> "join", a |-> None, b |-> None])
Copy  == /\ tab' = CopyT(tab)
         /\ ops' = Append(ops, [op |-> "copy", a |-> None, b |-> None])
More == Len(ops) < MaxOps /\ UNCHANGED <<src, oth>>
DoSlice == More /\ \E a, b \in Bounds : Slice(a, b)
DoJoin  == More /\ Join
DoCopy  == More /\ Copy
Next == DoSlice \/ DoJoin \/ DoCopy
Spec == Init /\ [][Next]_vars

-----------------------------------------------------------------------------
(* the masks have the shape of the columns, all columns have one length *)
C12_Shape == /\ DOMAIN tab.cols = DOMAIN tab.hls
             /\ \A c \in DOMAIN tab.cols : Len(tab.cols[c]) = NRows(tab) /\ Len(tab.hls[c]) = NRows(tab)

(* a row of the current table is a row of one source table: same table and same row number in
   every column *)
C12_RowTogether ==
   \A r \in 1 .. NRows(tab) :
      \E t \in 1 .. 2, r0 \in 1 .. (MaxRows + MaxRows2) :
         \A c \in DOMAIN tab.cols : tab.cols[c][r] = <<t, c, r0>>

(* highlights travel with their cells: every cell has the flag it had in its source table *)
SourceOf(cell) == IF cell[1] = 1 THEN src ELSE oth
C12_HlWithCell ==
   \A r \in 1 .. NRows(tab) : \A c \in DOMAIN tab.cols :
      tab.hls[c][r] = SourceOf(tab.cols[c][r]).hls[c][tab.cols[c][r][3]]

(* the state is the history replayed on the sources (the operators the trace specification uses) *)
C12_Replay == tab = ApplyAll(src, ops, oth)

(* witnesses *)
W_SliceMovesHighlight == ~(\E k \in DOMAIN ops : ops[k].op = "slice" /\ ops[k].a # None /\ ops[k].a > 0
                              /\ \E r \in 1 .. NRows(tab) : tab.hls[NCols][r] /\ tab.cols[NCols][r][3] # r)
W_JoinThenSlice == ~(Len(ops) >= 2 /\ ops[1].op = "join" /\ ops[2].op = "slice"
                       /\ \E r \in 1 .. NRows(tab) : tab.cols[1][r][1] = 2 /\ tab.hls[NCols][r])
=============================================================================
