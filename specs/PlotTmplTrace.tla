--------------------------- MODULE PlotTmplTrace ---------------------------
(* Code -> spec for PlotTmpl: steps recorded on real PlotTemplate / SubPlotElements / CurveElements objects.
   Every case is one operation with the heap observed after it (post; the heap before it is the post of the step it
   extends, see TStep), plus what the real objects answered afterwards: the matrix of ==, the matrix of
   "same fingerprint", nb_plots and curves_index() of every template, whether anything raised.
   The heaps are numbered by the harness by object identity (a number is never reused); TLC applies the operators
   of PlotTmpl to the OBSERVED pre-heap and collects, per case, the clauses <<name, detail>> that fail.  Nothing
   below depends on how fresh objects are numbered: by-value comparison (Full) + who shares what (Reach / SubsOf).

   A case with op = "assoc" carries the by-value content of join(join(a, b), c) and join(a, join(b, c)) built on
   the real objects. *)
EXTENDS PlotTmpl, Json, IOUtils

Cases  == JsonDeserialize(IOEnv.VERIF_CASES)
NCases == Len(Cases)
VARIABLES i, stack, bad
tvars == <<vars, i, stack, bad>>

CurveOf(a) == [val |-> a[1], bins |-> a[2], err |-> a[3], leg |-> a[4], idx |-> a[5]]
HeapOf(j) == [tpls |-> [t \in DOMAIN j.tpls |-> [subs |-> j.tpls[t].subs, kw |-> j.tpls[t].kw, small |-> j.tpls[t].small]],
              subs |-> [s \in DOMAIN j.subs |-> [ax |-> j.subs[s].ax, lim |-> j.subs[s].lim, lines |-> j.subs[s].lines,
                                                 logx |-> j.subs[s].logx,
                                                 curves |-> [k \in DOMAIN j.subs[s].c |-> CurveOf(j.subs[s].c[k])]]],
              content |-> j.content]
EvOf(c) == [op |-> c.op, i |-> c.i, j |-> c.j, s |-> c.s, c |-> c.c, f |-> c.f, v |-> c.v, shape |-> c.shape, full |-> c.full]
(* recorded by-value content: [[ax, [[val, bins, err, leg, idx], ...]], ...] *)
ContentOfJson(x) == [m \in DOMAIN x |-> [ax |-> x[m][1], curves |-> [k \in DOMAIN x[m][2] |-> CurveOf(x[m][2][k])]]]

Others(h, t) == DOMAIN h.tpls \ {t}
OtherBufs(h, t) == UNION {Bufs(h, u) : u \in Others(h, t)}
OtherSubs(h, t) == UNION {SubsOf(h, u) : u \in Others(h, t)}
SubBufs(h, s) == {h.subs[s].ax, h.subs[s].lim, h.subs[s].lines}
                 \cup UNION {{h.subs[s].curves[k].val, h.subs[s].curves[k].bins, h.subs[s].curves[k].err} : k \in DOMAIN h.subs[s].curves}
Dup(h, t) == {s \in SubsOf(h, t) : Cardinality({m \in DOMAIN h.tpls[t].subs : h.tpls[t].subs[m] = s}) > 1}

SharesName(op) == CASE op = "copy" -> "copy-shares" [] op = "join" -> "join-shares" [] op = "joinnew" -> "joinnew-shares"
                    [] OTHER -> "new-shares"

StepClauses(pre, post, e) ==
   LET creating == e.op \in {"new", "copy", "joinnew"}
       tgt == IF creating THEN Len(pre.tpls) + 1 ELSE e.i
       exp == ApplyOp(pre, e)
       old == DOMAIN pre.tpls \ (IF creating THEN {} ELSE {tgt})
       had == ~creating
       (* objects the target shares with other templates now and did not before *)
       shSubs == (SubsOf(post, tgt) \cap OtherSubs(post, tgt)) \cup Dup(post, tgt)
       shSubs0 == IF had THEN (SubsOf(pre, tgt) \cap OtherSubs(pre, tgt)) \cup Dup(pre, tgt) ELSE {}
       explained == UNION {SubBufs(post, s) : s \in shSubs}
       shBufs(f) == (Reach(post, tgt, f) \cap OtherBufs(post, tgt)) \ explained
       shBufs0(f) == IF had THEN Reach(pre, tgt, f) \cap OtherBufs(pre, tgt) ELSE {}
   IN
   IF Len(post.tpls) # Len(exp.tpls) THEN {<<"pool-size", e.op>>}
   ELSE
         (IF Full(post, tgt) # Full(exp, tgt)
          THEN {<<IF e.op # "mutate" THEN "content" ELSE IF Current(post, e.i, e.s, e.c, e.f) # e.v THEN "write-lost" ELSE "write-leaks",
                  IF e.op = "mutate" THEN e.f ELSE e.op>>} ELSE {})
    \cup (IF \E u \in old : Full(post, u) # Full(exp, u)      \* exp: what follows from the sharing already observed in pre
          THEN {<<IF e.op = "mutate" THEN "write-leaks" ELSE "operand-modified", IF e.op = "mutate" THEN e.f ELSE e.op>>} ELSE {})
    \cup (IF \E u \in old : post.tpls[u] # pre.tpls[u] THEN {<<"operand-rebuilt", e.op>>} ELSE {})
    \cup (IF e.op # "mutate" /\ shSubs \ shSubs0 # {} THEN {<<SharesName(e.op), "subplot">>} ELSE {})
    \cup (IF e.op # "mutate" THEN {<<SharesName(e.op), f>> : f \in {g \in BufFields : shBufs(g) \ shBufs0(g) # {}}} ELSE {})
    \cup (IF creating /\ shSubs = {} /\ Cardinality(Bufs(post, tgt)) # Cardinality(Bufs(exp, tgt)) THEN {<<SharesName(e.op), "within">>} ELSE {})

(* what the objects answer, judged on the observed heap *)
AnswerClauses(post, c) ==
   LET P == DOMAIN post.tpls
       C == [t \in P |-> Content(post, t)] IN
   IF Len(c.eq) # Len(post.tpls) THEN {<<"answers", "missing">>}
   ELSE
         (IF \E a \in P : ~c.eq[a][a] THEN {<<"eq", "not-reflexive">>} ELSE {})
    \cup (IF \E a, b \in P : c.eq[a][b] # c.eq[b][a] THEN {<<"eq", "not-symmetric">>} ELSE {})
    \cup (IF \E a, b \in P : c.eq[a][b] /\ C[a] # C[b] THEN {<<"eq", "different-compare-equal">>} ELSE {})
    \cup (IF \E a, b \in P : a # b /\ ~c.eq[a][b] /\ C[a] = C[b] THEN {<<"eq", "same-compare-unequal">>} ELSE {})
    \cup (IF \E a, b \in P : c.fpeq[a][b] /\ C[a] # C[b] THEN {<<"fingerprint", "same-for-different-content">>} ELSE {})
    \cup (IF \E a, b \in P : ~c.fpeq[a][b] /\ C[a] = C[b] THEN {<<"fingerprint", "differs-for-same-content">>} ELSE {})
    \cup (IF \E a, b \in P : c.eq[a][b] /\ ~c.fpeq[a][b] THEN {<<"eq-fingerprint", "equal-with-different-fingerprints">>} ELSE {})
    \cup (IF c.op = "copy" /\ Len(post.tpls) > c.i /\ ~(c.eq[c.i][Len(post.tpls)] /\ c.eq[Len(post.tpls)][c.i])
          THEN {<<"copy", "not-equal-to-original">>} ELSE {})
    \cup (IF \E t \in P : c.nb[t] # NbPlots(post, t) THEN {<<"nb_plots", c.op>>} ELSE {})
    \cup (IF \E t \in P : Range(c.cidx[t]) # IndexSetOf(post, t) \/ Len(c.cidx[t]) # Cardinality(IndexSetOf(post, t))
          THEN {<<"curves_index", "not-the-unique-indices">>}
          ELSE IF \E t \in P : c.cidx[t] # CurvesIndex(post, t) THEN {<<"curves_index", "not-sorted">>} ELSE {})

AssocClauses(pre, c) ==
   LET want == Content(pre, c.i) \o Content(pre, c.j) \o Content(pre, c.s) IN
         (IF ContentOfJson(c.left) # want \/ ContentOfJson(c.right) # want THEN {<<"join-assoc", "content">>} ELSE {})
    \cup (IF ContentOfJson(c.left) # ContentOfJson(c.right) THEN {<<"join-assoc", "sides-differ">>} ELSE {})
    \cup (IF ~c.lreq THEN {<<"join-assoc", "sides-compare-unequal">>} ELSE {})
    \cup (IF ~c.lrfp THEN {<<"join-assoc", "fingerprints-differ">>} ELSE {})

Failing(pre, c) ==
   IF c.exc # "" THEN {<<"raises", c.exc>>}
   ELSE IF c.op = "assoc" THEN AssocClauses(pre, c)
   ELSE StepClauses(pre, HeapOf(c.post), EvOf(c)) \cup (IF c.ans THEN AnswerClauses(HeapOf(c.post), c) ELSE {})

(* c.d is the position of the step in its history; the cases come in depth-first order of the tree of histories (a
   step after the history it extends), stack[k] is the heap observed after the first k steps of the current history;
   a case may also carry its pre-heap itself (the controls) and then leaves the stack alone *)
TInit == i = 1 /\ stack = <<>> /\ bad = {} /\ heap = Empty /\ hist = <<>> /\ n0 = 0
TStep == /\ i <= NCases /\ i' = i + 1
         /\ LET c == Cases[i]
                own == Len(c.pre) > 0
                pre == IF own THEN HeapOf(c.pre[1]) ELSE IF c.d = 1 THEN Empty ELSE stack[c.d - 1]
                fl == Failing(pre, c) IN
            /\ stack' = IF own \/ c.op = "assoc" THEN stack ELSE SubSeq(stack, 1, c.d - 1) \o <<HeapOf(c.post)>>
            /\ bad' = bad \cup {<<c.id, x[1], x[2]>> : x \in fl}
         /\ (i = NCases => TLCSet(1, bad'))
         /\ UNCHANGED vars
TSpec == TInit /\ [][TStep]_tvars
Post == TLCGet("stats").diameter = NCases + 1 /\ JsonSerialize(IOEnv.VERIF_OUT, [bad |-> TLCGet(1)])
=============================================================================
