------------------------------ MODULE SchedMC ------------------------------
(* Configuration spaces for the exhaustive TLC runs of Sched (cfg: Configs <- MC_...). *)
EXTENDS Sched
MC_DagEmptyAll  == DagConfigs(Outcomes, {"ABSENT"})
MC_DagEmpty3    == DagConfigs({"ok", "fail", "raise"}, {"ABSENT"})
MC_DagOk        == DagConfigs({"ok"}, {"ABSENT"})
MC_DagEmpty2    == DagConfigs({"ok", "fail"}, {"ABSENT"})
MC_DagEmptyMal  == DagConfigs({"ok", "none", "notpair", "badstatus", "badupdate", "nonfinal"}, {"ABSENT"})
MC_DagInit      == DagConfigs({"ok", "fail"}, Inits)
MC_DagInitDone  == DagConfigs({"ok", "fail"}, {"ABSENT", "DONE"})
=============================================================================
