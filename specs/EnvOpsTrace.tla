---------------------------- MODULE EnvOpsTrace ----------------------------
(* Code -> spec for EnvOps: every recorded operation on a real Env carries the projected environment before and
   after it; TLC recomputes the effect with the operators of EnvOps and collects the failing clauses. *)
EXTENDS EnvOps, Json, IOUtils

Cases == JsonDeserialize(IOEnv.VERIF_CASES)
VARIABLES i, bad
tvars == <<vars, i, bad>>

GetIn(e, t) == IF t \in DOMAIN e THEN e[t] ELSE NoEntryRec
With(e, t, rec) == [x \in DOMAIN e \cup {t} |-> IF x = t THEN rec ELSE e[x]]
Expected(c) ==
   CASE c.op = "apply"      -> IF Clash(GetIn(c.before, c.t).e.m, c.u) THEN c.before
                               ELSE With(c.before, c.t, [status |-> GetIn(c.before, c.t).status,
                                                          e |-> Node(Merge(GetIn(c.before, c.t).e.m, c.u))])
     [] c.op = "set_status" -> With(c.before, c.t, [status |-> c.s, e |-> GetIn(c.before, c.t).e])
     [] c.op = "get_status" -> IF c.t \in DOMAIN c.before /\ c.before[c.t].status # "none" THEN c.before
                               ELSE With(c.before, c.t, [status |-> "WAITING", e |-> GetIn(c.before, c.t).e])
Failing(c) ==
   {n \in {"readable", "lost", "raise", "state"} :
      CASE n = "readable" -> c.op = "apply" /\ ~c.raised /\ ~Readable(GetIn(c.after, c.t).e.m, c.u)
        [] n = "lost"     -> c.op = "apply" /\ ~c.raised /\ ~Clash(GetIn(c.before, c.t).e.m, c.u)
                             /\ ~Preserved(GetIn(c.before, c.t).e.m, GetIn(c.after, c.t).e.m, c.u)
        [] n = "raise"    -> c.raised # (c.op = "apply" /\ Clash(GetIn(c.before, c.t).e.m, c.u))
        [] n = "state"    -> ~c.raised /\ c.after # Expected(c)}

TInit == i = 1 /\ bad = {} /\ env = <<>> /\ hist = <<>> /\ raised = FALSE
TStep == /\ i <= Len(Cases) /\ i' = i + 1
         /\ env' = Cases[i].after /\ hist' = hist /\ raised' = Cases[i].raised
         /\ bad' = bad \cup {<<Cases[i].id, n>> : n \in Failing(Cases[i])}
         /\ (i = Len(Cases) => TLCSet(1, bad'))
TSpec == TInit /\ [][TStep]_tvars
Post == TLCGet("stats").diameter = Len(Cases) + 1 /\ JsonSerialize(IOEnv.VERIF_OUT, [bad |-> TLCGet(1)])
=============================================================================
