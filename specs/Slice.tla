------------------------------ MODULE Slice ------------------------------
(* C09 -- slicing and squeezing a dataset.

   Abstract view of a dataset: a sequence of dimensions; dimension d has n
   cells 0..n-1 and bins of one of three kinds:
      "edges"    n+1 bin positions 0..n   (cell i is delimited by edges i, i+1)
      "centres"  n   bin positions 0..n-1 (cell i is located by centre i)
      "none"     the dataset carries no bins at all
   A unit-step slice per dimension has start/stop in {None} \cup Int.

   The module is a degenerate state machine in the style used for all
   function-like properties: Init enumerates the input domain, the single
   action Eval computes the expected observable output into `out`; the dump
   of the reachable states is the table of implementation tests, and the
   clauses of the property that talk about the *definition* are invariants.
*)
EXTENDS Integers, Sequences, FiniteSets, TLC

CONSTANTS MaxN,      \* max cells per dimension
          MaxB,      \* slice bounds range over -MaxB..MaxB and None
          MaxDims,   \* number of dimensions enumerated (1..MaxDims)
          Ops,       \* subset of {"slice", "squeeze"}
          None       \* model value: an omitted slice bound

Bounds == {None} \cup (-MaxB .. MaxB)
Kinds == {"edges", "centres"}

VARIABLES op, dims, out, pc
vars == <<op, dims, out, pc>>

(* Python's slice.indices() for step 1 on a length-n axis *)
Norm(x, n, dflt) == IF x = None THEN dflt
                    ELSE IF x < 0 THEN (IF x + n < 0 THEN 0 ELSE x + n)
                    ELSE IF x > n THEN n ELSE x
Lo(a, n) == Norm(a, n, 0)
Hi(b, n) == Norm(b, n, n)
NKept(a, b, n) == IF Hi(b, n) > Lo(a, n) THEN Hi(b, n) - Lo(a, n) ELSE 0

(* retained cells, as the increasing sequence of original cell indices *)
Cells(a, b, n) == [i \in 1 .. NKept(a, b, n) |-> Lo(a, n) + i - 1]

(* retained bin positions.  For an empty selection the property only claims
   emptiness of the values, so the bins are not constrained: binsFree. *)
BinsOf(kind, a, b, n) ==
   IF kind = "none" \/ NKept(a, b, n) = 0 THEN <<>>
   ELSE IF kind = "edges" THEN [i \in 1 .. NKept(a, b, n) + 1 |-> Lo(a, n) + i - 1]
   ELSE Cells(a, b, n)

DimRec == [n : 1 .. MaxN, kind : Kinds, a : Bounds, b : Bounds]

SliceOut(ds) == [d \in 1 .. Len(ds) |->
                   [cells |-> Cells(ds[d].a, ds[d].b, ds[d].n),
                    bins  |-> BinsOf(ds[d].kind, ds[d].a, ds[d].b, ds[d].n),
                    binsFree |-> NKept(ds[d].a, ds[d].b, ds[d].n) = 0]]

(* squeeze: dimensions of length one disappear with their bins; the others keep
   every cell and every bin *)
KeepIdx(ds) == SelectSeq([d \in 1 .. Len(ds) |-> d], LAMBDA d : ds[d].n # 1)
AllBins(kind, n) == IF kind = "none" THEN <<>>
                    ELSE IF kind = "edges" THEN [i \in 1 .. n + 1 |-> i - 1]
                    ELSE [i \in 1 .. n |-> i - 1]
SqueezeOut(ds) == [k \in 1 .. Len(KeepIdx(ds)) |->
                     LET d == KeepIdx(ds)[k] IN
                     [dim |-> d, cells |-> [i \in 1 .. ds[d].n |-> i - 1],
                      bins |-> AllBins(ds[d].kind, ds[d].n)]]

Init == /\ op \in Ops
        /\ \E nd \in 1 .. MaxDims :
             IF op = "slice"
             THEN dims \in [1 .. nd -> DimRec]
             ELSE dims \in [1 .. nd -> [n : 1 .. MaxN, kind : Kinds \cup {"none"}, a : {None}, b : {None}]]
        /\ (op = "squeeze" => \A d1, d2 \in DOMAIN dims :
                                  (dims[d1].kind = "none") = (dims[d2].kind = "none"))
        /\ out = <<>> /\ pc = "todo"

Eval == /\ pc = "todo" /\ pc' = "done"
        /\ out' = IF op = "slice" THEN SliceOut(dims) ELSE SqueezeOut(dims)
        /\ UNCHANGED <<op, dims>>

Next == Eval
Spec == Init /\ [][Next]_vars

-----------------------------------------------------------------------------
(* clauses of C09 that are about the definition itself *)

Evaluated == pc = "done"

(* the result is a well-formed dataset: per dimension the bins have as many
   entries as cells (centres) or one more (edges) *)
WellFormed ==
   Evaluated /\ op = "slice" =>
      \A d \in DOMAIN out :
         ~out[d].binsFree =>
            Len(out[d].bins) = Len(out[d].cells) + (IF dims[d].kind = "edges" THEN 1 ELSE 0)

(* kept cells are contiguous, increasing and inside the axis; the edges kept are
   exactly those delimiting the kept cells: first = first cell, last = last cell + 1 *)
Delimits ==
   Evaluated /\ op = "slice" =>
      \A d \in DOMAIN out :
         LET c == out[d].cells b == out[d].bins IN
         /\ \A i \in DOMAIN c : c[i] \in 0 .. dims[d].n - 1
         /\ \A i \in 1 .. Len(c) - 1 : c[i + 1] = c[i] + 1
         /\ (~out[d].binsFree /\ dims[d].kind = "edges") => b[1] = c[1] /\ b[Len(b)] = c[Len(c)] + 1
         /\ (~out[d].binsFree /\ dims[d].kind = "centres") => b = c

(* agreement with the set-based reading of a Python slice *)
AgreesWithSet ==
   Evaluated /\ op = "slice" =>
      \A d \in DOMAIN out :
         {out[d].cells[i] : i \in DOMAIN out[d].cells}
            = {i \in 0 .. dims[d].n - 1 : Lo(dims[d].a, dims[d].n) <= i /\ i < Hi(dims[d].b, dims[d].n)}

SqueezeExact ==
   Evaluated /\ op = "squeeze" =>
      /\ {out[k].dim : k \in DOMAIN out} = {d \in DOMAIN dims : dims[d].n # 1}
      /\ \A k \in DOMAIN out : Len(out[k].cells) = dims[out[k].dim].n

(* witnesses (negated reachability): TLC must find them violated *)
W_NegStartEdges == ~(Evaluated /\ op = "slice" /\ \E d \in DOMAIN dims :
                        dims[d].kind = "edges" /\ dims[d].a # None /\ dims[d].a < 0 /\ Len(out[d].cells) > 0)
W_SqueezeDrops  == ~(Evaluated /\ op = "squeeze" /\ Len(out) < Len(dims))
=============================================================================
