----------------------------- MODULE ParseLock -----------------------------
(* Concurrent use of the Tripoli-4 parser (valjean/eponine/tripoli4/parse.py,
   grammar.py): parse tasks run in the worker threads of the queue backend, the
   pyparsing grammar is ONE module-level object, and some of its Forward
   elements are re-bound by parse actions in the middle of a parse (the list of
   "response details" accepted after the first one, the dimension of the KIJ
   matrices, ...).  Parser._parse_listing_worker therefore holds the module
   lock PYPARSING_LOCK around the whole of parseString.

   This module describes the part that C10 rests on when listings are parsed by
   several threads: the shared binding `fwd` of grammar._otherdetails.

   A response prints its details in some order, e.g. <<"n","t","c","k","r">>
   (reaction on nucleus, temperature, composition, concentration, reaction).
   The grammar reads a group of details as

        first detail            -- parse action: fwd := every kind but this one
        OneOrMore(fwd)          -- the binding is read ONCE, when this starts

   and a response as OneOrMore(group).  Read alone, a response is one group.
   If the binding is changed by another thread between the action and the
   read, the run of details stops early (a second group is started: the
   metadata come out split) or matches nothing (the listing does not parse).

   One action per scheduling step of the deterministic scheduler of the
   harness (yield before the lock, before every re-binding, before every read
   of the binding), so that TLC behaviours are schedules and recorded schedules
   are behaviours:

     Begin(t)    scan the listing, arrive at the lock
     Acquire(t)  take the lock, switch packrat off  [~Locked: release at once]
     Set(t)      the parse action re-binds the Forward
     Use(t)      the binding is read, the run of details is consumed; at the
                 end of the last response, or on a parse error, the lock is
                 released and the thread ends

   Locked = TRUE is the code as it is; Locked = FALSE is the lock narrowed to
   the packrat switch -- the negative self-test: PL_Right must then fail. *)
EXTENDS Naturals, Sequences, FiniteSets, TLC

CONSTANTS Threads,      \* logical threads, each parses one listing
          Docs,         \* the listings: sequences of responses, a response = sequence of distinct kinds, "r" last
          Locked,       \* the lock covers the whole parse
          None

Kinds == {"n", "t", "c", "k", "r"}

VARIABLES doc,          \* [Threads -> Docs]
          pc,           \* "new", "idle", "set", "use", "done"
          owner,        \* holder of the lock, or None
          fwd,          \* kinds accepted by grammar._otherdetails as currently bound
          ri,           \* index of the response being read
          rem,          \* details of that response not consumed yet
          ngr,          \* groups started in that response
          out           \* outcome per response read so far: number of groups, 0 = parse error
vars == <<doc, pc, owner, fwd, ri, rem, ngr, out>>

Init == /\ doc \in [Threads -> Docs]
        /\ pc = [t \in Threads |-> "new"]
        /\ owner = None
        /\ fwd = Kinds            \* the binding left by the import of the grammar is immaterial
        /\ ri = [t \in Threads |-> 1]
        /\ rem = [t \in Threads |-> <<>>]
        /\ ngr = [t \in Threads |-> 0]
        /\ out = [t \in Threads |-> <<>>]

Begin(t) == /\ pc[t] = "new"
            /\ pc' = [pc EXCEPT ![t] = "idle"]
            /\ UNCHANGED <<doc, owner, fwd, ri, rem, ngr, out>>

Acquire(t) == /\ pc[t] = "idle" /\ owner = None
              /\ IF Len(doc[t]) = 0          \* no response with details: nothing re-bound, lock released
                 THEN pc' = [pc EXCEPT ![t] = "done"] /\ UNCHANGED <<owner, rem>>
                 ELSE /\ pc' = [pc EXCEPT ![t] = "set"] /\ rem' = [rem EXCEPT ![t] = doc[t][1]]
                      /\ owner' = IF Locked THEN t ELSE None
              /\ UNCHANGED <<doc, fwd, ri, ngr, out>>

Set(t) == /\ pc[t] = "set"
          /\ fwd' = Kinds \ {Head(rem[t])}
          /\ rem' = [rem EXCEPT ![t] = Tail(rem[t])]
          /\ ngr' = [ngr EXCEPT ![t] = ngr[t] + 1]
          /\ pc' = [pc EXCEPT ![t] = "use"]
          /\ UNCHANGED <<doc, owner, ri, out>>

(* length of the longest prefix of s made of kinds in F *)
RECURSIVE RunLen(_, _)
RunLen(s, F) == IF s = <<>> \/ Head(s) \notin F THEN 0 ELSE 1 + RunLen(Tail(s), F)

Finish(t, o) == /\ out' = [out EXCEPT ![t] = Append(out[t], o)]
                /\ ngr' = [ngr EXCEPT ![t] = 0]

Use(t) ==
   /\ pc[t] = "use"
   /\ LET n == RunLen(rem[t], fwd) IN
      IF n = 0                                                   \* OneOrMore matches nothing: ParseException
      THEN /\ Finish(t, 0) /\ pc' = [pc EXCEPT ![t] = "done"]
           /\ owner' = IF owner = t THEN None ELSE owner
           /\ rem' = [rem EXCEPT ![t] = <<>>] /\ UNCHANGED ri
      ELSE IF n < Len(rem[t])                                    \* the run stops early: another group follows
      THEN /\ rem' = [rem EXCEPT ![t] = SubSeq(rem[t], n + 1, Len(rem[t]))]
           /\ pc' = [pc EXCEPT ![t] = "set"]
           /\ UNCHANGED <<owner, ri, ngr, out>>
      ELSE IF ri[t] < Len(doc[t])                                \* response read, next one
      THEN /\ Finish(t, ngr[t]) /\ ri' = [ri EXCEPT ![t] = ri[t] + 1]
           /\ rem' = [rem EXCEPT ![t] = doc[t][ri[t] + 1]]
           /\ pc' = [pc EXCEPT ![t] = "set"] /\ UNCHANGED owner
      ELSE /\ Finish(t, ngr[t]) /\ pc' = [pc EXCEPT ![t] = "done"]  \* listing read
           /\ owner' = IF owner = t THEN None ELSE owner
           /\ rem' = [rem EXCEPT ![t] = <<>>] /\ UNCHANGED ri
   /\ UNCHANGED <<doc, fwd>>

Next == \E t \in Threads : Begin(t) \/ Acquire(t) \/ Set(t) \/ Use(t)
Spec == Init /\ [][Next]_vars /\ WF_vars(Next)

-----------------------------------------------------------------------------
TypeOK == /\ pc \in [Threads -> {"new", "idle", "set", "use", "done"}]
          /\ owner \in Threads \cup {None}
          /\ fwd \subseteq Kinds

Parsing(t) == pc[t] \in {"set", "use"}

(* the whole parse is one critical section *)
PL_Mutex == Locked => \A t \in Threads : Parsing(t) => owner = t
PL_AtMostOne == Locked => Cardinality({t \in Threads : Parsing(t)}) <= 1

(* what the user relies on (C10, for listings parsed concurrently): every
   response of every listing is read as it is read alone -- one group *)
Right(t) == \A i \in DOMAIN out[t] : out[t][i] = 1
PL_Right == \A t \in Threads : Right(t)
PL_Complete == \A t \in Threads : pc[t] = "done" => Len(out[t]) = Len(doc[t])

(* the lock is free once everybody is done; nobody waits for ever *)
PL_Released == (\A t \in Threads : pc[t] = "done") => owner = None
PL_Terminates == <>(\A t \in Threads : pc[t] = "done")

(* witnesses against vacuity (expected to be violated) *)
W_BothDone == ~(\A t \in Threads : pc[t] = "done" /\ Len(out[t]) >= 1)
W_Waits    == ~(\E t, u \in Threads : t # u /\ pc[t] = "idle" /\ Parsing(u))
W_Split    == ~(\E t \in Threads : \E i \in DOMAIN out[t] : out[t][i] > 1)
W_Error    == ~(\E t \in Threads : \E i \in DOMAIN out[t] : out[t][i] = 0)
=============================================================================
