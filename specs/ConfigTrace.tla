---------------------------- MODULE ConfigTrace ----------------------------
(* Code -> spec for Config.tla: recorded runs of the real valjean.config.Config (and of the real consumers, the real
   `valjean` argument parser, the real path.ensure / sanitize_filename).  A trace is a sequence of events; every event
   carries what was observed on the real objects after it (obs).  One TLC step per event: the model state is advanced
   with Eff / EnsureEff of Config.tla and the failing clauses are collected per trace and step (total verdict, no
   early stop).  Traces replayed from TLC's own histories (spec -> code) are judged here as well.

   obs of a Config event: trees (projection of every object), lens (len(c)), tv / rv (the tree read back from
   str(c) through a TOML parser and from repr(c) through eval, for the objects the event touched: [id, tree]),
   exc (name of the exception, "" if none), val, b (results), argsame (the mapping given to the constructor /
   update is unchanged), pure (repr of every object is unchanged).
   obs of a path event: exc, dirs, files (what is on disk below the scratch root), same (sanitize returned its
   argument). *)
EXTENDS Config

Traces  == JsonDeserialize(IOEnv.VERIF_TRACES)
NTraces == Len(Traces)
VARIABLES tid, l
tvars == <<vars, tid, l>>

(* JSON objects arrive as records, {} as the empty record: bring everything to the functions of Config.tla *)
NVal0(x)  == [t |-> x.t, v |-> x.v, m |-> <<>>]
NTab0(tab) == [k \in DOMAIN tab |-> NVal0(tab[k])]
NVal(x)   == [t |-> x.t, v |-> x.v, m |-> IF x.t = "node" THEN NTab0(x.m) ELSE <<>>]
NTab(tab) == [k \in DOMAIN tab |-> NVal(tab[k])]
NTree(tr) == [s \in DOMAIN tr |-> NTab(tr[s])]
(* a table observed as the value of c[s] / c.get(s): one more level *)
NRes(x)   == IF x.t = "node" THEN [t |-> "node", v |-> "", m |-> NTab(x.m)] ELSE NVal(x)
NEv(e) == [op |-> e.op, a |-> e.a, b |-> e.b, s |-> e.s, k |-> e.k, k2 |-> e.k2, n |-> e.n, v |-> NVal(e.v),
           m |-> IF e.op \in {"from", "update"} THEN NTree(e.m) ELSE IF e.op = "setsec" THEN NTab(e.m) ELSE <<>>, kind |-> e.kind]
SetOf(sq) == {sq[i] : i \in DOMAIN sq}
PSeq(x) == [i \in 1 .. Len(x) |-> x[i]]

IsPath == Traces[tid].kind = "path"
Ev == Traces[tid].events[l]

ConfClauses(os, e, o) ==
   LET r == Eff(os, e)
       n == Len(r.objs)
       same == Len(o.trees) = n
       bad(i) == NTree(o.trees[i]) # r.objs[i].tree
       isnew(i) == i > Len(os) IN
   {c \in {"not-enabled", "raise", "value", "bool", "state-count", "state-self", "state-new", "state-other", "len",
           "toml-view", "repr-view", "argument-mutated", "impure"} :
      CASE c = "not-enabled" -> ~Can(os, e)
        [] c = "raise"       -> r.res.exc # "unspecified" /\ o.exc # r.res.exc
        [] c = "value"       -> o.exc = "" /\ r.res.exc = "" /\ e.op \in {"get", "getdef", "consume"} /\ NRes(o.val) # r.res.val
        [] c = "bool"        -> o.exc = "" /\ r.res.exc = "" /\ e.op \in {"eq", "getdef"} /\ o.b # r.res.b
        [] c = "state-count" -> ~same
        [] c = "state-self"  -> same /\ e.a \in 1 .. n /\ bad(e.a)
        [] c = "state-new"   -> same /\ \E i \in 1 .. n : isnew(i) /\ bad(i)
        [] c = "state-other" -> same /\ \E i \in 1 .. n : ~isnew(i) /\ i # e.a /\ bad(i)
        [] c = "len"         -> same /\ \E i \in 1 .. n : o.lens[i] # Cardinality(DOMAIN NTree(o.trees[i]))
        [] c = "toml-view"   -> same /\ \E i \in DOMAIN o.tv : NTree(o.tv[i].tree) # NTree(o.trees[o.tv[i].id])
        [] c = "repr-view"   -> same /\ \E i \in DOMAIN o.rv : NTree(o.rv[i].tree) # NTree(o.trees[o.rv[i].id])
        [] c = "argument-mutated" -> ~o.argsame
        [] c = "impure"      -> Trees(r.objs) = Trees(os) /\ ~o.pure}

PathClauses(f, e, o) ==
   {c \in {"raise", "fs", "sanitize-result"} :
      CASE c = "raise" -> o.exc # (IF e.op = "ensure" THEN EnsureEff(f, PSeq(e.p), e.d).exc
                                   ELSE IF Sanitary(PSeq(e.p)) THEN "" ELSE "ValueError")
        [] c = "fs"    -> LET g == IF e.op = "ensure" THEN EnsureEff(f, PSeq(e.p), e.d).fs ELSE f IN
                          {PSeq(x) : x \in SetOf(o.dirs)} # g.dirs \/ {PSeq(x) : x \in SetOf(o.files)} # g.files
        [] c = "sanitize-result" -> e.op = "sanitize" /\ o.exc = "" /\ ~o.same}

TInit == /\ tid \in 1 .. NTraces /\ l = 1
         /\ objs = <<Obj(WithDefaults(<<>>), FALSE)>> /\ res = Ok /\ fs = [dirs |-> {}, files |-> {}] /\ hist = <<>>
         /\ TLCSet(tid, 1) /\ TLCSet(NTraces + tid, {})

TStep == /\ l <= Len(Traces[tid].events)
         /\ IF IsPath
            THEN /\ fs' = (IF Ev.op = "ensure" THEN EnsureEff(fs, PSeq(Ev.p), Ev.d).fs ELSE fs)
                 /\ objs' = objs /\ res' = res
                 /\ TLCSet(NTraces + tid, TLCGet(NTraces + tid) \cup {<<l, c>> : c \in PathClauses(fs, Ev, Ev.obs)})
            ELSE /\ LET e == NEv(Ev) IN
                    /\ objs' = (IF Can(objs, e) THEN Eff(objs, e).objs ELSE objs)
                    /\ res' = (IF Can(objs, e) THEN Eff(objs, e).res ELSE res)
                    /\ TLCSet(NTraces + tid, TLCGet(NTraces + tid) \cup
                                 {<<l, c>> : c \in IF Can(objs, e) THEN ConfClauses(objs, e, Ev.obs) ELSE {"not-enabled"}})
                 /\ fs' = fs
         /\ hist' = hist /\ l' = l + 1 /\ tid' = tid /\ TLCSet(tid, l + 1)
TSpec == TInit /\ [][TStep]_tvars
TPost == JsonSerialize(IOEnv.VERIF_OUT, [reached |-> [t \in 1 .. NTraces |-> TLCGet(t)],
                                         failing |-> [t \in 1 .. NTraces |-> TLCGet(NTraces + t)]])
=============================================================================
