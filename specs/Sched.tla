------------------------------- MODULE Sched -------------------------------
(* The queue backend of valjean's scheduler (valjean/cosette/backends/queue.py
   + env.py) at the grain of its synchronisation points.

   Threads: one master (QueueScheduling.execute_tasks / _process_tasks /
   _enqueue) and W workers (WorkerThread.run).  One action = the segment of
   code a thread executes between two consecutive blocking / lock-acquiring
   operations (the yield points of the deterministic scheduler in
   harness/detsched.py), so a recorded implementation step and an action
   correspond one to one and the pending operation of a thread is its pc.

   Shared state: the environment (per task: present?, status, payload version,
   clocks), the work queue with its unfinished-task counter, the condition
   variable (owner, waiting master, notification).

   Serves C01 (a task starts only after its dependencies finished and
   published), C02 (the outcome depends on graph and results only), C03
   (termination, no thread left behind) and is composed into Runs.tla (C04).

   AtomicPublish = TRUE is the design of the code as fixed (results and clocks
   first, status last, one atomic step).  AtomicPublish = FALSE is the order the
   code used before the fix (status, then results, then clocks, three separate
   steps); it is kept as a negative self-test: TLC must find C01 violated.
*)
EXTENDS Integers, Sequences, FiniteSets, TLC

CONSTANTS N,              \* number of tasks
          W,              \* number of workers
          AtomicPublish,  \* BOOLEAN
          Interrupts,     \* BOOLEAN: an exception (KeyboardInterrupt) may be delivered to the master once, at any of its
                          \* scheduling points inside the try block of execute_tasks
          Configs,        \* set of configurations [kind, outc, init, order]
          Calls,          \* number of consecutive schedule() calls on the same scheduler object (1 or 2)
          None            \* model value

Tasks   == 1 .. N
Workers == 1 .. W
STOP    == 0
M       == -1             \* owner id of the master for the condition variable

Kinds    == {"none", "hard", "soft"}
Outcomes == {"ok", "fail", "raise", "none", "notpair", "badstatus", "badupdate", "nonfinal"}
Inits    == {"ABSENT", "DONE", "FAILED", "SKIPPED"}
Final    == {"DONE", "FAILED", "SKIPPED"}
AllPairs == {p \in Tasks \X Tasks : p[1] # p[2]}
DagPairs == {p \in Tasks \X Tasks : p[2] < p[1]}
IdOrder  == [i \in 1 .. N |-> i]

(* configuration spaces used by the exhaustive model-checking runs *)
DagConfigs(outs, inits) ==
   {[kind |-> [p \in AllPairs |-> IF p \in DagPairs THEN k[p] ELSE "none"], outc |-> o, init |-> i, order |-> IdOrder] :
       k \in [DagPairs -> Kinds], o \in [Tasks -> outs], i \in [Tasks -> inits]}
(* any linear extension of the graph is a possible result of the topological sort;
   a cyclic graph has none (the sort raises), the order is then irrelevant *)
LinExts(kd) == {o \in [1 .. N -> Tasks] :
                  /\ \A i, j \in 1 .. N : i # j => o[i] # o[j]
                  /\ \A i, j \in 1 .. N : i < j => kd[<<o[i], o[j]>>] = "none"}
OrdersOf(kd) == IF LinExts(kd) = {} THEN {IdOrder} ELSE LinExts(kd)
Perms == {o \in [1 .. N -> Tasks] : \A i, j \in 1 .. N : i # j => o[i] # o[j]}
(* a set of records filtered by a predicate: TLC keeps it lazy (a UNION of enumerated sets is built eagerly,
   once per worker, when the constant definitions are processed) *)
AnyConfigs(outs, inits) ==
   {c \in [kind : [AllPairs -> Kinds], outc : [Tasks -> outs], init : [Tasks -> inits], order : Perms] :
       c.order \in OrdersOf(c.kind)}

VARIABLES
   kind, outc, order,                  \* configuration (constant during a behaviour)
   st, pay, clk,                       \* environment: status / payload version / clocks per task
   queue, unfinished,                  \* work queue
   mpc, left, idx, newleft, nbefore, k, raised, call,     \* master
   wpc, cur,                           \* workers
   cvOwner, cvWaiting, cvNotified,     \* condition variable
   seen, execs                         \* history: what a task saw when it started; execution counters

cfgvars == <<kind, outc, order>>
envvars == <<st, pay, clk>>
mvars   == <<mpc, left, idx, newleft, nbefore, k, raised, call>>
wvars   == <<wpc, cur>>
cvvars  == <<cvOwner, cvWaiting, cvNotified>>
hvars   == <<seen, execs>>
vars    == <<cfgvars, envvars, queue, unfinished, mvars, wvars, cvvars, hvars>>

Deps(t) == {d \in Tasks : d # t /\ kind[<<t, d>>] # "none"}
Hard(t) == {d \in Tasks : d # t /\ kind[<<t, d>>] = "hard"}

(* is the full graph cyclic?  (reachability by iterated squaring on N <= 4 nodes) *)
Edge(a, b) == a # b /\ kind[<<a, b>>] # "none"
RECURSIVE ReachIn(_, _, _)
ReachIn(a, b, n) == IF n = 0 THEN FALSE
                    ELSE Edge(a, b) \/ \E c \in Tasks \ {a, b} : Edge(a, c) /\ ReachIn(c, b, n - 1)
Cyclic == \E a, b \in Tasks : a # b /\ (Edge(a, b) \/ ReachIn(a, b, N)) /\ (Edge(b, a) \/ ReachIn(b, a, N))

(* clocks are abstracted to the epoch they were taken in: None, "init" (carried
   in by the initial environment: task i older than task j iff i < j) or "run" *)
(* within one object's life a task executes at most once and only after its dependencies were published, so a
   dependency executed in this run ended before a dependent executed in this run started *)
EndLeqStart(d, t) == \/ (clk[d] = "init" /\ clk[t] = "init" /\ d < t)
                     \/ (clk[d] = "init" /\ clk[t] = "run")
                     \/ (clk[d] = "run" /\ clk[t] = "run")

Init ==
   /\ \E c \in Configs : kind = c.kind /\ outc = c.outc /\ order = c.order
                         /\ st  = [t \in Tasks |-> c.init[t]]
                         /\ pay = [t \in Tasks |-> IF c.init[t] = "DONE" THEN 1 ELSE 0]
                         /\ clk = [t \in Tasks |-> IF c.init[t] = "DONE" THEN "init" ELSE "none"]
   /\ queue = <<>> /\ unfinished = 0
   /\ mpc = "start" /\ left = <<>> /\ idx = 0 /\ newleft = <<>> /\ nbefore = 0 /\ k = 0 /\ raised = FALSE /\ call = 1
   /\ wpc = [w \in Workers |-> "none"] /\ cur = [w \in Workers |-> 0]
   /\ cvOwner = 0 /\ cvWaiting = FALSE /\ cvNotified = FALSE
   /\ seen = [t \in Tasks |-> <<>>] /\ execs = [t \in Tasks |-> 0]

-----------------------------------------------------------------------------
(* master *)

(* execute_tasks up to its first yield: spawn the workers, sort (raises on a
   cycle: the finally clause then stops the workers), enter the loop *)
MStart ==
   /\ mpc = "start"
   /\ wpc' = [w \in Workers |-> "start"]
   /\ IF Cyclic THEN /\ raised' = TRUE /\ mpc' = "stop" /\ k' = 1 /\ left' = left
                ELSE /\ raised' = raised /\ mpc' = "acqcv" /\ k' = k /\ left' = order
   /\ UNCHANGED <<cfgvars, envvars, queue, unfinished, idx, newleft, nbefore, call, cur, cvvars, hvars>>

MAcqCv ==
   /\ mpc = "acqcv" /\ cvOwner = 0
   /\ cvOwner' = M /\ mpc' = "decide" /\ idx' = 1 /\ newleft' = <<>> /\ nbefore' = Len(left)
   /\ UNCHANGED <<cfgvars, envvars, queue, unfinished, left, k, raised, call, wvars, cvWaiting, cvNotified, hvars>>

Blocking(d) == st[d] \in {"ABSENT", "PENDING", "WAITING"}
BadHard(t)  == \E d \in Hard(t) : st[d] \in {"FAILED", "SKIPPED"}
(* dependencies that never ran have no clocks and are ignored (last_end_time) *)
UpToDate(t) == LET D == {d \in Deps(t) : clk[d] # "none"} IN
               D = {} \/ (clk[t] # "none" /\ \A d \in D : EndLeqStart(d, t))
(* decide_new_state, evaluated atomically under the environment lock *)
Decision(t) == IF \E d \in Deps(t) : Blocking(d)       THEN "WAITING"
               ELSE IF BadHard(t)                       THEN "SKIPPED"
               ELSE IF st[t] = "DONE"                   THEN (IF UpToDate(t) THEN "DROP" ELSE "PENDING")
               ELSE IF st[t] \in {"ABSENT", "WAITING"}  THEN "PENDING"
               ELSE "ASSERT"                              \* FAILED/SKIPPED/PENDING entry: assertion error

(* what happens after the task at position idx has been dealt with; nl is the
   list of tasks still waiting accumulated in this pass *)
Advance(nl) ==
   IF idx < Len(left)
   THEN /\ idx' = idx + 1 /\ newleft' = nl /\ mpc' = "decide"
        /\ UNCHANGED <<left, cvOwner, cvWaiting>>
   ELSE /\ left' = nl /\ newleft' = <<>> /\ idx' = 0
        /\ IF nl = <<>>                THEN mpc' = "qjoin" /\ cvOwner' = 0 /\ cvWaiting' = cvWaiting
           ELSE IF Len(nl) = nbefore   THEN mpc' = "wait"  /\ cvOwner' = 0 /\ cvWaiting' = TRUE
           ELSE                             mpc' = "acqcv" /\ cvOwner' = 0 /\ cvWaiting' = cvWaiting

MDecide ==
   /\ mpc = "decide"
   /\ LET t == left[idx] d == Decision(t) IN
      CASE d = "PENDING" -> /\ st' = [st EXCEPT ![t] = "PENDING"] /\ mpc' = "put"
                            /\ UNCHANGED <<left, idx, newleft, cvOwner, cvWaiting, k, raised>>
        [] d = "WAITING" -> /\ st' = [st EXCEPT ![t] = "WAITING"] /\ Advance(Append(newleft, t))
                            /\ UNCHANGED <<k, raised>>
        [] d = "SKIPPED" -> /\ st' = [st EXCEPT ![t] = "SKIPPED"] /\ Advance(newleft)
                            /\ UNCHANGED <<k, raised>>
        [] d = "DROP"    -> /\ st' = st /\ Advance(newleft)
                            /\ UNCHANGED <<k, raised>>
        [] d = "ASSERT"  -> /\ st' = st /\ raised' = TRUE /\ mpc' = "stop" /\ k' = 1 /\ cvOwner' = 0
                            /\ UNCHANGED <<left, idx, newleft, cvWaiting>>
   /\ UNCHANGED <<cfgvars, pay, clk, queue, unfinished, nbefore, call, wvars, cvNotified, hvars>>

MPut ==
   /\ mpc = "put"
   /\ queue' = Append(queue, left[idx]) /\ unfinished' = unfinished + 1
   /\ Advance(newleft)
   /\ UNCHANGED <<cfgvars, envvars, nbefore, k, raised, call, wvars, cvNotified, hvars>>

(* cond_var.wait() returns: re-take the lock, leave the with block *)
MWake ==
   /\ mpc = "wait" /\ cvNotified /\ cvOwner = 0
   /\ cvNotified' = FALSE /\ mpc' = "acqcv"
   /\ UNCHANGED <<cfgvars, envvars, queue, unfinished, left, idx, newleft, nbefore, k, raised, call, wvars, cvOwner, cvWaiting, hvars>>

(* An exception delivered to the master from outside (Ctrl-C) while it is at a scheduling point of _process_tasks:
   instead of performing the operation it was about to perform, it leaves the with-block (releasing the condition
   variable; cond_var.wait() takes the lock back first, hence the guard) and enters the finally clause, which stops
   the workers.  Tasks already queued are still executed by the workers before they meet the stop sentinels; tasks
   not yet queued keep the status they have.  At most one such exception, and none once the master is in the finally
   clause (a second Ctrl-C there is outside what C03 promises). *)
MInterrupt ==
   /\ Interrupts /\ ~raised
   /\ mpc \in {"acqcv", "decide", "put", "wait", "qjoin"}
   /\ (mpc = "wait" => cvOwner = 0)
   /\ raised' = TRUE /\ mpc' = "stop" /\ k' = 1
   /\ cvOwner' = IF cvOwner = M THEN 0 ELSE cvOwner
   /\ cvWaiting' = FALSE /\ cvNotified' = FALSE
   /\ UNCHANGED <<cfgvars, envvars, queue, unfinished, left, idx, newleft, nbefore, call, wvars, hvars>>

MQJoin ==
   /\ mpc = "qjoin" /\ unfinished = 0
   /\ mpc' = "stop" /\ k' = 1
   /\ UNCHANGED <<cfgvars, envvars, queue, unfinished, left, idx, newleft, nbefore, raised, call, wvars, cvvars, hvars>>

MStop ==
   /\ mpc = "stop"
   /\ queue' = Append(queue, STOP) /\ unfinished' = unfinished + 1
   /\ IF k < W THEN k' = k + 1 /\ mpc' = mpc ELSE k' = 1 /\ mpc' = "join"
   /\ UNCHANGED <<cfgvars, envvars, left, idx, newleft, nbefore, raised, call, wvars, cvvars, hvars>>

(* join the workers one after the other.  When the last one is joined the call comes back; if the same
   scheduler object is used for another schedule() call (Calls = 2) the master goes on, in the same step, with
   the beginning of execute_tasks of that call: new condition variable, new workers, sort (acyclic: the first call
   would have raised otherwise), the environment and the work queue object being those of the first call *)
MJoin ==
   /\ mpc = "join" /\ wpc[k] = "exited"
   /\ IF k < W
      THEN /\ k' = k + 1 /\ mpc' = mpc
           /\ UNCHANGED <<left, call, wvars, cvvars>>
      ELSE IF call < Calls /\ ~raised
      THEN /\ call' = call + 1 /\ k' = 0 /\ mpc' = "acqcv" /\ left' = order
           /\ wpc' = [w \in Workers |-> "start"] /\ cur' = [w \in Workers |-> 0]
           /\ cvOwner' = 0 /\ cvWaiting' = FALSE /\ cvNotified' = FALSE
      ELSE /\ k' = 0 /\ mpc' = IF raised THEN "raised" ELSE "returned"
           /\ UNCHANGED <<left, call, wvars, cvvars>>
   /\ UNCHANGED <<cfgvars, envvars, queue, unfinished, idx, newleft, nbefore, raised, hvars>>

-----------------------------------------------------------------------------
(* workers *)

WStart(w) ==
   /\ wpc[w] = "start" /\ wpc' = [wpc EXCEPT ![w] = "get"]
   /\ UNCHANGED <<cfgvars, envvars, queue, unfinished, mvars, cur, cvvars, hvars>>

WGet(w) ==
   /\ wpc[w] = "get" /\ queue # <<>>
   /\ queue' = Tail(queue)
   /\ IF Head(queue) = STOP THEN wpc' = [wpc EXCEPT ![w] = "stopdone"] /\ cur' = cur
      ELSE wpc' = [wpc EXCEPT ![w] = "dostart"] /\ cur' = [cur EXCEPT ![w] = Head(queue)]
   /\ UNCHANGED <<cfgvars, envvars, unfinished, mvars, cvvars, hvars>>

View(d) == [st |-> st[d], pay |-> pay[d], clk |-> clk[d] # "none", ex |-> execs[d]]

(* first instruction of do(): the probe reads its dependencies' entries; the
   task then runs and returns (no shared effect until the publication) *)
WDoStart(w) ==
   /\ wpc[w] = "dostart"
   /\ LET t == cur[w] IN
      /\ seen'  = [seen EXCEPT ![t] = [d \in Deps(t) |-> View(d)]]
      /\ execs' = [execs EXCEPT ![t] = @ + 1]
   /\ wpc' = [wpc EXCEPT ![w] = IF AtomicPublish THEN "publish" ELSE "pubstatus"]
   /\ UNCHANGED <<cfgvars, envvars, queue, unfinished, mvars, cur, cvvars>>

ResultStatus(t) == IF outc[t] = "ok" THEN "DONE" ELSE "FAILED"
HasUpdate(t)    == outc[t] \in {"ok", "fail"}      \* a well-formed (update, status) pair was returned

WPublish(w) ==
   /\ wpc[w] = "publish"
   /\ LET t == cur[w] IN
      /\ pay' = [pay EXCEPT ![t] = IF HasUpdate(t) THEN 2 ELSE @]
      /\ clk' = [clk EXCEPT ![t] = "run"]
      /\ st'  = [st EXCEPT ![t] = ResultStatus(t)]
   /\ wpc' = [wpc EXCEPT ![w] = "taskdone"]
   /\ UNCHANGED <<cfgvars, queue, unfinished, mvars, cur, cvvars, hvars>>

(* the publication order before the fix: three steps *)
WPubStatus(w) ==
   /\ wpc[w] = "pubstatus"
   /\ st' = [st EXCEPT ![cur[w]] = ResultStatus(cur[w])]
   /\ wpc' = [wpc EXCEPT ![w] = "pubapply"]
   /\ UNCHANGED <<cfgvars, pay, clk, queue, unfinished, mvars, cur, cvvars, hvars>>
WPubApply(w) ==
   /\ wpc[w] = "pubapply"
   /\ pay' = [pay EXCEPT ![cur[w]] = IF HasUpdate(cur[w]) THEN 2 ELSE @]
   /\ wpc' = [wpc EXCEPT ![w] = "pubclock"]
   /\ UNCHANGED <<cfgvars, st, clk, queue, unfinished, mvars, cur, cvvars, hvars>>
WPubClock(w) ==
   /\ wpc[w] = "pubclock"
   /\ clk' = [clk EXCEPT ![cur[w]] = "run"]
   /\ wpc' = [wpc EXCEPT ![w] = "taskdone"]
   /\ UNCHANGED <<cfgvars, st, pay, queue, unfinished, mvars, cur, cvvars, hvars>>

WTaskDone(w) ==
   /\ wpc[w] = "taskdone"
   /\ unfinished' = unfinished - 1
   /\ wpc' = [wpc EXCEPT ![w] = "notify"]
   /\ UNCHANGED <<cfgvars, envvars, queue, mvars, cur, cvvars, hvars>>

(* the sentinel is acknowledged too, so that the queue can be joined again by a later call *)
WStopDone(w) ==
   /\ wpc[w] = "stopdone"
   /\ unfinished' = unfinished - 1
   /\ wpc' = [wpc EXCEPT ![w] = "exited"]
   /\ UNCHANGED <<cfgvars, envvars, queue, mvars, cur, cvvars, hvars>>

(* with cond_var: notify_all() *)
WNotify(w) ==
   /\ wpc[w] = "notify" /\ cvOwner = 0
   /\ cvNotified' = (cvNotified \/ cvWaiting) /\ cvWaiting' = FALSE
   /\ wpc' = [wpc EXCEPT ![w] = "get"]
   /\ UNCHANGED <<cfgvars, envvars, queue, unfinished, mvars, cur, cvOwner, hvars>>

-----------------------------------------------------------------------------
Terminated == mpc \in {"returned", "raised"}
Done == Terminated /\ (\A w \in Workers : wpc[w] = "exited") /\ UNCHANGED vars

MasterNext == MStart \/ MAcqCv \/ MDecide \/ MPut \/ MWake \/ MQJoin \/ MStop \/ MJoin \/ MInterrupt
WorkerNext(w) == WStart(w) \/ WGet(w) \/ WDoStart(w) \/ WPublish(w) \/ WPubStatus(w) \/ WPubApply(w)
                 \/ WPubClock(w) \/ WTaskDone(w) \/ WStopDone(w) \/ WNotify(w)
Next == MasterNext \/ (\E w \in Workers : WorkerNext(w)) \/ Done

Spec     == Init /\ [][Next]_vars
FairSpec == Spec /\ WF_vars(MasterNext) /\ \A w \in Workers : WF_vars(WorkerNext(w))

-----------------------------------------------------------------------------
(* C01 *)
Started(t) == execs[t] > 0
C01_DepsFinal ==
   \A t \in Tasks : Started(t) => \A d \in Deps(t) : seen[t][d].st \in Final
C01_PayloadVisible ==
   \A t \in Tasks : Started(t) =>
      \A d \in Deps(t) : seen[t][d].st = "DONE" =>
         /\ seen[t][d].pay = (IF seen[t][d].ex > 0 THEN 2 ELSE 1)
         /\ seen[t][d].clk
(* "has reached a final state" is more than a final-looking label: a dependency whose entry says DONE from an earlier
   run but which is out of date will be executed (again) in this call, and a dependent that began on the strength of the
   stale label began before its dependency finished.  Within one call a dependency never begins an execution after one of
   its dependents has begun (the counters of the history make this a state predicate). *)
C01_NoLateDep ==
   (call = 1) => \A t \in Tasks : Started(t) => \A d \in Deps(t) : execs[d] = seen[t][d].ex
(* state form: while a task is being executed all its dependencies are final and published *)
Running(t) == \E w \in Workers : cur[w] = t /\ wpc[w] \in {"publish", "pubstatus"}
C01_RunningState ==
   \A t \in Tasks : Running(t) =>
      \A d \in Deps(t) : st[d] \in Final /\ (st[d] = "DONE" => pay[d] > 0 /\ clk[d] # "none")

(* C02: only claimed from an empty environment and for acyclic graphs *)
RECURSIVE Expected(_)
Expected(t) == IF \E d \in Hard(t) : Expected(d) \in {"FAILED", "SKIPPED"} THEN "SKIPPED"
               ELSE IF outc[t] = "ok" THEN "DONE" ELSE "FAILED"
C02_AtMostOnce == \A t \in Tasks : execs[t] <= 1
C02_Outcome ==
   (mpc = "returned") =>
      \A t \in Tasks : /\ st[t] = Expected(t)
                       /\ execs[t] = (IF Expected(t) = "SKIPPED" THEN 0 ELSE 1)
C02_NoForeignUpdate == \A t \in Tasks : pay[t] = 2 => HasUpdate(t) /\ execs[t] > 0
C02_SoftNeverSkips ==
   (mpc = "returned") =>
      \A t \in Tasks : (\A d \in Hard(t) : st[d] = "DONE") => st[t] # "SKIPPED"
C02_FromEmptyNeverRaises == mpc # "raised"

(* C03 *)
C03_Clean == Terminated => queue = <<>> /\ \A w \in Workers : wpc[w] \in {"exited", "none"}   \* "none": never started
(* model-level: every item put on the queue was acknowledged, so that the queue can be joined again *)
M_QueueJoinable == Terminated => unfinished = 0
C03_Terminates == <>Terminated
TypeOK == /\ unfinished >= 0 /\ cvOwner \in {0, M} \cup Workers
          /\ Len(queue) <= N + W

(* witnesses (negated reachability; TLC must report them violated) *)
W_WaitReached     == mpc # "wait"
W_NotifyNobody    == ~(\E w \in Workers : wpc[w] = "notify" /\ ~cvWaiting /\ mpc = "decide")
W_Skipped         == ~(\E t \in Tasks : st[t] = "SKIPPED")
W_Raised          == mpc # "raised"
W_TwoRunning      == ~(\E t1, t2 \in Tasks : t1 # t2 /\ Running(t1) /\ Running(t2))
W_DecideDuringPub == ~(mpc = "decide" /\ \E w \in Workers : wpc[w] = "publish" /\ cur[w] \in Deps(left[idx]))
W_SecondCall      == call = 1
W_Dropped         == ~(mpc = "returned" /\ \E t \in Tasks : execs[t] = 0 /\ st[t] = "DONE")
=============================================================================
