------------------------------ MODULE Render ------------------------------
(* C12 -- a rendered test result shows a failure mark exactly when the result
   failed, and its detailed tables highlight exactly the failing rows.

   The module is RELATIONAL.  It does not say which template (nothing, an
   OK/KO line, a summary table, a per-bin table ...) a given result kind gets at
   a given verbosity -- that dispatch belongs to the code and changes freely.
   It says which renderings are ALLOWED.

   Input (variable inp):
      kind   result kind
      verb   verbosity, rep   representer
      shape  shape of the compared datasets (dataset kinds), <<>> otherwise
      fail   the failing pattern, a matrix of naturals whose reading depends on
             the kind:
               dataset kinds   fail[d][b] \in 0..2   dataset d, flat bin b
                                  0 = agrees, 1 = disagrees grossly,
                                  2 = disagrees just enough to fail the plain
                                      Student test but not a corrected one
               metadata        fail[k][s] # 0  key k of sample s differs
               stats_tasks/tests  fail[1][s] = number of items with status s
                                  (status 1 is the success status)
               stats_labels    fail[r] = <<#ok, #ko>> for label row r (<<>>: no row)
               failed          unused
   A rendering (variable out) is a sequence of PARTS.  A part belongs to the
   result itself ("main") or, for the corrected tests (Bonferroni, Holm), to
   the result of the underlying Student test that a representer may choose to
   show as well ("nested").  A part is a text or a table; a table may be laid
   out along the AXIS of its result (one row per bin / dataset / key / status /
   label row) or not ("none").

   Init enumerates the inputs, RenderMain / RenderNested build every member of
   a constructive family of renderings, and the clauses of the property are
   invariants over what was built.  The same predicates judge the projections
   of real renderings in RenderTrace.tla.
*)
EXTENDS Integers, Sequences, FiniteSets, TLC

CONSTANTS Kinds,        \* subset of AllKinds
          ShapeCodes,   \* shapes as decimal codes: 0 = <<>>, 4 = <<4>>, 22 = <<2, 2>> (a cfg file cannot hold tuples)
          MaxDs,        \* 1..MaxDs compared datasets
          FailStates,   \* subset of 0..2 for the corrected kinds and Student; others use FailStates \cap 0..1
          Verbs, Reps,
          MaxKeys, MaxSamp,      \* metadata: keys, compared samples
          MaxCount,              \* stats: items per status
          MaxLabRows,            \* stats by labels: rows
          MaxParts               \* the constructive family uses at most this many parts per result

AllKinds == {"equal", "approx", "student", "bonferroni", "holm", "metadata",
             "stats_tasks", "stats_tests", "stats_labels", "failed"}
DsKinds == {"equal", "approx", "student", "bonferroni", "holm"}
Corrected == {"bonferroni", "holm"}
NStatus(k) == IF k = "stats_tasks" THEN 5 ELSE 3

VARIABLES inp, out, pc
vars == <<inp, out, pc>>

RECURSIVE Digits(_)
Digits(n) == IF n = 0 THEN <<>> ELSE Append(Digits(n \div 10), n % 10)
Shapes == {Digits(c) : c \in ShapeCodes}

RECURSIVE Prod(_)
Prod(s) == IF s = <<>> THEN 1 ELSE Head(s) * Prod(Tail(s))
NBins(i) == Prod(i.shape)
NDs(i) == Len(i.fail)

-----------------------------------------------------------------------------
(* what a case MEANS: per result ("main" / "nested") the axis, the rows that
   exist along it and the rows that fail *)

HasNested(i) == i.kind \in Corrected

Axis(i, who) ==
   IF who = "nested" THEN "bins"
   ELSE CASE i.kind \in {"equal", "approx", "student"} -> "bins"
          [] i.kind \in Corrected                       -> "datasets"
          [] i.kind = "metadata"                        -> "keys"
          [] i.kind \in {"stats_tasks", "stats_tests"}  -> "statuses"
          [] i.kind = "stats_labels"                    -> "labels"
          [] OTHER                                      -> "none"

Rows(i, who) ==
   CASE Axis(i, who) = "bins"     -> 1 .. NBins(i)
     [] Axis(i, who) = "datasets" -> 1 .. NDs(i)
     [] Axis(i, who) = "keys"     -> 1 .. Len(i.fail)
     [] Axis(i, who) = "statuses" -> {s \in 1 .. Len(i.fail[1]) : i.fail[1][s] > 0}
     [] Axis(i, who) = "labels"   -> 1 .. Len(i.fail)
     [] OTHER                     -> {}

Failing(i, who) ==
   CASE Axis(i, who) = "bins"     -> {b \in 1 .. NBins(i) : \E d \in 1 .. NDs(i) : i.fail[d][b] # 0}
     [] Axis(i, who) = "datasets" -> {d \in 1 .. NDs(i) : \E b \in 1 .. NBins(i) : i.fail[d][b] = 1}
     [] Axis(i, who) = "keys"     -> {k \in 1 .. Len(i.fail) : \E s \in 1 .. Len(i.fail[k]) : i.fail[k][s] # 0}
     [] Axis(i, who) = "statuses" -> {s \in 2 .. Len(i.fail[1]) : i.fail[1][s] > 0}
     [] Axis(i, who) = "labels"   -> {r \in 1 .. Len(i.fail) : i.fail[r][2] > 0}
     [] OTHER                     -> {}

(* the verdict of the result *)
Pass(i, who) == IF who = "main" /\ i.kind = "failed" THEN FALSE ELSE Failing(i, who) = {}

-----------------------------------------------------------------------------
(* the property, as predicates over an input i and a rendering o
      o = [raised : BOOLEAN, invalid : BOOLEAN, parts : Seq(Part)]
      Part = [who, type, axis, mark : BOOLEAN, shown : set of row ids, hl : set of row ids,
              rowsOK : BOOLEAN]
   shown / hl are the rows of an axis table and those among them that carry a
   highlight; id 0 stands for a row that is not a row of the axis (a "total"
   line); rowsOK says that every shown row is a single identifiable row of the
   axis showing that row's own data (for bins: see RowCellsOK below). *)

PartsOf(o, who) == {k \in 1 .. Len(o.parts) : o.parts[k].who = who}
Marked(o, who) == \E k \in PartsOf(o, who) : o.parts[k].mark

(* "for all result kinds ... all representers": rendering is total *)
P_NoRaise(i, o) == ~o.raised
(* "the tables produced are valid reStructuredText" *)
P_ValidRst(i, o) == ~o.invalid

(* "at any non-silent verbosity the rendering carries a highlight or KO mark if and only if the
   result is false"; at SILENT nothing is claimed *)
P_MarkIff(i, o) == i.verb # "SILENT" => (Marked(o, "main") <=> ~Pass(i, "main"))

(* marks of the underlying test's parts speak about the underlying test: they never appear when
   it passed, and when it failed and is shown at all it is shown as failed *)
P_NestedMark(i, o) ==
   /\ PartsOf(o, "nested") # {} => HasNested(i)
   /\ Marked(o, "nested") => ~Pass(i, "nested")
   /\ (i.verb # "SILENT" /\ PartsOf(o, "nested") # {} /\ ~Pass(i, "nested")) => Marked(o, "nested")

AxisTable(p) == p.type = "table" /\ p.axis # "none"

(* "in detailed tables the highlighted rows are exactly the failing bins, shown with the values,
   errors and bin labels of those bins" *)
TableRowsOK(i, p) ==
   /\ p.axis = Axis(i, p.who)
   /\ p.shown \ {0} \subseteq Rows(i, p.who)
   /\ Failing(i, p.who) \subseteq p.shown
   /\ p.hl \ {0} = Failing(i, p.who) \cap p.shown
   /\ (0 \in p.hl => ~Pass(i, p.who))
   /\ p.rowsOK
P_BinRows(i, o)  == \A k \in DOMAIN o.parts : AxisTable(o.parts[k]) /\ o.parts[k].axis = "bins"
                                                => TableRowsOK(i, o.parts[k]) /\ 0 \notin o.parts[k].shown
(* the same for tables with one row per compared dataset / metadata key / status / label row *)
P_ItemRows(i, o) == \A k \in DOMAIN o.parts : AxisTable(o.parts[k]) /\ o.parts[k].axis # "bins"
                                                => TableRowsOK(i, o.parts[k])

(* no part carries a mark for a result that passed (also at SILENT) *)
P_NoFalseAlarm(i, o) == \A k \in DOMAIN o.parts : o.parts[k].mark => ~Pass(i, o.parts[k].who)

Allowed(i, o) == /\ P_NoRaise(i, o) /\ P_ValidRst(i, o) /\ P_MarkIff(i, o) /\ P_NestedMark(i, o)
                 /\ P_BinRows(i, o) /\ P_ItemRows(i, o) /\ P_NoFalseAlarm(i, o)

(* cell level, used on parsed tables: tok[b] = [vals, errs, labels : sequences of strings] are the
   formatted values / errors of every dataset in bin b and the labels of bin b along the
   non-trivial dimensions.  A row given by the set of its cell texts belongs to bin b iff it shows
   all labels of b; it then has to show b's values (and b's errors if the table shows errors at
   all) and nothing that belongs to another bin only. *)
Range(s) == {s[k] : k \in DOMAIN s}
TokensOf(tok, b) == Range(tok[b].vals) \cup Range(tok[b].errs) \cup Range(tok[b].labels)
RowBins(cells, tok) == {b \in DOMAIN tok : Range(tok[b].labels) \subseteq cells}
ShowsErrors(allcells, tok) == \E b \in DOMAIN tok : Range(tok[b].errs) \cap allcells # {}
RowCellsOK(cells, allcells, tok) ==
   /\ Cardinality(RowBins(cells, tok)) = 1
   /\ LET b == CHOOSE b \in RowBins(cells, tok) : TRUE IN
      /\ Range(tok[b].vals) \subseteq cells
      /\ ShowsErrors(allcells, tok) => Range(tok[b].errs) \subseteq cells
      /\ \A c \in DOMAIN tok : c # b => (cells \cap TokensOf(tok, c)) \subseteq TokensOf(tok, b)

(* columns headed by the name of a thing ("shown with the values ... of those bins", "cells read back
   as the formatted inputs": a value stands under the header of the thing it is the value of).
   Per-bin tables: ds[k] = d > 0 says that the header of column k names dataset d (1 = the
   reference) and no other dataset.  In the row of bin b a cell of such a column that shows a value
   or an error of bin b at all shows the value or the error of dataset d. *)
BinNumbers(tok, b) == Range(tok[b].vals) \cup Range(tok[b].errs)
DsCellsOK(cells, ds, tok, b) ==
   b \in DOMAIN tok => \A k \in DOMAIN cells :
      (k \in DOMAIN ds /\ ds[k] # 0 /\ ds[k] \in DOMAIN tok[b].vals /\ cells[k] \in BinNumbers(tok, b))
         => cells[k] \in {tok[b].vals[ds[k]], tok[b].errs[ds[k]]}
(* tables with one row per item: expect = the <<header, text>> pairs of the row's item; a column
   whose header is the header of a pair shows the text of that pair *)
NamedCellsOK(heads, cells, expect) ==
   \A k \in DOMAIN cells : \A e \in DOMAIN expect :
      (k \in DOMAIN heads /\ expect[e].h = heads[k]) => cells[k] = expect[e].s

-----------------------------------------------------------------------------
(* the state machine: enumerate inputs, build renderings *)

Pattern(k) ==
   CASE k \in DsKinds ->
           LET st == IF k \in {"student"} \cup Corrected THEN FailStates ELSE FailStates \cap (0 .. 1) IN
           UNION {[1 .. nd -> [1 .. Prod(sh) -> st]] : nd \in 1 .. MaxDs, sh \in Shapes}
     [] k = "metadata" ->
           UNION {[1 .. nk -> [1 .. ns -> 0 .. 1]] : nk \in 1 .. MaxKeys, ns \in 1 .. MaxSamp}
     [] k \in {"stats_tasks", "stats_tests"} ->
           \* beyond the first two statuses at most one has several items (bounds the enumeration)
           {<<c>> : c \in {c \in [1 .. NStatus(k) -> 0 .. MaxCount] :
                                 (\E s \in DOMAIN c : c[s] > 0)
                                 /\ Cardinality({s \in 3 .. NStatus(k) : c[s] > 1}) <= 1}}
     [] k = "stats_labels" ->
           \* nr = 0: no test carries every selected label, the summary has no row at all (and passes)
           UNION {[1 .. nr -> {<<1, 0>>, <<2, 0>>, <<1, 1>>, <<0, 1>>, <<0, 2>>}] : nr \in 0 .. MaxLabRows}
     [] OTHER -> {<<<<1>>>>}

ShapeOK(k, sh, f) == IF k \in DsKinds THEN \A d \in DOMAIN f : Len(f[d]) = Prod(sh) ELSE sh = <<>>

NoOut == [raised |-> FALSE, invalid |-> FALSE, parts |-> <<>>]

Init == /\ \E k \in Kinds, v \in Verbs, r \in Reps :
             \E f \in Pattern(k) :
                \E sh \in (IF k \in DsKinds THEN Shapes ELSE {<<>>}) :
                   /\ ShapeOK(k, sh, f)
                   /\ inp = [kind |-> k, verb |-> v, rep |-> r, shape |-> sh, fail |-> f]
        /\ out = NoOut /\ pc = "input"

(* single parts a result may be shown by *)
Forms(i, who) ==
   LET F == Failing(i, who)  U == Rows(i, who)  ax == Axis(i, who)  ko == ~Pass(i, who)
       part(ty, a, m, s, h) == [who |-> who, type |-> ty, axis |-> a, mark |-> m, shown |-> s, hl |-> h,
                                rowsOK |-> TRUE]
   IN  {part("text", "none", ko, {}, {}), part("text", "none", FALSE, {}, {}),
        part("table", "none", ko, {}, {}), part("table", "none", FALSE, {}, {})}
       \cup (IF ax = "none" THEN {}
             ELSE {part("table", ax, F # {}, S, F) : S \in {S \in SUBSET U : F \subseteq S /\ S # {}}}
                  \cup (IF ax = "bins" THEN {}
                        ELSE {part("table", ax, F # {}, S \cup {0}, F) : S \in {S \in SUBSET U : F \subseteq S}}))

SeqsUpTo(S, n) == UNION {[1 .. m -> S] : m \in 0 .. n}

(* several parts together: nobody is marked for a result that passed; a failed result shown at a
   non-silent verbosity is marked somewhere (the underlying test only if it is shown at all) *)
MarkRule(i, who, ps) ==
   LET m == \E k \in DOMAIN ps : ps[k].mark IN
   /\ m => ~Pass(i, who)
   /\ (i.verb # "SILENT" /\ ~Pass(i, who) /\ (who = "main" \/ ps # <<>>)) => m

Renderings(i, who) == {ps \in SeqsUpTo(Forms(i, who), MaxParts) : MarkRule(i, who, ps)}

RenderMain == /\ pc = "input" /\ pc' = IF HasNested(inp) THEN "main" ELSE "rendered"
              /\ \E ps \in Renderings(inp, "main") : out' = [out EXCEPT !.parts = ps]
              /\ UNCHANGED inp
RenderNested == /\ pc = "main" /\ pc' = "rendered"
                /\ \E ps \in Renderings(inp, "nested") : out' = [out EXCEPT !.parts = out.parts \o ps]
                /\ UNCHANGED inp
Next == RenderMain \/ RenderNested
Spec == Init /\ [][Next]_vars

(* for enumerating the inputs only *)
NoNext == FALSE /\ UNCHANGED vars

-----------------------------------------------------------------------------
Rendered == pc = "rendered"

C12_NoRaise      == Rendered => P_NoRaise(inp, out)
C12_ValidRst     == Rendered => P_ValidRst(inp, out)
C12_MarkIff      == Rendered => P_MarkIff(inp, out)
C12_NestedMark   == Rendered => P_NestedMark(inp, out)
C12_BinRows      == Rendered => P_BinRows(inp, out)
C12_ItemRows     == Rendered => P_ItemRows(inp, out)
C12_NoFalseAlarm == Rendered => P_NoFalseAlarm(inp, out)

(* sanity of the reading of the patterns: the verdict of a corrected test implies nothing about
   the underlying one, but a failing corrected test has a failing underlying test *)
C12_Meaning == HasNested(inp) /\ ~Pass(inp, "main") => ~Pass(inp, "nested")

(* witnesses (negated reachability; TLC must violate each) *)
W_FailShownWithPassingRows == ~(Rendered /\ \E k \in DOMAIN out.parts :
                                   AxisTable(out.parts[k]) /\ out.parts[k].hl # {} /\ out.parts[k].shown # out.parts[k].hl)
W_PassTable      == ~(Rendered /\ Pass(inp, "main") /\ \E k \in DOMAIN out.parts : AxisTable(out.parts[k]) /\ out.parts[k].who = "main")
W_SilentNothing  == ~(Rendered /\ inp.verb = "SILENT" /\ ~Pass(inp, "main") /\ out.parts = <<>>)
W_NestedOnlyFails == ~(Rendered /\ HasNested(inp) /\ Pass(inp, "main") /\ Marked(out, "nested"))
W_TotalRow       == ~(Rendered /\ \E k \in DOMAIN out.parts : 0 \in out.parts[k].shown)
=============================================================================
