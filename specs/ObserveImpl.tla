---------------------------- MODULE ObserveImpl ----------------------------
(* Implementation-level model for C13: the one piece of hidden state the code
   has.  The task / test summaries (kinds in `Classified`) keep their
   classification in a defaultdict(list)  status -> names  and derive the
   verdict from its KEY SET:
        bool(result)  ==  the success key is present and it is the only key
   (valjean/gavroche/diagnostics/stats.py, TestResultStatsTasks.__bool__).
   The counting helper `classification_counts`, used by every table / plot
   representation of those kinds, looks the dictionary up for every possible
   status.

   Inserting = FALSE   the look-up does not insert (`.get`): the intended
                       behaviour -- this is the main model; TLC checks that it
                       refines Observe (Refines, ReadOnlyImpl, DeterministicImpl).
   Inserting = TRUE    the code as found: indexing a defaultdict inserts the
                       missing key.  Kept as a NEGATIVE SELF-TEST: TLC must
                       refute the refinement, and its counterexample
                       (e.g. Evaluate; table; bool) is replayed on the code.

   Statuses are abstracted to "OK" (DONE / SUCCESS), "KO" (the failing statuses
   present in the failing variant) and "OTHER" (every status absent from the
   input). *)
EXTENDS Integers, Sequences, FiniteSets, TLC

CONSTANTS Kinds, Origins, AlwaysBad, PlainOps, VerbOps, Verbs, MaxLen,
          Classified,   \* kinds whose verdict is derived from the dictionary keys
          Inserting     \* BOOLEAN, see above

VARIABLES kind, origin, good, pc, hist,
          keys,    \* key set of the dictionary behind `classify` ({} for the other kinds)
          dupKeys  \* key set inside the last duplicate (copy / pickle / reeval)
ivars == <<kind, origin, good, pc, hist, keys, dupKeys>>

AllStatuses == {"OK", "KO", "OTHER"}
FreshKeys(k, g) == IF k \in Classified THEN (IF g THEN {"OK"} ELSE {"OK", "KO"}) ELSE {}
VerdictOf(k, g, ks) == IF k \in Classified THEN ks = {"OK"} ELSE g
Verdict == VerdictOf(kind, good, keys)

(* refinement mapping *)
AbsOf(k, o, g, ks) == [verdict |-> VerdictOf(k, g, ks), stats |-> <<"stats", k, o, g>>, data |-> <<"data", k, o, g>>]
Unset == [verdict |-> FALSE, stats |-> <<"none", "", "", FALSE>>, data |-> <<"none", "", "", FALSE>>]
AbsImpl == IF pc = "new" THEN Unset ELSE AbsOf(kind, origin, good, keys)
DupImpl == IF pc = "new" THEN Unset ELSE AbsOf(kind, origin, good, dupKeys)

O == INSTANCE Observe WITH abs <- AbsImpl, dup <- DupImpl

(* does the operation go through classification_counts ? *)
Counts(o) == \/ o.op \in {"counts", "plot", "full", "rst", "draw"}
             \/ o.op = "table" /\ ~(o.verb = 0 /\ Verdict)     \* SILENT table of a successful summary is empty
AfterRead(o) == IF kind \in Classified /\ Inserting /\ Counts(o) THEN keys \cup AllStatuses ELSE keys

Init == /\ kind \in Kinds
        /\ origin \in Origins        \* the dictionary travels unchanged through every way of obtaining the summary
        /\ good \in IF kind \in AlwaysBad THEN {FALSE} ELSE BOOLEAN
        /\ pc = "new" /\ hist = <<>> /\ keys = {} /\ dupKeys = {}

Evaluate == /\ pc = "new" /\ pc' = "ready"
            /\ keys' = FreshKeys(kind, good) /\ dupKeys' = FreshKeys(kind, good)
            /\ UNCHANGED <<kind, origin, good, hist>>

Read(o) == /\ pc = "ready" /\ Len(hist) < MaxLen
           /\ hist' = Append(hist, o)
           /\ keys' = AfterRead(o)
           /\ dupKeys' = CASE o.op \in {"copy", "pickle"} -> keys     \* a duplicate carries the dictionary as it is
                           [] o.op = "reeval" -> FreshKeys(kind, good) \* a new evaluation starts afresh
                           [] OTHER -> dupKeys
           /\ UNCHANGED <<kind, origin, good, pc>>

Next == Evaluate \/ \E o \in O!Ops : Read(o)
Spec == Init /\ [][Next]_ivars

Refines == O!Spec
RefinesInit == O!Init                      \* the two halves of Refines, named so that TLC reports them by name
RefinesNext == [][O!Next]_(O!vars)
ReadOnlyImpl == O!ReadOnly
DeterministicImpl == O!Deterministic
VerdictIsTruthImpl == O!VerdictIsTruth

(* the hidden state only ever grows by empty classes *)
KeysGrow == [][keys \subseteq keys']_ivars
W_KeysInserted == ~(kind \in Classified /\ "OTHER" \in keys)
=============================================================================
