----------------------------- MODULE EnvOpsLaws -----------------------------
(* Laws of the merge performed by Env.apply, checked by TLC over every (entry, update) pair of the small domain.
   Kept apart from EnvOps because TLC evaluates the constant-level definition `Entries` eagerly at start-up. *)
EXTENDS EnvOps
Entries == {Node(m) : m \in Maps(L1)}                  \* a task entry is a mapping
(* C01 rests on these two: they are theorems of Merge, checked here on the whole small domain *)
ApplyMakesReadable == \A e \in Entries, u \in Maps(L1) :
                         ~Clash(e.m, u) => Readable(Merge(e.m, u), u)
ApplyLosesNothing  == \A e \in Entries, u \in Maps(L1) :
                         ~Clash(e.m, u) => Preserved(e.m, Merge(e.m, u), u)
(* a mapping of the update that meets a leaf takes its place *)
ApplyReplacesLeafByMapping == \A e \in Entries, u \in Maps(L1) :
                         \A k \in DOMAIN u \cap DOMAIN e.m : IsNode(u[k]) /\ ~IsNode(e.m[k]) => Merge(e.m, u)[k] = u[k]
=============================================================================
