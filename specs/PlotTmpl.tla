------------------------------ MODULE PlotTmpl ------------------------------
(* valjean.javert.templates: CurveElements, SubPlotElements (+ SubPlotAttributes), PlotTemplate and the module
   function join -- an extra module (outside the listed properties): a pool of plot templates over a small abstract
   heap, so that who shares which object with whom is part of the state.

   Sentences modelled (docstrings of valjean/javert/templates.py, valjean/fingerprint.py, tests/javert/test_templates.py):
     * PlotTemplate / SubPlotElements / CurveElements / SubPlotAttributes .copy: "Copy a ... object"; TextTemplate,
       same module: "The copy doesn't affect the original"  -> a copy owns every mutable object it holds
       (arrays, axis-name list, limits, lines, backend_kw) and carries the same data, options included.
     * PlotTemplate: "join ... used to concatenate PlotTemplate"; "a new PlotTemplate is obtained, containing three
       subplots, each one containing one curve"; "the PlotTemplate.join method updates the left PlotTemplate as
       expected: pit1.join(pit2, pit3); pit1 == splt123"; "A new curve with the same axes will also create a new
       subplot"; keeps the options of the left operand ("keeping self one").
     * join(*templates): "It returns a new templates" -> the result owns what it holds: writing into it changes
       none of the operands, writing into an operand does not change it.  The same reading is taken for the method
       (a.join(b) takes b's subplots over by value; b stays what it was and stays independent).  The docstrings do
       not say it in so many words: a disagreement here is reported under its own clause names (join-shares-*).
     * data(): "objects ... that (as a whole) represent a serialized version of self", "Two ... objects containing
       equal data yield the same data"; fingerprint: "represents the state of the object in a compact way";
       __eq__: "Test for equality of self and another ..."  -> equality and fingerprint are functions of the
       CONTENT (per subplot: axis names, plot type, and per curve values, bins, errors, legend, index -- what data()
       serialises; the attributes and the template options are in neither): equal content <=> == <=> equal
       fingerprint on the enumerated domain (tests: "changing the ... affects its fingerprint", `a == a.copy()`).
     * nb_plots is the number of subplots; curves_index: "Return a sorted list of unique index of the curves".

   Heap.  content[b] is the data token currently in buffer b (equal tokens = equal data; 0 = None / empty);
   subs[s] is a subplot OBJECT: the buffers it holds (ax = the axis-name list, lim / lines = the attributes'
   limits and lines, per curve val / bins / err) and its scalars (logx, per curve leg, idx);
   tpls[t] is a template: the sequence of subplot objects it holds, its backend_kw buffer and the small_subplots flag.
   Two templates share data iff they hold the same buffer / subplot number.

   All operations are pure operators on a heap record h = [tpls, subs, content] (PlotTmplTrace applies them to heaps
   observed on the real classes); the state machine below enumerates histories; the laws are invariants. *)
EXTENDS Integers, Sequences, FiniteSets, TLC

CONSTANTS ShapeCodes, \* shapes of new templates, coded in decimal: 2 = one subplot with 2 curves, 11 = two subplots with one curve each
          Fulls,     \* subset of BOOLEAN: with errors / limits / lines / backend_kw, or without (None, {})
          Vals,      \* data tokens, 1 .. n
          MaxTpl,    \* templates in the pool
          MaxOps,    \* operations of a history (after the initial templates)
          MaxMut,    \* of which writes
          MutFields  \* fields the enumeration writes into

ShapeOf(n) == IF n < 10 THEN <<n>> ELSE <<n \div 10, n % 10>>
Shapes == {ShapeOf(n) : n \in ShapeCodes}

VARIABLES heap, hist, n0
vars == <<heap, hist, n0>>

Empty == [tpls |-> <<>>, subs |-> <<>>, content |-> <<>>]
Range(f) == {f[x] : x \in DOMAIN f}
RECURSIVE Cat(_)
Cat(ss) == IF ss = <<>> THEN <<>> ELSE Head(ss) \o Cat(Tail(ss))

BufT == {"kw"}                   ScalT == {"small"}
BufS == {"ax", "lim", "lines"}   ScalS == {"logx"}
BufC == {"val", "bins", "err"}   ScalC == {"leg", "idx"}
BufFields == BufT \cup BufS \cup BufC
ContentFields == {"ax", "val", "bins", "err", "leg", "idx"}      \* what == and the fingerprint look at

-----------------------------------------------------------------------------
(* what a template says, without the identities: by value *)
FullCurve(h, c) == [val |-> h.content[c.val], bins |-> h.content[c.bins], err |-> h.content[c.err], leg |-> c.leg, idx |-> c.idx]
FullSub(h, s) == LET r == h.subs[s] IN
   [ax |-> h.content[r.ax], lim |-> h.content[r.lim], lines |-> h.content[r.lines], logx |-> r.logx,
    curves |-> [k \in DOMAIN r.curves |-> FullCurve(h, r.curves[k])]]
Full(h, t) == [small |-> h.tpls[t].small, kw |-> h.content[h.tpls[t].kw],
               subs |-> [m \in DOMAIN h.tpls[t].subs |-> FullSub(h, h.tpls[t].subs[m])]]
(* the content: what data() serialises and == compares *)
ContentOfFull(fc) == [m \in DOMAIN fc.subs |-> [ax |-> fc.subs[m].ax, curves |-> fc.subs[m].curves]]
Content(h, t) == ContentOfFull(Full(h, t))
Eq(h, a, b) == Content(h, a) = Content(h, b)
(* the fingerprint is an injective function of the content on the enumerated domain: two templates have the same
   fingerprint iff SameFp *)
SameFp(h, a, b) == Content(h, a) = Content(h, b)
NbPlots(h, t) == Len(h.tpls[t].subs)
IndexSetOf(h, t) == UNION {{h.subs[s].curves[k].idx : k \in DOMAIN h.subs[s].curves} : s \in Range(h.tpls[t].subs)}
RECURSIVE SortedSeq(_)
SortedSeq(S) == IF S = {} THEN <<>> ELSE LET m == CHOOSE x \in S : \A y \in S : x <= y IN <<m>> \o SortedSeq(S \ {m})
CurvesIndex(h, t) == SortedSeq(IndexSetOf(h, t))

(* the objects a template holds *)
Reach(h, t, f) ==
   IF f \in BufT THEN {h.tpls[t][f]}
   ELSE IF f \in BufS THEN {h.subs[s][f] : s \in Range(h.tpls[t].subs)}
   ELSE UNION {{h.subs[s].curves[k][f] : k \in DOMAIN h.subs[s].curves} : s \in Range(h.tpls[t].subs)}
Bufs(h, t) == UNION {Reach(h, t, f) : f \in BufFields}
SubsOf(h, t) == Range(h.tpls[t].subs)

-----------------------------------------------------------------------------
(* allocation: fresh subplot objects with fresh buffers for the by-value subplots fs.  Order of allocation (the
   harness numbers the objects it meets in the same order): per subplot ax, lim, lines, then per curve val, bins, err *)
SubSize(f) == 3 + 3 * Len(f.curves)
RECURSIVE SumSizes(_, _)
SumSizes(fs, q) == IF q = 0 THEN 0 ELSE SubSize(fs[q]) + SumSizes(fs, q - 1)
AddSubs(h, fs) ==
   LET nb == Len(h.content)   ns == Len(h.subs)
       off(m) == nb + SumSizes(fs, m - 1)
       obj(m) == [ax |-> off(m) + 1, lim |-> off(m) + 2, lines |-> off(m) + 3, logx |-> fs[m].logx,
                  curves |-> [k \in DOMAIN fs[m].curves |->
                                [val |-> off(m) + 3 * k + 1, bins |-> off(m) + 3 * k + 2, err |-> off(m) + 3 * k + 3,
                                 leg |-> fs[m].curves[k].leg, idx |-> fs[m].curves[k].idx]]]
       data(m) == <<fs[m].ax, fs[m].lim, fs[m].lines>>
                  \o Cat([k \in DOMAIN fs[m].curves |-> <<fs[m].curves[k].val, fs[m].curves[k].bins, fs[m].curves[k].err>>])
   IN [h   |-> [tpls |-> h.tpls, subs |-> h.subs \o [m \in DOMAIN fs |-> obj(m)],
                content |-> h.content \o Cat([m \in DOMAIN fs |-> data(m)])],
       ids |-> [m \in DOMAIN fs |-> ns + m]]
(* a new template saying fc: its backend_kw first, then its subplots *)
AddTpl(h, fc) ==
   LET h1 == [h EXCEPT !.content = Append(@, fc.kw)]
       r  == AddSubs(h1, fc.subs)
   IN [r.h EXCEPT !.tpls = Append(@, [subs |-> r.ids, kw |-> Len(h.content) + 1, small |-> fc.small])]

(* PlotTemplate(subplots=[SubPlotElements(curves=[...]), ...]): shape[m] curves in subplot m, all data = v, the m-th
   subplot's k-th curve has legend k; optional parts present iff full.  A value above 3 stands for 2-D data (only in
   recorded histories): other bins (token 4: two arrays), otherwise the same *)
NewFull(shape, v, full) ==
   LET o == IF full THEN v ELSE 0 IN
   [small |-> 1, kw |-> o,
    subs |-> [m \in DOMAIN shape |-> [ax |-> v, lim |-> o, lines |-> o, logx |-> 1,
                                      curves |-> [k \in 1 .. shape[m] |-> [val |-> v, bins |-> IF v > 3 THEN 4 ELSE 1, err |-> o, leg |-> k, idx |-> 1]]]]]
NewH(h, shape, v, full) == AddTpl(h, NewFull(shape, v, full))
(* t.copy() *)
CopyH(h, t) == AddTpl(h, Full(h, t))
(* a.join(b): a gets b's subplots, by value, after its own; a's options stay; b is not touched (b may be a) *)
JoinH(h, a, b) == LET r == AddSubs(h, Full(h, b).subs) IN [r.h EXCEPT !.tpls[a].subs = @ \o r.ids]
(* a deliberately wrong join (b's subplots first) for the negative self-test of the harness *)
JoinHPrepends(h, a, b) == LET r == AddSubs(h, Full(h, b).subs) IN [r.h EXCEPT !.tpls[a].subs = r.ids \o @]
(* join(a, b): a new template *)
JoinNewH(h, a, b) == AddTpl(h, [Full(h, a) EXCEPT !.subs = @ \o Full(h, b).subs])
(* the user writes v into field f of template t / its s-th subplot / the c-th curve of that (in place for the
   buffers: array cell, list item, dict item; attribute assignment for the scalars) *)
MutH(h, t, s, c, f, v) ==
   IF f \in ScalT THEN [h EXCEPT !.tpls[t][f] = v]
   ELSE IF f \in BufT THEN [h EXCEPT !.content[h.tpls[t][f]] = v]
   ELSE LET sid == h.tpls[t].subs[s] IN
        IF f \in ScalS THEN [h EXCEPT !.subs[sid][f] = v]
        ELSE IF f \in BufS THEN [h EXCEPT !.content[h.subs[sid][f]] = v]
        ELSE IF f \in ScalC THEN [h EXCEPT !.subs[sid].curves[c][f] = v]
        ELSE [h EXCEPT !.content[h.subs[sid].curves[c][f]] = v]
Current(h, t, s, c, f) ==
   IF f \in ScalT THEN h.tpls[t][f]
   ELSE IF f \in BufT THEN h.content[h.tpls[t][f]]
   ELSE LET sid == h.tpls[t].subs[s] IN
        IF f \in ScalS THEN h.subs[sid][f]
        ELSE IF f \in BufS THEN h.content[h.subs[sid][f]]
        ELSE IF f \in ScalC THEN h.subs[sid].curves[c][f]
        ELSE h.content[h.subs[sid].curves[c][f]]
ValidPath(h, t, s, c, f) ==
   /\ t \in DOMAIN h.tpls
   /\ IF f \in BufT \cup ScalT THEN s = 0 /\ c = 0
      ELSE /\ s \in DOMAIN h.tpls[t].subs
           /\ IF f \in BufS \cup ScalS THEN c = 0 ELSE c \in DOMAIN h.subs[h.tpls[t].subs[s]].curves
(* a None (limits, lines, errors) cannot be written into; an empty backend_kw can (a key is added) *)
Writable(h, t, s, c, f) == ValidPath(h, t, s, c, f) /\ (f \in {"lim", "lines", "err"} => Current(h, t, s, c, f) # 0)

NoOp == [op |-> "", i |-> 0, j |-> 0, s |-> 0, c |-> 0, f |-> "", v |-> 0, shape |-> <<>>, full |-> FALSE]
ApplyOp(h, e) ==
   CASE e.op = "new"     -> NewH(h, e.shape, e.v, e.full)
     [] e.op = "copy"    -> CopyH(h, e.i)
     [] e.op = "join"    -> JoinH(h, e.i, e.j)
     [] e.op = "joinnew" -> JoinNewH(h, e.i, e.j)
     [] e.op = "mutate"  -> MutH(h, e.i, e.s, e.c, e.f, e.v)
     [] OTHER            -> h

-----------------------------------------------------------------------------
(* the pool as a state machine *)
NewOp(shape, v, full) == [NoOp EXCEPT !.op = "new", !.shape = shape, !.v = v, !.full = full]
Init == \E sa \in Shapes, fa \in Fulls : \E second \in BOOLEAN : \E sb \in Shapes, fb \in {fa}, vb \in Vals :
           /\ (~second => sb = sa /\ vb = 1)
           /\ hist = IF second THEN <<NewOp(sa, 1, fa), NewOp(sb, vb, fb)>> ELSE <<NewOp(sa, 1, fa)>>
           /\ heap = IF second THEN NewH(NewH(Empty, sa, 1, fa), sb, vb, fb) ELSE NewH(Empty, sa, 1, fa)
           /\ n0 = Len(hist)
Budget == Len(hist) - n0 < MaxOps
Room   == Len(heap.tpls) < MaxTpl
NMut   == Cardinality({k \in DOMAIN hist : hist[k].op = "mutate"})
Do(e)  == heap' = ApplyOp(heap, e) /\ hist' = Append(hist, e) /\ UNCHANGED n0

New == Budget /\ Room /\ Len(heap.tpls) < 2 /\ \E sh \in Shapes, v \in Vals, fl \in Fulls : Do(NewOp(sh, v, fl))
Copy == Budget /\ Room /\ \E t \in DOMAIN heap.tpls : Do([NoOp EXCEPT !.op = "copy", !.i = t])
Join == Budget /\ \E a, b \in DOMAIN heap.tpls :
           Len(heap.tpls[a].subs) + Len(heap.tpls[b].subs) <= 4 /\ Do([NoOp EXCEPT !.op = "join", !.i = a, !.j = b])
JoinNew == Budget /\ Room /\ \E a, b \in DOMAIN heap.tpls :
           Len(heap.tpls[a].subs) + Len(heap.tpls[b].subs) <= 4 /\ Do([NoOp EXCEPT !.op = "joinnew", !.i = a, !.j = b])
Mutate == Budget /\ NMut < MaxMut /\
          \E t \in DOMAIN heap.tpls, f \in MutFields :
             \E s \in (IF f \in BufT \cup ScalT THEN {0} ELSE DOMAIN heap.tpls[t].subs) :
                \E c \in (IF f \in BufC \cup ScalC THEN DOMAIN heap.subs[heap.tpls[t].subs[s]].curves ELSE {0}) :
                   \E v \in Vals \ {Current(heap, t, s, c, f)} :
                      /\ Writable(heap, t, s, c, f)
                      /\ Do([NoOp EXCEPT !.op = "mutate", !.i = t, !.s = s, !.c = c, !.f = f, !.v = v])
Next == New \/ Copy \/ Join \/ JoinNew \/ Mutate
Spec == Init /\ [][Next]_vars

-----------------------------------------------------------------------------
(* laws *)
Pool == DOMAIN heap.tpls
TypeOK ==
   /\ \A t \in Pool : /\ Bufs(heap, t) \subseteq DOMAIN heap.content /\ SubsOf(heap, t) \subseteq DOMAIN heap.subs
   /\ \A b \in DOMAIN heap.content : heap.content[b] \in Vals \cup {0}
(* nothing is shared: distinct templates hold disjoint objects, a template holds a subplot object once *)
NoSharing ==
   LET B == [t \in Pool |-> Bufs(heap, t)]  S == [t \in Pool |-> SubsOf(heap, t)] IN
   /\ \A a, b \in Pool : a # b => B[a] \cap B[b] = {} /\ S[a] \cap S[b] = {}
   /\ \A t \in Pool : Cardinality(S[t]) = Len(heap.tpls[t].subs)
(* a == a.copy(), same fingerprint, same options; the copy owns everything it holds; the original is as it was *)
CopyLaw == \A t \in Pool : LET h2 == CopyH(heap, t)  n == Len(h2.tpls) IN
              /\ Eq(h2, t, n) /\ Eq(h2, n, t) /\ SameFp(h2, t, n) /\ Full(h2, n) = Full(heap, t)
              /\ \A u \in Pool : Bufs(h2, n) \cap Bufs(h2, u) = {} /\ SubsOf(h2, n) \cap SubsOf(h2, u) = {}
              /\ \A u \in Pool : h2.tpls[u] = heap.tpls[u] /\ Full(h2, u) = Full(heap, u)
EqLaw == LET C == [t \in Pool |-> Content(heap, t)]
             E == [a \in Pool |-> [b \in Pool |-> Eq(heap, a, b)]] IN
         \A a, b \in Pool : /\ E[a][a]
                            /\ E[a][b] = E[b][a]
                            /\ E[a][b] = (C[a] = C[b])
                            /\ E[a][b] = SameFp(heap, a, b)
                            /\ \A c \in Pool : E[a][b] /\ E[b][c] => E[a][c]
(* join: content = left then right, in order; left's options kept; the right operand and every other template are
   what they were; nb_plots adds up *)
JoinLaw == \A a, b \in Pool : LET h2 == JoinH(heap, a, b) IN
              /\ Content(h2, a) = Content(heap, a) \o Content(heap, b)
              /\ Full(h2, a).subs = Full(heap, a).subs \o Full(heap, b).subs
              /\ Full(h2, a).kw = Full(heap, a).kw /\ Full(h2, a).small = Full(heap, a).small
              /\ NbPlots(h2, a) = NbPlots(heap, a) + NbPlots(heap, b)
              /\ \A u \in Pool \ {a} : h2.tpls[u] = heap.tpls[u] /\ Full(h2, u) = Full(heap, u)
              /\ \A u \in Pool \ {a} : Bufs(h2, a) \cap Bufs(h2, u) = {} /\ SubsOf(h2, a) \cap SubsOf(h2, u) = {}
JoinNewLaw == \A a, b \in Pool : LET h2 == JoinNewH(heap, a, b)  n == Len(h2.tpls)  h3 == JoinH(CopyH(heap, a), n, b) IN
              /\ Content(h2, n) = Content(heap, a) \o Content(heap, b)
              /\ Full(h3, n) = Full(h2, n)                               \* join(a, b) is a.copy() then .join(b)
              /\ \A u \in Pool : h2.tpls[u] = heap.tpls[u] /\ Full(h2, u) = Full(heap, u)
              /\ \A u \in Pool : Bufs(h2, n) \cap Bufs(h2, u) = {} /\ SubsOf(h2, n) \cap SubsOf(h2, u) = {}
JoinAssoc == \A a, b, c \in Pool :
              LET l1 == JoinNewH(heap, a, b)  l2 == JoinNewH(l1, Len(l1.tpls), c)
                  r1 == JoinNewH(heap, b, c)  r2 == JoinNewH(r1, a, Len(r1.tpls)) IN
              /\ Content(l2, Len(l2.tpls)) = Content(r2, Len(r2.tpls))
              /\ Content(l2, Len(l2.tpls)) = Content(heap, a) \o Content(heap, b) \o Content(heap, c)
(* a write changes the template it is made through and no other; a changed datum of the content changes == and the
   fingerprint, a changed option / attribute does not *)
WriteLaw == \A t \in Pool, f \in MutFields :
            \A s \in (IF f \in BufT \cup ScalT THEN {0} ELSE DOMAIN heap.tpls[t].subs) :
             \A c \in (IF f \in BufC \cup ScalC THEN DOMAIN heap.subs[heap.tpls[t].subs[s]].curves ELSE {0}) :
              \A v \in Vals \ {Current(heap, t, s, c, f)} :
                 Writable(heap, t, s, c, f) =>
                 LET h1 == CopyH(heap, t)  n == Len(h1.tpls)  h2 == MutH(h1, n, s, c, f, v) IN
                 /\ Full(h2, n) # Full(h1, n)
                 /\ \A u \in Pool : Full(h2, u) = Full(heap, u)
                 /\ Eq(h2, t, n) = (f \notin ContentFields) /\ SameFp(h2, t, n) = (f \notin ContentFields)
                 /\ LET h3 == MutH(h1, t, s, c, f, v) IN Full(h3, n) = Full(heap, t) /\ Full(h3, t) = Full(h2, n)
FrameLaw == [][\A t \in DOMAIN heap.tpls :
                  (hist'[Len(hist')].op \in {"new", "copy", "joinnew"} \/ hist'[Len(hist')].i # t)
                     => heap'.tpls[t] = heap.tpls[t] /\ Full(heap', t) = Full(heap, t)]_vars
(* the same laws on the step actually taken (one application per transition: this is what the big configuration
   checks; the quantified forms above are checked on a smaller one) *)
StepLaw == [][LET e == hist'[Len(hist')]  n == Len(heap'.tpls) IN
               CASE e.op = "new"     -> Full(heap', n) = NewFull(e.shape, e.v, e.full) /\ n = Len(heap.tpls) + 1
                 [] e.op = "copy"    -> /\ Eq(heap', e.i, n) /\ Eq(heap', n, e.i) /\ SameFp(heap', e.i, n)
                                        /\ Full(heap', n) = Full(heap, e.i) /\ n = Len(heap.tpls) + 1
                 [] e.op = "join"    -> /\ Content(heap', e.i) = Content(heap, e.i) \o Content(heap, e.j)
                                        /\ Full(heap', e.i).subs = Full(heap, e.i).subs \o Full(heap, e.j).subs
                                        /\ Full(heap', e.i).kw = Full(heap, e.i).kw /\ Full(heap', e.i).small = Full(heap, e.i).small
                                        /\ NbPlots(heap', e.i) = NbPlots(heap, e.i) + NbPlots(heap, e.j) /\ n = Len(heap.tpls)
                 [] e.op = "joinnew" -> /\ Content(heap', n) = Content(heap, e.i) \o Content(heap, e.j)
                                        /\ Full(heap', n).kw = Full(heap, e.i).kw /\ Full(heap', n).small = Full(heap, e.i).small
                                        /\ n = Len(heap.tpls) + 1
                 [] e.op = "mutate"  -> /\ Full(heap', e.i) # Full(heap, e.i) /\ n = Len(heap.tpls)
                                        /\ (Content(heap', e.i) # Content(heap, e.i)) = (e.f \in ContentFields)]_vars
IndexLaw == \A t \in Pool : LET ci == CurvesIndex(heap, t) IN
              /\ \A k \in 1 .. Len(ci) - 1 : ci[k] < ci[k + 1]
              /\ Range(ci) = IndexSetOf(heap, t)

(* witnesses (negated reachability) *)
Last == hist[Len(hist)]
W_WriteAfterJoin == ~(Len(hist) >= 2 /\ Last.op = "mutate" /\ \E k \in DOMAIN hist : hist[k].op = "join" /\ hist[k].i = Last.i
                        /\ hist[k].i # hist[k].j /\ Last.s > 1 /\ Last.f \in BufC)
W_WriteOriginalAfterCopy == ~(Last.op = "mutate" /\ \E k \in DOMAIN hist : hist[k].op = "copy" /\ hist[k].i = Last.i)
W_EqualWithoutCopy == ~(Len(hist) > n0 /\ \A k \in DOMAIN hist : hist[k].op \notin {"copy"}) \/ ~(\E a, b \in Pool : a # b /\ Eq(heap, a, b) /\ NbPlots(heap, a) = 2)
W_SelfJoin == ~(Last.op = "join" /\ Last.i = Last.j)
Created(k) == Cardinality({q \in 1 .. k : hist[q].op \in {"new", "copy", "joinnew"}})
W_WriteCopy == ~(Last.op = "mutate" /\ Last.f \in BufC /\ \E k \in DOMAIN hist : hist[k].op = "copy" /\ Created(k) = Last.i)
W_Full == ~(Len(hist) - n0 = MaxOps /\ MaxOps > 0)
(* all witnesses in one run: an invariant that is always true and notes which witnesses TLC has met (none of them can
   hold in an initial state, where the registers are reset); the postcondition demands all of them *)
Witnesses == <<W_WriteAfterJoin, W_WriteOriginalAfterCopy, W_EqualWithoutCopy, W_SelfJoin, W_WriteCopy, W_Full>>
MonitorInit == \A k \in 1 .. 6 : TLCSet(10 + k, FALSE)
Monitor == \A k \in 1 .. 6 : Witnesses[k] \/ TLCSet(10 + k, TRUE)
AllWitnessed == \A k \in 1 .. 6 : TLCGet(10 + k)
MInit == Init /\ MonitorInit
MSpec == MInit /\ [][Next]_vars
=============================================================================
