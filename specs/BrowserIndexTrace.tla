-------------------------- MODULE BrowserIndexTrace --------------------------
(* Code -> spec for BrowserIndex: recorded sessions on real valjean Index / Browser objects.  A trace is the base item
   list and a list of events; event 1 is always the build.  Every event carries the operation, the answers of a
   look-up, and -- for EVERY index of the session, after the operation -- the raw projection of the index
   (key -> value -> ids, the 'index' key apart) and the answers of the read-only queries.

   One TLC step per event.  The verdict is total (failing clauses per trace, step and index) and STEP-WISE: the expected
   representation after the step is Apply() of BrowserIndex.tla on the representation OBSERVED before the step (the
   projection is complete, so a session is a behaviour of the specification iff its first state is the built index and
   every step is a step of the specification); the abstract side (items, live ids) is carried by the model. *)
EXTENDS BrowserIndex, Json, IOUtils

Traces  == JsonDeserialize(IOEnv.VERIF_TRACES)
NTraces == Len(Traces)
VARIABLES tid, l
tvars == <<vars, tid, l>>

SetOf(a)   == {a[n] : n \in DOMAIN a}
Pick(j, P(_)) == j[CHOOSE n \in DOMAIN j : P(j[n])]
MetaOf(j)  == [k \in {j[n].k : n \in DOMAIN j} |-> Pick(j, LAMBDA r : r.k = k).v]
ItemsOf(js) == [p \in 1 .. Len(js) |-> MetaOf(js[p])]
InnerOf(vs) == [v \in {vs[m].v : m \in DOMAIN vs} |-> SetOf(Pick(vs, LAMBDA r : r.v = v).ids)]
RepOf(j)   == [k \in {j[n].k : n \in DOMAIN j} |-> InnerOf(Pick(j, LAMBDA r : r.k = k).vs)]
PosOf(j)   == [i \in {j[n].i : n \in DOMAIN j} |-> SetOf(Pick(j, LAMBDA r : r.i = i).ids)]
HasOf(j)   == [k \in {j[n].k : n \in DOMAIN j} |-> Pick(j, LAMBDA r : r.k = k).b]
ValsOf(j)  == [k \in {j[n].k : n \in DOMAIN j} |-> SetOf(Pick(j, LAMBDA r : r.k = k).vs)]
DvOf(j)    == [k \in {j[n].k : n \in DOMAIN j} |-> LET vs == Pick(j, LAMBDA r : r.k = k).vs IN
                                                   [m \in 1 .. Len(vs) |-> <<vs[m].v, SetOf(vs[m].ids)>>]]
DpOf(j)    == [m \in 1 .. Len(j) |-> <<j[m].i, SetOf(j[m].ids)>>]
SeqOf(a)   == [m \in 1 .. Len(a) |-> a[m]]

TInit == /\ tid \in 1 .. NTraces /\ l = 1
         /\ items = ItemsOf(Traces[tid].items) /\ ixs = <<>> /\ hist = <<>>
         /\ TLCSet(tid, 1) /\ TLCSet(NTraces + tid, {})

Ev     == Traces[tid].events[l]
Prev   == Traces[tid].events[l - 1]
OpOf(e) == O(e.op, e.src, e.k, e.v, SetOf(e.ids), e.i)

(* the state before the step: representation as observed after the previous event, abstract side of the model *)
Hyb == IF l = 1 \/ Len(Prev.sess) # Len(ixs) THEN ixs
       ELSE [n \in DOMAIN ixs |-> [ixs[n] EXCEPT !.rep = RepOf(Prev.sess[n].rep), !.pos = PosOf(Prev.sess[n].pos)]]

(* the index an operation creates or edits (0: none, the operation is a question) *)
Target(e, post) == IF e.op \in {"build", "keep", "strip", "merge", "sub"} THEN Len(post)
                   ELSE IF e.op \in {"delkey", "delval", "add"} THEN e.src ELSE 0

EntryClauses(e, n, exp, model) ==
   LET s    == e.sess[n]
       rep  == RepOf(s.rep)
       pos  == PosOf(s.pos)
       q    == s.obs
       o    == ObsOf([rep |-> rep, pos |-> pos, items |-> exp.items])
       tgt  == Target(e, model) = n IN
   {c \in {"result", "index-changed", "abstraction", "not-stripped", "len", "iter", "contains", "values",
           "dump-sorted-keys", "dump-sorted-values", "dump-sorted-index-key", "str", "dump-unsorted-is-str", "dump-raises",
           "browser-keys", "browser-len", "browser-contains", "browser-available-values", "queries-changed",
           "queries-not-read-only"} :
      CASE c = "result"        -> tgt /\ (rep # exp.rep \/ pos # exp.pos)
        [] c = "index-changed" -> ~tgt /\ (rep # exp.rep \/ pos # exp.pos)
        [] c = "abstraction"   -> StripRep(rep) # Abs(model[n].items, model[n].live) \/ StripPos(pos) # [i \in model[n].live |-> {i}]
        [] c = "not-stripped"  -> tgt /\ e.op \in {"build", "keep", "strip", "merge", "sub"} /\ ~NoEmpty(rep)
        [] c = "len"           -> q.len # o.len
        [] c = "iter"          -> \/ SetOf(q.keys) \ {"index"} # o.keys
                                  \/ ("index" \in SetOf(q.keys)) # o.haspos
                                  \/ Len(q.keys) # Cardinality(SetOf(q.keys))
        [] c = "contains"      -> HasOf(q.has) # o.has \/ q.hasindex # o.haspos
        [] c = "values"        -> ValsOf(q.vals) # o.vals
        [] c = "dump-raises"   -> q.dumperr
        [] c = "dump-sorted-keys"      -> ~q.dumperr /\ SeqOf(q.dk) # o.dk
        [] c = "dump-sorted-values"    -> ~q.dumperr /\ DvOf(q.dv) # o.dv
        [] c = "dump-sorted-index-key" -> ~q.dumperr /\ DpOf(q.dp) # o.dp
        [] c = "str"           -> ~q.dumperr /\ (RepOf(q.srep) # rep \/ PosOf(q.spos) # pos)
        [] c = "dump-unsorted-is-str"  -> ~q.dumperr /\ ~q.strsame
        [] c = "browser-keys"  -> q.isbr /\ (SetOf(q.bkeys) \ {"index"} # o.keys \/ ("index" \in SetOf(q.bkeys)) # o.haspos)
        [] c = "browser-len"   -> q.isbr /\ q.blen # o.nitems
        [] c = "browser-contains" -> q.isbr /\ HasOf(q.bhas) # o.has
        [] c = "browser-available-values" -> q.isbr /\ ValsOf(q.bvals) # o.vals
        [] c = "queries-not-read-only" -> ~q.stable        \* the projection taken again after all the queries differs
        [] c = "queries-changed" -> /\ e.op \in {"lookup", "dump"} /\ l > 1 /\ n <= Len(Prev.sess)
                                    /\ q # Prev.sess[n].obs}

StepClauses(e, exp, model) ==
   IF Len(e.sess) # Len(exp) \/ Len(exp) # Len(model) THEN {<<l, "count", 0>>}
   ELSE UNION {{<<l, c, n>> : c \in EntryClauses(e, n, exp[n], model)} : n \in DOMAIN exp}
        \cup (IF e.op = "lookup" /\ (SetOf(e.resv) # ResV(Hyb, OpOf(e)) \/ SetOf(e.resi) # ResI(Hyb, OpOf(e)))
              THEN {<<l, "answer", e.src>>} ELSE {})
        \cup (IF e.exc # "" THEN {<<l, "raises", e.src>>} ELSE {})

TStep == /\ l <= Len(Traces[tid].events)
         /\ LET o     == OpOf(Ev)
                exp   == Apply(Hyb, o)
                model == Apply(ixs, o) IN
            /\ ixs' = model
            /\ TLCSet(NTraces + tid, TLCGet(NTraces + tid) \cup StepClauses(Ev, exp, model))
         /\ hist' = hist /\ items' = items
         /\ l' = l + 1 /\ tid' = tid /\ TLCSet(tid, l + 1)
TSpec == TInit /\ [][TStep]_tvars
Post == JsonSerialize(IOEnv.VERIF_OUT, [reached |-> [t \in 1 .. NTraces |-> TLCGet(t)],
                                        failing |-> [t \in 1 .. NTraces |-> TLCGet(NTraces + t)]])
=============================================================================
