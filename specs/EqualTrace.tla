---------------------------- MODULE EqualTrace ----------------------------
(* Code -> spec direction for the extra module Equal.  Comparisons executed
   on valjean (inputs and every observable) are consumed one per step, first
   the dataset comparisons then the metadata comparisons, and judged against
   the operators of Equal.  The judgement is total: every mismatch is collected
   as <<id, clause, detail>>; closeness judgements that fall on an inexact
   boundary ("band") and comparisons on which the documentation is silent
   ("free": NaN edges) are not judged; the former are counted, the ids of the
   latter returned.

   Input (JSON object, environment variable VERIF_CASES):
     vden            cell value n stands for n / vden (same for the whole batch)
     tols            [[num, den], ...] ascending: grid of rtol and of atol
     nkeys           number of metadata keys
     data            dataset comparisons, each
        id
        ref, oth[]   {names: [str], edges: [[[tag, n], ...], ...], shape: [int], val: [[tag, n], ...]}
                     number = [tag, n]: tag 0 finite n, 1 NaN, 2 +inf, 3 -inf; val in C order
        raised       0 no exception, 1 CheckBinsException, 2 another exception  (TestEqual: evaluate() and bool())
        apraised     the same for TestApproxEqual (any pair of the grid)
        shp          every result array is a boolean array with the shape of the reference
        eq, eqv      result.equal flattened per compared dataset, bool(result)
        ap, apv      [r][a][d][i] result.approx_equal of TestApproxEqual(rtol = tols[r], atol = tols[a]), [r][a] bool(result)
        swap         [r][a][i] the same with reference and the single compared dataset exchanged ([] otherwise)
        revraised, rev   TestEqual with the compared datasets in reverse order
        eq2          result.equal of a second evaluate() of the same test object
        unmod        values, errors and bins of all datasets are bit-for-bit what they were, and so is the
                     serialised test (Test.data())
        listed       what the EvalTestTask client stored for the TestEqual: 2 a TestResultFailed, else bool(result)
     meta            metadata comparisons, each
        id, vals [[v per key] per dictionary] (0 = key missing), excl [key, ...]
        raised, verdict, perkey [0 | 1 | 2 per key] (2 = key not in the result),
        byname [[0 | 1 | 2 per dictionary] per key], failed [key, ...] (keys of only_failed_comparisons())
*)
EXTENDS Integers, Sequences, FiniteSets, TLC, Json, IOUtils

CONSTANTS NaN, PInf, NInf
In == JsonDeserialize(IOEnv.VERIF_CASES)
VDen == In.vden
Tols == In.tols
NKeys == In.nkeys
Vals == {0}  Errs == {0}  Geoms == {}  RefGeoms == {}  SameGeom == TRUE  MaxDs == 0
RelSide == "cmp"  Mode == "trace"  NVals == 0  MaxDicts == 0
VARIABLES fam, ref, oth, md, excl, out, pc
S == INSTANCE Equal

DCases == In.data
MCases == In.meta
ND == Len(DCases)
NM == Len(MCases)

VARIABLES i, bad, band, free
tvars == <<fam, ref, oth, md, excl, out, pc, i, bad, band, free>>

Num(p) == IF p[1] = 0 THEN p[2] ELSE IF p[1] = 1 THEN NaN ELSE IF p[1] = 2 THEN PInf ELSE NInf
GeomOf(x) == [names |-> x.names,
              edges |-> [k \in 1 .. Len(x.edges) |-> [j \in 1 .. Len(x.edges[k]) |-> Num(x.edges[k][j])]],
              shape |-> x.shape]
DsOf(x) == [g |-> GeomOf(x), val |-> [k \in 1 .. Len(x.val) |-> Num(x.val[k])], err |-> 0]
RefOf(c) == DsOf(c.ref)
OthOf(c) == [d \in 1 .. Len(c.oth) |-> DsOf(c.oth[d])]
NT == Len(Tols)
Grid == (1 .. NT) \X (1 .. NT)

(* observed boolean array against expected booleans / closeness classes *)
SameBools(o, e) == Len(o) = Len(e) /\ \A k \in 1 .. Len(e) : o[k] = e[k]
WrongClose(o, e) == Len(o) # Len(e) \/ \E k \in 1 .. Len(e) : (e[k] = 1 /\ ~o[k]) \/ (e[k] = 0 /\ o[k])
Wrong3(o, e) == (e = "pass" /\ ~o) \/ (e = "fail" /\ o)

FirstRefusing(e) == LET d == CHOOSE d \in DOMAIN e.cls : e.cls[d] \in S!Refusing /\ \A f \in 1 .. d - 1 : e.cls[f] \notin S!Refusing
                    IN e.cls[d]

EqArrays(c, e) ==    \* TestEqual produced results and the specification expects (or allows) results
   LET nd == Len(c.oth) IN
      (IF Len(c.eq) = nd /\ \A d \in 1 .. nd : SameBools(c.eq[d], e.eq[d]) THEN {} ELSE {<<c.id, "equal-array", "">>})
   \cup (IF c.eqv = e.eqv THEN {} ELSE {<<c.id, "equal-verdict", IF e.eqv THEN "true" ELSE "false">>})
   \cup (IF c.revraised = 0 /\ Len(c.rev) = nd /\ \A d \in 1 .. nd : SameBools(c.rev[d], e.eq[nd + 1 - d])
         THEN {} ELSE {<<c.id, "order-of-datasets", "">>})
   \cup (IF Len(c.eq2) = nd /\ \A d \in 1 .. nd : SameBools(c.eq2[d], e.eq[d]) THEN {} ELSE {<<c.id, "evaluated-twice", "">>})
   \cup (IF c.listed = (IF e.eqv THEN 1 ELSE 0) THEN {} ELSE {<<c.id, "result-list", IF e.eqv THEN "true" ELSE "false">>})

ApArrays(c, e) ==    \* the same for TestApproxEqual over the grid of tolerances
   LET nd == Len(c.oth) IN
      (IF \E p \in Grid : \E d \in 1 .. nd : WrongClose(c.ap[p[1]][p[2]][d], e.ap[p[1]][p[2]][d])
         THEN {<<c.id, "approx-array", "">>} ELSE {})
   \cup (IF \E p \in Grid : Wrong3(c.apv[p[1]][p[2]], e.apv[p[1]][p[2]]) THEN {<<c.id, "approx-verdict", "">>} ELSE {})
   \cup (IF nd = 1 /\ (Len(c.swap) # NT \/ \E p \in Grid : WrongClose(c.swap[p[1]][p[2]], e.swap[p[1]][p[2]]))
         THEN {<<c.id, "approx-swapped", "">>} ELSE {})

(* one of the two tests (what = "" for TestEqual, "approx-" for TestApproxEqual) against the expected refusal;
   quiet: do not repeat for TestApproxEqual what is reported for TestEqual when both raise / do not raise alike *)
Refusal(c, e, raised, what, quiet, arrays) ==
   IF e.refused = "yes"
   THEN (IF quiet THEN {}
         ELSE IF raised = 0 THEN {<<c.id, what \o "refusal-expected", FirstRefusing(e)>>}
         ELSE IF e.exc = "CheckBins" /\ raised # 1 THEN {<<c.id, what \o "exception-kind", "CheckBins">>} ELSE {})
   ELSE IF raised # 0
   THEN (IF quiet THEN {}
         ELSE IF e.refused = "no" THEN {<<c.id, what \o "spurious-refusal", "">>}
         ELSE IF raised # 1 THEN {<<c.id, what \o "exception-kind", "CheckBins">>} ELSE {})
   ELSE arrays

Mismatches(c, e) ==
      (IF c.unmod THEN {} ELSE {<<c.id, "datasets-modified", "">>})
   \cup (IF c.shp \/ e.refused = "yes" THEN {} ELSE {<<c.id, "result-shape", "">>})
   \cup Refusal(c, e, c.raised, "", FALSE, EqArrays(c, e))
   \cup Refusal(c, e, c.apraised, "approx-", c.apraised = c.raised, ApArrays(c, e))
   \cup (IF e.refused = "yes" /\ c.raised # 0
         THEN    (IF c.listed = 2 THEN {} ELSE {<<c.id, "result-list", "failed">>})
            \cup (IF c.revraised = 0 THEN {<<c.id, "order-of-datasets", "refused">>} ELSE {})
         ELSE {})

Bands(c, e) == IF e.refused = "yes" \/ c.apraised # 0 THEN 0
               ELSE Cardinality({<<p, d, k>> \in Grid \X (1 .. Len(c.oth)) \X (1 .. S!NCells(RefOf(c).g)) :
                                    e.ap[p[1]][p[2]][d][k] = 2})

(* ---- metadata ---- *)
MdOf(c) == c.vals
ExOf(c) == {c.excl[k] : k \in 1 .. Len(c.excl)}
MMismatches(c, e) ==
   IF c.raised THEN {<<c.id, "metadata-raised", "">>}
   ELSE
      (IF c.verdict = e.verdict THEN {} ELSE {<<c.id, "metadata-verdict", IF e.verdict THEN "true" ELSE "false">>})
   \cup (IF \A k \in 1 .. NKeys : c.perkey[k] = e.perkey[k] THEN {} ELSE {<<c.id, "metadata-per-key", "">>})
   \cup (IF {c.failed[k] : k \in 1 .. Len(c.failed)} = e.failed THEN {} ELSE {<<c.id, "metadata-failed-keys", "">>})
   \cup (IF \E r \in 1 .. Len(c.vals) : \A k \in 1 .. NKeys : \A n \in 1 .. Len(c.vals) : c.byname[k][n] = e.byref[r][k][n]
         THEN {} ELSE {<<c.id, "metadata-per-name", "">>})

-----------------------------------------------------------------------------
TInit == /\ i = 1 /\ bad = {} /\ band = 0 /\ free = {}
         /\ fam = "data" /\ ref = <<>> /\ oth = <<>> /\ md = <<>> /\ excl = {}
         /\ out = S!NoOut /\ pc = "todo"

Last(o) == i = ND + NM => TLCSet(1, [bad |-> bad', band |-> band', free |-> free', last |-> o])

DStep == /\ i <= ND
         /\ LET c == DCases[i] IN
            /\ fam' = "data" /\ ref' = RefOf(c) /\ oth' = OthOf(c) /\ md' = <<>> /\ excl' = {}
            /\ out' = S!Expected(ref', oth', VDen, Tols, Tols) /\ pc' = "done"
            /\ bad' = bad \cup Mismatches(c, out')             \* out' is a value by now: computed once
            /\ band' = band + Bands(c, out')
            /\ free' = (IF out'.refused = "free" THEN free \cup {c.id} ELSE free)
            /\ Last([refused |-> out'.refused, cls |-> out'.cls, eqv |-> out'.eqv])
         /\ i' = i + 1

MStep == /\ i > ND /\ i <= ND + NM
         /\ LET c == MCases[i - ND] IN
            /\ fam' = "meta" /\ md' = MdOf(c) /\ excl' = ExOf(c) /\ ref' = <<>> /\ oth' = <<>>
            /\ out' = S!MetaExpected(md', excl', NKeys) /\ pc' = "done"
            /\ bad' = bad \cup MMismatches(c, out')
            /\ UNCHANGED <<band, free>>
            /\ Last([verdict |-> out'.verdict, perkey |-> out'.perkey])
         /\ i' = i + 1

TSpec == TInit /\ [][DStep \/ MStep]_tvars

(* the invariants of Equal are evaluated on every consumed case *)
RefusedIff == S!RefusedIff
EqualBinsNeverRefused == S!EqualBinsNeverRefused
RefusalIsNotAVerdict == S!RefusalIsNotAVerdict
EqualDef == S!EqualDef
NaNEqualsNothing == S!NaNEqualsNothing
ApproxVerdictDef == S!ApproxVerdictDef
Monotone == S!Monotone
EqualImpliesClose == S!EqualImpliesClose
Infinities == S!Infinities
SymmetricAtZeroRtol == S!SymmetricAtZeroRtol
OrderIndependent == S!OrderIndependent
MetaVerdictDef == S!MetaVerdictDef
MetaMissingFails == S!MetaMissingFails
MetaExclude == S!MetaExclude
MetaOrderIndependent == S!MetaOrderIndependent
MetaReference == S!MetaReference

Post == /\ TLCGet("stats").diameter = ND + NM + 1
        /\ JsonSerialize(IOEnv.VERIF_OUT, TLCGet(1))
=============================================================================
