--------------------------- MODULE BrowserTrace ---------------------------
(* Code -> spec direction for C17.  A case is a session recorded on the real
   valjean.eponine.browser.Browser: the base browsers, the operations applied
   and, for every operation, what the implementation answered (projection of
   the created browser, selected item, or error), plus a re-projection of all
   browsers and of the caller's input dictionaries at the end of the session.

   One case is consumed per step: the session is re-run through the operators
   of Browser (the naive scan), the variables of Browser are set to the
   expected session so that its invariants are evaluated on every recorded
   case, and every disagreement is collected as <<case id, op index, clause>>. *)
EXTENDS Integers, Sequences, FiniteSets, TLC, Json, IOUtils

Cases == JsonDeserialize(IOEnv.VERIF_CASES)
NCases == Len(Cases)

Range(s) == {s[i] : i \in DOMAIN s}
ToFn(pairs) == [k \in {p[1] : p \in Range(pairs)} |-> (CHOOSE p \in Range(pairs) : p[1] = k)[2]]
ToPairs(pairs) == {<<p[1], p[2]>> : p \in Range(pairs)}

(* every key mentioned anywhere in the batch: the keys keys()/available_values() are asked about *)
CONSTANT AskKeys

Keys == AskKeys  XKeys == {}  Vals == {}  XVals == {}  DataKeys == {}  GNames == {}
MaxBases == 0  MaxItems == 0  MaxKw == 0  MaxIE == 0  MaxQ == 0  MaxOps == 0  OpKinds == {}
VARIABLES brs, ops, obs
B == INSTANCE Browser

VARIABLES i, bad
tvars == <<brs, ops, obs, i, bad>>

ItemOf(j) == [id |-> j.id, meta |-> ToFn(j.meta)]
ContentOf(items) == [p \in DOMAIN items |-> ItemOf(items[p])]
BrowserOf(j) == [content |-> ContentOf(j.items), globals |-> ToPairs(j.globals), dataKey |-> j.dataKey]
QueryOf(o) == [kw |-> ToFn(o.kw), incl |-> Range(o.incl), excl |-> Range(o.excl)]

(* the expected session: fold the recorded operations through the naive scan *)
RECURSIVE Run(_, _, _, _)
Run(jops, n, bs, os) ==
   IF n > Len(jops) THEN [brs |-> bs, ops |-> os]
   ELSE LET o == jops[n]  q == QueryOf(o) IN
        IF o.kind = "filter"
        THEN Run(jops, n + 1, Append(bs, B!Filter(bs[o.src], q)), Append(os, B!Op("filter", o.src, 0, q, B!NewBrowser)))
        ELSE IF o.kind = "select"
        THEN Run(jops, n + 1, bs, Append(os, B!Op("select", o.src, 0, q, B!Select(bs[o.src], q))))
        ELSE IF B!Mergeable(bs[o.src], bs[o.oth])
        THEN Run(jops, n + 1, Append(bs, B!Merge(bs[o.src], bs[o.oth])), Append(os, B!Op("merge", o.src, o.oth, B!NoQuery, B!NewBrowser)))
        ELSE Run(jops, n + 1, bs, Append(os, B!Op("merge", o.src, o.oth, B!NoQuery, [tag |-> "ValueError", items |-> <<>>])))

BasesOf(c) == [b \in DOMAIN c.bases |-> BrowserOf(c.bases[b])]
Expected(c) == Run(c.ops, 1, BasesOf(c), <<>>)

(* position in the expected brs of the browser created by operation n *)
MadeIdx(c, e, n) == Len(c.bases) + Cardinality({j \in 1 .. n : e.ops[j].res.tag = "browser"})

ValsOK(exp, jv) == \A p \in Range(jv) : Range(p[2]) = B!ValuesOf(exp, p[1])

(* clauses violated by the observation of operation n *)
OpBad(c, e, n) ==
   LET o == c.ops[n]  r == e.ops[n].res IN
   IF o.tag # r.tag THEN {"tag"}
   ELSE IF r.tag = "browser"
   THEN LET exp == e.brs[MadeIdx(c, e, n)]  got == BrowserOf(o.out) IN
        (IF got.content # exp.content THEN {"content"} ELSE {})
        \cup (IF got.globals # exp.globals THEN {"globals"} ELSE {})
        \cup (IF got.dataKey # exp.dataKey THEN {"dataKey"} ELSE {})
        \cup (IF Range(o.out.keys) # B!KeysOf(exp) THEN {"keys"} ELSE {})
        \cup (IF ~ValsOK(exp, o.out.vals) THEN {"vals"} ELSE {})
   ELSE IF r.tag = "item"
   THEN (IF ContentOf(o.items) # r.items THEN {"item"} ELSE {})
   ELSE {}

(* at the end of the session every browser and every input list is what it was *)
FinalBad(c, e) ==
   (IF Len(c.final) # Len(e.brs) \/ \E b \in DOMAIN c.final : b \in DOMAIN e.brs /\ BrowserOf(c.final[b]) # e.brs[b]
    THEN {"browser-modified"} ELSE {})
   \cup (IF \E b \in DOMAIN c.bases : ContentOf(c.inputs[b]) # e.brs[b].content THEN {"input-modified"} ELSE {})

CaseBad(c) == LET e == Expected(c) IN
              UNION {{<<c.id, n, w>> : w \in OpBad(c, e, n)} : n \in DOMAIN c.ops}
                 \cup {<<c.id, 0, w>> : w \in FinalBad(c, e)}

TInit == /\ i = 1 /\ bad = {} /\ brs = <<>> /\ ops = <<>> /\ obs = <<>>
TStep == /\ i <= NCases
         /\ i' = i + 1
         /\ LET e == Expected(Cases[i]) IN brs' = e.brs /\ ops' = e.ops /\ obs' = B!ObsOf(e.brs)
         /\ bad' = bad \cup CaseBad(Cases[i])
         /\ (i = NCases => TLCSet(1, bad'))
TSpec == TInit /\ [][TStep]_tvars

(* the invariants of the property-level spec, evaluated on every consumed case *)
FilterExact == B!FilterExact
IndexAgrees == B!IndexAgrees
SelectExact == B!SelectExact
MergeExact == B!MergeExact
ChainIsConjunction == B!ChainIsConjunction
FilterDistributes == B!FilterDistributes
ObsExact == B!ObsExact

Post == /\ TLCGet("stats").diameter = NCases + 1
        /\ JsonSerialize(IOEnv.VERIF_OUT, [bad |-> TLCGet(1)])
=============================================================================
