---------------------------- MODULE RenderTrace ----------------------------
(* Code -> spec direction for C12 (and the judge of the spec -> code direction:
   Render.tla is relational, so "what TLC computed" for an input is the verdict
   of its property predicates on the observed rendering).

   A case is one real rendering: the input (kind, verbosity, representer,
   shape, failing pattern), the strings every bin has to be shown with
   (tok), and the projection of the text that Rst.format_result produced and
   docutils parsed back: raised / invalid / parts.  A part carries the rows of
   its table as parsed: the cell texts and whether a cell of the row is
   highlighted; for tables that are not laid out along bins the binding has
   already named the row (id, 0 = not a row of the axis).  Columns: ds[k] = the
   dataset that the header of column k of a per-bin table names (0: none or
   several); heads[k] = the header of column k of an item table if it is the
   name of a thing of the case ("" otherwise, the cells of such a column are
   blanked), itok[id] = the <<header, text>> pairs row id has to show under
   such headers.
   Every clause of Render.tla is evaluated on every case; the names of the
   clauses that are false are collected with the case id. *)
EXTENDS Integers, Sequences, FiniteSets, TLC, Json, IOUtils

Kinds == {}  ShapeCodes == {}  MaxDs == 0  FailStates == {}  Verbs == {}  Reps == {}
MaxKeys == 0  MaxSamp == 0  MaxCount == 0  MaxLabRows == 0  MaxParts == 0
VARIABLES inp, out, pc
R == INSTANCE Render

Cases == JsonDeserialize(IOEnv.VERIF_CASES)
NCases == Len(Cases)

VARIABLES i, bad
tvars == <<inp, out, pc, i, bad>>

InpOf(c) == [kind |-> c.kind, verb |-> c.verb, rep |-> c.rep, shape |-> c.shape, fail |-> c.fail]

RowSet(r) == R!Range(r.cells)
AbsPart(c, p) ==
   IF p.axis = "bins"
   THEN LET allcells == UNION {RowSet(p.rows[k]) : k \in DOMAIN p.rows}
            ids(r) == R!RowBins(RowSet(r), c.tok)
            idOf(r) == IF Cardinality(ids(r)) = 1 THEN CHOOSE b \in ids(r) : TRUE ELSE 0
            shown == {idOf(p.rows[k]) : k \in DOMAIN p.rows}
        IN  [who |-> p.who, type |-> p.type, axis |-> p.axis, mark |-> p.mark,
             shown |-> shown,
             hl |-> {idOf(p.rows[k]) : k \in {k \in DOMAIN p.rows : p.rows[k].hl}},
             rowsOK |-> /\ \A k \in DOMAIN p.rows : /\ R!RowCellsOK(RowSet(p.rows[k]), allcells, c.tok)
                                                      /\ R!DsCellsOK(p.rows[k].cells, p.ds, c.tok, idOf(p.rows[k]))
                        /\ Cardinality(shown) = Len(p.rows)]
   ELSE LET shown == {p.rows[k].id : k \in DOMAIN p.rows} IN
        [who |-> p.who, type |-> p.type, axis |-> p.axis, mark |-> p.mark,
         shown |-> shown,
         hl |-> {p.rows[k].id : k \in {k \in DOMAIN p.rows : p.rows[k].hl}},
         rowsOK |-> /\ Cardinality(shown \ {0}) = Cardinality({k \in DOMAIN p.rows : p.rows[k].id # 0})
                    /\ \A k \in DOMAIN p.rows : p.rows[k].id \in DOMAIN c.itok
                                                    => R!NamedCellsOK(p.heads, p.rows[k].cells, c.itok[p.rows[k].id])]

OutOf(c) == [raised |-> c.raised, invalid |-> c.invalid,
             parts |-> [k \in DOMAIN c.parts |-> AbsPart(c, c.parts[k])]]

Failed(c) ==
   LET ii == InpOf(c)  o == OutOf(c) IN
   IF o.raised THEN {"NoRaise"}
   ELSE   (IF R!P_ValidRst(ii, o) THEN {} ELSE {"ValidRst"})
     \cup (IF R!P_MarkIff(ii, o) THEN {} ELSE {"MarkIff"})
     \cup (IF R!P_NestedMark(ii, o) THEN {} ELSE {"NestedMark"})
     \cup (IF R!P_BinRows(ii, o) THEN {} ELSE {"BinRows"})
     \cup (IF R!P_ItemRows(ii, o) THEN {} ELSE {"ItemRows"})
     \cup (IF R!P_NoFalseAlarm(ii, o) THEN {} ELSE {"NoFalseAlarm"})

TInit == /\ i = 1 /\ bad = {} /\ inp = <<>> /\ out = <<>> /\ pc = "input"
TStep == /\ i <= NCases
         /\ i' = i + 1
         /\ inp' = InpOf(Cases[i]) /\ out' = OutOf(Cases[i]) /\ pc' = "rendered"
         /\ bad' = IF Failed(Cases[i]) = {} THEN bad ELSE bad \cup {<<Cases[i].id, Failed(Cases[i])>>}
         /\ (i = NCases => TLCSet(1, bad'))
TSpec == TInit /\ [][TStep]_tvars

(* the reading of the patterns is checked on every consumed case *)
C12_Meaning == pc = "rendered" => R!C12_Meaning

Post == /\ TLCGet("stats").diameter = NCases + 1
        /\ JsonSerialize(IOEnv.VERIF_OUT, [bad |-> TLCGet(1)])
=============================================================================
