"""Print the prompt for a seeding sub-agent: python3 harness/seed_prompt.py C01 /tmp/seed-C01"""
import json, sys
pid, wt = sys.argv[1], sys.argv[2]
for line in open('/verif/properties.jsonl'):
    p = json.loads(line)
    if p['id'] == pid:
        break
print(f'''You are testing a verification effort from the outside. You get a scratch git worktree of the Python project valjean (a framework that parses Monte Carlo outputs, runs statistical tests, schedules validation tasks via a dependency graph and generates reports) at {wt}. Work ONLY inside {wt}; never read, list or modify /verif or /repo or any other worktree. Interpreter: /venv/bin/python (use PYTHONPATH={wt} so that `import valjean` resolves to your worktree). Run tests with: cd {wt} && GIT_CONFIG_GLOBAL=/root/.gitconfig-tests PYTHONPATH={wt} /venv/bin/python -m pytest -q -p no:cacheprovider <paths>  (doctests are collected too; a few tests/doctests fail already on the untouched tree: tests/integration/test_logger.py mostly, doctests of valjean/cosette/(code|env|run|use).py, valjean/eponine/tripoli4/common.py, valjean/gavroche/diagnostics/stats.py::test_stats -- ignore those, everything else must keep passing). There is no network.

Semantic property that is supposed to hold for this code base:

  TITLE: {p['title']}
  STATEMENT: {p['statement']}
  QUANTIFIER: {p['quantifier']['text']}
  WHERE: {', '.join(p['anchors']['files'])}

Your task: write ONE realistic change to the valjean sources (the kind of slip a maintainer could make in a refactoring, an optimisation, a "simplification", a boundary condition, or two cooperating sites that each look fine alone) that BREAKS this property while the code still imports and the existing test-suite (unedited) still passes. Prefer a change that needs something specific to manifest -- a particular interleaving of threads, a fault at a particular point, a multi-step sequence of operations, an unusual input, a particular combination of options -- not one that any ordinary use would expose at once. Do not weaken or delete tests; do not touch the tests directory at all.

Deliverables, all inside {wt}:
  1. the change applied in the worktree, and `git -C {wt} diff > {wt}/seed.diff` (source files only);
  2. {wt}/demo.py : a small standalone program (run as `PYTHONPATH={wt} /venv/bin/python {wt}/demo.py`) that exits 0 on the ORIGINAL code and exits 1 (printing what went wrong) WITH your change -- check both by `git stash`/`git stash pop` or `git apply -R`; if the failure needs a particular thread interleaving make the demo force it deterministically (e.g. with events/monkeypatched hooks inside the demo, not in the sources) or loop until it shows with overwhelming probability in < 30 s;
  3. run the relevant test files (and, once, the whole suite: about 4 minutes) with your change applied to confirm they still pass.
Final message (plain text, <= 25 lines): the file(s) and lines changed and why it looks innocent, what exactly is needed for the violation to manifest, the output of demo.py with and without the change, and which tests you ran with what result.''')
