"""C05 -- Student test verdict: binding of specs/Student.tla to valjean.gavroche.stat_tests.student.

spec -> code : every evaluated state TLC dumps (exhaustive single-bin grid x (ndf, alpha) table, small multi-bin /
               multi-dataset grids, seeded random states drawn by TLC itself, -simulate behaviours of the cell-by-cell
               build mode) is executed as TestStudent(ref, *others).evaluate() on real Datasets in several shapes; the
               observables (bool, oracles(), test_pvalue(), pvalue against every level, tstud) are compared with the
               `out` TLC computed.
code -> spec : seeded random integer-grid comparisons (shapes to 4-d, up to 4 compared datasets, NaN/inf, near-critical
               statistics, metamorphic variants) are executed, recorded as JSON and judged by TLC (StudentTrace.tla).
Critical values are rational bands from laws.py (stdlib only); what falls inside a band is skipped and counted.
"""
import json
import math
import multiprocessing
import os
import re
from concurrent.futures import ProcessPoolExecutor, ThreadPoolExecutor
from fractions import Fraction

import numpy as np

import laws
import tlc
from tlc import Raw
from tlaval import MV, parse_state, to_tla

SPEC = os.path.join(tlc.SPECS, 'Student.tla')
TRACE = os.path.join(tlc.SPECS, 'StudentTrace.tla')
INVS = ['VerdictDef', 'OraclesAgree', 'Symmetric', 'ScaleInvariant', 'MonotoneDiff', 'MonotoneErr',
        'OneSidedNaNFails', 'MonotoneLevel']
WITNESSES = ['W_BothNaNPasses', 'W_ZeroOverZero', 'W_OneSidedNaN', 'W_FinitePassAndFail', 'W_MixedDatasets']
MVS = {'NaN': Raw('NaN'), 'PInf': Raw('PInf'), 'NInf': Raw('NInf')}
NLEV = len(laws.ALPHAS)
NORMAL_ROW = len(laws.STUDENT_NDF)          # the row with ndf = None
TEST_LEVS = [laws.ALPHAS.index(a) + 1 for a in laws.TEST_ALPHAS]
MAX_DEN = 10 ** 4                           # tstud^2 is reported as a rational only below this denominator
NPROC = min(16, os.cpu_count() or 4)
# several short TLC runs side by side: C1-only JIT and few GC threads are markedly faster than the defaults (measured)
JVM_ENV = dict(JAVA_TOOL_OPTIONS='-XX:ParallelGCThreads=2 -XX:TieredStopAtLevel=1')


# ---------------------------------------------------------------------------------------------------------
# shared helpers (conf_chi2 imports them)

def mc_module(wd, base, name, defs):
    """Write module `name` EXTENDS `base` defining MC_<k> == <value> (a cfg file can spell neither sequences nor
    negative numbers); returns (path, cfg constants `k <- MC_k`)."""
    lines = ['---- MODULE %s ----' % name, 'EXTENDS %s' % base]
    consts = {}
    for k, v in defs.items():
        lines.append('MC_%s == %s' % (k, v if isinstance(v, Raw) else to_tla(v)))
        consts[k] = Raw('<- MC_%s' % k)
    lines.append('====')
    path = os.path.join(wd, name + '.tla')
    with open(path, 'w') as f:
        f.write('\n'.join(lines) + '\n')
    return path, consts


def tla_set(xs):
    return Raw('{%s}' % ', '.join(str(x) for x in xs))


SPECIAL = {'NaN': 'nan', 'PInf': 'inf', 'NInf': '-inf'}
TLA_OF = {v: k for k, v in SPECIAL.items()}


def num(x):
    """TLC value -> case number (int or 'nan' / 'inf' / '-inf')."""
    return SPECIAL[str(x)] if isinstance(x, MV) else int(x)


def to_float(x):
    return float(x)     # float('nan'), float('inf'), float('-inf') and ints


def tagged(x):
    """case number -> [tag, n] for the JSON read by TLC."""
    return {'nan': [1, 0], 'inf': [2, 0], '-inf': [3, 0]}.get(x) or [0, int(x)]


LAYOUT = ['C']     # memory layout of the arrays of 2 or more dimensions built by array_of: 'C', 'F' or 'T' (transposed view)


def array_of(numbers, shape, dtype='float'):
    a = np.array([to_float(x) for x in numbers], dtype=float)
    if dtype == 'int' and np.all(np.isfinite(a)):
        a = a.astype(np.int64)
    if tuple(shape) == ():
        return a[0]
    a = a.reshape(tuple(shape))
    if a.ndim >= 2 and LAYOUT[0] == 'F':
        return np.asfortranarray(a)
    if a.ndim >= 2 and LAYOUT[0] == 'T':
        return np.ascontiguousarray(a.T).T          # same values and shape, non-contiguous memory
    return a


def normalise(x, nd, shape, nb):
    """A per-dataset per-bin observable -> ndarray (nd, nb); (None, text) when it has another form.
    Returns (array, form) with form 'full' or 'broadcast' (a scalar or smaller array standing for all bins)."""
    try:
        a = np.asarray(x)
    except Exception as ex:  # pylint: disable=broad-except
        return None, 'not an array: %s' % ex
    full = (nd,) + tuple(shape)
    if a.shape == full:
        return a.reshape(nd, nb), 'full'
    try:
        return np.broadcast_to(a, full).reshape(nd, nb), 'broadcast'
    except ValueError:
        return None, 'shape %s, expected %s' % (a.shape, full)


def rational_of(x, max_den=MAX_DEN):
    """float -> [kind, n, d]: kind 0 exact small rational, 1 infinite, 2 NaN, 3 not a small rational."""
    x = float(x)
    if math.isnan(x):
        return [2, 0, 0]
    if math.isinf(x):
        return [1, 0, 0]
    fr = Fraction(x).limit_denominator(max_den)
    if abs(float(fr) - x) <= 1e-12 * max(abs(x), 1e-300) and fr.numerator < 2 ** 31:
        return [0, fr.numerator, fr.denominator]
    return [3, 0, 0]


def sign_of(x):
    x = float(x)
    return 2 if math.isnan(x) else (x > 0) - (x < 0)


def shapes_for(nb):
    return {1: [(), (1,), (1, 1)], 2: [(2,), (1, 2), (2, 1)], 3: [(3,), (1, 3)], 4: [(4,), (2, 2)],
            6: [(6,), (2, 3)], 8: [(8,), (2, 2, 2)]}.get(nb, [(nb,)])


def run_parallel(fn, chunks):
    if len(chunks) <= 1:
        return [fn(c) for c in chunks]
    ctx = multiprocessing.get_context('fork')
    with ProcessPoolExecutor(max_workers=min(NPROC, len(chunks)), mp_context=ctx) as ex:
        return list(ex.map(fn, chunks))


def done_blocks(dump_path):
    """Text blocks of the evaluated states of a -dump file (cheap pre-filter before parsing)."""
    path = dump_path if os.path.exists(dump_path) else dump_path + '.dump'
    with open(path) as f:
        txt = f.read()
    return [b for b in re.split(r'^State \d+:\n', txt, flags=re.M)[1:] if 'pc = "done"' in b]


def chunked(seq, n):
    k = max(1, (len(seq) + n - 1) // n)
    return [seq[i:i + k] for i in range(0, len(seq), k)]


# ---------------------------------------------------------------------------------------------------------
# running the implementation

def observe(case, with_meta=False):
    """Execute one comparison.  case: row, lev, shape, dtype, ref [[v, e], ...], oth [[[v, e], ...], ...].
    Returns (obs, problem)."""
    from valjean.eponine.dataset import Dataset
    from valjean.gavroche.stat_tests.student import TestStudent
    shape = tuple(case['shape'])
    nb, nd = len(case['ref']), len(case['oth'])
    alpha = float(laws.ALPHAS[case['lev'] - 1])
    ndf = laws.STUDENT_NDF[case['row'] - 1]
    dtype = case.get('dtype', 'float')

    def dataset(cells, scale=1.0):
        value = array_of([c[0] for c in cells], shape, dtype)
        error = array_of([c[1] for c in cells], shape, dtype)
        if scale != 1.0:
            value, error = value * scale, error * scale
        return Dataset(value, error, name='ds', what='w')

    def test(ref, others):
        return TestStudent(ref, *others, name='c05', alpha=alpha, ndf=ndf).evaluate()
    sc = float(case.get('scale', 1.0))
    try:
        prev = case.get('after')
        if prev and shape != ():
            # the same Dataset objects served another comparison before: their arrays are then overwritten in place with
            # the numbers of this case and a new test is built on them
            objs = [dataset(prev['ref'], sc)] + [dataset(o, sc) for o in prev['oth']]
            test(objs[0], objs[1:])
            for obj, cells in zip(objs, [case['ref']] + list(case['oth'])):
                fresh = dataset(cells, sc)
                obj.value[...] = fresh.value
                obj.error[...] = fresh.error
            res = test(objs[0], objs[1:])
        else:
            res = test(dataset(case['ref'], sc), [dataset(o, sc) for o in case['oth']])
        verdict = bool(res)
        orc, pdec_raw, pval, tstud = res.oracles(), res.test_pvalue(), res.pvalue, res.tstud
    except Exception as ex:  # pylint: disable=broad-except
        return None, 'raised %s: %s' % (type(ex).__name__, ex)
    obs = dict(verdict=verdict)
    for name, raw in (('orc', orc), ('pdec', pdec_raw), ('pval', pval), ('tstud', tstud)):
        arr, form = normalise(raw, nd, shape, nb)
        if arr is None:
            return None, '%s malformed: %s' % (name, form)
        if form != 'full' and name != 'pdec':
            return None, '%s malformed: shape %s' % (name, np.asarray(raw).shape)
        obs[name] = arr
        obs[name + '_form'] = form
    obs['pdec_raw'] = repr(pdec_raw)[:60]
    with np.errstate(all='ignore'):
        levels = [float(a) for a in laws.ALPHAS]
        out = dict(verdict=verdict,
                   orc=[[bool(x) for x in r] for r in obs['orc']],
                   pdec=[[bool(x) for x in r] for r in obs['pdec']],
                   pdec_form=obs['pdec_form'], pdec_raw=obs['pdec_raw'],
                   pab=[[[bool(p > a) for a in levels] for p in r] for r in obs['pval']],
                   ts=[[rational_of(float(t) * float(t)) + [sign_of(t)] for t in r] for r in obs['tstud']],
                   meta=[])
    if with_meta:
        try:
            variants = []
            if nd == 1:
                variants.append(test(dataset(case['oth'][0]), [dataset(case['ref'])]))
            for c in (1024.0, 1.0 / 128, 3.0):
                variants.append(test(dataset(case['ref'], c), [dataset(o, c) for o in case['oth']]))
            out['meta'] = [bool(v) for v in variants]
        except Exception as ex:  # pylint: disable=broad-except
            return None, 'metamorphic variant raised %s: %s' % (type(ex).__name__, ex)
    return out, None


# ---------------------------------------------------------------------------------------------------------
# comparing with what TLC computed (spec -> code)

def bin_class(case, d, i):
    v1, e1 = case['ref'][i]
    v2, e2 = case['oth'][d][i]
    nan = lambda x: x == 'nan'
    inf = lambda x: x in ('inf', '-inf')
    if nan(v1) and nan(v2):
        return 'both-values-nan'
    if nan(v1) != nan(v2) or nan(e1) != nan(e2):
        return 'one-sided-nan'
    if nan(e1) and nan(e2):
        return 'both-errors-nan'
    if inf(v1) or inf(v2):
        return 'infinite-value'
    if inf(e1) or inf(e2):
        return 'infinite-error'
    if e1 == 0 and e2 == 0:
        return 'zero-over-zero' if v1 == v2 else 'zero-errors'
    return 'finite'


def vkey(what, case, d=None, i=None, expected=None, obs=None):
    ndfc = 'ndf-none' if case['row'] == NORMAL_ROW else 'ndf-given'
    if case.get('scale', 1.0) != 1.0:
        ndfc += '/rescaled-%s' % ('tiny' if case['scale'] < 1 else 'huge')
    if case.get('layout', 'C') != 'C':
        ndfc += '/noncontiguous'
    if case.get('after'):
        ndfc += '/objects-reused'
    if what == 'raises':
        return 'C05/raises/%s/%s' % (ndfc, 'scalar' if not case['shape'] else '%dd' % len(case['shape']))
    if what == 'pdec' and obs is not None and obs.get('pdec_form') != 'full':
        return 'C05/pvalue-decision/%s/not-per-bin' % ndfc
    if what in ('verdict', 'meta', 'logic'):
        return 'C05/%s/%s/expected-%s' % (what, ndfc, expected if what != 'logic' else 'conjunction')
    return 'C05/%s/%s/%s' % ({'pdec': 'pvalue-decision', 'pvalue': 'pvalue-level'}.get(what, what), ndfc,
                             bin_class(case, d - 1, i - 1))


def wrong(o, e, yes, no):
    return (e == yes and not o) or (e == no and o)


def stat_matches(e, o, sg):
    k = e['k']
    if k == 'rat':      # the recorder only recovers rationals with a small denominator
        if not ((o[0] == 0 and o[1] == e['n'] and o[2] == e['d']) if e['d'] <= MAX_DEN else o[0] in (0, 3)):
            return False
    if k == 'inf' and o[0] != 1:
        return False
    if k == 'nan' and o[0] != 2:
        return False
    want = {'pos': 1, 'neg': -1, 'zero': 0, 'nan': 2}.get(sg)
    return want is None or o[3] == want


def compare(out, obs):
    """Mismatches between TLC's `out` and the observed projection: list of (what, d, i, expected); drifts;
    (judgements skipped in a band, judgements the statement leaves free)."""
    bad, drift, skipped, free = [], [], 0, 0
    ver = out['verdict']
    if wrong(obs['verdict'], ver, 'pass', 'fail'):
        bad.append(('verdict', 0, 0, ver))
    if obs['verdict'] != all(all(r) for r in obs['orc']):
        bad.append(('logic', 0, 0, 'conjunction'))
    for d, row in enumerate(out['cls']):
        for i, c in enumerate(row):
            skipped += c == 'band'
            free += c == 'free'
            if wrong(obs['orc'][d][i], c, 'pass', 'fail'):
                bad.append(('oracle', d + 1, i + 1, c))
            if wrong(obs['pdec'][d][i], c, 'pass', 'fail'):
                bad.append(('pdec', d + 1, i + 1, c))
            pv = out['pv'][d][i]
            skipped += sum(1 for p in pv if p == 'band')
            free += sum(1 for p in pv if p == 'free')
            if any(wrong(obs['pab'][d][i][j], pv[j], 'yes', 'no') for j in range(len(pv))):
                bad.append(('pvalue', d + 1, i + 1, c))
            if not stat_matches(out['st'][d][i], obs['ts'][d][i], out['sg'][d][i]):
                drift.append(('tstud', d + 1, i + 1, dict(out['st'][d][i])))
    for m, v in enumerate(obs.get('meta', [])):
        if wrong(v, ver, 'pass', 'fail'):
            bad.append(('meta', m + 1, 0, ver))
    return bad, drift, (skipped, free)


def case_of_state(st, shape, dtype='float'):
    return dict(row=int(st['row']), lev=int(st['lev']), shape=list(shape), dtype=dtype,
                ref=[[num(c[0]), num(c[1])] for c in st['ref']],
                oth=[[[num(c[0]), num(c[1])] for c in o] for o in st['oth']])


def _plain(x):
    """TLC value -> JSON-able plain python."""
    if isinstance(x, dict):
        return {k: _plain(v) for k, v in x.items()}
    if isinstance(x, (tuple, list)):
        return [_plain(v) for v in x]
    return str(x) if isinstance(x, MV) else x


def _distinct_key(st):
    out = st['out']
    stats = tuple(sorted((s['k'], s['n'], s['d'], c) for srow, crow in zip(out['st'], out['cls']) for s, c in zip(srow, crow)))
    return (int(st['row']), int(st['lev']), len(st['oth']), stats)


def _replay_blocks(blocks):
    """Worker: parse dumped states, run them on the implementation in every shape, compare."""
    res = dict(n=0, evals=0, bad=[], drift=[], skipped=0, free=0, distinct=set(), samples=[])
    last = {}          # (bins, datasets) -> numbers of the previous state of that form
    for blk in blocks:
        st = parse_state(blk)
        out = _plain(st['out'])
        nb = len(st['ref'])
        res['n'] += 1
        if out['verdict'] != 'undet':
            res['distinct'].add(_distinct_key(st))
        variants = [(s, 'float', 1.0) for s in shapes_for(nb)]
        if all(isinstance(c[0], int) and isinstance(c[1], int) for cells in (st['ref'],) + tuple(st['oth']) for c in cells):
            variants.append((shapes_for(nb)[0], 'int', 1.0))
        # common positive rescaling by exact powers of two (tiny and huge magnitudes): same expected outcome
        variants.append((shapes_for(nb)[-1], 'float', 2.0 ** -40))
        variants.append((shapes_for(nb)[0], 'float', 2.0 ** 40))
        multi = [sh for sh in shapes_for(nb) if len(sh) >= 2 and min(sh) >= 1 and int(np.prod(sh)) > 1]
        if multi:
            variants.append((multi[-1], 'float', -1.0))       # marker: the same arrays as transposed (non-contiguous) views
        form = (nb, len(st['oth']))
        if last.get(form):
            variants.append((shapes_for(nb)[-1], 'float', -2.0))  # marker: on the objects that served an earlier state
        for k, (shape, dtype, scale) in enumerate(variants):
            case = case_of_state(st, shape, dtype)
            if scale == -1.0:
                case['layout'] = 'T'
            elif scale == -2.0:
                if not shape:
                    continue
                pool = [p for p in last[form] if p['ref'] != case['ref'] or p['oth'] != case['oth']]
                if not pool:
                    continue
                case['after'] = pool[(res['n'] * 7919) % len(pool)]
            elif scale != 1.0:
                case['scale'] = scale
            LAYOUT[0] = case.get('layout', 'C')
            try:
                obs, problem = observe(case)
            finally:
                LAYOUT[0] = 'C'
            res['evals'] += 1
            if problem:
                res['bad'].append((vkey('raises', case), problem, case))
                continue
            bad, drift, skipped = compare(out, obs)
            if k == 0:
                res['skipped'] += skipped[0]
                res['free'] += skipped[1]
            for what, d, i, exp in bad:
                res['bad'].append((vkey(what, case, d, i, exp, obs),
                                   '%s: Student.tla expects %s at dataset %d bin %d; observed verdict=%s oracles=%s '
                                   'test_pvalue()=%s' % (what, exp, d, i, obs['verdict'], obs['orc'], obs['pdec_raw']), case))
            for what, d, i, exp in drift[:1]:
                res['drift'].append('result.tstud of %s: dataset %d bin %d observed %s, Student.tla has %s'
                                    % (case, d, i, obs['ts'][d - 1][i - 1], exp))
            if k == 0:
                nums = dict(ref=case['ref'], oth=case['oth'])
                pool = last.setdefault(form, [])
                if nums not in pool[-3:]:
                    pool.append(nums)
                    del pool[:-40]
            if k == 0 and len(res['samples']) < 1 and res['n'] % 97 == 1:
                res['samples'].append(dict(case=case, expected=dict(verdict=out['verdict'], cls=out['cls']),
                                           observed=dict(verdict=obs['verdict'], oracles=obs['orc'], test_pvalue=obs['pdec_raw'])))
    return res


# ---------------------------------------------------------------------------------------------------------
# TLC runs

def _consts(vals, errs, max_bins, max_ds, rows, levs, mode='enum', nrand=0, table=None):
    c = dict(MVS)
    c.update(MaxBins=max_bins, MaxDs=max_ds, Rows=frozenset(rows), Levs=frozenset(levs), Mode=mode, NRand=nrand)
    defs = dict(Vals=tla_set(TLA_OF.get(v, v) for v in vals), Errs=tla_set(TLA_OF.get(e, e) for e in errs),
                Crit=table or laws.student_table())
    return c, defs


def _tlc(wd, name, consts, defs, invariants, **kw):
    mod, sub = mc_module(wd, 'Student', 'MC_' + name, defs)
    c = dict(consts)
    c.update(sub)
    cfg = tlc.write_cfg(os.path.join(wd, name + '.cfg'), constants=c, invariants=invariants, deadlock=False)
    kw.setdefault('env', JVM_ENV)
    return tlc.run(mod, cfg, **kw)


def _tick(label, _t=[None]):
    """Phase timing on stderr when VERIF_TIMING is set."""
    import sys
    import time
    if os.environ.get('VERIF_TIMING'):
        now = time.time()
        if _t[0] is not None:
            sys.stderr.write('  [%6.1fs] %s\n' % (now - _t[0], label))
        _t[0] = now


def _account(ctx, results):
    for r in results:
        ctx.count(evaluations=r['evals'], traces=r['n'])
        ctx.cov['skipped_in_band'] += r['skipped']
        ctx.cov['not_judged_statement_silent'] = ctx.cov.get('not_judged_statement_silent', 0) + r['free']
        for key in r['distinct']:
            ctx.distinct(key)
        for key, what, case in r['bad']:
            ctx.violation(key, what, case, module='conf_student')
        for d in r['drift'][:2]:
            ctx.drift(d)
        for s in r['samples']:
            ctx.sample(s)


FULL_V = [-3, -2, -1, 0, 1, 2, 3, 'nan', 'inf', '-inf']
FULL_E = [0, 1, 2, 3, 'nan', 'inf']


def run_c05(ctx):
    ctx.rule('spec->code: every evaluated state of Student.tla (Init enumerates / draws cells <<value, error>> over small '
             'integers, NaN, +-inf for 1..3 bins x 1..2 compared datasets x (ndf row, level) of the critical-value table; '
             'Eval computes per-bin oracles, p-value-above-level flags, squared statistic and verdict) is executed as '
             'TestStudent.evaluate() in every shape of that size (scalar, 1-d, 2-d, int and float). code->spec: seeded '
             'random comparisons to 4-d / 4 datasets incl. near-critical statistics and swapped / rescaled variants, judged '
             'by TLC against StudentTrace.tla. distinct_nontrivial = distinct (row, level, #datasets, multiset of per-bin '
             '(squared statistic, class)) with a determined verdict.')
    ctx.assume('critical values: rational bands (relative half-width 1e-9) from harness/laws.py (decimal/fractions, closed '
               'forms), each band end verified on the right side of the level in 50-digit arithmetic; scipy is only '
               'cross-checked against them')
    ctx.assume('cell contents are small integers (exact in float64), NaN, +-inf; levels are the decimal strings of laws.ALPHAS')
    problems = laws.selftest()
    if problems:
        raise tlc.MachineryError('laws.py self-test / scipy cross-check failed: %s' % problems[:3])
    import valjean.gavroche.stat_tests.student  # noqa: F401  pylint: disable=unused-import,import-outside-toplevel
    wd = tlc.workdir('c05')
    all_rows = list(range(1, len(laws.STUDENT_NDF) + 1))
    all_levs = list(range(1, NLEV + 1))
    nsim = ctx.pick(150, 1500)
    sim = os.path.join(wd, 'sim')
    # (name, constants, TLC keyword arguments); every run is checked against all invariants
    runs = [
        # exhaustive
        ('bin1', _consts(FULL_V, FULL_E, 1, 1, ctx.pick([1, 3, 5], all_rows), ctx.pick(TEST_LEVS[:2], TEST_LEVS)), {}),
        ('bin2', _consts(ctx.pick([0, 1, 3, 'nan'], [0, 1, 3, 'nan', 'inf']), [0, 1, 'nan'], 2, 1, [5],
                         [TEST_LEVS[1]]), {}),
        ('ds2', _consts(ctx.pick([0, 2], [0, 2, 'nan']), [0, 1], 2, 2, [3], [TEST_LEVS[1]]), {}),
        # drawn at random by TLC (larger shapes, every level)
        ('rand_full', _consts(FULL_V, FULL_E, 4, 2, all_rows, all_levs, 'rand', ctx.pick(150, 1000)),
         dict(extra=['-seed', str(ctx.seed + 1)])),
        ('rand_finite', _consts(range(-3, 4), [0, 1, 2, 3, 'inf'], 4, 3, all_rows, all_levs, 'rand', ctx.pick(150, 1000)),
         dict(extra=['-seed', str(ctx.seed + 2)])),
        # behaviours of the cell-by-cell build mode
        ('build', _consts(FULL_V, FULL_E, 3, 2, [2, 5], TEST_LEVS, 'build'),
         dict(simulate=dict(num=nsim, file=sim), depth=12, seed=ctx.seed + 7, workers=1, coverage=False)),
    ]

    def launch(run):
        name, (consts, defs), kw = run
        kw = dict(kw)
        if 'simulate' not in kw:
            # -coverage costs a factor 2-3: only on the small runs (vacuity of the big ones: evaluated states are counted)
            kw.update(dump=os.path.join(wd, name), workers=ctx.pick(3, 6), coverage=name not in ('bin1', 'bin2') and ctx.quick)
        return _tlc(wd, name, consts, defs, INVS, **kw)

    # vacuity: witnesses, and the band path on a synthetic table
    wc, wdefs = _consts([0, 1, 3, 'nan'], [0, 1], 1, 2, [5], [TEST_LEVS[1]])
    synth = ((((39, 10), (41, 10)), ((29, 10), (31, 10))),)       # bands [3.9, 4.1] and [2.9, 3.1]
    bc, bdefs = _consts([0, 2, 4], [0, 1, 2], 1, 1, [1], [1], table=synth)

    def witness(w):
        if w == 'W_Band':
            return _tlc(wd, 'band', bc, bdefs, ['W_Band'], coverage=False, workers=2)
        return _tlc(wd, w, wc, wdefs, [w], coverage=False, workers=2)
    _tick('start')
    with ThreadPoolExecutor(max_workers=6) as ex:
        results = list(ex.map(launch, runs))
        wres = list(ex.map(witness, WITNESSES + ['W_Band']))
    _tick('TLC runs: ' + ', '.join('%s %.0fs' % (r[0], x.wall) for r, x in zip(runs, results)))
    for w, r in zip(WITNESSES + ['W_Band'], wres):
        if r.violation != ('invariant', w):
            raise tlc.MachineryError('witness %s not reachable in Student.tla (%s)' % (w, r.violation))

    for (name, _, kw), res in zip(runs, results):
        ctx.tlc(res, 'Student/' + name)
        if res.violation:
            raise tlc.MachineryError('Student.tla %s: %s\n%s' % (name, res.violation, res.out[-1500:]))
        if 'simulate' in kw:
            blocks = []
            for fname in sorted(os.listdir(wd)):
                if fname.startswith('sim_'):
                    with open(os.path.join(wd, fname)) as f:
                        parts = re.split(r'^STATE_\d+ ==\s*', f.read(), flags=re.M)
                    body = re.sub(r'^\\\*.*$', '', parts[-1].split('\n\n')[0], flags=re.M)
                    if 'pc = "done"' in body:
                        blocks.append(body)
                    os.remove(os.path.join(wd, fname))
            if len(blocks) < nsim // 2:
                raise tlc.MachineryError('Student.tla build/simulate: only %d of %d behaviours reached Eval' % (len(blocks), nsim))
        else:
            blocks = done_blocks(os.path.join(wd, name))
            if res.coverage:
                tlc.check_coverage(res, ['Eval'], 'Student/' + name)
            if not blocks or 2 * len(blocks) != res.distinct:
                raise tlc.MachineryError('Student.tla %s: %d evaluated states for %d states' % (name, len(blocks), res.distinct))
            os.remove(os.path.join(wd, name) + '.dump')
        _account(ctx, run_parallel(_replay_blocks, chunked(blocks, 3 * NPROC)))
        _tick('replayed %s: %d states' % (name, len(blocks)))

    # ---- code -> spec
    _code_to_spec(ctx, wd)
    ctx.cov['exhaustive'] = True
    ctx.cov['explanation'] = ('exhaustive over the enumerated configurations in tlc_runs (all 3600 single-bin inputs x the '
                              '(ndf, level) pairs of the tier; reduced grids for 2 bins / 2 datasets); random beyond')


# ---------------------------------------------------------------------------------------------------------
# code -> spec

SHAPES = [(), (1,), (2,), (3,), (5,), (1, 2), (2, 1), (2, 2), (2, 3), (1, 1, 3), (2, 2, 2), (1, 2, 1, 2)]


def _gen_case(rng, table):
    row = rng.randint(1, len(laws.STUDENT_NDF))
    lev = rng.randint(1, NLEV)
    shape = rng.choice(SHAPES)
    nb = int(np.prod(shape)) if shape else 1
    nd = rng.choice([1, 1, 2, 3, 4])
    kind = rng.choice(['grid', 'grid', 'close', 'special', 'near'])
    crit2 = laws.mid(table[row - 1][lev - 1])

    def cell_pair():
        """(ref cell, other cell) of one bin."""
        if kind == 'near' and rng.random() < 0.7:
            # statistic next to the critical value: Delta = floor/ceil(sqrt(crit2 * S)) (+-1); the generator only steers,
            # the judgement is TLC's
            for _ in range(50):
                e1, e2 = rng.randint(0, 9000), rng.randint(1, 9000)
                s = e1 * e1 + e2 * e2
                root = math.sqrt(crit2 * s)
                if 2 <= root <= 14000:
                    break
            else:
                e1, e2, s = 3, 4, 25
                root = math.sqrt(crit2 * s)
            delta = max(0, int(root) + rng.choice([-1, 0, 1, 2]))
            v2 = rng.randint(-1000, 1000)
            v1 = v2 + delta * rng.choice([-1, 1])
            return ([v1, e1], [v2, e2]) if rng.random() < 0.5 else ([v2, e2], [v1, e1])
        if kind == 'close' or kind == 'near':
            v = rng.randint(-6, 6)
            return [v, rng.randint(0, 4)], [v + rng.choice([0, 0, 1, -1, 2]), rng.randint(1, 4)]
        if kind == 'special' and rng.random() < 0.4:
            sv = lambda: rng.choice(['nan', 'inf', '-inf', 0, 1, 1, 2])
            se = lambda: rng.choice(['nan', 'inf', 0, 0, 1, 2])
            c = [sv(), se()]
            return c, (list(c) if rng.random() < 0.3 else [sv(), se()])
        return [rng.randint(-6, 6), rng.randint(0, 4)], [rng.randint(-6, 6), rng.randint(0, 4)]

    def other_for(cell):
        """a cell of a further compared dataset, drawn against the reference cell."""
        v, e = cell
        if kind in ('grid', 'close', 'near') and isinstance(v, int):
            return [v + rng.choice([0, 0, 1, -1, 2, -3]), rng.randint(0 if kind == 'grid' else 1, 4)]
        return cell_pair()[1]
    ref, oth = [], [[] for _ in range(nd)]
    for _ in range(nb):
        a, b = cell_pair()
        ref.append(a)
        oth[0].append(b)
        for d in range(1, nd):
            oth[d].append(other_for(a))
    dtype = 'int' if rng.random() < 0.15 else 'float'
    return dict(row=row, lev=lev, shape=list(shape), dtype=dtype, ref=ref, oth=oth)


def to_json_case(cid, case, obs):
    cells = lambda cs: [tagged(c[0]) + tagged(c[1]) for c in cs]
    return dict(id=cid, row=case['row'], lev=case['lev'], ref=cells(case['ref']), oth=[cells(o) for o in case['oth']],
                verdict=obs['verdict'], orc=obs['orc'], pdec=obs['pdec'], pab=obs['pab'], ts=obs['ts'], meta=obs['meta'])


def run_trace(wd, name, json_cases, invariants=INVS, timeout=1800):
    """Validate recorded cases with TLC; returns (TLCResult, decoded output of the postcondition)."""
    mod, sub = mc_module(wd, 'StudentTrace', 'MC_T' + name, dict(Crit=laws.student_table()))
    c = dict(MVS)
    c.update(sub)
    cj = tlc.json_dump(os.path.join(wd, 'cases_%s.json' % name), json_cases)
    oj = os.path.join(wd, 'out_%s.json' % name)
    cfg = tlc.write_cfg(os.path.join(wd, 'trace_%s.cfg' % name), spec='TSpec', constants=c, invariants=invariants,
                        deadlock=False, postcondition='Post')
    res = tlc.run(mod, cfg, workers=1, env=dict(JVM_ENV, VERIF_CASES=cj, VERIF_OUT=oj), coverage=False, timeout=timeout)
    if not res.ok:
        raise tlc.MachineryError('StudentTrace %s: %s\n%s' % (name, res.violation, res.out[-2000:]))
    with open(oj) as f:
        return res, json.load(f)


def _observe_chunk(items):
    return [(cid, case) + observe(case, with_meta=True) for cid, case in items]


def _code_to_spec(ctx, wd):
    rng = ctx.rng
    table = laws.student_table()
    n = ctx.pick(2000, 20000)
    todo = [(cid, _gen_case(rng, table)) for cid in range(1, n + 1)]
    recorded = {}
    for chunk in run_parallel(_observe_chunk, chunked(todo, 2 * NPROC)):
        for cid, case, obs, problem in chunk:
            if problem:
                ctx.violation(vkey('raises', case), problem, case, module='conf_student')
            else:
                recorded[cid] = (case, obs)
    batches = chunked(sorted(recorded), ctx.pick(8, 12))
    _tick('observed %d random cases' % len(recorded))

    def validate(k):
        ids = batches[k]
        return run_trace(wd, 'b%d' % k, [to_json_case(cid, *recorded[cid]) for cid in ids])
    with ThreadPoolExecutor(max_workers=12) as ex:
        outs = list(ex.map(validate, range(len(batches))))
    nbad = 0
    _tick('trace validation: ' + ', '.join('%.0fs' % r.wall for r, _ in outs))
    for k, (res, out) in enumerate(outs):
        ctx.tlc(res, 'StudentTrace/batch%d' % k)
        ctx.count(evaluations=len(batches[k]), traces=len(batches[k]))
        ctx.cov['skipped_in_band'] += int(out['skipped'])
        ctx.cov['not_judged_statement_silent'] = ctx.cov.get('not_judged_statement_silent', 0) + int(out['free'])
        for cid, what, d, i, exp in sorted(out['bad'], key=lambda b: (b[0], b[1], b[2], b[3])):
            case, obs = recorded[cid]
            nbad += 1
            ctx.violation(vkey(what, case, d, i, exp, obs),
                          '%s: Student.tla expects %s at dataset %d bin %d; observed verdict=%s oracles=%s test_pvalue()=%s meta=%s'
                          % (what, exp, d, i, obs['verdict'], obs['orc'], obs['pdec_raw'], obs['meta']), case,
                          module='conf_student')
        for cid, what, d, i, exp in sorted(out['drift'], key=lambda b: (b[0], b[2], b[3]))[:2]:
            case, obs = recorded[cid]
            ctx.drift('result.tstud of %s: dataset %d bin %d observed %s, Student.tla has %s' % (case, d, i, obs['ts'][d - 1][i - 1], exp))
    for cid in sorted(recorded)[:2]:
        case, obs = recorded[cid]
        ctx.sample(dict(case=case, observed=dict(verdict=obs['verdict'], oracles=obs['orc'], test_pvalue=obs['pdec_raw']), source='random'))
    ctx.cov['explanation_random'] = '%d random comparisons recorded, %d mismatches reported by TLC' % (len(recorded), nbad)


# ---------------------------------------------------------------------------------------------------------

def replay_case(case):
    """Run one case on the implementation and let TLC (StudentTrace.tla) judge it."""
    LAYOUT[0] = case.get('layout', 'C')
    try:
        obs, problem = observe(case, with_meta=True)
    finally:
        LAYOUT[0] = 'C'
    if problem:
        return False, problem
    wd = tlc.workdir('c05r')
    _, out = run_trace(wd, 'replay', [to_json_case(1, case, obs)], invariants=[])
    bad = sorted(out['bad'], key=lambda b: (b[1], b[2], b[3]))
    seen = 'verdict=%s oracles=%s test_pvalue()=%s' % (obs['verdict'], obs['orc'], obs['pdec_raw'])
    if bad:
        return False, '; '.join('%s dataset %d bin %d expected %s' % (b[1], b[2], b[3], b[4]) for b in bad[:4]) + ' -- observed ' + seen
    return True, 'observed %s as Student.tla expects (%s)' % (seen, out['last']['verdict'])
