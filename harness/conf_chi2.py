"""C07 -- chi-square verdict: binding of specs/Chi2.tla to valjean.gavroche.stat_tests.chi2.

spec -> code : every evaluated state TLC dumps (exhaustive 1..3-bin grids with both settings of ignore_empty, NaN / inf
               cells when the option is off, 2 compared datasets, random states drawn by TLC up to 8 bins, -simulate
               behaviours of the build mode) is executed as TestChi2(ref, *others).evaluate() on real Datasets in several
               shapes; result.chi2 (mapped back to the exact rational), test.ndf, test.nonzero_bins, the order of
               result.pvalue against every tabulated level and bool(result) are compared with the `out` TLC computed.
code -> spec : seeded random comparisons (shapes to 4-d, 3 compared datasets, arbitrary patterns of zero errors,
               near-critical sums for every ndf 1..8, permuted / swapped / rescaled variants) are executed, recorded as
               JSON and judged by TLC (Chi2Trace.tla).
Critical values are rational bands from laws.py (stdlib only); what falls inside a band, and ndf = 0, is not judged.
"""
import json
import math
import os
import re
from concurrent.futures import ThreadPoolExecutor

import numpy as np

import laws
import tlc
from tlaval import parse_state
import conf_student
from conf_student import (JVM_ENV, MVS, NPROC, TLA_OF, _plain, _tick, array_of, chunked, done_blocks, mc_module, normalise,
                          num, rational_of, run_parallel, shapes_for, tagged, tla_set, wrong, MAX_DEN)

SPEC = os.path.join(tlc.SPECS, 'Chi2.tla')
TRACE = os.path.join(tlc.SPECS, 'Chi2Trace.tla')
INVS = ['LeftOutExactly', 'NdfCountsUsed', 'LeftOutIrrelevant', 'PermutationInvariant', 'UndefinedNeverPasses',
        'VerdictDef', 'StatSane', 'Additive', 'Symmetric', 'OptionIrrelevantWithoutEmptyBins']
WITNESSES = ['W_LeftOutAndPasses', 'W_AllLeftOut', 'W_NaNStat', 'W_InfStat', 'W_PassAndFail']
NLEV = len(laws.ALPHAS)
TEST_LEVS = [laws.ALPHAS.index(a) + 1 for a in laws.TEST_ALPHAS]
MAX_NDF = len(laws.CHI2_NDF)


# ---------------------------------------------------------------------------------------------------------
# running the implementation

def observe(case, with_meta=False):
    """case: ign, lev, shape, dtype, ref [[v, e], ...], oth [[[v, e], ...], ...].  Returns (obs, problem)."""
    from valjean.eponine.dataset import Dataset
    from valjean.gavroche.stat_tests.chi2 import TestChi2
    shape = tuple(case['shape'])
    nb, nd = len(case['ref']), len(case['oth'])
    alpha = float(laws.ALPHAS[case['lev'] - 1])
    dtype = case.get('dtype', 'float')

    def dataset(cells, scale=1.0, order=None):
        if order is not None:
            cells = [cells[k] for k in order]
        value = array_of([c[0] for c in cells], shape, dtype)
        error = array_of([c[1] for c in cells], shape, dtype)
        if scale != 1.0:
            value, error = value * scale, error * scale
        return Dataset(value, error, name='ds', what='w')

    def test(ref, others):
        t = TestChi2(ref, *others, name='c07', alpha=alpha, ignore_empty=bool(case['ign']))
        return t, t.evaluate()
    try:
        prev = case.get('after')
        if prev and shape != ():
            # the same Dataset objects served another comparison before: their arrays are then overwritten in place with
            # the numbers of this case and a new test is built on them (a test object fixes its bins when it is built)
            objs = [dataset(prev['ref'])] + [dataset(o) for o in prev['oth']]
            test(objs[0], objs[1:])
            for obj, cells in zip(objs, [case['ref']] + list(case['oth'])):
                fresh = dataset(cells)
                obj.value[...] = fresh.value
                obj.error[...] = fresh.error
            t, res = test(objs[0], objs[1:])
        else:
            t, res = test(dataset(case['ref']), [dataset(o) for o in case['oth']])
        verdict = bool(res)
        raw = dict(chi2=res.chi2, pval=res.pvalue, ndf=res.test.ndf, nzb=res.test.nonzero_bins)
    except Exception as ex:  # pylint: disable=broad-except
        return None, 'raised %s: %s' % (type(ex).__name__, ex)
    arr = {}
    for name in ('chi2', 'pval', 'ndf'):
        a = np.asarray(raw[name])
        if a.shape != (nd,):
            return None, '%s malformed: shape %s, expected one entry per compared dataset' % (name, a.shape)
        arr[name] = a
    nzb, form = normalise(raw['nzb'], nd, shape, nb)
    if nzb is None or form != 'full':
        return None, 'nonzero_bins malformed: %s' % (form,)
    levels = [float(a) for a in laws.ALPHAS]
    with np.errstate(all='ignore'):
        out = dict(verdict=verdict,
                   ndf=[int(n) for n in arr['ndf']],
                   nzb=[[bool(x) for x in r] for r in nzb],
                   chi2=[rational_of(float(x)) for x in arr['chi2']],
                   chi2_float=[repr(float(x)) for x in arr['chi2']],
                   pab=[[bool(p > a) for a in levels] for p in arr['pval']],
                   meta=[])
    if with_meta:
        try:
            variants = []
            order = list(range(nb))[::-1]
            if nb > 2:
                order = order[1:] + order[:1]
            variants.append(test(dataset(case['ref'], order=order), [dataset(o, order=order) for o in case['oth']])[1])
            if nd == 1:
                variants.append(test(dataset(case['oth'][0]), [dataset(case['ref'])])[1])
            for c in (1024.0, 3.0):
                variants.append(test(dataset(case['ref'], c), [dataset(o, c) for o in case['oth']])[1])
            out['meta'] = [bool(v) for v in variants]
        except Exception as ex:  # pylint: disable=broad-except
            return None, 'variant raised %s: %s' % (type(ex).__name__, ex)
    return out, None


# ---------------------------------------------------------------------------------------------------------
# comparing with what TLC computed

def stat_matches(e, o):
    k = e['k']
    if k == 'rat':
        # the recorder only recovers rationals with a small denominator
        return (o[0] == 0 and o[1] == e['n'] and o[2] == e['d']) if e['d'] <= MAX_DEN else o[0] in (0, 3)
    return o[0] == {'inf': 1, 'nan': 2}[k]


def stat_class(stat):
    """class of an expected statistic given as TLC record (dict) or as its TLA+ text."""
    k = stat['k'] if isinstance(stat, dict) else (re.search(r'k \|-> "(\w+)"', str(stat)) or [None, 'rat'])[1]
    return {'rat': 'finite-statistic', 'inf': 'infinite-statistic', 'nan': 'undefined-statistic'}[k]


def vkey(what, case, detail=''):
    opt = 'ignore-empty-on' if case['ign'] else 'ignore-empty-off'
    form = 'scalar' if not case['shape'] else 'array'
    if case.get('after'):
        form += '/objects-reused'
    if what == 'raises':
        return 'C07/raises/%s/%s' % (opt, form)
    return 'C07/%s/%s/%s%s' % (what, opt, form, '/' + detail if detail else '')


def compare(out, obs, lev):
    """list of (what, d, i, expected, key detail); (judgements skipped in a band, judgements left free)."""
    bad, skipped, free = [], 0, 0
    ver = out['verdict']
    if wrong(obs['verdict'], ver, 'pass', 'fail'):
        bad.append(('verdict', 0, 0, ver, 'expected-' + ver))
    if obs['verdict'] != all(r[lev - 1] for r in obs['pab']):
        bad.append(('logic', 0, 0, 'every probability exceeds the level', ''))
    for d in range(len(out['ndf'])):
        if obs['ndf'][d] != out['ndf'][d]:
            bad.append(('ndf', d + 1, 0, out['ndf'][d], ''))
        for i, u in enumerate(out['used'][d]):
            if obs['nzb'][d][i] != u:
                bad.append(('used', d + 1, i + 1, u, ''))
        if not stat_matches(out['stat'][d], obs['chi2'][d]):
            bad.append(('chi2', d + 1, 0, dict(out['stat'][d]), stat_class(out['stat'][d])))
        pv = out['pv'][d]
        skipped += sum(1 for p in pv if p == 'band')
        free += sum(1 for p in pv if p == 'free')
        if any(wrong(obs['pab'][d][j], pv[j], 'yes', 'no') for j in range(len(pv))):
            bad.append(('pvalue', d + 1, 0, list(pv), stat_class(out['stat'][d])))
    for m, v in enumerate(obs.get('meta', [])):
        if wrong(v, ver, 'pass', 'fail'):
            bad.append(('meta', m + 1, 0, ver, 'expected-' + ver))
    return bad, (skipped, free)


def case_of_state(st, shape, dtype='float'):
    return dict(ign=bool(st['ign']), lev=int(st['lev']), shape=list(shape), dtype=dtype,
                ref=[[num(c[0]), num(c[1])] for c in st['ref']],
                oth=[[[num(c[0]), num(c[1])] for c in o] for o in st['oth']])


def _seen(obs):
    return 'observed verdict=%s chi2=%s ndf=%s nonzero_bins=%s pvalue>levels=%s' % (
        obs['verdict'], obs['chi2_float'], obs['ndf'], obs['nzb'], obs['pab'])


def _replay_blocks(blocks):
    res = dict(n=0, evals=0, bad=[], skipped=0, free=0, distinct=set(), samples=[])
    last = {}          # (bins, datasets) -> numbers of earlier states of that form
    for blk in blocks:
        st = parse_state(blk)
        out = _plain(st['out'])
        nb = len(st['ref'])
        res['n'] += 1
        if out['verdict'] != 'undet':
            res['distinct'].add((bool(st['ign']), int(st['lev']),
                                 tuple((s['k'], s['n'], s['d'], n) for s, n in zip(out['stat'], out['ndf']))))
        variants = [(s, 'float') for s in shapes_for(nb)]
        if all(isinstance(c[0], int) and isinstance(c[1], int) for cells in (st['ref'],) + tuple(st['oth']) for c in cells):
            variants.append((shapes_for(nb)[0], 'int'))
        multi = [sh for sh in shapes_for(nb) if len(sh) >= 2 and int(np.prod(sh)) > 1]
        if multi:
            variants.append((multi[-1], 'float-T'))            # the same arrays as transposed (non-contiguous) views
        form = (nb, len(st['oth']))
        if last.get(form) and shapes_for(nb)[-1]:
            variants.append((shapes_for(nb)[-1], 'float-after'))   # on the objects that served an earlier state
        for k, (shape, dtype) in enumerate(variants):
            layout = 'C'
            after = None
            if dtype == 'float-T':
                dtype, layout = 'float', 'T'
            elif dtype == 'float-after':
                dtype = 'float'
                cur = case_of_state(st, shape, dtype)
                pool = [p for p in last[form] if p['ref'] != cur['ref'] or p['oth'] != cur['oth']]
                if not pool:
                    continue
                after = pool[(res['n'] * 7919) % len(pool)]
            case = case_of_state(st, shape, dtype)
            if after:
                case['after'] = after
            if layout != 'C':
                case['layout'] = layout
            conf_student.LAYOUT[0] = layout
            try:
                obs, problem = observe(case)
            finally:
                conf_student.LAYOUT[0] = 'C'
            res['evals'] += 1
            if problem:
                res['bad'].append((vkey('raises', case), problem, case))
                continue
            bad, skipped = compare(out, obs, case['lev'])
            if k == 0:
                res['skipped'] += skipped[0]
                res['free'] += skipped[1]
            for what, d, i, exp, detail in bad:
                res['bad'].append((vkey(what, case, detail),
                                   '%s: Chi2.tla expects %s at dataset %d bin %d; %s' % (what, exp, d, i, _seen(obs)), case))
            if k == 0:
                nums = dict(ref=case['ref'], oth=case['oth'])
                pool = last.setdefault(form, [])
                if nums not in pool[-3:]:
                    pool.append(nums)
                    del pool[:-40]
            if k == 0 and not res['samples'] and res['n'] % 97 == 1:
                res['samples'].append(dict(case=case, expected=dict(verdict=out['verdict'], ndf=out['ndf'], stat=out['stat']),
                                           observed=dict(verdict=obs['verdict'], chi2=obs['chi2_float'], ndf=obs['ndf'])))
    return res


# ---------------------------------------------------------------------------------------------------------
# TLC runs

def _consts(vals, errs, max_bins, max_ds, levs, igns=(False, True), mode='enum', nrand=0, table=None):
    c = dict(MVS)
    c.update(MaxBins=max_bins, MaxDs=max_ds, Levs=frozenset(levs), Igns=frozenset(igns), Mode=mode, NRand=nrand)
    defs = dict(Vals=tla_set(TLA_OF.get(v, v) for v in vals), Errs=tla_set(TLA_OF.get(e, e) for e in errs),
                Crit=table or laws.chi2_table())
    return c, defs


def _tlc(wd, name, consts, defs, invariants, **kw):
    mod, sub = mc_module(wd, 'Chi2', 'MC_' + name, defs)
    c = dict(consts)
    c.update(sub)
    cfg = tlc.write_cfg(os.path.join(wd, name + '.cfg'), constants=c, invariants=invariants, deadlock=False)
    kw.setdefault('env', JVM_ENV)
    return tlc.run(mod, cfg, **kw)


def _account(ctx, results):
    for r in results:
        ctx.count(evaluations=r['evals'], traces=r['n'])
        ctx.cov['skipped_in_band'] += r['skipped']
        ctx.cov['not_judged_statement_silent'] = ctx.cov.get('not_judged_statement_silent', 0) + r['free']
        for key in r['distinct']:
            ctx.distinct(key)
        for key, what, case in r['bad']:
            ctx.violation(key, what, case, module='conf_chi2')
        for s in r['samples']:
            ctx.sample(s)


FULL_V = [-2, -1, 0, 1, 2, 'nan', 'inf', '-inf']
FULL_E = [0, 1, 2, 'nan', 'inf']


def run_c07(ctx):
    ctx.rule('spec->code: every evaluated state of Chi2.tla (Init enumerates / draws cells <<value, error>> over small '
             'integers -- plus NaN, +-inf when ignore_empty is off -- for 1..3 bins exhaustively and up to 8 at random, 1..3 '
             'compared datasets, both settings of the option, levels of the table; Eval computes used bins, ndf, the exact '
             'rational statistic, p-above-level flags and the verdict) is executed as TestChi2.evaluate() in every shape of '
             'that size. code->spec: seeded random comparisons to 4-d incl. near-critical sums for ndf 1..8 and permuted / '
             'swapped / rescaled variants, judged by TLC against Chi2Trace.tla. distinct_nontrivial = distinct (option, '
             'level, per-dataset (statistic, ndf)) with a determined verdict.')
    ctx.assume('critical values: rational bands (relative half-width 1e-9) from harness/laws.py (decimal/fractions, closed '
               'forms of the chi-square upper tail), band ends verified in 50-digit arithmetic; scipy only cross-checked')
    ctx.assume('cell contents are small integers (exact in float64), NaN, +-inf; result.chi2 is mapped to the nearest '
               'rational with denominator <= 10^4 (relative residual <= 1e-12, else reported as not rational); with '
               'ignore_empty only finite cells (as the statement quantifies); ndf = 0 is not judged')
    problems = laws.selftest()
    if problems:
        raise tlc.MachineryError('laws.py self-test / scipy cross-check failed: %s' % problems[:3])
    import valjean.gavroche.stat_tests.chi2  # noqa: F401  pylint: disable=unused-import,import-outside-toplevel
    wd = tlc.workdir('c07')
    all_levs = list(range(1, NLEV + 1))
    nsim = ctx.pick(150, 1500)
    sim = os.path.join(wd, 'sim')
    big = ('bin2', 'bin2s', 'bin3')
    runs = [
        ('bin1', _consts(FULL_V, FULL_E, 1, 1, ctx.pick(TEST_LEVS, all_levs)), {}),
        ('bin2', _consts([0, 1, 2], [0, 1, 2], 2, 1, ctx.pick([TEST_LEVS[1]], TEST_LEVS)), {}),
        ('bin2s', _consts(ctx.pick([0, 1, 'nan', 'inf'], [0, 1, 'nan', 'inf', '-inf']), [0, 1, 'nan'],
                          2, 1, [TEST_LEVS[1]], igns=[False]), {}),
        ('bin3', _consts(ctx.pick([0, 2], [0, 1, 2]), [0, 1], 3, 1, [TEST_LEVS[1]]), {}),
        ('ds2', _consts([0, 2], [0, 1], 2, 2, ctx.pick([TEST_LEVS[1]], TEST_LEVS)), {}),
        ('rand_full', _consts(FULL_V, FULL_E, 8, 3, all_levs, mode='rand', nrand=ctx.pick(40, 400)),
         dict(extra=['-seed', str(ctx.seed + 1)])),
        ('rand_finite', _consts([-3, -2, -1, 0, 1, 2, 3], [0, 1, 2, 3], 8, 3, all_levs, mode='rand', nrand=ctx.pick(40, 400)),
         dict(extra=['-seed', str(ctx.seed + 2)])),
        ('build', _consts(FULL_V, FULL_E, 4, 2, TEST_LEVS, mode='build'),
         dict(simulate=dict(num=nsim, file=sim), depth=15, seed=ctx.seed + 7, workers=1, coverage=False)),
    ]

    def launch(run):
        name, (consts, defs), kw = run
        kw = dict(kw)
        if 'simulate' not in kw:
            kw.update(dump=os.path.join(wd, name), workers=ctx.pick(3, 6), coverage=name not in big and ctx.quick)
        return _tlc(wd, name, consts, defs, INVS, **kw)

    wc, wdefs = _consts([0, 3], [0, 1], 2, 2, [TEST_LEVS[1]])
    synth = ((((39, 10), (41, 10)), ((29, 10), (31, 10))), (((59, 10), (61, 10)), ((44, 10), (46, 10))))   # [3.9, 4.1], [2.9, 3.1]; ..
    bc, bdefs = _consts([0, 2, 4], [0, 1, 2], 1, 1, [1], table=synth)

    def witness(w):
        if w == 'W_Band':
            return _tlc(wd, 'band', bc, bdefs, ['W_Band'], coverage=False, workers=2)
        return _tlc(wd, w, wc, wdefs, [w], coverage=False, workers=2)
    _tick('start')
    with ThreadPoolExecutor(max_workers=7) as ex:
        results = list(ex.map(launch, runs))
        wres = list(ex.map(witness, WITNESSES + ['W_Band']))
    _tick('TLC runs: ' + ', '.join('%s %.0fs' % (r[0], x.wall) for r, x in zip(runs, results)))
    for (name, _, kw), res in zip(runs, results):
        ctx.tlc(res, 'Chi2/' + name)
        if res.violation:
            raise tlc.MachineryError('Chi2.tla %s: %s\n%s' % (name, res.violation, res.out[-1500:]))
        if 'simulate' in kw:
            blocks = []
            for fname in sorted(os.listdir(wd)):
                if fname.startswith('sim_'):
                    with open(os.path.join(wd, fname)) as f:
                        parts = re.split(r'^STATE_\d+ ==\s*', f.read(), flags=re.M)
                    body = re.sub(r'^\\\*.*$', '', parts[-1].split('\n\n')[0], flags=re.M)
                    if 'pc = "done"' in body:
                        blocks.append(body)
                    os.remove(os.path.join(wd, fname))
            if len(blocks) < nsim // 2:
                raise tlc.MachineryError('Chi2.tla build/simulate: only %d of %d behaviours reached Eval' % (len(blocks), nsim))
        else:
            blocks = done_blocks(os.path.join(wd, name))
            os.remove(os.path.join(wd, name) + '.dump')
            if res.coverage:
                tlc.check_coverage(res, ['Eval'], 'Chi2/' + name)
            if not blocks or 2 * len(blocks) != res.distinct:
                raise tlc.MachineryError('Chi2.tla %s: %d evaluated states for %d states' % (name, len(blocks), res.distinct))
        _account(ctx, run_parallel(_replay_blocks, chunked(blocks, 3 * NPROC)))
        _tick('replayed %s: %d states' % (name, len(blocks)))

    for w, r in zip(WITNESSES + ['W_Band'], wres):
        if r.violation != ('invariant', w):
            raise tlc.MachineryError('witness %s not reachable in Chi2.tla (%s)' % (w, r.violation))


    _code_to_spec(ctx, wd)
    ctx.cov['exhaustive'] = True
    ctx.cov['explanation'] = ('exhaustive over the enumerated configurations in tlc_runs (every single-bin input of the grid, '
                              'reduced grids for 2-3 bins and 2 datasets, both option settings); random beyond')


# ---------------------------------------------------------------------------------------------------------
# code -> spec

SHAPES = [(), (1,), (2,), (3,), (5,), (8,), (1, 2), (2, 1), (2, 2), (2, 3), (2, 4), (1, 1, 3), (2, 2, 2), (1, 2, 1, 2)]


def _gen_case(rng, table):
    ign = rng.random() < 0.5
    lev = rng.randint(1, NLEV)
    shape = rng.choice(SHAPES)
    nb = int(np.prod(shape)) if shape else 1
    nd = rng.choice([1, 1, 2, 3])
    kind = rng.choice(['grid', 'close', 'close', 'near'] + ([] if ign else ['special']))
    ref, oth = [], [[] for _ in range(nd)]
    if kind == 'near':
        # every compared dataset: the used bins have equal values except one, whose term sits next to the critical value
        # of (number of used bins, some level); with the option a few both-zero-error bins are thrown in (left out)
        ref = [[rng.randint(-20, 20), rng.randint(1, 3)] for _ in range(nb)]
        for d in range(nd):
            cells = [[ref[i][0], rng.randint(0, 3)] for i in range(nb)]
            ndf = nb
            hot = rng.randrange(nb)
            crit = laws.mid(table[ndf - 1][rng.choice([lev, lev, rng.randint(1, NLEV)]) - 1])
            e1 = ref[hot][1]
            for _ in range(50):
                e2 = rng.randint(1, 9000)
                s = e1 * e1 + e2 * e2
                root = math.sqrt(crit * s)
                if 2 <= root <= 14000:
                    break
            delta = max(0, int(root) + rng.choice([-1, 0, 1, 2]))
            cells[hot] = [ref[hot][0] + delta * rng.choice([-1, 1]), e2]
            oth[d] = cells
        if ign and nb > 1 and rng.random() < 0.6:
            # make one non-hot bin empty on both sides for every dataset: it must leave sum and count
            k = rng.randrange(nb)
            if all(oth[d][k][0] == ref[k][0] for d in range(nd)):
                ref[k][1] = 0
                for d in range(nd):
                    oth[d][k] = [ref[k][0] + rng.choice([0, 5]), 0]
                # the critical value aimed at was the one of nb degrees of freedom: still a valid (if less sharp) case
    else:
        for _ in range(nb):
            if kind == 'special' and rng.random() < 0.35:
                sv = lambda: rng.choice(['nan', 'inf', '-inf', 0, 1, 2])
                se = lambda: rng.choice(['nan', 'inf', 0, 1, 2])
                ref.append([sv(), se()])
                for d in range(nd):
                    oth[d].append([sv(), se()])
                continue
            zero = rng.random() < 0.3
            v = rng.randint(-10, 10)
            ref.append([v, 0 if zero else rng.randint(0, 3)])
            for d in range(nd):
                dv = rng.choice([0, 0, 1, -1, 2, -2]) if kind == 'close' else rng.randint(-10, 10) - v
                oth[d].append([v + dv, 0 if zero and rng.random() < 0.8 else rng.randint(0, 3)])
    dtype = 'int' if rng.random() < 0.15 else 'float'
    return dict(ign=ign, lev=lev, shape=list(shape), dtype=dtype, ref=ref, oth=oth)


def to_json_case(cid, case, obs):
    cells = lambda cs: [tagged(c[0]) + tagged(c[1]) for c in cs]
    return dict(id=cid, ign=bool(case['ign']), lev=case['lev'], ref=cells(case['ref']), oth=[cells(o) for o in case['oth']],
                verdict=obs['verdict'], ndf=obs['ndf'], nzb=obs['nzb'], chi2=obs['chi2'], pab=obs['pab'], meta=obs['meta'])


def run_trace(wd, name, json_cases, invariants=INVS, timeout=1800):
    mod, sub = mc_module(wd, 'Chi2Trace', 'MC_T' + name, dict(Crit=laws.chi2_table()))
    c = dict(MVS)
    c.update(sub)
    cj = tlc.json_dump(os.path.join(wd, 'cases_%s.json' % name), json_cases)
    oj = os.path.join(wd, 'out_%s.json' % name)
    cfg = tlc.write_cfg(os.path.join(wd, 'trace_%s.cfg' % name), spec='TSpec', constants=c, invariants=invariants,
                        deadlock=False, postcondition='Post')
    res = tlc.run(mod, cfg, workers=1, env=dict(JVM_ENV, VERIF_CASES=cj, VERIF_OUT=oj), coverage=False, timeout=timeout)
    if not res.ok:
        raise tlc.MachineryError('Chi2Trace %s: %s\n%s' % (name, res.violation, res.out[-2000:]))
    with open(oj) as f:
        return res, json.load(f)


def _observe_chunk(items):
    return [(cid, case) + observe(case, with_meta=True) for cid, case in items]


def _code_to_spec(ctx, wd):
    rng = ctx.rng
    table = laws.chi2_table()
    n = ctx.pick(2500, 20000)
    todo = [(cid, _gen_case(rng, table)) for cid in range(1, n + 1)]
    recorded = {}
    for chunk in run_parallel(_observe_chunk, chunked(todo, 2 * NPROC)):
        for cid, case, obs, problem in chunk:
            if problem:
                ctx.violation(vkey('raises', case), problem, case, module='conf_chi2')
            else:
                recorded[cid] = (case, obs)
    batches = chunked(sorted(recorded), ctx.pick(8, 12))
    _tick('observed %d random cases' % len(recorded))

    def validate(k):
        return run_trace(wd, 'b%d' % k, [to_json_case(cid, *recorded[cid]) for cid in batches[k]])
    with ThreadPoolExecutor(max_workers=12) as ex:
        outs = list(ex.map(validate, range(len(batches))))
    _tick('trace validation: ' + ', '.join('%.0fs' % r.wall for r, _ in outs))
    nbad = 0
    for k, (res, out) in enumerate(outs):
        ctx.tlc(res, 'Chi2Trace/batch%d' % k)
        ctx.count(evaluations=len(batches[k]), traces=len(batches[k]))
        ctx.cov['skipped_in_band'] += int(out['skipped'])
        ctx.cov['not_judged_statement_silent'] = ctx.cov.get('not_judged_statement_silent', 0) + int(out['free'])
        for cid, what, d, i, exp in sorted(out['bad'], key=lambda b: (b[0], b[1], b[2], b[3])):
            case, obs = recorded[cid]
            nbad += 1
            detail = ('expected-' + exp) if what in ('verdict', 'meta') else stat_class(exp) if what == 'chi2' else ''
            if what == 'pvalue':
                detail = stat_class(dict(k={0: 'rat', 1: 'inf', 2: 'nan', 3: 'rat'}[obs['chi2'][d - 1][0]]))
            ctx.violation(vkey(what, case, detail), '%s: Chi2.tla expects %s at dataset %d bin %d; %s' % (what, exp, d, i, _seen(obs)),
                          case, module='conf_chi2')
    for cid in sorted(recorded)[:2]:
        case, obs = recorded[cid]
        ctx.sample(dict(case=case, observed=dict(verdict=obs['verdict'], chi2=obs['chi2_float'], ndf=obs['ndf']), source='random'))
    ctx.cov['explanation_random'] = '%d random comparisons recorded, %d mismatches reported by TLC' % (len(recorded), nbad)


# ---------------------------------------------------------------------------------------------------------

def replay_case(case):
    """Run one case on the implementation and let TLC (Chi2Trace.tla) judge it."""
    obs, problem = observe(case, with_meta=True)
    if problem:
        return False, problem
    wd = tlc.workdir('c07r')
    _, out = run_trace(wd, 'replay', [to_json_case(1, case, obs)], invariants=[])
    bad = sorted(out['bad'], key=lambda b: (b[1], b[2], b[3]))
    if bad:
        return False, '; '.join('%s dataset %d bin %d expected %s' % (b[1], b[2], b[3], b[4]) for b in bad[:4]) + ' -- ' + _seen(obs)
    return True, '%s as Chi2.tla expects (%s)' % (_seen(obs), out['last']['verdict'])
