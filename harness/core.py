"""Check context: evidence, violations, known findings, exit codes."""
import hashlib
import json
import os
import random
import sys
import time

HERE = os.path.dirname(os.path.abspath(__file__))
VERIF = os.path.dirname(HERE)
REPO = os.environ.get('VERIF_REPO', '/repo')

LEVELS = {'C10': 'exploration', 'C11': 'fault_enumeration'}


def load_findings():
    path = os.path.join(VERIF, 'known_findings.json')
    with open(path) as f:
        out = json.load(f).get('findings', [])
    ddir = os.path.join(VERIF, 'known_findings.d')
    if os.path.isdir(ddir):
        for name in sorted(os.listdir(ddir)):
            if name.endswith('.json'):
                with open(os.path.join(ddir, name)) as f:
                    out += json.load(f).get('findings', [])
    return out


def _prune_replay_dirs(max_age_s=6 * 3600):
    """Directories replays/<pid>.<process id> of runs without evidence, older than a few hours."""
    top = os.path.join(VERIF, 'replays')
    try:
        for n in os.listdir(top):
            p = os.path.join(top, n)
            if '.' in n and os.path.isdir(p) and time.time() - os.path.getmtime(p) > max_age_s:
                import shutil
                shutil.rmtree(p, ignore_errors=True)
    except OSError:
        pass


class Ctx:
    def __init__(self, pid, tier='quick', seed=0, write_evidence=True):
        self.pid = pid
        self.tier = tier
        self.seed = seed
        self.t0 = time.time()
        self.rng = random.Random(seed)
        self.level = LEVELS.get(pid, 'model_checking')
        self.cov = dict(states=0, transitions=0, traces_validated_against_impl=0, evaluations=0,
                        distinct_nontrivial=0, rule='', samples=[], exhaustive=False,
                        tlc_runs=[], actions={}, drift=[], skipped_in_band=0, known_findings=[])
        self.assumptions = []
        self.violations = {}     # key -> dict
        self.known = {}          # key -> what
        self.findings = [f for f in load_findings() if f.get('property') == pid]
        self.write_evidence = write_evidence
        self._distinct = set()
        # replay files: replays/<pid>/ (emptied first) for the run that writes the evidence; a run with --no-evidence gets
        # a directory of its own, so that concurrent runs of one property do not destroy each other's files
        self.rdir = os.path.join(VERIF, 'replays', pid if write_evidence else '%s.%d' % (pid, os.getpid()))
        if os.path.isdir(self.rdir):
            for n in os.listdir(self.rdir):
                os.remove(os.path.join(self.rdir, n))
        _prune_replay_dirs()

    # ---- accounting -------------------------------------------------
    @property
    def quick(self):
        return self.tier == 'quick'

    def pick(self, quick, thorough):
        return quick if self.tier == 'quick' else thorough

    def tlc(self, res, name):
        """Account for one TLC run."""
        self.cov['states'] += res.distinct
        self.cov['transitions'] += res.generated
        self.cov['tlc_runs'].append(dict(name=name, **res.summary()))
        if os.environ.get('VERIF_VERBOSE'):
            print('  tlc %-40s %s' % (name, res.summary()), flush=True)
        for a, (d, t) in res.coverage.items():
            cur = self.cov['actions'].setdefault(a, 0)
            self.cov['actions'][a] = cur + t

    def count(self, evaluations=0, traces=0):
        self.cov['evaluations'] += evaluations
        self.cov['traces_validated_against_impl'] += traces

    def distinct(self, key):
        """Register one distinct non-trivial case (hashable key)."""
        self._distinct.add(key)

    def sample(self, obj, limit=6):
        if len(self.cov['samples']) < limit:
            self.cov['samples'].append(obj)

    def rule(self, text):
        self.cov['rule'] = (self.cov['rule'] + ' ' + text).strip()

    def assume(self, text):
        if text not in self.assumptions:
            self.assumptions.append(text)

    def drift(self, what):
        """An implementation-level difference with the model that does not falsify the property.  The first 20 are printed
        and kept; the others are only counted (`drift_total` in the evidence, one summary line at the end)."""
        self.cov['drift_total'] = self.cov.get('drift_total', 0) + 1
        if len(self.cov['drift']) < 20:
            self.cov['drift'].append(what)
            print('DRIFT property=%s %s' % (self.pid, what))

    def extra(self, name, fn, *args):
        """Run an extra module (behaviour beyond the listed property, see DESIGN 10.6).  Whatever goes wrong inside it --
        a refactoring of valjean it cannot follow, a TLC failure -- must not break the check of the property itself:
        it is reported as one DRIFT line and recorded."""
        try:
            return fn(self, *args)
        except Exception as ex:  # pylint: disable=broad-except
            msg = 'extra module %s could not run: %s: %s' % (name, type(ex).__name__, str(ex).strip().splitlines()[0][:300] if str(ex).strip() else '')
            self.cov.setdefault('extra_module_errors', []).append(msg)
            self.drift(msg)
            return None

    # ---- violations -------------------------------------------------
    def violation(self, key, what, case, module=None, fn='replay_case'):
        """Report a property violation for finding-class `key` (first case per key is kept)."""
        for f in self.findings:
            if f.get('key') == key and f.get('status') == 'open':
                if key not in self.known:
                    self.known[key] = f.get('what', what)
                    self.cov['known_findings'].append(dict(key=key, example=_jsonable(case), what=what))
                return
        if key in self.violations:
            self.violations[key]['count'] += 1
            return
        rdir = self.rdir
        os.makedirs(rdir, exist_ok=True)
        name = hashlib.sha1(key.encode()).hexdigest()[:10] + '.json'
        path = os.path.join(rdir, name)
        with open(path, 'w') as f:
            json.dump(dict(property=self.pid, key=key, what=what, module=module, fn=fn, case=_jsonable(case),
                           variant=os.environ.get('VERIF_ENV_VARIANT', '')),
                      f, indent=1, sort_keys=True, default=str)
        self.violations[key] = dict(what=what, replay=path, count=1)

    # ---- end --------------------------------------------------------
    def finish(self):
        self.cov['distinct_nontrivial'] = len(self._distinct)
        if self.cov.get('drift_total', 0) > len(self.cov['drift']):
            print('DRIFT property=%s ... %d more lines of the same kind not printed' % (self.pid, self.cov['drift_total'] - len(self.cov['drift'])))
        for key, what in sorted(self.known.items()):
            print('KNOWN-FINDING: property=%s %s: %s' % (self.pid, key, what))
        for key, v in sorted(self.violations.items()):
            print('VIOLATION property=%s replay=%s' % (self.pid, v['replay']))
            print('  key=%s count=%d: %s' % (key, v['count'], v['what']))
        ev = dict(property_id=self.pid, tier=self.tier, seed=self.seed, level=self.level,
                  coverage=self.cov, assumptions=self.assumptions,
                  wall_s=round(time.time() - self.t0, 2),
                  violations=len(self.violations) + (1 if getattr(self, 'variant_failed', False) else 0))
        if not self.cov['samples']:
            self.cov['samples'].append('none recorded')
        if self.write_evidence:
            os.makedirs(os.path.join(VERIF, 'evidence'), exist_ok=True)
            with open(os.path.join(VERIF, 'evidence', self.pid + '.json'), 'w') as f:
                json.dump(ev, f, indent=1, default=str)
        print('%s tier=%s seed=%d: states=%d transitions=%d traces=%d evaluations=%d distinct=%d wall=%.1fs -> %s' % (
            self.pid, self.tier, self.seed, self.cov['states'], self.cov['transitions'],
            self.cov['traces_validated_against_impl'], self.cov['evaluations'], self.cov['distinct_nontrivial'],
            time.time() - self.t0, 'VIOLATION' if self.violations else
            'VIOLATION (in the environment variant)' if getattr(self, 'variant_failed', False) else 'held'))
        return 1 if self.violations or getattr(self, 'variant_failed', False) else 0


def _jsonable(o):
    try:
        json.dumps(o)
        return o
    except TypeError:
        pass
    if isinstance(o, dict):
        return {str(k): _jsonable(v) for k, v in o.items()}
    if isinstance(o, (list, tuple)):
        return [_jsonable(x) for x in o]
    if isinstance(o, (set, frozenset)):
        return sorted((_jsonable(x) for x in o), key=repr)
    return repr(o)


def use_repo():
    """Make `import valjean` resolve to the tree under test."""
    if REPO not in sys.path[:1]:
        sys.path.insert(0, REPO)
    import warnings
    warnings.filterwarnings('ignore')
    import logging
    if os.environ.get('VERIF_ENV_VARIANT'):
        # environment variant (see main._start_variant): every valjean logger is enabled down to DEBUG, the records are
        # discarded by the handlers
        logging.disable(logging.NOTSET)
        try:
            import valjean   # noqa: F401  (installs its handler)
        except Exception:  # pylint: disable=broad-except
            pass
        lg = logging.getLogger('valjean')
        lg.setLevel(logging.DEBUG)
        for h in lg.handlers + logging.getLogger().handlers:
            h.setLevel(logging.CRITICAL + 10)
        lg.propagate = False
    else:
        logging.disable(logging.CRITICAL)
