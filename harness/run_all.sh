#!/bin/sh
# run_all.sh [quick|thorough] [pid ...] : run the registered checks (all by default) in turn, one summary line each
tier=${1:-quick}
[ $# -gt 0 ] && shift
pids=${*:-C01 C02 C03 C04 C05 C06 C07 C08 C09 C10 C11 C12 C13 C14 C15 C16 C17 C18 C19 C20}
cd "$(dirname "$0")/.."
for p in $pids; do
  ./check $p --tier $tier > /tmp/runall-$tier-$p.log 2>&1; rc=$?
  echo "rc=$rc $(grep -E "tier=" /tmp/runall-$tier-$p.log | tail -1 | cut -c1-160) $(grep -c -E '^DRIFT' /tmp/runall-$tier-$p.log) drift $(grep -c -E '^KNOWN' /tmp/runall-$tier-$p.log) known"
done
