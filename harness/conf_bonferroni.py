"""C06 -- Bonferroni correction and Holm-Bonferroni method: binding of specs/Bonferroni.tla to
valjean.gavroche.stat_tests.bonferroni.

spec -> code : every state TLC dumps for the exhaustive configurations of Bonferroni.tla (all p-value arrays
               over a grid straddling every level/k, NaN included, shapes (), (m,), (1,m), (m,1), (2,2), one or
               two compared datasets) is run through the public static methods and through
               TestBonferroni/TestHolmBonferroni wrapped around a test object; the flags, the reported
               per-bin levels, nb_rejected and bool() are compared with what TLC computed (Bonferroni flags
               equal; Holm output a member of the set of outputs TLC derived from every sorting ranking).
code -> spec : the same observations, plus seeded random arrays up to 30 bins / 3-d, plus real
               TestStudent comparisons (p-values read from the Student result), are recorded as JSON and
               judged by TLC against BonferroniTrace.tla, which names the violated clauses per case.
Every VIOLATION comes from the TLC verdict of BonferroniTrace; the comparison with the dump is a second,
independent oracle (set-of-rankings form of the definition) and must agree with it (else MachineryError).
"""
import json
import math
import os
from fractions import Fraction

import numpy as np

import tlc
from tlc import Raw
from tlaval import MV

SPEC = os.path.join(tlc.SPECS, 'Bonferroni.tla')
TRACE = os.path.join(tlc.SPECS, 'BonferroniTrace.tla')
INVS = ['TypeOK', 'NaNNeverAccepted', 'InclusionOffTie', 'TieBreaksInclusion', 'BinwiseImpliesCorrections',
        'CountsAgree']
HEAVY = ['AcceptsIsMembership', 'ReshapeInvariant']
WITNESSES = ['W_Tie', 'W_HolmBeyond', 'W_TieOrders', 'W_NaN', 'W_AllPass']
TIE_KEY = 'C06/inclusion-at-tie-min-p-equals-level-over-m'
KEYS = {'bonf/nan-accepted': 'C06/nan-pvalue-accepted/bonferroni',
        'holm/nan-accepted': 'C06/nan-pvalue-accepted/holm',
        'inclusion/tie': TIE_KEY}
QBITS = 14          # p-values read from a Student result are located on the grid k / 2^14 (keeps TLC products < 2^31)


def key_of(clause):
    return KEYS.get(clause, 'C06/' + clause)


# ---------------------------------------------------------------------------------------------
# running the implementation

_STUB = {}


def _stub_classes():
    if not _STUB:
        from valjean.eponine.dataset import Dataset
        from valjean.gavroche.test import Test, TestResult

        class GivenPValuesResult(TestResult):
            def __init__(self, test, pvalue):
                super().__init__(test)
                self.pvalue = pvalue

            def __bool__(self):
                return True

        class GivenPValues(Test):
            """A test whose evaluation yields given p-value arrays (one per compared dataset)."""
            def __init__(self, shape, pvalues):
                super().__init__(name='given')
                self.dsref = Dataset(np.zeros(shape), np.zeros(shape))
                self._pvalues = pvalues

            def evaluate(self):
                return GivenPValuesResult(self, [p.copy() for p in self._pvalues])

        _STUB['test'] = GivenPValues
    return _STUB['test']


def _cells_index(shape):
    return list(np.ndindex(*shape))


def _array(shape, ps):
    """Place p-values (None | [num, den]) bin by bin; the list order is that of np.ndindex(shape), used
    by this harness only for naming bins -- input and output are always paired by multi-index."""
    arr = np.empty(tuple(shape), dtype=float)
    for idx, p in zip(_cells_index(shape), ps):
        arr[idx] = float('nan') if p is None else p[0] / p[1]
    return arr


def _layout(arr, layout):
    """The same logical array in another memory layout: 'F' Fortran-ordered copy, 'T' a transposed view of a
    C-ordered array (non-contiguous).  Values, shape and indices are unchanged."""
    if arr.ndim < 2 or layout in (None, 'C'):
        return arr
    if layout == 'F':
        return np.asfortranarray(arr)
    return np.ascontiguousarray(arr.T).T


def _small_fraction(x, maxden=100000):
    fr = Fraction(float(x)).limit_denominator(maxden)
    return fr if float(fr) == float(x) else None


def _den_of(level_f, alpha_i):
    """k such that alpha_i is level/k (0 when there is no such integer)."""
    a = float(alpha_i)
    if not (a > 0) or math.isinf(a):
        return 0
    k = int(round(level_f / a))
    if k < 1 or abs(a * k - level_f) > 1e-12 * level_f:
        return 0
    return k


def _enc_p(p, thresholds):
    """Float p-value -> exact rational for TLC ([] = undefined).  Dyadic values with at most QBITS bits are
    sent exactly; any other value is represented by the midpoint of its grid interval, which is sound for
    every order comparison the property makes unless a level/k falls strictly inside the same interval
    (then returns 'band')."""
    p = float(p)
    if math.isnan(p):
        return []
    scale = 1 << QBITS
    fr = Fraction(p)
    if (fr * scale).denominator == 1:
        fr2 = Fraction(int(fr * scale), scale)
        return [fr2.numerator, fr2.denominator]
    k = math.floor(fr * scale)
    for t in thresholds:
        if math.floor(t * scale) == k and (t * scale).denominator != 1:
            return 'band'
    return [2 * k + 1, 2 * scale]


def _flag_cells(shape, parr, bonf, alphas, holm, level_f, thresholds, exact_ps=None):
    """Pair input and outputs bin by bin.  Returns (cells, problem)."""
    for name, a in (('bonferroni flags', bonf), ('holm flags', holm), ('holm levels', alphas)):
        if np.shape(a) != tuple(shape):
            return None, 'shape of %s is %s for p-values of shape %s' % (name, np.shape(a), tuple(shape))
    cells = []
    for n, idx in enumerate(_cells_index(shape)):
        if exact_ps is not None:
            p = [] if exact_ps[n] is None else list(exact_ps[n])
        else:
            p = _enc_p(np.asarray(parr)[idx], thresholds)
            if p == 'band':
                return 'band', None
        cells.append(dict(p=p, bonf=bool(np.asarray(bonf)[idx]), hflag=bool(np.asarray(holm)[idx]),
                          hden=_den_of(level_f, np.asarray(alphas)[idx]), idx=list(idx)))
    return cells, None


def observe(case):
    """Run one case on the implementation.  Returns (obs, problem); obs None + problem None = skipped."""
    from valjean.gavroche.stat_tests.bonferroni import TestBonferroni, TestHolmBonferroni
    path = case['path']
    shape = tuple(case['shape'])
    try:
        if path == 'static':
            lvl = Fraction(*case['level'])
            level_f = lvl.numerator / lvl.denominator
            data = []
            for ps in case['data']:
                arr = _layout(_array(shape, ps), case.get('layout'))
                m = arr.size
                before = arr.tobytes()
                bonf = TestBonferroni.bonferroni_correction(arr, level_f / m)
                alphas, holm = TestHolmBonferroni.holm_bonferroni_method(arr, level_f)
                if arr.tobytes() != before:
                    return None, 'p-value array modified'
                cells, problem = _flag_cells(shape, arr, bonf, alphas, holm, level_f, [], exact_ps=ps)
                if problem:
                    return None, problem
                data.append(dict(cells=cells, nbBonf=sum(c['bonf'] for c in cells),
                                 nbHolm=sum(c['hflag'] for c in cells)))
            return dict(level=[lvl.numerator, lvl.denominator], bonfDen=-1, haveVerdict=False, bonfVerdict=True,
                        holmVerdict=True, binwise=False, data=data), None
        if path == 'stub':
            lvl = Fraction(*case['level'])
            alpha_in = 2 * lvl.numerator / lvl.denominator
            arrs = [_layout(_array(shape, ps), case.get('layout')) for ps in case['data']]
            test = _stub_classes()(shape, arrs)
            exact = case['data']
            binwise = False
        else:
            from valjean.eponine.dataset import Dataset
            from valjean.gavroche.stat_tests.student import TestStudent
            alpha_in = case['alpha'][0] / case['alpha'][1]

            def mk(d, name):
                v = np.array([float('nan') if x is None else x for x in d['v']], dtype=float).reshape(shape)
                e = np.array(d['e'], dtype=float).reshape(shape)
                if case.get('scalar'):
                    return Dataset(np.float64(v.ravel()[0]), np.float64(e.ravel()[0]), name=name)
                return Dataset(_layout(v, case.get('layout')), _layout(e, case.get('layout')), name=name)
            test = TestStudent(mk(case['ref'], 'ref'), *[mk(d, 'ds%d' % k) for k, d in enumerate(case['others'])],
                               name='student', alpha=alpha_in, ndf=case.get('ndf'))
            exact = None
            with np.errstate(all='ignore'):
                binwise = bool(test.evaluate())
        with np.errstate(all='ignore'):
            tbonf = TestBonferroni(name='bonf', test=test, alpha=alpha_in)
            tholm = TestHolmBonferroni(name='holm', test=test, alpha=alpha_in)
            rbonf = tbonf.evaluate()
            rholm = tholm.evaluate()
        if float(tbonf.alpha) != float(tholm.alpha):
            return None, 'the two corrections report different overall levels for the same alpha'
        lvl = _small_fraction(tbonf.alpha)
        if lvl is None:
            raise tlc.MachineryError('reported level %r is not a small rational' % (tbonf.alpha,))
        level_f = float(tbonf.alpha)
        pvals = rholm.first_test_res.pvalue
        nds = len(pvals)
        if not (len(rbonf.rejected_null_hyp) == len(rholm.rejected_null_hyp) == len(rholm.alphas_i) == nds
                == len(rbonf.nb_rejected) == len(rholm.nb_rejected)):
            return None, 'number of result arrays differs from the number of compared datasets'
        data = []
        for d in range(nds):
            parr = np.asarray(pvals[d])
            m = parr.size
            if tbonf.ntests != m or tholm.ntests != m:
                return None, 'ntests is not the number of bins'
            thresholds = [lvl / k for k in range(1, m + 1)]
            cells, problem = _flag_cells(shape if not case.get('scalar') else (), parr, rbonf.rejected_null_hyp[d],
                                         rholm.alphas_i[d], rholm.rejected_null_hyp[d], level_f, thresholds,
                                         exact_ps=exact[d] if exact else None)
            if problem:
                return None, problem
            if cells == 'band':
                return None, None
            data.append(dict(cells=cells, nbBonf=int(rbonf.nb_rejected[d]), nbHolm=int(rholm.nb_rejected[d])))
        m = len(data[0]['cells'])
        return dict(level=[lvl.numerator, lvl.denominator],
                    bonfDen=_den_of(level_f, tbonf.bonf_signi_level), haveVerdict=True,
                    bonfVerdict=bool(rbonf), holmVerdict=bool(rholm), binwise=binwise, data=data), None
    except tlc.MachineryError:
        raise
    except Exception as ex:  # pylint: disable=broad-except
        return None, 'raised %s: %s' % (type(ex).__name__, ex)


def _to_json_case(cid, obs):
    return dict(id=cid, level=obs['level'], bonfDen=obs['bonfDen'], haveVerdict=obs['haveVerdict'],
                bonfVerdict=obs['bonfVerdict'], holmVerdict=obs['holmVerdict'], binwise=obs['binwise'],
                data=[dict(cells=[dict(p=c['p'], bonf=c['bonf'], hden=c['hden'], hflag=c['hflag']) for c in d['cells']],
                           nbBonf=d['nbBonf'], nbHolm=d['nbHolm']) for d in obs['data']])


def judge(batch, wd, ctx=None, name='BonferroniTrace', chunk=3000, jobs=6):
    """TLC verdict on a list of (cid, obs): {cid: set(clauses)} for the cases that violate something.
    Batches of `chunk` cases per JVM start, `jobs` single-worker TLC processes at a time."""
    from concurrent.futures import ThreadPoolExecutor
    cfg = tlc.write_cfg(os.path.join(wd, 'trace.cfg'), spec='TSpec', constants={'NaN': Raw('NaN')},
                        deadlock=False, postcondition='Post')

    def one(k):
        sub = batch[k:k + chunk]
        cj = tlc.json_dump(os.path.join(wd, 'cases_%d.json' % k), [_to_json_case(cid, obs) for cid, obs in sub])
        oj = os.path.join(wd, 'out_%d.json' % k)
        res = tlc.run(TRACE, cfg, workers=1, env=dict(VERIF_CASES=cj, VERIF_OUT=oj), timeout=1800, coverage=False)
        if not res.ok or res.distinct != len(sub) + 1:
            raise tlc.MachineryError('BonferroniTrace: %s, %d states for %d cases\n%s'
                                     % (res.violation, res.distinct, len(sub), res.out[-1500:]))
        with open(oj) as f:
            bad = json.load(f)['bad']
        os.remove(cj)
        return k, res, bad

    out = {}
    with ThreadPoolExecutor(max_workers=jobs) as pool:
        for k, res, bad in pool.map(one, range(0, len(batch), chunk)):
            if ctx is not None:
                ctx.tlc(res, '%s/batch%d' % (name, k // chunk))
            for cid, clauses in bad:
                out[cid] = set(clauses)
    return out


def replay_case(case):
    obs, problem = observe(case)
    if problem:
        return False, problem
    if obs is None:
        return True, 'case skipped: a p-value is too close to a level'
    wd = tlc.workdir('c06r')
    clauses = judge([(1, obs)], wd).get(1, set())
    want = case.get('clause')
    hit = (want in clauses) if want else bool(clauses)
    shown = [[c['idx'], c['p'], c['bonf'], c['hden'], c['hflag']] for d in obs['data'] for c in d['cells']]
    return (not hit, 'BonferroniTrace.tla clauses violated: %s; level %s; cells [idx, p, bonferroni flag, holm level '
            'denominator, holm flag] = %s' % (sorted(clauses) or 'none', obs['level'], shown))


# ---------------------------------------------------------------------------------------------
# TLC side

def _mc(wd, name, shapes, levels):
    """A constant-definition wrapper module (cfg files cannot hold tuples)."""
    from tlaval import to_tla
    path = os.path.join(wd, name + '.tla')
    with open(path, 'w') as f:
        f.write('---- MODULE %s ----\nEXTENDS Bonferroni\nMCShapes == %s\nMCLevels == %s\n====\n'
                % (name, to_tla(frozenset(tuple(s) for s in shapes)), to_tla(frozenset(tuple(l) for l in levels))))
    return path


def _consts(pnums, ndata):
    return {'Shapes': Raw('<- MCShapes'), 'Levels': Raw('<- MCLevels'), 'PNums': frozenset(pnums), 'PDen': 64,
            'NData': frozenset(ndata), 'NaN': Raw('NaN')}


def _read_done(dump):
    """States of a TLC dump in which Eval has happened (the inputs alone are not parsed)."""
    import re
    from tlaval import parse_state
    with open(dump + '.dump') as f:
        txt = f.read()
    for block in re.split(r'^State \d+:\n', txt, flags=re.M)[1:]:
        if 'pc = "done"' in block:
            yield parse_state(block)


def _p_of(v):
    return None if isinstance(v, MV) else [int(v[0]), int(v[1])]


def _state_case(st, path):
    shape = [int(x) for x in st['shape']]
    order = [tuple(i + 1 for i in idx) for idx in _cells_index(shape)]
    return dict(path=path, shape=shape, level=[int(st['level'][0]), int(st['level'][1])],
                data=[[_p_of(ps[idx]) for idx in order] for ps in st['pss']]), order


def _agrees_with_dump(st, order, obs, with_counts):
    """Second oracle: Bonferroni flags equal, Holm (den, flags[, nb]) is one of the outputs TLC enumerated."""
    for d, exp in enumerate(st['out']):
        cells = obs['data'][d]['cells']
        if any(bool(exp['bonf'][idx]) != c['bonf'] for idx, c in zip(order, cells)):
            return False
        if with_counts and obs['data'][d]['nbBonf'] != exp['nbBonf']:
            return False
        ok = False
        for o in exp['holm']:
            if all(o['den'][idx] == c['hden'] and bool(o['flags'][idx]) == c['hflag'] for idx, c in zip(order, cells)) \
                    and (not with_counts or o['nb'] == obs['data'][d]['nbHolm']):
                ok = True
                break
        if not ok:
            return False
    return True


DUMP_CLAUSES = {'bonf/nan-accepted', 'bonf/flags', 'bonf/flags-at-equality', 'holm/nan-accepted', 'holm/flags',
                'holm/flags-at-equality', 'holm/ranks', 'bonf/count', 'holm/count'}
FULL = [0, 1, 2, 3, 4, 5, 7, 8, 9, 32, 64]
LEVELS = [(1, 8), (1, 16), (3, 64)]


def _random_case(rng, cid):
    r = rng.random()
    nd = rng.choice([1, 1, 1, 2, 3])
    ndim = rng.choice([0, 1, 1, 2, 2, 3]) if r < 0.8 else rng.choice([0, 1, 2])
    while True:
        shape = [rng.randint(1, 6) for _ in range(ndim)]
        m = int(np.prod(shape)) if shape else 1
        if m <= 30:
            break
    if r < 0.8:
        lvl = rng.choice([Fraction(1, 8), Fraction(1, 16), Fraction(3, 64), Fraction(1, 40), Fraction(1, 200),
                          Fraction(1, 4), Fraction(5, 128), Fraction(15, 32), Fraction(3, 8)])
        pool = [Fraction(0), Fraction(1), None, Fraction(1, 2)]
        for k in range(1, m + 1):
            t = lvl / k
            if t.denominator & (t.denominator - 1) == 0 and t.denominator <= 1024:
                pool += [t, t, t + Fraction(1, 1024), t - Fraction(1, 1024)]
            else:
                pool += [Fraction(math.floor(t * 1024), 1024), Fraction(math.floor(t * 1024) + 1, 1024)]
        pool = [p for p in pool if p is None or 0 <= p <= 1]
        few = rng.sample(pool, min(len(pool), rng.randint(1, 4)))

        def draw():
            u = rng.random()
            if u < 0.35:
                return rng.choice(few)
            if u < 0.7:
                return rng.choice(pool)
            return Fraction(rng.randint(0, 1024), 1024)
        data = []
        for _ in range(nd):
            ps = [draw() for _ in range(m)]
            data.append([None if p is None else [p.numerator, p.denominator] for p in ps])
        return dict(path=rng.choice(['static', 'stub', 'stub']), shape=shape, level=[lvl.numerator, lvl.denominator],
                    data=data)
    # a real Student comparison: p-values 1 (equal values), 0 (zero errors, different values), undefined
    # (one value is NaN) and generic ones
    alpha = rng.choice([Fraction(1, 4), Fraction(1, 8), Fraction(1, 20), Fraction(1, 100), Fraction(1, 2)])
    scalar = (not shape) and rng.random() < 0.5
    generic = rng.random() < 0.5

    def cell():
        u = rng.random()
        if u < 0.3:
            return 'one'
        if u < (0.4 if generic else 0.55):
            return 'zero'
        if u < (0.45 if generic else 0.65):
            return 'nan'
        return 'generic' if generic else 'one'
    ref = dict(v=[], e=[])
    others = [dict(v=[], e=[]) for _ in range(nd)]
    kinds = [[cell() for _ in range(nd)] for _ in range(m)]
    for b in range(m):
        v0 = float(rng.randint(1, 9))
        zero = any(k == 'zero' for k in kinds[b])
        e0 = 0.0 if zero else rng.choice([0.25, 0.5, 1.0])
        ref['v'].append(v0)
        ref['e'].append(e0)
        for d in range(nd):
            k = kinds[b][d]
            if k == 'zero':
                others[d]['v'].append(v0 + rng.choice([-1.0, 2.0]))
                others[d]['e'].append(0.0)
            elif k == 'nan':
                others[d]['v'].append(None)
                others[d]['e'].append(0.5)
            elif k == 'generic':
                others[d]['v'].append(v0 + rng.choice([-1, 1]) * rng.choice([0.25, 0.5, 1.0, 1.5, 2.0, 3.0]))
                others[d]['e'].append(rng.choice([0.25, 0.5, 1.0]))
            else:
                others[d]['v'].append(v0)
                others[d]['e'].append(rng.choice([0.25, 0.5]) if e0 == 0.0 else rng.choice([0.0, 0.5]))
    return dict(path='student', shape=shape, scalar=scalar, alpha=[alpha.numerator, alpha.denominator],
                ndf=rng.choice([None, 10, 1000]), ref=ref, others=others)


def run_c06(ctx):
    ctx.rule('spec->code: every state dumped by TLC for Bonferroni.tla (Init enumerates shape x level x p-value arrays over '
             'the grid {0,1,2,3,4,5,7,8,9,32,64}/64 + NaN that straddles every level/k; Eval computes the Bonferroni flags '
             'and the set of Holm outputs over all sorting rankings) is run through the static methods and through '
             'TestBonferroni/TestHolmBonferroni around a test object delivering those p-values; code->spec: these '
             'observations plus seeded random arrays (<= 30 bins, 0-3 dimensions, ties, 0, 1, NaN, values on and next to '
             'every level/k) plus real TestStudent comparisons are judged by TLC against BonferroniTrace.tla. '
             'distinct_nontrivial counts distinct (path, shape, level, p-values) cases in which some bin is flagged and '
             'some is not, or a p-value is undefined or exactly on a level.')
    ctx.assume('p-values and levels are exactly representable (dyadic) or provably not on a level/k; p-values read from a '
               'Student result are located on the 2^-14 grid and the case is skipped when a level/k falls in the same cell')
    ctx.assume('the overall level is the level the test object reports (TestBonferroni.alpha = alpha/2)')
    wd = tlc.workdir('c06')
    quick = ctx.quick
    configs = [
        ('small', [(), (1,), (2,), (1, 2), (2, 1), (3,)], FULL, [1], INVS + HEAVY),
        ('m4', [(2, 2), (4,)], ctx.pick([1, 2, 4, 64], [0, 1, 2, 3, 4, 8, 9, 64]), [1], INVS),
        ('two-datasets', [(2,)], [1, 2, 4, 64], [2], INVS + HEAVY),
    ]
    if not quick:
        configs.append(('m3-shapes', [(3, 1), (1, 3), (1, 1, 3)], FULL, [1], INVS))
        configs.append(('m5', [(5,)], [1, 2, 8], [1], INVS))
    batch = []          # (cid, obs)
    info = {}           # cid -> (case, dump_agrees | None)
    cid = 0
    n_states = 0

    def add(case, agrees=None, st=None, order=None, with_counts=False):
        nonlocal cid
        obs, problem = observe(case)
        if problem:
            how = 'raised' if problem.startswith('raised') else 'malformed-result'
            ctx.violation('C06/%s/%s' % (how, case['path']), problem, case, module='conf_bonferroni')
            return None
        if obs is None:
            ctx.cov['skipped_in_band'] += 1
            return None
        cid += 1
        batch.append((cid, obs))
        info[cid] = (case, None if st is None else _agrees_with_dump(st, order, obs, with_counts))
        return obs

    def model_check(conf):
        name, shapes, pnums, ndata, invs = conf
        mod = _mc(wd, 'MCBonf_' + name.replace('-', '_'), shapes, LEVELS)
        cfg = tlc.write_cfg(os.path.join(wd, name + '.cfg'), constants=_consts(pnums, ndata), invariants=invs, deadlock=False)
        return tlc.run(mod, cfg, dump=os.path.join(wd, name), timeout=1800, workers=max(2, tlc.NCPU // 2))

    from concurrent.futures import ThreadPoolExecutor
    with ThreadPoolExecutor(max_workers=3) as pool:
        results = list(pool.map(model_check, configs))
    for (name, _shapes, _pnums, _ndata, _invs), res in zip(configs, results):
        ctx.tlc(res, 'Bonferroni/' + name)
        if not res.ok:
            raise tlc.MachineryError('Bonferroni.tla %s: %s\n%s' % (name, res.violation, res.out[-1500:]))
        tlc.check_coverage(res, ['Eval'], 'Bonferroni/' + name)
        dump = os.path.join(wd, name)
        from tlaval import to_tla
        states = sorted(_read_done(dump), key=lambda st: (to_tla(st['shape']), to_tla(st['level']), to_tla(st['pss'])))
        for st in states:       # (the order of a dump depends on TLC's workers)
            n_states += 1
            for path in ('static', 'stub'):
                case, order = _state_case(st, path)
                obs = add(case, st=st, order=order, with_counts=(path == 'stub'))
                if len(case['shape']) >= 2 and min(case['shape']) >= 2 or (len(case['shape']) >= 2 and n_states % 3 == 0):
                    # the same array in another memory layout (Fortran order, transposed view): same expected outcome
                    add(dict(case, layout='F' if n_states % 2 else 'T'), st=st, order=order, with_counts=(path == 'stub'))
                if obs is not None and n_states % 1499 == 1 and path == 'stub':
                    ctx.sample(dict(case=case, observed=[[c['idx'], c['bonf'], c['hden'], c['hflag']]
                                                         for d in obs['data'] for c in d['cells']]))
        os.remove(dump + '.dump')
    n_dump_cases = len(batch)

    # the inclusion clause as stated is false in the model exactly at the tie: replay TLC's counterexample
    mod = _mc(wd, 'MCBonf_incl', [(2,), (3,)], LEVELS)
    cfg = tlc.write_cfg(os.path.join(wd, 'incl.cfg'), constants=_consts(FULL, [1]), invariants=['Inclusion'], deadlock=False)
    res = tlc.run(mod, cfg, coverage=False)
    ctx.tlc(res, 'Bonferroni/Inclusion-counterexample')
    if res.violation != ('invariant', 'Inclusion'):
        raise tlc.MachineryError('Bonferroni.tla: Inclusion should fail at the tie min p = level/m, got %s' % (res.violation,))
    cex = res.trace[-1][1]
    if not any(len(o['tie']) for o in cex['out']):
        raise tlc.MachineryError('Bonferroni.tla: Inclusion fails away from the tie: %s' % (cex,))
    cex_ids = []
    for path in ('static', 'stub'):
        case, order = _state_case(cex, path)
        if add(case, st=cex, order=order, with_counts=(path == 'stub')) is not None:
            cex_ids.append(cid)
    for wit in WITNESSES:
        cfg = tlc.write_cfg(os.path.join(wd, wit + '.cfg'), constants=_consts(FULL, [1]), invariants=[wit], deadlock=False)
        res = tlc.run(mod, cfg, coverage=False)
        if res.violation != ('invariant', wit):
            raise tlc.MachineryError('witness %s not reachable in Bonferroni.tla' % wit)

    # code -> spec only: random arrays and Student comparisons
    n_random = ctx.pick(3000, 40000)
    for _ in range(n_random):
        case = _random_case(ctx.rng, cid)
        if len(case['shape']) >= 2:
            case['layout'] = ctx.rng.choice(['C', 'F', 'T'])
        obs = add(case)
        if obs is not None and len(ctx.cov['samples']) < 6 and case['path'] == 'student':
            ctx.sample(dict(case=case, observed=[[c['idx'], c['p'], c['bonf'], c['hden'], c['hflag']]
                                                 for d in obs['data'] for c in d['cells']]))

    verdict = judge(batch, wd, ctx)
    for c, obs in batch:
        case, dump_ok = info[c]
        clauses = verdict.get(c, set())
        if dump_ok is not None and dump_ok != (not (clauses & DUMP_CLAUSES)):
            raise tlc.MachineryError('the two oracles disagree on %s: dump comparison %s, BonferroniTrace clauses %s'
                                     % (case, dump_ok, sorted(clauses)))
        if c in cex_ids and not clauses:
            raise tlc.MachineryError('TLC counterexample of Inclusion replayed on the code without any clause failing: %s' % (case,))
        for cl in sorted(clauses):
            shown = [[x['idx'], x['p'], x['bonf'], x['hden'], x['hflag']] for d in obs['data'] for x in d['cells']]
            ctx.violation(key_of(cl), 'clause %s of BonferroniTrace.tla is false: level %s, cells [idx, p, bonferroni flag, '
                          'holm level denominator, holm flag] = %s' % (cl, obs['level'], shown[:12]),
                          dict(case, clause=cl), module='conf_bonferroni')
        cells = [x for d in obs['data'] for x in d['cells']]
        flagged = [x['bonf'] or x['hflag'] for x in cells]
        lvl = Fraction(*obs['level'])
        m = len(obs['data'][0]['cells'])
        special = any(x['p'] == [] or any(Fraction(*x['p']) == lvl / k for k in range(1, m + 1)) for x in cells)
        if special or (any(flagged) and not all(flagged)):
            ctx.distinct((case['path'], tuple(case['shape']), tuple(obs['level']),
                          tuple(tuple(x['p']) for x in cells)))
    ctx.count(evaluations=len(batch), traces=len(batch))
    ctx.cov['exhaustive'] = True
    ctx.cov['explanation'] = ('exhaustive for the TLC configurations listed in tlc_runs (%d dumped states, each run through the '
                              'static methods and the test classes = %d cases); %d random / Student cases beyond them; %d cases '
                              'with violated clauses according to TLC' % (n_states, n_dump_cases, len(batch) - n_dump_cases,
                                                                           len(verdict)))
