"""Prompt for a round-5 seeding sub-agent: python3 harness/seed_prompt5.py C01 /tmp/seed5-C01
Same protocol as seed_prompt.py; the agent is additionally told (one line each) what the earlier rounds changed on this
property and which dimensions the checks vary by now, so that it looks elsewhere.  Nothing else from /verif is given."""
import json, sys, glob, io, contextlib, runpy
pid, wt = sys.argv[1], sys.argv[2]
buf = io.StringIO()
sys.argv = ['seed_prompt.py', pid, wt]
with contextlib.redirect_stdout(buf):
    runpy.run_path('/verif/harness/seed_prompt.py')
base = buf.getvalue()
tried = []
for f in sorted(glob.glob('/verif/seeded/*/meta.json')):
    m = json.load(open(f))
    if m['property'] == pid and m.get('change'):
        tried.append('  - ' + m['change'].strip().replace('\n', ' ')[:260])
extra = f'''
Changes ALREADY tried on this property by earlier people (do not repeat these, nor near variants of them):
{chr(10).join(tried)}

The verification effort you are testing already varies: memory layouts (C / Fortran / transposed / strided / read-only), dtypes, masked arrays, how an argument is spelled (positional / keyword / iterator / explicit default), augmented and dunder spellings of operators, objects that were used before, second calls and second sessions in the same process or the same output directory, every constructor path, every thread interleaving of small task graphs (2-3 workers, nested / empty / soft groups, interrupts of the master), python -O, DEBUG logging, another working directory, size boundaries such as 256 and 1024, errno classes of failing system calls, objects that are equal but not identical, environment variables and ~ in names, names that collide with internal keys.  So look ELSEWHERE, for instance: the interaction of two features that are documented separately; a subclass or a user-supplied object hooking into the machinery (custom __eq__/__hash__/__bool__/__len__/__iter__/__getattr__, a callable that is not a function, a Mapping that is not a dict, a str subclass, a pathlib vs str path); exceptions that are not Exception subclasses (SystemExit, KeyboardInterrupt, GeneratorExit) or that are raised from __repr__/__str__; pickling / deepcopy round trips between two steps; recursion depth or very deep nesting; many items (tens of thousands) versus few; duplicates and ordering of inputs that are normally unique / sorted; unicode, whitespace, newlines or very long strings in names and titles; numeric corner values (negative zero, subnormal, huge, integers beyond 2**53, numpy scalar vs Python scalar, bool as a number, 0-length dimensions); time-related behaviour (two events inside one clock tick, clock going backwards, time zone); a configuration option or class attribute changed between two calls; more workers than tasks, exactly one worker, a task that spawns threads or schedules something itself; a file that is a symlink, a directory, a FIFO, read-only, or replaced between two steps.  A change at a site FAR from the obvious one (a helper, a base class, a default value, an import-time constant) whose effect reaches the property only through a particular path is ideal.
'''
print(base.replace('Deliverables, all inside', extra + '\nDeliverables, all inside'))
