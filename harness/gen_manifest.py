"""Regenerate /verif/MANIFEST.json from the table below (python3 harness/gen_manifest.py)."""
import json
import os

VERIF = os.path.dirname(os.path.dirname(os.path.abspath(__file__)))

BASELINE_OFF = ("cd /repo && env -u VALJEAN_VERIF /venv/bin/python -m pytest -ra -q -p no:cacheprovider --timeout=900 "
                "--continue-on-collection-errors")

# pid -> dict(engine, category, text, note, technique, design_ref)
CHECKS = {
    'C09': dict(engine='Slice', category='model_checking', design_ref='DESIGN.md §4 C09',
                text='Slice.tla defines kept cells and bin positions of unit-step slices and of squeeze; TLC enumerates the whole '
                     'small domain (all 1-d slices with None/negative/out-of-range bounds, 2-d products, all squeeze shapes), checks '
                     'the definitional clauses as invariants, and every dumped state is executed on real Datasets; random 1-4-d '
                     'implementation cases are validated back against the spec by TLC (SliceTrace.tla).',
                note='exact small-integer float64 data; unit-step slices; TLC and the TLA+ value parser are trusted',
                technique='TLA+ spec + TLC exhaustive enumeration, replay of every state into Dataset, TLC batch trace validation'),
}

ENGINES = {
    'Slice': dict(path='specs/Slice.tla', kind_free_text='TLA+ function-like spec (Init enumerates inputs, Eval computes output) + SliceTrace.tla; harness/conf_slice.py'),
}

ALL = ['C%02d' % i for i in range(1, 21)]


def main():
    checks = []
    for pid in ALL:
        if pid not in CHECKS:
            continue
        c = CHECKS[pid]
        checks.append(dict(
            property_id=pid,
            quick_cmd='./check %s --tier quick' % pid,
            thorough_cmd='./check %s --tier thorough' % pid,
            evidence_file='/verif/evidence/%s.json' % pid,
            replay_cmd_template='./check %s --replay {path}' % pid,
            engine=c['engine'],
            level_claimed=dict(category=c['category'], text=c['text'], design_ref=c['design_ref']),
            level_note=c['note'],
            technique=c['technique']))
    engines = []
    for name, e in ENGINES.items():
        engines.append(dict(name=name, path=e['path'], kind_free_text=e['kind_free_text'],
                            serves_properties=[p for p in ALL if p in CHECKS and CHECKS[p]['engine'] == name or name in CHECKS.get(p, {}).get('also', [])]))
    man = dict(
        version=1,
        setup_cmd='sh setup.sh',
        hooks=dict(guard='VALJEAN_VERIF', enable='no source hooks: the harness rebinds threading/Queue/time in its own process; '
                   'VALJEAN_VERIF is reserved', baseline_off_cmd=BASELINE_OFF, source_commits=[], add_only=True),
        engines=engines,
        checks=checks,
        notes='Model-based verification with explicit TLA+ specifications (specs/), checked by TLC and bound to the code by replay '
              '(spec->code) and batch trace validation (code->spec). See DESIGN.md.',
        not_applicable=[dict(property_id=p, reason='check not built yet in this round (planned, see DESIGN.md §4)')
                        for p in ALL if p not in CHECKS])
    with open(os.path.join(VERIF, 'MANIFEST.json'), 'w') as f:
        json.dump(man, f, indent=1)
    print('MANIFEST.json: %d checks' % len(checks))


if __name__ == '__main__':
    main()
