"""Regenerate /verif/MANIFEST.json from the table below (python3 harness/gen_manifest.py)."""
import json
import os

VERIF = os.path.dirname(os.path.dirname(os.path.abspath(__file__)))

BASELINE_OFF = ("cd /repo && env -u VALJEAN_VERIF /venv/bin/python -m pytest -ra -q -p no:cacheprovider --timeout=900 "
                "--continue-on-collection-errors")

# pid -> dict(engine, category, text, note, technique, design_ref)
_SCHED_NOTE = ('context switches only at lock acquisitions / blocking operations (Lipton reduction: every shared access of the backend is '
               'under the environment lock, the queue or the condition variable, or is one GIL-atomic dict operation); logical clock; '
               'logging disabled; probe tasks; TLC, the TLA+ value parser and the deterministic scheduler are trusted')
CHECKS = {
    'C01': dict(engine='Sched', category='model_checking', design_ref='DESIGN.md §4 C01',
                text='Sched.tla models master and workers of the queue backend at the grain of their synchronisation points; TLC explores every '
                     'interleaving for all 2- and 3-task hard/soft graphs x outcomes x initial environments x 1-3 workers and checks that what a '
                     'task reads at the first instruction of do() is final and completely published (history variable seen). Bound to the code: '
                     'simulated TLC behaviours are forced step by step on the real Scheduler under a deterministic scheduler with state '
                     'comparison, and random/PCT/DFS schedules of the real code (up to 5 tasks, 4 workers) are validated by TLC (SchedTrace).',
                note=_SCHED_NOTE, technique='TLA+ spec of the scheduler + TLC exhaustive interleavings; replay into the real threads code under a '
                'deterministic scheduler; TLC trace validation (strict + observer)'),
    'C02': dict(engine='Sched', category='model_checking', design_ref='DESIGN.md §4 C02',
                text='Same model; invariants: at return every task has the status given by the recursive definition Expected (SKIPPED iff a hard '
                     'dependency is expected FAILED/SKIPPED, else DONE/FAILED by its own result, malformed results = FAILED), executed at most '
                     'once, exactly once unless skipped, no foreign update applied, soft failures never skip; checked by TLC for every '
                     'interleaving and on every recorded execution of the real scheduler.',
                note=_SCHED_NOTE, technique='TLA+ spec + TLC; replay; TLC trace validation of real schedules'),
    'C03': dict(engine='Sched', category='model_checking', design_ref='DESIGN.md §4 C03',
                text='Same model including cyclic graphs, pre-populated initial environments (DONE/FAILED/SKIPPED) and malformed results: TLC '
                     'deadlock freedom, C03_Clean (queue empty and all workers exited when the call comes back), liveness <>Terminated under weak '
                     'fairness; on the code: deadlock / leak / step-bound detection under the deterministic scheduler for every explored '
                     'schedule, plus real-thread driver processes that must exit by themselves.',
                note=_SCHED_NOTE + '; one wall-clock assertion (driver process exits within 60 s, expected < 1 s)',
                technique='TLA+ spec + TLC (safety, deadlock, liveness); deterministic-scheduler exploration of the real code; trace validation'),
    'C04': dict(engine='Runs', category='model_checking', design_ref='DESIGN.md §4 C04',
                text='Runs.tla models histories of runs (merge of persisted DONE entries, master passes with the decision function on logical '
                     'clocks, executions, write-back of every entry with an output directory) with faults between runs (fail/recover, lost file, '
                     'added task); TLC checks C04_Fresh and C04_NoNeedlessRerun over all 3-task graphs x histories of 3-4 runs. Bound to the code: '
                     'fault histories of simulated behaviours and seeded random histories (up to 6 tasks, 5 runs, 1-3 workers, random schedules) '
                     'run through the real read_env/schedule/write_env cycle with real pickle files and validated by TLC (RunsTrace).',
                note='runs executed under the deterministic scheduler with a logical clock continuing across runs; schedules inside a run are '
                     'random (exhaustive interleavings are C01-C03); tasks without output directory are legitimately re-executed every run',
                technique='TLA+ spec of run histories + TLC; replay of fault histories into the real persistence cycle; TLC trace validation'),
    'C09': dict(engine='Slice', category='model_checking', design_ref='DESIGN.md §4 C09',
                text='Slice.tla defines kept cells and bin positions of unit-step slices and of squeeze; TLC enumerates the whole '
                     'small domain (all 1-d slices with None/negative/out-of-range bounds, 2-d products, all squeeze shapes), checks '
                     'the definitional clauses as invariants, and every dumped state is executed on real Datasets; random 1-4-d '
                     'implementation cases are validated back against the spec by TLC (SliceTrace.tla).',
                note='exact small-integer float64 data; unit-step slices; TLC and the TLA+ value parser are trusted',
                technique='TLA+ spec + TLC exhaustive enumeration, replay of every state into Dataset, TLC batch trace validation'),
}

ENGINES = {
    'Sched': dict(path='specs/Sched.tla', kind_free_text='TLA+ spec of the queue backend (master, workers, queue, condition variable, environment) + SchedMC.tla (configuration spaces) + SchedTrace.tla (trace validation, strict/observer); harness/detsched.py (deterministic scheduler), schedrun.py (probes, projection), conf_sched.py'),
    'Runs': dict(path='specs/Runs.tla', kind_free_text='TLA+ spec of histories of runs with persistence and faults + RunsMC.tla + RunsTrace.tla; harness/conf_runs.py'),
    'Slice': dict(path='specs/Slice.tla', kind_free_text='TLA+ function-like spec (Init enumerates inputs, Eval computes output) + SliceTrace.tla; harness/conf_slice.py'),
}

ALL = ['C%02d' % i for i in range(1, 21)]


def main():
    checks = []
    for pid in ALL:
        if pid not in CHECKS:
            continue
        c = CHECKS[pid]
        checks.append(dict(
            property_id=pid,
            quick_cmd='./check %s --tier quick' % pid,
            thorough_cmd='./check %s --tier thorough' % pid,
            evidence_file='/verif/evidence/%s.json' % pid,
            replay_cmd_template='./check %s --replay {path}' % pid,
            engine=c['engine'],
            level_claimed=dict(category=c['category'], text=c['text'], design_ref=c['design_ref']),
            level_note=c['note'],
            technique=c['technique']))
    engines = []
    for name, e in ENGINES.items():
        engines.append(dict(name=name, path=e['path'], kind_free_text=e['kind_free_text'],
                            serves_properties=[p for p in ALL if p in CHECKS and CHECKS[p]['engine'] == name or name in CHECKS.get(p, {}).get('also', [])]))
    man = dict(
        version=1,
        setup_cmd='sh setup.sh',
        hooks=dict(guard='VALJEAN_VERIF', enable='no source hooks: the harness rebinds threading/Queue/time in its own process; '
                   'VALJEAN_VERIF is reserved', baseline_off_cmd=BASELINE_OFF, source_commits=[], add_only=True),
        engines=engines,
        checks=checks,
        notes='Model-based verification with explicit TLA+ specifications (specs/), checked by TLC and bound to the code by replay '
              '(spec->code) and batch trace validation (code->spec). See DESIGN.md.',
        not_applicable=[dict(property_id=p, reason='check not built yet in this round (planned, see DESIGN.md §4)')
                        for p in ALL if p not in CHECKS])
    with open(os.path.join(VERIF, 'MANIFEST.json'), 'w') as f:
        json.dump(man, f, indent=1)
    print('MANIFEST.json: %d checks' % len(checks))


if __name__ == '__main__':
    main()
