"""Regenerate /verif/MANIFEST.json from the table below (python3 harness/gen_manifest.py)."""
import json
import os

VERIF = os.path.dirname(os.path.dirname(os.path.abspath(__file__)))

BASELINE_OFF = ("cd /repo && env -u VALJEAN_VERIF /venv/bin/python -m pytest -ra -q -p no:cacheprovider --timeout=900 "
                "--continue-on-collection-errors")

# pid -> dict(engine, category, text, note, technique, design_ref)
_SCHED_NOTE = ('context switches only at lock acquisitions / blocking operations (Lipton reduction: every shared access of the backend is '
               'under the environment lock, the queue or the condition variable, or is one GIL-atomic dict operation); logical clock; '
               'logging disabled; probe tasks; TLC, the TLA+ value parser and the deterministic scheduler are trusted')
CHECKS = {
    'C01': dict(engine='Sched', also=['EnvOps'], category='model_checking', design_ref='DESIGN.md §4 C01',
                text='Sched.tla models master and workers of the queue backend at the grain of their synchronisation points; TLC explores every '
                     'interleaving for all 2- and 3-task hard/soft graphs x outcomes x initial environments x 1-3 workers and checks that what a '
                     'task reads at the first instruction of do() is final and completely published (history variable seen), and that no dependency begins an execution after one of its dependents began (C01_NoLateDep). Bound to the code: '
                     'simulated TLC behaviours are forced step by step on the real Scheduler under a deterministic scheduler with state '
                     'comparison, and random/PCT/DFS schedules of the real code (up to 5 tasks, 4 workers) are validated by TLC (SchedTrace).',
                note=_SCHED_NOTE, technique='TLA+ spec of the scheduler + TLC exhaustive interleavings; replay into the real threads code under a '
                'deterministic scheduler; TLC trace validation (strict + observer)'),
    'C02': dict(engine='Sched', also=['Decide'], category='model_checking', design_ref='DESIGN.md §4 C02',
                text='Same model; invariants: at return every task has the status given by the recursive definition Expected (SKIPPED iff a hard '
                     'dependency is expected FAILED/SKIPPED, else DONE/FAILED by its own result, malformed results = FAILED), executed at most '
                     'once, exactly once unless skipped, no foreign update applied, soft failures never skip; checked by TLC for every '
                     'interleaving and on every recorded execution of the real scheduler.',
                note=_SCHED_NOTE, technique='TLA+ spec + TLC; replay; TLC trace validation of real schedules'),
    'C03': dict(engine='Sched', category='model_checking', design_ref='DESIGN.md §4 C03',
                text='Same model including cyclic graphs, pre-populated initial environments (DONE/FAILED/SKIPPED) and malformed results: TLC '
                     'deadlock freedom, C03_Clean (queue empty and all workers exited when the call comes back), liveness <>Terminated under weak '
                     'fairness; on the code: deadlock / leak / step-bound detection under the deterministic scheduler for every explored '
                     'schedule, plus real-thread driver processes that must exit by themselves. Also: a second schedule() on the same object '
                     '(Calls = 2), an exception delivered to the master at any scheduling point inside its try block (MInterrupt, injected by '
                     'the deterministic scheduler), falsy task objects, results whose shape differs from the entry carried in.',
                note=_SCHED_NOTE + '; one wall-clock assertion (driver process exits within 60 s, expected < 1 s)',
                technique='TLA+ spec + TLC (safety, deadlock, liveness); deterministic-scheduler exploration of the real code; trace validation'),
    'C04': dict(engine='Runs', also=['Decide', 'Config'], category='model_checking', design_ref='DESIGN.md §4 C04',
                text='Runs.tla models histories of runs (merge of persisted DONE entries, master passes with the decision function on logical '
                     'clocks, executions, write-back of every entry with an output directory) with faults between runs (fail/recover, lost file, '
                     'added task); TLC checks C04_Fresh and C04_NoNeedlessRerun over all 3-task graphs x histories of 3-4 runs. Bound to the code: '
                     'fault histories of simulated behaviours and seeded random histories (up to 6 tasks, 5 runs, 1-3 workers, random schedules) '
                     'run through the real read_env/schedule/write_env cycle with real pickle files and validated by TLC (RunsTrace).',
                note='runs executed under the deterministic scheduler with a logical clock continuing across runs; schedules inside a run are '
                     'random (exhaustive interleavings are C01-C03); tasks without output directory are legitimately re-executed every run',
                technique='TLA+ spec of run histories + TLC; replay of fault histories into the real persistence cycle; TLC trace validation'),
    'C09': dict(engine='Slice', category='model_checking', design_ref='DESIGN.md §4 C09',
                text='Slice.tla defines kept cells and bin positions of unit-step slices and of squeeze; TLC enumerates the whole '
                     'small domain (all 1-d slices with None/negative/out-of-range bounds, 2-d products, all squeeze shapes), checks '
                     'the definitional clauses as invariants, and every dumped state is executed on real Datasets; random 1-4-d '
                     'implementation cases are validated back against the spec by TLC (SliceTrace.tla).',
                note='exact small-integer float64 data; unit-step slices; TLC and the TLA+ value parser are trusted',
                technique='TLA+ spec + TLC exhaustive enumeration, replay of every state into Dataset, TLC batch trace validation'),
    'C05': dict(engine='Student', category='model_checking', design_ref='DESIGN.md §4 C05',
                text='Student.tla defines per-bin oracle, p-value decision and verdict on exact rationals against critical-value bands; TLC '
                     'enumerates all 3600 single-bin inputs x (ndf, alpha) plus reduced multi-bin and multi-dataset grids and checks symmetry, scale '
                     'invariance, monotonicity, one-sided NaN and the agreement clauses as invariants. Every state is replayed on TestStudent; '
                     'random N-d cases are judged back by TLC (StudentTrace.tla).',
                note='integer-grid data and tabulated (ndf, alpha); inputs whose statistic falls inside a 1e-9 relative band around a critical value '
                     'are skipped and counted; harness/laws.py (stdlib-only quantiles, cross-checked against scipy), TLC and the value parser are trusted',
                technique='TLA+ spec + TLC exhaustive and seeded enumeration, replay of every state, TLC batch trace validation'),
    'C06': dict(engine='Bonferroni', category='model_checking', design_ref='DESIGN.md §4 C06',
                text='Bonferroni.tla defines both corrections over exact rationals with an existential sorting ranking; TLC enumerates all arrays '
                     'over a grid straddling every level/k (NaN, ties, 0, 1; shapes 0-d to 3-d; 1-2 datasets), checks the meta-clauses as invariants '
                     'and exhibits the tie counterexample of the inclusion clause. Every state is executed on the static methods and the test '
                     'classes; random and Student-driven cases are judged back by TLC (BonferroniTrace.tla).',
                note='dyadic p-values and levels; Student p-values located on a 2^-14 grid and skipped when ambiguous; open finding at the exact tie '
                     'min p = level/m where the clauses of the statement conflict',
                technique='TLA+ spec + TLC exhaustive enumeration, replay of every state, TLC batch trace validation'),
    'C07': dict(engine='Chi2', category='model_checking', design_ref='DESIGN.md §4 C07',
                text='Chi2.tla defines used bins, ndf, the exact rational statistic, tail-above-level flags and verdict; TLC enumerates 1-3-bin grids '
                     'with both settings of the ignore-empty option, NaN/inf, 2 datasets and random cases to 8 bins; invariants: left-out bins are '
                     'exactly the both-zero-error bins, permutation invariance, additivity, undefined never passes. Bound to TestChi2 in both directions.',
                note='finite cells when ignore_empty is on; ndf = 0 is not judged; chi2 floats are mapped to rationals with denominator <= 10^4; '
                     'critical-value bands from harness/laws.py',
                technique='TLA+ spec + TLC exhaustive and seeded enumeration, replay, TLC batch trace validation'),
    'C08': dict(engine='DatasetHeap', category='model_checking', design_ref='DESIGN.md §4 C08',
                text='DatasetArith.tla holds the exact first-order error algebra with invariants; DatasetHeap.tla is a pool state machine with buffer '
                     'ownership and an aliasing relation (Add/Sub/Mul/Div, Copy, Mask, Squeeze, Slice, MutateBuffer) checked exhaustively (<= 2 steps) '
                     'and by simulation. Every state and operation sequence is executed on real Datasets with np.shares_memory and real writes, and '
                     'judged by TLC (DatasetArithTrace / DatasetHeapTrace).',
                note='small rational operands; exactness not judged for non-finite or large-rational chain steps',
                technique='TLA+ specs + TLC, replay of states and op sequences into Dataset, TLC batch trace validation'),
    'C12': dict(engine='Render', also=['PlotTmpl'], category='model_checking', design_ref='DESIGN.md §4 C12',
                text='Render.tla is a relational specification of the allowed renderings (mark iff false, highlighted rows = failing shown rows, cells '
                     'read back), model-checked; every TLC-enumerated input (kind x failing pattern x shape x verbosity x representer) is rendered by '
                     'the real code, parsed back with docutils and judged by TLC (RenderTrace); TableOps.tla (slice/join/copy keep rows and masks '
                     'together) is replayed exhaustively on TableTemplate/RstTable.',
                note='marks of a Student test nested in a Bonferroni/Holm rendering are attributed to that Student result; valid RST = no docutils '
                     'ERROR-level message with the hl and ref roles registered; representers without textual output are excluded',
                technique='TLA+ relational spec + TLC, replay into the renderers with docutils read-back, TLC batch trace validation'),
    'C13': dict(engine='Observe', category='model_checking', design_ref='DESIGN.md §4 C13',
                text='Observe.tla makes every read-only operation a stuttering step of (verdict, statistics, inputs); TLC generates all operation '
                     'sequences to the bound plus simulated longer ones, executed on fresh real results of 11 kinds with a deep snapshot after each '
                     'operation; ObserveImpl.tla (key set of the classify dictionary) is checked to refine it and the inserting variant is refuted by '
                     'TLC with its counterexample replayed; random traces are walked by TLC (ObserveTrace.tla).',
                note='1-d datasets of 4 bins; the snapshot covers verdict, recorded statistics, test parameters and dataset bytes',
                technique='TLA+ spec + refinement check + TLC-generated op sequences replayed, TLC trace validation'),
    'C17': dict(engine='Browser', also=['BrowserIndex'], category='model_checking', design_ref='DESIGN.md §4 C17',
                text='Browser.tla specifies filter / select / merge / keys / values as a naive scan and checks an independent inverted-index '
                     'definition against it; TLC enumerates all sessions over small item lists, queries and chains, each replayed on the real Browser '
                     'under two renderings; random sessions are validated back by TLC (BrowserTrace.tla).',
                note='string keys; hashable non-NaN values; reserved keys excluded; corrupted-trace self-test in every run',
                technique='TLA+ spec + TLC exhaustive session enumeration, replay, TLC batch trace validation'),
    'C18': dict(engine='Stats', also=['Equal'], category='model_checking', design_ref='DESIGN.md §4 C18',
                text='Stats.tla defines the three summaries as partitions / counts with counting invariants; every state TLC enumerates is evaluated '
                     'by the real classes, a sample through the real task pipeline; random bigger inputs are validated by TLC (StatsTrace.tla).',
                note='stub TestResults; string labels; the empty summary is judged by vacuous truth (2 open findings keyed on the empty input)',
                technique='TLA+ spec + TLC enumeration, replay, TLC batch trace validation'),
    'C20': dict(engine='ReportTree', category='model_checking', design_ref='DESIGN.md §4 C20',
                text='ReportTree.tla is a state machine of the write (check, set-up, page by page, figures) over pre-order-encoded trees with '
                     'reject-before-write as an all-states invariant; every enumerated tree on a title alphabet with reserved and unusable names is '
                     'written by the real code into a watched scratch directory and its disk projection judged by TLC (ReportTreeTrace).',
                note='titles from a 10-token alphabet; Sphinx toctree resolution re-implemented in the projection; open finding for titles ending in .rst',
                technique='TLA+ spec + TLC enumeration of trees, replay into FormattedRst.write, TLC trace validation'),
    'C10': dict(engine='T4Doc', also=['ParseLock'], category='exploration', design_ref='DESIGN.md §4 C10',
                text='Modest level. T4Doc.tla (ReadOf(PrintDoc(doc)) = Expected: edition selection, response/zone attribution, bin flipping, column '
                     'roles, error = value x sigma/100) and Ap3File.tla (Reader items = Picker picks = stored arrays) are checked by TLC over document '
                     'structures; dumps are rendered into listings from templates cut out of the shipped examples / written with h5py and read back by '
                     'the real Parser, Reader and Picker; random printed listings are validated by TLC against T4DocTrace.tla. ParseLock.tla '
                     '(listings parsed by 2-3 threads sharing the module-level grammar: lock, re-binding and read of a Forward element) is model '
                     'checked, and every schedule of real parser threads under the deterministic scheduler is validated against it; a listing read '
                     'differently beside another one is a violation.',
                note='decides the templated spectrum / integrated / time-spectrum layouts and the standard Apollo3 tree only; the number-for-number '
                     'comparison is Python-side on exactly representable values; other layouts (mesh, IFP, sensitivities, depletion) are not covered',
                technique='TLA+ document model + TLC enumeration of structures, rendering/read-back through the real parsers, TLC trace validation'),
    'C11': dict(engine='T4Scan', category='fault_enumeration', design_ref='DESIGN.md §4 C11',
                text='Crash-point enumeration: every byte offset of the small example listings, a seeded sample inside the scanner-interpreted lines of '
                     'all listings, and every field-boundary cut of all model listings (T4Scan.tla, a transcription of the scanner as a line-kind '
                     'state machine checked by TLC) are parsed by the real Parser in long-lived processes interleaved with complete listings and as '
                     'first parse of a fresh process, under a watchdog; observations are validated by TLC against T4ScanTrace.tla and successful '
                     'editions compared with those of the complete listing.',
                note='classify() (substring tests copied from scan.py) is a trusted abstraction function; run-level flags are not compared; replays judge '
                     'in Python (exception type, real-vs-real results)',
                technique='TLA+ scanner state machine + TLC; fault enumeration of cut points on real and rendered listings; TLC trace validation'),
    'C14': dict(engine='Persist', also=['Pipeline'], category='model_checking', design_ref='DESIGN.md §4 C14',
                text='Persist.tla (per-task files absent/empty/partial/full/garbage; BeginWrite, WriteChunk, EndWrite, Crash, Fault, ReadAll) is '
                     'model-checked exhaustively; behaviours are replayed through the real write_env / read_env / Env.to_file / Env.from_file with '
                     'byte-exact crash injection; every truncation length of many pickled payloads and random histories are validated by TLC '
                     '(PersistTrace.tla).',
                note='a crash is assumed to leave a prefix of the written bytes; garbage is curated (mutated pickles can kill the interpreter); '
                     'unreadable = symlink loop / directory in place of the file',
                technique='TLA+ spec + TLC exhaustive and simulated, replay with crash injection, TLC batch trace validation'),
    'C15': dict(engine='Factory', category='model_checking', design_ref='DESIGN.md §4 C15',
                text='Factory.tla (requests -> task | error; equal requests same task, different requests different task or error, the task acts as '
                     'its request; transitive closure and unique names) is model-checked; all pairs and small triples of requests and all 3-4-task '
                     'closure cases are replayed on Use / RunTaskFactory / close_dependency_graph / check_unique_task_names from an emptied cache; '
                     'FactoryImpl.tla (name-keyed caches as coded) is refuted by TLC as documented negative self-test; random histories are '
                     'validated by TLC (FactoryTrace.tla). Nine open findings (name-keyed caches conflate distinct requests).',
                note='serialize is not varied; a fresh process is obtained by emptying Use._CACHE; the nine cache-conflation classes are open findings',
                technique='TLA+ spec + refinement check + TLC enumeration, replay into the wrappers/factories, TLC batch trace validation'),
    'C19': dict(engine='RunCmd', also=['PyTask'], category='model_checking', design_ref='DESIGN.md §4 C19',
                text='RunCmd.tla (commands in order, stop at first non-zero, return codes, captured streams, per-task directory from the sanitized '
                     'name, invalid names rejected before any file is created) is model-checked; every command list and name list of the configuration '
                     'is executed on real RunTask objects with sh -c commands, directly and under the scheduler; random cases validated by TLC.',
                note='single task per scheduler run; stderr tokens are checked as a subsequence (echo lines are extra)',
                technique='TLA+ spec + TLC enumeration, replay with real subprocesses, TLC batch trace validation'),
    'C16': dict(engine='DepGraph', also=['RList'], category='model_checking', design_ref='DESIGN.md §4 C16',
                text='DepGraph.tla (abstract node/edge sets, edit histories over graph variables, operator library for sort / reduction / closure / '
                     'graft / flatten) and DepGraphImpl.tla (node sequence + key->positions index + integer adjacency, remove by swap-with-last) with '
                     'a refinement check are model-checked: complete state spaces for alphabets of up to 4 names, all histories up to depth 3-4, all '
                     'labelled DAGs on <= 4 (thorough 5) nodes, digraphs and one-level nested graphs including the empty one. TLC-generated '
                     'histories and graph families are replayed on real DepGraph objects with aliasing detection across copies, inverses and sums; '
                     'random histories of up to 30 operations are validated step by step by TLC (DepGraphTrace.tla).',
                note='graft / flatten / reduction / closure and the recursive queries are specified on acyclic graphs; nested graphs one level deep; '
                     'graft and flatten are judged on ordering preservation (exact-edge differences with the same ordering are drift)',
                technique='TLA+ spec + refinement check + TLC enumeration of histories and graph families, replay, TLC trace validation'),
}

ENGINES = {
    'DepGraph': dict(path='specs/DepGraph.tla', kind_free_text='abstract graph machine + DepGraphImpl.tla (layout, refinement) + DepGraphAlg.tla (graph families) + DepGraphTrace.tla; conf_depgraph.py'),
    'T4Doc': dict(path='specs/T4Doc.tla', kind_free_text='document model + Ap3File.tla + T4DocTrace.tla; conf_t4doc.py'),
    'T4Scan': dict(path='specs/T4Scan.tla', kind_free_text='scanner line-kind state machine + T4ScanTrace.tla; conf_t4scan.py'),
    'Persist': dict(path='specs/Persist.tla', kind_free_text='persistence/crash state machine + PersistTrace.tla; conf_persist.py'),
    'Factory': dict(path='specs/Factory.tla', kind_free_text='request/task spec + FactoryImpl.tla refinement + FactoryTrace.tla; conf_factory.py'),
    'RunCmd': dict(path='specs/RunCmd.tla', kind_free_text='command runner + task directory spec + RunCmdTrace.tla; conf_runcmd.py'),
    'EnvOps': dict(path='specs/EnvOps.tla', kind_free_text='Env.apply / set_status / get_status as a tree merge (+EnvOpsLaws.tla: laws of the merge, EnvOpsTrace.tla); run inside C01: only the clause "the applied update is readable and nothing else is lost" can raise a C01 violation; conf_envops.py'),
    'ParseLock': dict(path='specs/ParseLock.tla', kind_free_text='parser threads sharing the pyparsing grammar: lock / re-bind / read actions (+ParseLockMC.tla, ParseLockTrace.tla); detsched.py schedules real Parser threads; run inside C10; conf_parselock.py'),
    'PyTask': dict(path='specs/PyTask.tla', kind_free_text='heap model of what a PythonTask / EvalTestTask may do to shared state (arguments, environment handed to the function, returned update) + PyTaskTrace.tla; observations only, run inside C19; conf_pytask.py'),
    'Equal': dict(path='specs/Equal.tla', kind_free_text='exact-arithmetic model of check_bins / TestEqual / TestApproxEqual / TestMetadata + EqualTrace.tla; observations only, run inside C18; conf_equal.py'),
    'Config': dict(path='specs/Config.tla', kind_free_text='configuration objects as trees in a heap: construction, dict interface, query / set, copies, equality, round trips, layering defaults < file < task argument, path.ensure / sanitize_filename (+ConfigTrace.tla); observations only, run inside C04; conf_config.py'),
    'BrowserIndex': dict(path='specs/BrowserIndex.tla', kind_free_text='representation-level model of eponine.browser.Index (key -> value -> id sets) refining the item list of Browser.tla: build, keep_only laws, strip, look-ups, merge, dump (+BrowserIndexTrace.tla); observations only, run inside C17; conf_browserindex.py'),
    'PlotTmpl': dict(path='specs/PlotTmpl.tla', kind_free_text='plot templates (CurveElements / SubPlotElements / PlotTemplate) over an abstract heap with object identities: copy, join, writes, ==, fingerprint, curves_index (+PlotTmplTrace.tla); observations only, run inside C12; conf_plottmpl.py'),
    'Pipeline': dict(path='specs/Pipeline.tla', kind_free_text='`valjean run` stage by stage: arguments, job import and call, dependency closure, unique names, the two graphs, abstract scheduling, failed-tasks and environment files (+PipelineMC.tla, PipelineTrace.tla); observations only, run inside C14; conf_pipeline.py'),
    'RList': dict(path='specs/RList.tla', kind_free_text='reverse-indexed list under DepGraph (observations only, run inside C16) + RListTrace.tla; conf_rlist.py'),
    'Decide': dict(path='specs/Decide.tla', kind_free_text='decision function of the backend for one task, all inputs (serves C02, C04) + DecideTrace.tla; conf_decide.py'),
    'Student': dict(path='specs/Student.tla', kind_free_text='function-like TLA+ spec + StudentTrace.tla; harness/laws.py, conf_student.py'),
    'Bonferroni': dict(path='specs/Bonferroni.tla', kind_free_text='function-like TLA+ spec + BonferroniTrace.tla; conf_bonferroni.py'),
    'Chi2': dict(path='specs/Chi2.tla', kind_free_text='function-like TLA+ spec + Chi2Trace.tla; conf_chi2.py'),
    'DatasetHeap': dict(path='specs/DatasetHeap.tla', kind_free_text='pool/aliasing state machine + DatasetArith.tla + trace specs; conf_dataset.py'),
    'Render': dict(path='specs/Render.tla', kind_free_text='relational rendering spec + TableOps.tla + trace specs; conf_render.py'),
    'Observe': dict(path='specs/Observe.tla', kind_free_text='stuttering spec + ObserveImpl.tla refinement + ObserveTrace.tla; conf_observe.py'),
    'Browser': dict(path='specs/Browser.tla', kind_free_text='naive-scan spec + BrowserTrace.tla; conf_browser.py'),
    'Stats': dict(path='specs/Stats.tla', kind_free_text='partition/count spec + StatsTrace.tla; conf_stats.py'),
    'ReportTree': dict(path='specs/ReportTree.tla', kind_free_text='write state machine over report trees + ReportTreeTrace.tla; conf_report.py'),
    'Sched': dict(path='specs/Sched.tla', kind_free_text='TLA+ spec of the queue backend (master, workers, queue, condition variable, environment) + SchedMC.tla (configuration spaces) + SchedTrace.tla (trace validation, strict/observer); harness/detsched.py (deterministic scheduler), schedrun.py (probes, projection), conf_sched.py'),
    'Runs': dict(path='specs/Runs.tla', kind_free_text='TLA+ spec of histories of runs with persistence and faults + RunsMC.tla + RunsTrace.tla; harness/conf_runs.py'),
    'Slice': dict(path='specs/Slice.tla', kind_free_text='TLA+ function-like spec (Init enumerates inputs, Eval computes output) + SliceTrace.tla; harness/conf_slice.py'),
}

ALL = ['C%02d' % i for i in range(1, 21)]


def main():
    checks = []
    for pid in ALL:
        if pid not in CHECKS:
            continue
        c = CHECKS[pid]
        checks.append(dict(
            property_id=pid,
            quick_cmd='./check %s --tier quick' % pid,
            thorough_cmd='./check %s --tier thorough' % pid,
            evidence_file='/verif/evidence/%s.json' % pid,
            replay_cmd_template='./check %s --replay {path}' % pid,
            engine=c['engine'],
            level_claimed=dict(category=c['category'], text=c['text'], design_ref=c['design_ref']),
            level_note=c['note'],
            technique=c['technique']))
    engines = []
    for name, e in ENGINES.items():
        engines.append(dict(name=name, path=e['path'], kind_free_text=e['kind_free_text'],
                            serves_properties=[p for p in ALL if p in CHECKS and CHECKS[p]['engine'] == name or name in CHECKS.get(p, {}).get('also', [])]))
    man = dict(
        version=1,
        setup_cmd='sh setup.sh',
        hooks=dict(guard='VALJEAN_VERIF', enable='no source hooks: the harness rebinds threading/Queue/time in its own process; '
                   'VALJEAN_VERIF is reserved', baseline_off_cmd=BASELINE_OFF, source_commits=[], add_only=True),
        engines=engines,
        checks=checks,
        notes='Model-based verification with explicit TLA+ specifications (specs/), checked by TLC and bound to the code by replay '
              '(spec->code) and batch trace validation (code->spec). See DESIGN.md. Every check also runs itself once more, in parallel, '
              'at the quick tier in an environment variant (python -O, valjean logger at DEBUG, another working directory; VERIF_VARIANT=0 '
              'switches this off) and fails if that run finds a violation. Extra specification modules beyond the listed properties (RList, '
              'EnvOps, ParseLock, PyTask, Equal, Pipeline, Config, BrowserIndex, PlotTmpl) run inside host checks and report OBSERVATION lines only (ParseLock and two clauses '
              'of EnvOps restate C10 / C01 and can raise their violations). harness/check_seeds.sh re-applies the 98 stored seeded changes '
              '(seeded/) and reports CAUGHT / MISSED per seed.',
        not_applicable=[dict(property_id=p, reason='check not built yet (planned, see DESIGN.md §4)')
                        for p in ALL if p not in CHECKS])
    with open(os.path.join(VERIF, 'MANIFEST.json'), 'w') as f:
        json.dump(man, f, indent=1)
    print('MANIFEST.json: %d checks' % len(checks))


if __name__ == '__main__':
    main()
