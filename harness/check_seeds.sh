#!/bin/sh
# check_seeds.sh <pid> [<pid>...] : apply every stored seed of the property in a scratch worktree and run the check against it.
# Prints one line per seed: CAUGHT (exit 1 with a VIOLATION line) / MISSED (exit 0) / BROKEN (other).  Needs /repo to be a git work tree.
cd "$(dirname "$0")/.."
for pid in "$@"; do
  for d in seeded/*; do
    [ -f "$d/meta.json" ] || continue
    p=$(python3 -c "import json,sys; print(json.load(open('$d/meta.json'))['property'])")
    [ "$p" = "$pid" ] || continue
    base=$(python3 -c "import json; print(json.load(open('$d/meta.json')).get('base', 'HEAD'))")   # a seed made harmless by a later repair is evaluated on its base commit
    wt=$(mktemp -d /tmp/seedwt-XXXXXX); rmdir "$wt"
    git -C /repo worktree add -q --detach "$wt" "$base" || { echo "BROKEN $d (worktree)"; continue; }
    if git -C "$wt" apply "$(pwd)/$d/patch.diff" 2>/dev/null; then
      chk=$(python3 -c "import json; print(' '.join(json.load(open('$d/meta.json')).get('checks', ['$pid'])))")   # the check(s) that catch it
      rc=0
      : > "/tmp/seedrun-$(basename $d).log"
      for c in $chk; do VERIF_REPO="$wt" ./check "$c" --no-evidence >> "/tmp/seedrun-$(basename $d).log" 2>&1; r=$?; [ $r -gt $rc ] && rc=$r; done
      n=$(grep -c '^VIOLATION' "/tmp/seedrun-$(basename $d).log")
      if [ $rc -eq 1 ] && [ "$n" -ge 1 ]; then echo "CAUGHT $d"; elif [ $rc -eq 0 ]; then echo "MISSED $d"; else echo "BROKEN $d (exit $rc)"; fi
    else
      echo "BROKEN $d (patch does not apply)"
    fi
    git -C /repo worktree remove --force "$wt"
  done
done
