"""Entry point of ./check."""
import argparse
import importlib
import json
import os
import sys
import traceback

HERE = os.path.dirname(os.path.abspath(__file__))
sys.path.insert(0, HERE)
import core  # noqa: E402
import tlc   # noqa: E402

# property id -> (module, function)
REGISTRY = {
    'C01': ('conf_sched', 'run_c01'),
    'C02': ('conf_sched', 'run_c02'),
    'C03': ('conf_sched', 'run_c03'),
    'C04': ('conf_runs', 'run_c04'),
    'C05': ('conf_student', 'run_c05'),
    'C06': ('conf_bonferroni', 'run_c06'),
    'C07': ('conf_chi2', 'run_c07'),
    'C08': ('conf_dataset', 'run_c08'),
    'C09': ('conf_slice', 'run_c09'),
    'C10': ('conf_t4doc', 'run_c10'),
    'C11': ('conf_t4scan', 'run_c11'),
    'C12': ('conf_render', 'run_c12'),
    'C13': ('conf_observe', 'run_c13'),
    'C14': ('conf_persist', 'run_c14'),
    'C15': ('conf_factory', 'run_c15'),
    'C16': ('conf_depgraph', 'run_c16'),
    'C17': ('conf_browser', 'run_c17'),
    'C18': ('conf_stats', 'run_c18'),
    'C19': ('conf_runcmd', 'run_c19'),
    'C20': ('conf_report', 'run_c20'),
}


VARIANT = 'python -O, valjean logger at DEBUG, another working directory'


def _start_variant(args):
    """The same check once more, at the same time, in a process whose environment differs in ways no property depends on:
    assertions stripped (python -O), the valjean logger at DEBUG (records discarded), another working directory.  The
    properties are statements about valjean, not about how the interpreter was started."""
    if os.environ.get('VERIF_ENV_VARIANT') or os.environ.get('VERIF_VARIANT', '1') == '0':
        return None
    import subprocess
    cwd = tlc.workdir('cwd')
    # always at the quick tier: the variant is about the environment of the process, not about depth
    return subprocess.Popen([sys.executable, '-O', '-W', 'ignore', os.path.abspath(__file__), args.pid, '--tier', 'quick', '--no-evidence'],
                            env=dict(os.environ, VERIF_ENV_VARIANT=VARIANT), cwd=cwd, stdout=subprocess.PIPE, stderr=subprocess.STDOUT, text=True)


def _join_variant(child, ctx):
    if child is None:
        return 0
    try:
        out, _ = child.communicate(timeout=6 * 3600)
    except Exception:  # pylint: disable=broad-except
        child.kill()
        out = ''
    lines = out.splitlines()
    summary = next((l for l in reversed(lines) if ' tier=' in l and 'wall=' in l), '')
    ctx.cov['environment_variant'] = dict(variant=VARIANT, exit=child.returncode, summary=summary)
    if child.returncode == 1:
        print('In the environment variant (%s):' % VARIANT)
        for l in lines:
            if l.startswith('VIOLATION') or l.startswith('  key='):
                print(l)
        return 1
    if child.returncode != 0:
        ctx.drift('the run in the environment variant (%s) did not complete (exit %s): %s' % (VARIANT, child.returncode, ' | '.join(lines[-3:])[:300]))
    return 0


def main():
    ap = argparse.ArgumentParser()
    ap.add_argument('pid')
    ap.add_argument('--tier', default=os.environ.get('VERIF_TIER', 'quick'), choices=['quick', 'thorough'])
    ap.add_argument('--replay')
    ap.add_argument('--no-evidence', action='store_true')
    args = ap.parse_args()
    seed = int(os.environ.get('VERIF_SEED', '0') or 0)
    core.use_repo()
    rc = 2
    try:
        if args.replay:
            with open(args.replay) as f:
                rep = json.load(f)
            if rep.get('variant') and not os.environ.get('VERIF_ENV_VARIANT'):
                import subprocess
                r = subprocess.run([sys.executable, '-O', '-W', 'ignore', os.path.abspath(__file__)] + sys.argv[1:],
                                   env=dict(os.environ, VERIF_ENV_VARIANT=rep['variant']))
                sys.stdout.flush()
                os._exit(r.returncode)
            mod = importlib.import_module(rep['module'])
            ok, detail = getattr(mod, rep['fn'])(rep['case'])
            print('replay %s: %s -- %s' % (args.replay, 'property holds' if ok else 'VIOLATION reproduced', detail))
            if not ok:
                print('VIOLATION property=%s replay=%s' % (rep['property'], args.replay))
            rc = 0 if ok else 1
        else:
            modname, fn = REGISTRY[args.pid]
            mod = importlib.import_module(modname)
            child = _start_variant(args)
            ctx = core.Ctx(args.pid, tier=args.tier, seed=seed, write_evidence=not args.no_evidence)
            getattr(mod, fn)(ctx)
            ctx.variant_failed = _join_variant(child, ctx) == 1
            rc = ctx.finish()
    except tlc.MachineryError as ex:
        print('MACHINERY-ERROR %s: %s' % (args.pid, ex))
        rc = 2
    except Exception:  # pylint: disable=broad-except
        traceback.print_exc()
        print('MACHINERY-ERROR %s: unexpected exception in the harness' % args.pid)
        rc = 2
    finally:
        tlc.cleanup()
    sys.stdout.flush()
    os._exit(rc)   # leaked non-daemon threads of the code under test must not hang the check


if __name__ == '__main__':
    main()
