#!/bin/sh
# eval_seed.sh <pid> <worktree> [check-pid...]  : confirm demo with/without the change, run the check(s) against the worktree
pid=$1; wt=$2; shift 2
checks=${*:-$pid}
cd $wt || exit 2
PYTHONPATH=$wt timeout 300 /venv/bin/python demo.py >/tmp/demo_$pid.with 2>&1; w=$?
# (no git stash: the stash is shared by all worktrees of a repository, parallel evaluations swapped their changes once)
git diff -- valjean > /tmp/evalseed_$pid.diff; git apply -R /tmp/evalseed_$pid.diff; PYTHONPATH=$wt timeout 300 /venv/bin/python demo.py >/tmp/demo_$pid.without 2>&1; wo=$?; git apply /tmp/evalseed_$pid.diff
echo "SEED $pid demo: with-change exit=$w without exit=$wo"
cd /verif
for c in $checks; do
  VERIF_REPO=$wt ./check $c --no-evidence > /tmp/seedeval-$pid-$c.log 2>&1; rc=$?
  echo "SEED $pid check $c exit=$rc"
  grep -E "key=|MACHINERY|tier=" /tmp/seedeval-$pid-$c.log | cut -c1-220 | head -12
done
