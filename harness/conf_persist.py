"""C14 -- persisted environments survive crashes: binding of specs/Persist.tla to
valjean.cambronne.common.write_env / read_env and valjean.cosette.env.Env.to_file / from_file.

One executor (`World.execute`) performs abstract histories on the REAL code in a scratch directory:

    run(t, status, dir)      a new entry (random picklable payload) in the in-memory environment
    write(order, crash)      write_env on a real Env whose keys are in `order`; a crash is injected
                             before the j-th entry or after exactly k bytes of its file reached the
                             disk (the module-global `open` of valjean.cosette.env is replaced by one
                             that dies -- BaseException -- when its byte budget is used up)
    exit                     the process ends, the in-memory environment is lost
    fault(t, kind)           the file is removed / emptied / replaced by garbage, a directory or an
                             unopenable object (symlink loop: the checks run as root, chmod is void)
    read / readone(t)        read_env over all tasks / Env.from_file on one file

and logs one event per Persist action with the observed classification of every file and the
observed outcome of the reads.

spec -> code : behaviours simulated by TLC from Persist.tla are translated to such histories (the
               abstract `partial` is swept over byte lengths) and the projection of the real world
               is compared with the TLC state after every segment (files, lastRead, lastOne).
code -> spec : for a set of payloads EVERY byte length of the serialized entry is left behind by a
               crash and read back; seeded random long histories (5 tasks, all statuses, faults,
               re-writes) are executed; all logs are validated by TLC against PersistTrace.tla,
               which evaluates the clauses of the property on the observed reads.
"""
import json
import os
import pickle
import random
import shutil

import numpy as np

import tlc
from tlc import Raw
from tlaval import MV

SPEC = os.path.join(tlc.SPECS, 'Persist.tla')
TRACE = os.path.join(tlc.SPECS, 'PersistTrace.tla')
INVS = ['C14_NoRaise', 'C14_Exact', 'C14_NeverNotDone', 'C14_Complete', 'C14_NoPartial', 'C14_One',
        'C14_NoDirNeverWritten', 'HistoryOK', 'TypeOK']
WITNESSES = ['W_ReadPartial', 'W_ReadEmpty', 'W_ReadMixed', 'W_LostOlder', 'W_NotDoneFull', 'W_Rewritten',
             'W_BlockedWrite', 'W_Skip']
ACTIONS = ['Run', 'StartWriteAny', 'Skip', 'BeginWrite', 'WriteChunk', 'EndWrite', 'Crash', 'Fault', 'ReadAll', 'ReadOne']
ALL_STATUSES = ['WAITING', 'PENDING', 'DONE', 'FAILED', 'SKIPPED']
FAULT_KINDS = ['absent', 'empty', 'garbage', 'dir', 'unreadable']
FILENAME = 'valjean.env'
VER0 = 10 ** 6      # entries carry VER0 + version: the serialized length does not depend on the version


def fast_workdir(prefix):
    """Scratch directory on tmpfs when there is one (truncating a file costs 3 ms on the disk of this
    machine, 10 us on /dev/shm); registered with tlc for removal like tlc.workdir()."""
    import tempfile
    if os.path.isdir('/dev/shm') and os.access('/dev/shm', os.W_OK):
        d = tempfile.mkdtemp(prefix='verif-%s-' % prefix, dir='/dev/shm')
        tlc._WORK.append(d)      # pylint: disable=protected-access
        return d
    return tlc.workdir(prefix)


class _Crash(BaseException):
    """The process dies here (not an Exception: nothing in valjean may catch it)."""


# ---------------------------------------------------------------------------------------------
# payloads

def gen_payload(rng, depth=0):
    """A random picklable payload: nested dicts / lists / tuples, numpy arrays, TaskStatus members,
    non-ASCII strings, bytes, numbers."""
    from valjean.cosette.task import TaskStatus
    kinds = ['int', 'float', 'str', 'ustr', 'bytes', 'none', 'bool', 'status', 'array', 'npscalar']
    if depth < 3:
        kinds += ['list', 'dict', 'tuple', 'dict', 'list']
    kind = rng.choice(kinds)
    if kind == 'int':
        return rng.choice([0, 1, -1, 255, 256, 2 ** 31, -2 ** 63, 10 ** 30, rng.randint(-10 ** 6, 10 ** 6)])
    if kind == 'float':
        return rng.choice([0.0, -0.0, 1.5, 1e300, -2.5e-300, float('inf'), rng.random()])
    if kind == 'str':
        return ''.join(rng.choice('abcxyz _-/.0123') for _ in range(rng.randint(0, 12)))
    if kind == 'ustr':
        return ''.join(rng.choice(u'éàüñαβ中文\U0001f600 a') for _ in range(rng.randint(1, 8)))
    if kind == 'bytes':
        return bytes(rng.randrange(256) for _ in range(rng.randint(0, 10)))
    if kind == 'none':
        return None
    if kind == 'bool':
        return rng.random() < 0.5
    if kind == 'status':
        return rng.choice(list(TaskStatus))
    if kind == 'array':
        dtype = rng.choice(['float64', 'int32', 'bool', 'complex128', 'float32', '<U3'])
        shape = tuple(rng.randint(0, 3) for _ in range(rng.randint(1, 3)))
        n = int(np.prod(shape))
        if dtype == '<U3':
            return np.array([rng.choice(['a', u'éé', 'xyz']) for _ in range(n)], dtype=dtype).reshape(shape)
        return (np.arange(n) * rng.randint(1, 5) - rng.randint(0, 4)).astype(dtype).reshape(shape)
    if kind == 'npscalar':
        return rng.choice([np.float64(1.25), np.int64(-7), np.bool_(True), np.float32(0.5)])
    size = rng.randint(0, 3)
    if kind == 'list':
        return [gen_payload(rng, depth + 1) for _ in range(size)]
    if kind == 'tuple':
        return tuple(gen_payload(rng, depth + 1) for _ in range(size))
    return {rng.choice(['result', 'k', u'clé', 'x%d' % rng.randint(0, 9)]): gen_payload(rng, depth + 1) for _ in range(size)}


def deep_eq(a, b):
    if type(a) is not type(b):
        return False
    if isinstance(a, np.ndarray):
        return a.dtype == b.dtype and a.shape == b.shape and bool(np.array_equal(a, b))
    if isinstance(a, dict):
        return list(a.keys()) == list(b.keys()) and all(deep_eq(a[k], b[k]) for k in a)
    if isinstance(a, (list, tuple)):
        return len(a) == len(b) and all(deep_eq(x, y) for x, y in zip(a, b))
    if isinstance(a, float):
        return a == b and str(a) == str(b)
    return bool(a == b)


def _invalid_first_bytes():
    import pickletools
    ops = {ord(o.code) for o in pickletools.opcodes}
    return [b for b in range(256) if b not in ops]


_GARBAGE = {}


def garbage_samples(seed):
    if seed not in _GARBAGE:
        _GARBAGE[seed] = _garbage_samples(seed)
    return _GARBAGE[seed]


def _garbage_samples(seed):
    """Byte strings that are no pickle.  Curated families only: random mutation of real pickles
    can make the unpickler allocate gigabytes or crash the interpreter (numpy reconstruction),
    which would kill the harness, not falsify anything.  Everything pickle.loads accepts is dropped
    (DESIGN 8.1)."""
    rng = random.Random(seed * 7919 + 13)
    cands = [b'{"status": "DONE"}\n', b'# valjean environment\n', b'\n', b' ', b'status: DONE\n', b'DONE', b'None\n',
             b'N', b'I12\n', b'Iabc\n.', b'(lp0\n', b'}', b'\x80\x04N', b'\x80\x7f.', b'\x00' * 64, b'\xff' * 64,
             b'\x1f\x8b\x08\x00\x00\x00\x00\x00', b'\x89HDF\r\n\x1a\n', b'\x93NUMPY\x01\x00', b'<html></html>',
             b'[env]\nstatus = DONE\n', b'cnosuchmodule_xyz_verif\nfoo\n.', b'cos\nnosuchattr_verif\n.', b'h\x00.', b'0.', b'a.', b's.',
             b'S\'abc\n.', b'V\\ud800\n', b'Fnotafloat\n.', u'résultat'.encode('utf-8'), b'\x80\x05\x95']
    inval = _invalid_first_bytes()
    for _ in range(40):
        n = rng.randint(1, 64)
        cands.append(bytes([rng.choice(inval)]) + bytes(rng.randrange(256) for _ in range(n - 1)))
    out = []
    for g in cands:
        try:
            pickle.loads(g)
        except Exception:  # pylint: disable=broad-except
            out.append(g)
    return out


# ---------------------------------------------------------------------------------------------
# the real world

class _DyingFile:
    """File object handed to pickle.dump: lets `budget` bytes through, then the process dies."""

    def __init__(self, real, budget):
        self.real = real
        self.budget = budget

    def write(self, data):
        data = bytes(data)
        if len(data) <= self.budget:
            self.budget -= len(data)
            return self.real.write(data)
        self.real.write(data[:self.budget])
        self.budget = 0
        raise _Crash()

    def __enter__(self):
        return self

    def __exit__(self, *exc):
        self.real.close()      # what reached the file stays there
        return False


class World:
    def __init__(self, ntasks, seed, root=None):
        from valjean.cosette.task import TaskStatus
        self.TaskStatus = TaskStatus
        self.ntasks = ntasks
        self.seed = seed
        self.root = root or fast_workdir('c14w')
        self.names = ['t%d' % t for t in range(1, ntasks + 1)]
        for n in self.names:
            os.makedirs(os.path.join(self.root, n), exist_ok=True)
        self.scratch = os.path.join(self.root, '.ref')
        self.mem = {}            # t -> (ver, entry object)
        self.entries = {}        # ver -> (t, status, dir, entry)
        self.ref = {}            # ver -> reference bytes of the complete file
        self.byref = {}          # (t, bytes) -> ver
        self._refobj = {}        # ver -> the object the reference was made from
        self.disk = {}           # t -> version whose serialization was last started on t's file (bookkeeping)
        self.nver = 1
        self.garbage = garbage_samples(0)
        self.log = []
        self.origin = []         # log index -> index of the abstract event that produced it
        self.abstract = []
        self.n_reads = 0

    # -- helpers -------------------------------------------------------------------------
    def path(self, t):
        return os.path.join(self.root, 't%d' % t, FILENAME)

    def _refbytes(self, ver, entry=None):
        """Reference content: the real Env.to_file on a scratch path, undisturbed.  An entry that came
        back from the disk is equal to, but need not serialize to the same bytes as the original
        (memoisation of shared strings): the reference is renewed from the object about to be written."""
        if entry is not None and self._refobj.get(ver) is not entry:
            self.ref.pop(ver, None)
        if ver not in self.ref:
            from valjean.cosette.env import Env
            t, _status, _dir, entry0 = self.entries[ver]
            entry = entry0 if entry is None else entry
            self._refobj[ver] = entry
            env = Env()
            env['t%d' % t] = entry
            env.to_file(self.scratch, task_name='t%d' % t, fmt='pickle')
            with open(self.scratch, 'rb') as f:
                self.ref[ver] = f.read()
            self.byref[(t, self.ref[ver])] = ver
        return self.ref[ver]

    def classify(self, t):
        """(kind, status, ver) of the file of task t."""
        p = self.path(t)
        if os.path.islink(p):
            return ('unreadable', 'WAITING', 0)
        if os.path.isdir(p):
            return ('dir', 'WAITING', 0)
        if not os.path.exists(p):
            return ('absent', 'WAITING', 0)
        with open(p, 'rb') as f:
            data = f.read()
        if not data:
            return ('empty', 'WAITING', 0)
        hint = self.disk.get(t)
        if hint is not None:
            ref = self._refbytes(hint)
            if data == ref:
                return ('full', self.entries[hint][1], hint)
            if ref.startswith(data):
                return ('partial', self.entries[hint][1], hint)
        cands = [v for v, (tt, _s, d, _e) in self.entries.items() if tt == t and d]
        for v in cands:
            self._refbytes(v)
        if (t, data) in self.byref:
            v = self.byref[(t, data)]
            return ('full', self.entries[v][1], v)
        # a strict prefix is only called `partial` when this world's bookkeeping says a write of that
        # entry was started on this file (handled above); anything else that is not complete is garbage
        return ('garbage', 'WAITING', 0)

    def files(self):
        return [list(self.classify(t)) for t in range(1, self.ntasks + 1)]

    def _emit(self, **ev):
        ev['files'] = self.files()
        self.log.append(ev)
        return ev

    def _identify(self, t, entry):
        """(status name, ver) of an entry that came back from the disk; ver = -1 when it is not
        (deep-)equal to any entry that was created for t."""
        try:
            ver = entry['ver'] - VER0
            ok = ver in self.entries and self.entries[ver][0] == t and deep_eq(entry, self.entries[ver][3])
            status = self.TaskStatus(entry['status']).name
        except Exception:  # pylint: disable=broad-except
            return 'WAITING', -1
        return status, (ver if ok else -1)

    # -- operations ----------------------------------------------------------------------
    def run(self, t, status, has_dir, pid=None):
        """pid selects the payload (default: one new payload per version)."""
        rng = random.Random('%d/%s' % (self.seed, self.nver if pid is None else 'p%d' % pid))
        entry = {'status': self.TaskStatus[status], 'ver': VER0 + self.nver, 'result': gen_payload(rng)}
        if rng.random() < 0.5:
            entry['start_clock'] = 1.5 * self.nver
            entry['end_clock'] = 1.5 * self.nver + 0.25
        if has_dir:
            entry['output_dir'] = os.path.join(self.root, 't%d' % t)
        ver = self.nver
        self.nver += 1
        self.entries[ver] = (t, status, bool(has_dir), entry)
        self.mem[t] = (ver, entry)
        self._emit(op='run', t=t, status=status, ver=ver, dir=bool(has_dir))

    def write(self, order, crash=None):
        """write_env on a real Env with keys in `order`.  crash = None | dict(at=j, k=None|int):
        the process dies before the j-th entry of `order` is handled (k None) or after k bytes of
        its file were written (k >= 0; k is reduced to len-1 if the file is shorter)."""
        from valjean.cosette import env as envmod
        from valjean.cambronne.common import write_env
        env = envmod.Env()
        for t in order:
            env['t%d' % t] = self.mem[t][1]
        # what will happen, entry by entry (the log follows the Persist actions)
        plan = []
        for j, t in enumerate(order):
            ver, entry = self.mem[t]
            if 'output_dir' not in entry:
                plan.append(('skip', t, ver))
            elif self.classify(t)[0] in ('dir', 'unreadable'):
                plan.append(('blocked', t, ver))
            else:
                plan.append(('write', t, ver))
                self._refbytes(ver, entry)
        target = None
        if crash is not None:
            j = crash['at']
            k = crash.get('k')
            if k is not None and plan[j][0] != 'write':
                k = None
            if k is not None:
                k = min(k, len(self._refbytes(plan[j][2])) - 1)
            # a crash "before entry j" takes effect when the next file would be opened; if no file
            # is opened any more the process simply ends after write_env
            target = (j, k)
        state = dict(opened=0)
        openable = [j for j, p in enumerate(plan) if p[0] in ('write', 'blocked')]
        real_open = open

        def dying_open(path, mode='r', *a, **kw):
            idx = openable[state['opened']] if state['opened'] < len(openable) else None
            state['opened'] += 1
            if target is not None and idx is not None:
                j, k = target
                if k is None and idx >= j:
                    raise _Crash()
                if k is not None and idx == j:
                    return _DyingFile(real_open(path, mode, *a, **kw), k)
            return real_open(path, mode, *a, **kw)

        self._emit(op='start', order=list(order))
        envmod.open = dying_open
        crashed = False
        try:
            write_env(env, filename=FILENAME, fmt='pickle')
        except _Crash:
            crashed = True
        finally:
            del envmod.open
        # log, entry by entry, what was done (the files are observed once, at the end: the call is one step for us)
        done_upto = len(plan)
        if crashed:
            done_upto = target[0] if target[1] is not None else min(x for x in openable if x >= target[0])
        events = []
        for j in range(done_upto):
            kind, t, ver = plan[j]
            if kind == 'write':
                events += [dict(op='begin', t=t), dict(op='end', t=t)]
                self.disk[t] = ver
            else:
                events.append(dict(op=kind, t=t))
        if crashed and target[1] is not None:
            t = plan[target[0]][1]
            self.disk[t] = plan[target[0]][2]
            events.append(dict(op='begin', t=t))
            if target[1] > 0:
                events.append(dict(op='chunk', t=t))
        final = self.files()
        # write_env is one call: the files are observed once, after it; the observation is attached to the last
        # event of the segment, the events before it are marked unobserved (files = None -> seen = FALSE)
        for ev in events:
            ev['files'] = None
        if crashed:
            events.append(dict(op='crash', files=None))
            self.mem = {}
        elif crash is not None:
            # the crash point lay behind the last file: the process ends normally
            events.append(dict(op='exit', files=None))
            self.mem = {}
        if events:
            events[-1]['files'] = final
        else:
            self.log[-1]['files'] = final
        self.log += events
        return crashed

    def exit(self):
        had = bool(self.mem)
        self.mem = {}
        if had:
            self._emit(op='exit')

    def fault(self, t, kind, which=0):
        p = self.path(t)
        if self.classify(t)[0] == kind:
            return False
        self.disk.pop(t, None)
        if os.path.islink(p) or os.path.isfile(p):
            os.remove(p)
        elif os.path.isdir(p):
            shutil.rmtree(p)
        if kind == 'empty':
            open(p, 'wb').close()
        elif kind == 'garbage':
            with open(p, 'wb') as f:
                f.write(self.garbage[which % len(self.garbage)])
        elif kind == 'dir':
            os.mkdir(p)
        elif kind == 'unreadable':
            os.symlink(FILENAME, p)          # a link to itself: ELOOP for every open
        self._emit(op='fault', t=t, kind=kind, which=which)
        return True

    def read(self):
        from valjean.cambronne.common import read_env
        self.n_reads += 1
        try:
            env = read_env(root=self.root, names=list(self.names), filename=FILENAME, fmt='pickle')
        except Exception as ex:  # pylint: disable=broad-except
            self.mem = {}
            return self._emit(op='read', raised=True, exc=type(ex).__name__, env=[])
        obs = []
        self.mem = {}
        for name, entry in env.items():
            t = self.names.index(name) + 1 if name in self.names else 0
            status, ver = self._identify(t, entry)
            obs.append(dict(t=t, status=status, ver=ver))
            if ver > 0:
                self.mem[t] = (ver, entry)
        return self._emit(op='read', raised=False, exc='', env=obs)

    def readone(self, t):
        from valjean.cosette.env import Env
        self.n_reads += 1
        try:
            env = Env.from_file(self.path(t), fmt='pickle')
        except Exception as ex:  # pylint: disable=broad-except
            return self._emit(op='readone', t=t, raised=True, exc=type(ex).__name__, present=False, status='WAITING', ver=0)
        if env is None:
            return self._emit(op='readone', t=t, raised=False, exc='', present=False, status='WAITING', ver=0)
        status, ver = 'WAITING', -1
        if isinstance(env, Env) and list(env.keys()) == ['t%d' % t]:
            status, ver = self._identify(t, env['t%d' % t])
        return self._emit(op='readone', t=t, raised=False, exc='', present=True, status=status, ver=ver)

    def execute(self, events):
        """Perform abstract events (dicts); returns the index into self.log after each of them."""
        marks = []
        for ev in events:
            op = ev['op']
            self.abstract.append(ev)
            if op == 'run':
                self.run(ev['t'], ev['status'], ev['dir'], ev.get('pid'))
            elif op == 'write':
                self.write(ev['order'], ev.get('crash'))
            elif op == 'exit':
                self.exit()
            elif op == 'fault':
                self.fault(ev['t'], ev['kind'], ev.get('which', 0))
            elif op == 'read':
                self.read()
            elif op == 'readone':
                self.readone(ev['t'])
            else:
                raise tlc.MachineryError('unknown event %r' % (ev,))
            self.origin += [len(self.abstract) - 1] * (len(self.log) - len(self.origin))
            marks.append(len(self.log))
        return marks


# ---------------------------------------------------------------------------------------------
# TLC as the oracle for logs (code -> spec)

def _fill_files(log, ntasks):
    """Events inside one write_env call carry no observation of the files (files = None): they get the flag
    seen = FALSE (PersistTrace compares the files only where seen) and a placeholder of the right type."""
    out = []
    for ev in log:
        e = dict(ev)
        e['seen'] = e.get('files') is not None
        if e['files'] is None:
            e['files'] = [['absent', 'WAITING', 0] for _ in range(ntasks)]
        out.append(e)
    return out


def validate_logs(logs, ntasks, wd, ctx=None, name='PersistTrace', chunk=60000):
    """logs: list of (trace id, log).  Returns ({(tid, step): [clauses]}, number of events) as judged
    by TLC (PersistTrace.tla); batches of about `chunk` events per JVM, four JVMs at a time."""
    batches, cur, size = [], [], 0
    for tid, log in logs:
        cur.append((tid, log))
        size += len(log) + 1
        if size >= chunk:
            batches.append(cur)
            cur, size = [], 0
    if cur:
        batches.append(cur)

    def one(args):
        bi, batch = args
        events = []
        for tid, log in batch:
            events.append(dict(op='reset', tid=tid, step=0, seen=False, files=[['absent', 'WAITING', 0]] * ntasks))
            for step, ev in enumerate(_fill_files(log, ntasks), 1):
                e = dict(ev, tid=tid, step=step)
                e.pop('exc', None)
                e.pop('which', None)
                events.append(e)
        bwd = os.path.join(wd, 'batch%d_%d' % (bi, len(events)))
        os.makedirs(bwd, exist_ok=True)
        cj = tlc.json_dump(os.path.join(bwd, 'events.json'), dict(ntasks=ntasks, events=events))
        oj = os.path.join(bwd, 'verdict.json')
        if os.path.exists(oj):
            os.remove(oj)
        cfg = tlc.write_cfg(os.path.join(bwd, 'trace.cfg'), spec='TSpec', constants={'None': Raw('None')},
                            invariants=['HistoryOK'], deadlock=False, postcondition='Post')
        res = tlc.run(TRACE, cfg, workers=1, coverage=False, env=dict(VERIF_CASES=cj, VERIF_OUT=oj), timeout=3000)
        if not res.ok or not os.path.exists(oj):
            raise tlc.MachineryError('PersistTrace: %s\n%s' % (res.violation, res.out[-2500:]))
        with open(oj) as f:
            bad = json.load(f)['bad']
        os.remove(cj)
        return res, bad, len(events)

    from concurrent.futures import ThreadPoolExecutor
    with ThreadPoolExecutor(max_workers=4) as pool:
        results = list(pool.map(one, enumerate(batches)))
    verdict = {}
    total = 0
    for res, bad, n in results:
        if ctx is not None:
            ctx.tlc(res, name)
        total += n
        for tid, step, clause in bad:
            verdict.setdefault((tid, step), []).append(clause)
    return verdict, total


# ---------------------------------------------------------------------------------------------
# finding classes

def _culprit(files):
    """read_env stops at the first file it cannot digest: its kind names the class."""
    for kind, _s, _v in files:
        if kind in ('empty', 'partial', 'garbage'):
            return kind
    return 'none'


def vkey(ev, clauses):
    op = 'read_env' if ev['op'] == 'read' else 'from_file' if ev['op'] == 'readone' else ev['op']
    if ev.get('raised'):
        if ev['op'] == 'readone':
            return 'C14/%s-raises/%s' % (op, ev['files'][ev['t'] - 1][0])
        return 'C14/%s-raises/%s' % (op, _culprit(ev['files']))
    if ev['op'] == 'nodir-written' or 'NoDirNeverWritten' in clauses:
        return 'C14/task-without-output-dir-written'
    return 'C14/%s-wrong/%s' % (op, '+'.join(sorted(c for c in clauses if c != 'Files')) or 'Files')


def _report(ctx, ev, clauses, events, ntasks, seed):
    what = '%s: clauses %s false; observed %s' % (
        ev['op'], sorted(clauses), {k: ev[k] for k in ('raised', 'exc', 'env', 'present', 'status', 'ver', 'files') if k in ev})
    ctx.violation(vkey(ev, clauses), what, dict(ntasks=ntasks, seed=seed, events=events), module='conf_persist')


def replay_case(case):
    """Execute the abstract history on the real code and let TLC judge the log."""
    import core
    core.use_repo()
    world = World(case['ntasks'], case['seed'])
    world.execute(case['events'])
    wd = tlc.workdir('c14r')
    verdict, _n = validate_logs([(1, world.log)], case['ntasks'], wd)
    if not verdict:
        return True, 'all clauses of Persist.tla hold on the %d logged events' % len(world.log)
    (tid, step), clauses = sorted(verdict.items())[0]
    ev = world.log[step - 1]
    return False, 'event %d (%s): clauses %s false; observed raised=%s exc=%s env=%s files=%s' % (
        step, ev['op'], sorted(clauses), ev.get('raised'), ev.get('exc'), ev.get('env'), ev.get('files'))


# ---------------------------------------------------------------------------------------------
# spec -> code

def _consts(ntasks, statuses, max_ver, max_faults, max_crashes, fault_kinds=FAULT_KINDS):
    return {'Tasks': frozenset(range(1, ntasks + 1)), 'Statuses': frozenset(statuses), 'MaxVer': max_ver,
            'MaxFaults': max_faults, 'MaxCrashes': max_crashes, 'FaultKinds': frozenset(fault_kinds), 'None': Raw('None')}


def behaviour_to_events(beh):
    """Translate a TLC behaviour (list of states with `act`) into executor events.  Returns
    [(event, index of the TLC state reached after it)]; a write segment cut by the end of the
    behaviour is dropped."""
    out = []
    n = len(beh)
    i = 1
    while i < n:
        act = beh[i]['act']
        op = act['op']
        if op == 'run':
            out.append((dict(op='run', t=act['t'], status=act['status'], dir=bool(act['dir'])), i))
        elif op == 'start':
            order = list(act['order'])
            j = i + 1
            handled = 0
            begun = chunked = False
            crash = None
            complete = False
            while j < n:
                o = beh[j]['act']['op']
                if o in ('skip', 'blocked', 'end'):
                    handled += 1
                    begun = chunked = False
                elif o == 'begin':
                    begun = True
                elif o == 'chunk':
                    chunked = True
                elif o == 'crash':
                    crash = dict(at=handled, k=None if not begun else ('sweep' if chunked else 0))
                    break
                else:
                    raise tlc.MachineryError('unexpected action %s inside a write segment' % o)
                if len(beh[j]['queue']) == 0 and isinstance(beh[j]['w'], MV):
                    complete = True
                    break
                j += 1
            if not (complete or crash):
                break
            out.append((dict(op='write', order=order, crash=crash), j))
            i = j
        elif op in ('exit', 'crash'):
            out.append((dict(op='exit'), i))
        elif op == 'fault':
            out.append((dict(op='fault', t=act['t'], kind=act['kind'], which=0), i))
        elif op == 'read':
            out.append((dict(op='read'), i))
        elif op == 'readone':
            out.append((dict(op='readone', t=act['t']), i))
        else:
            raise tlc.MachineryError('unknown action label %r' % (act,))
        i += 1
    return out


def _concretise(events, sweep):
    """Choose the byte length of every `partial` and the garbage sample for sweep number `sweep`."""
    out = []
    n = 0
    for ev in events:
        ev = json.loads(json.dumps(ev))
        if ev['op'] == 'write' and ev['crash'] and ev['crash']['k'] == 'sweep':
            ev['crash']['k'] = ('frac', sweep, n)
            n += 1
        if ev['op'] == 'fault':
            ev['which'] = sweep + n
        out.append(ev)
    return out


def _resolve_k(world, ev, sweeps):
    """('frac', sweep, n) -> concrete byte count in 1 .. len-1 for the entry being written."""
    k = ev['crash']['k']
    if isinstance(k, (list, tuple)) and k and k[0] == 'frac':
        _f, sweep, n = k
        order = ev['order']
        t = order[ev['crash']['at']]
        ver = world.mem[t][0]
        length = len(world._refbytes(ver))
        if sweeps <= 1:
            kk = 1 + (length - 2) // 2
        else:
            # sweep 0 -> 1 byte, last sweep -> len-1 bytes, the others spread with a per-position shift
            pts = [1, length - 1] + [1 + ((s * 2654435761 + n * 40503) % (length - 1)) for s in range(2, sweeps)]
            kk = pts[sweep % len(pts)]
        ev['crash']['k'] = max(1, min(length - 1, kk))


def _at(fn, t):
    """Value at t of a TLA+ function with domain 1..N (TLC prints those as tuples)."""
    return fn[t - 1] if isinstance(fn, tuple) else fn[t]


def _state_files(st, ntasks):
    return [[_at(st['file'], t)['kind'], _at(st['file'], t)['status'], _at(st['file'], t)['ver']] for t in range(1, ntasks + 1)]


def replay_behaviour(ctx, beh, ntasks, seed, sweeps):
    """Run one TLC behaviour on the real code (several byte-length choices); compare with TLC's states."""
    evs = behaviour_to_events(beh)
    if not evs:
        return 0, 0
    has_partial = any(e['op'] == 'write' and e['crash'] and e['crash']['k'] == 'sweep' for e, _ in evs)
    has_garbage = any(e['op'] == 'fault' and e['kind'] == 'garbage' for e, _ in evs)
    has_read = any(e['op'] in ('read', 'readone') for e, _ in evs)
    nsweeps = sweeps if (has_partial or has_garbage) and has_read else 1
    runs = 0
    for sweep in range(nsweeps):
        world = World(ntasks, seed)
        concrete = _concretise([e for e, _ in evs], sweep)
        done = []
        for ev, (_e, si) in zip(concrete, evs):
            if ev['op'] == 'write' and ev['crash']:
                _resolve_k(world, ev, nsweeps)
            before = len(world.log)
            world.execute([ev])
            done.append(ev)
            st = beh[si]
            last = world.log[-1] if len(world.log) > before else None
            problems = []
            obs_files = world.files()
            if obs_files != _state_files(st, ntasks):
                problems.append('Files')
            if last is not None and last['op'] == 'read':
                exp = st['lastRead']
                exp_env = sorted((e['t'], e['status'], e['ver']) for e in exp['env'])
                got_env = sorted((e['t'], e['status'], e['ver']) for e in last['env'])
                if last['raised'] != bool(exp['raised']) or got_env != exp_env:
                    problems.append('lastRead')
            if last is not None and last['op'] == 'readone':
                exp = st['lastOne']
                got = (last['raised'], last['present'], last['status'], last['ver'])
                if got != (bool(exp['raised']), bool(exp['present']), exp['status'], exp['ver']):
                    problems.append('lastOne')
            if problems:
                lastev = dict(last) if last is not None else dict(op=ev['op'])
                lastev['files'] = obs_files
                if problems == ['Files']:
                    # a file is not what the specification says.  Only "a task without output directory was
                    # written" is a clause of the property; anything else is a deviation from the model of the
                    # files (the reads, which the property is about, are judged on their own)
                    spec_files = _state_files(st, ntasks)
                    nodir = [t for t in range(1, ntasks + 1) if obs_files[t - 1][0] != 'absent' and spec_files[t - 1][0] == 'absent']
                    if not nodir:
                        ctx.drift('files after %s are %s, Persist.tla says %s' % (ev, obs_files, spec_files))
                        break
                    lastev = dict(op='nodir-written', files=obs_files)
                what = ('after %s the real world differs from the TLC state in %s: observed %s; Persist.tla: files=%s lastRead=%s lastOne=%s'
                        % (ev['op'], problems, {k: lastev.get(k) for k in ('raised', 'exc', 'env', 'present', 'status', 'ver', 'files')},
                           _state_files(st, ntasks), dict(st['lastRead']), dict(st['lastOne'])))
                ctx.violation(vkey(lastev, problems), what, dict(ntasks=ntasks, seed=seed, events=done), module='conf_persist')
                break
        runs += 1
        kinds = tuple(sorted(set(f[0] for ev in world.log if ev['op'] in ('read', 'readone') for f in ev['files'])))
        if has_read and any(k in kinds for k in ('empty', 'partial', 'garbage', 'dir', 'unreadable')):
            ctx.distinct(('beh', tuple(json.dumps(e, sort_keys=True) for e in concrete)))
        shutil.rmtree(world.root, ignore_errors=True)
    return runs, len(evs)


# ---------------------------------------------------------------------------------------------
# code -> spec drivers

def scan_every_byte(seed, ntasks, n_payloads, statuses):
    """For n_payloads entries: a crash after every possible number of bytes of the file, then
    read_env and Env.from_file.  One world (= one trace) per payload."""
    worlds = []
    for p in range(n_payloads):
        world = World(ntasks, seed * 1000 + p)
        rng = random.Random('scan/%d/%d' % (seed, p))
        t = rng.randint(1, ntasks)
        status = statuses[p % len(statuses)]
        other = 1 + (t % ntasks)
        # a second, intact DONE task: reading must still return it when t's file is damaged
        world.execute([dict(op='run', t=other, status='DONE', dir=True), dict(op='write', order=[other], crash=None),
                       dict(op='exit'), dict(op='run', t=t, status=status, dir=True, pid=p)])
        length = len(world._refbytes(world.mem[t][0]))
        world.execute([dict(op='exit')])
        for k in range(0, length):
            world.execute([dict(op='run', t=t, status=status, dir=True, pid=p),
                           dict(op='write', order=[t], crash=dict(at=0, k=k)),
                           dict(op='read'), dict(op='exit'), dict(op='readone', t=t)])
        world.scan = (t, status, length)
        worlds.append(world)
    return worlds


def random_history(seed, idx, ntasks, length):
    rng = random.Random('hist/%d/%d' % (seed, idx))
    world = World(ntasks, seed * 100003 + idx)

    def do(ev):
        world.execute([ev])

    for _ in range(length):
        fresh = not world.mem
        r = rng.random()
        if fresh and r < 0.30:
            do(dict(op='read'))
        elif fresh and r < 0.40:
            do(dict(op='readone', t=rng.randint(1, ntasks)))
        elif fresh and r < 0.55:
            do(dict(op='fault', t=rng.randint(1, ntasks), kind=rng.choice(FAULT_KINDS), which=rng.randint(0, 99)))
        elif r < 0.80 or fresh:
            do(dict(op='run', t=rng.randint(1, ntasks), status=rng.choice(ALL_STATUSES + ['DONE', 'DONE']),
                    dir=rng.random() < 0.8))
        else:
            order = list(world.mem)
            rng.shuffle(order)
            crash = None
            if rng.random() < 0.6:
                j = rng.randrange(len(order))
                mode = rng.random()
                if mode < 0.2:
                    k = None
                elif mode < 0.35:
                    k = 0
                else:
                    ver = world.mem[order[j]][0]
                    k = rng.randint(1, max(1, len(world._refbytes(ver)) - 1)) if world.entries[ver][2] else None
                crash = dict(at=j, k=k)
            do(dict(op='write', order=order, crash=crash))
            if crash is None and rng.random() < 0.7:
                do(dict(op='exit'))
        last = world.log[-1] if world.log else dict(op='none')
        if last['op'] == 'read' and (last['raised'] or any(e['ver'] <= 0 for e in last['env'])):
            break       # the process that read this is gone / holds something we cannot name
    return world


# ---------------------------------------------------------------------------------------------

def run_c14(ctx):
    import time
    t0 = time.time()
    dbg = (lambda m: print('  [c14 %.1fs] %s' % (time.time() - t0, m))) if os.environ.get('VERIF_DEBUG') else (lambda m: None)
    ctx.rule('spec->code: behaviours simulated by TLC from Persist.tla (run / write_env entry by entry / crash between any two '
             'steps / exit / file faults / read_env / Env.from_file) are executed on the real write_env, read_env, Env.to_file, '
             'Env.from_file in a scratch directory (crash = the process dies after k bytes reached the file, k swept over byte '
             'lengths) and files, lastRead and lastOne are compared with the TLC state after every segment. code->spec: for '
             'random payloads EVERY byte length of the written file is produced by a crash and read back, and seeded random long '
             'histories (5 tasks, five statuses, re-writes, faults) are executed; TLC validates all logs against PersistTrace.tla. '
             'distinct_nontrivial counts distinct (history, byte length) executions in which a read met at least one empty, '
             'truncated, garbage, directory or unopenable file.')
    ctx.assume('a crash leaves a prefix of the bytes pickle.dump produced (open(..., "wb") truncates, bytes are written in order)')
    ctx.assume('output_dir of task t is <root>/<t> (as RunTask sets it) and exists; distinct tasks have distinct directories')
    ctx.assume('garbage = curated families of non-pickles (text, zero/0xff blocks, foreign magic numbers, invalid first opcode, '
               'unknown globals); byte strings pickle.loads accepts are dropped (DESIGN 8.1); mutated real pickles are not used '
               'because they can crash the interpreter; "unreadable" is a symbolic link loop (checks run as root)')
    seed = ctx.seed
    wd = tlc.workdir('c14')

    # 1. exhaustive check of the specification + witnesses
    cfgs = [('2tasks', _consts(2, ['DONE', 'FAILED'], 3, 1, 3))]
    if not ctx.quick:
        cfgs.append(('3tasks', _consts(3, ['DONE', 'FAILED'], 3, 1, 2, ['empty', 'garbage', 'dir'])))
    for name, consts in cfgs:
        cfg = tlc.write_cfg(os.path.join(wd, name + '.cfg'), constants=consts, invariants=INVS, deadlock=False)
        res = tlc.run(SPEC, cfg, timeout=1500)
        ctx.tlc(res, 'Persist/' + name)
        if not res.ok:
            raise tlc.MachineryError('Persist.tla %s: %s' % (name, res.violation))
        tlc.check_coverage(res, ACTIONS, 'Persist/' + name)
    # the counterexample of each witness is an interesting behaviour: replay them too
    def _witness(wname):
        c1 = tlc.write_cfg(os.path.join(wd, 'w_%s.cfg' % wname), constants=_consts(2, ['DONE', 'FAILED'], 3, 1, 3),
                           invariants=[wname], deadlock=False)
        r1 = tlc.run(SPEC, c1, coverage=False, workers=2)
        if r1.violation != ('invariant', wname):
            raise tlc.MachineryError('witness %s not reachable in Persist.tla: %s' % (wname, r1.violation))
        return [st for _lab, st in r1.trace]

    from concurrent.futures import ThreadPoolExecutor
    with ThreadPoolExecutor(max_workers=8) as pool:
        witness_behs = list(pool.map(_witness, WITNESSES))
    dbg('model checked')
    # 2. spec -> code
    sim_cfg = tlc.write_cfg(os.path.join(wd, 'sim.cfg'), constants=_consts(3, ['DONE', 'FAILED', 'SKIPPED'], 6, 2, 5),
                            invariants=INVS, deadlock=False)
    nsim = ctx.pick(150, 1500)
    prefix = os.path.join(wd, 'sim', 'b')
    os.makedirs(os.path.dirname(prefix))
    res = tlc.run(SPEC, sim_cfg, simulate=dict(num=nsim, file=prefix), depth=ctx.pick(30, 40), seed=seed + 1, workers=1,
                  coverage=False, timeout=1500)
    ctx.tlc(res, 'Persist/simulate')
    if res.violation:
        raise tlc.MachineryError('Persist.tla simulation: %s' % (res.violation,))
    behs = [[st for _lab, st in b] for b in tlc.read_sim_files(prefix)]
    if len(behs) < nsim // 2:
        raise tlc.MachineryError('only %d simulated behaviours read back' % len(behs))
    sweeps = ctx.pick(6, 24)
    runs = steps = 0
    for bi, beh in enumerate(witness_behs + behs):
        nt = 2 if bi < len(witness_behs) else 3
        r, s = replay_behaviour(ctx, beh, nt, seed + bi, sweeps)
        runs += r
        steps += r * s
    ctx.count(evaluations=steps, traces=runs)
    ctx.sample(dict(source='TLC simulation', events=[e for e, _ in behaviour_to_events(behs[0])][:12]))

    dbg('behaviours replayed')
    # 3. code -> spec
    n_payloads = ctx.pick(36, 400)
    worlds = scan_every_byte(seed, 2, n_payloads, ['DONE', 'DONE', 'FAILED', 'DONE', 'SKIPPED'])
    nbytes = sum(w.scan[2] for w in worlds)
    dbg('scan executed')
    logs = [(i + 1, w.log) for i, w in enumerate(worlds)]
    verdict, nev = validate_logs(logs, 2, wd, ctx, 'PersistTrace/every-byte')
    dbg('scan validated')
    _digest(ctx, verdict, worlds, 2)
    ctx.count(evaluations=sum(w.n_reads for w in worlds), traces=len(worlds))
    for w in worlds:
        for k in range(w.scan[2]):
            ctx.distinct(('scan', w.seed, k))
        shutil.rmtree(w.root, ignore_errors=True)
    ctx.sample(dict(source='every-byte scan', payloads=n_payloads, truncated_files_read=nbytes, events_validated_by_TLC=nev,
                    first_log=worlds[0].log[:8]))

    nhist = ctx.pick(300, 4000)
    hworlds = [random_history(seed, i, 5, ctx.pick(40, 60)) for i in range(nhist)]
    dbg('histories executed')
    logs = [(i + 1, w.log) for i, w in enumerate(hworlds)]
    verdict, nev2 = validate_logs(logs, 5, wd, ctx, 'PersistTrace/random-histories')
    _digest(ctx, verdict, hworlds, 5)
    ctx.count(evaluations=sum(w.n_reads for w in hworlds), traces=len(hworlds))
    for i, w in enumerate(hworlds):
        for ev in w.log:
            if ev['op'] in ('read', 'readone') and any(f[0] in ('empty', 'partial', 'garbage', 'dir', 'unreadable') for f in ev['files']):
                ctx.distinct(('hist', i, len(w.log)))
                break
        shutil.rmtree(w.root, ignore_errors=True)
    ctx.sample(dict(source='random history', events=hworlds[0].abstract[:10]))
    dbg('histories validated')
    ctx.cov['exhaustive'] = True
    ctx.cov['explanation'] = ('Persist.tla exhaustively model-checked for the configurations in tlc_runs; %d simulated + %d witness '
                              'behaviours replayed with %d byte-length choices each; every one of %d byte lengths of %d entries read back; '
                              '%d random histories; %d logged events judged by TLC' % (
                                  len(behs), len(witness_behs), sweeps, nbytes, n_payloads, nhist, nev + nev2))
    # extra module: `valjean run` from the job file to the files on disk (Pipeline.tla, observations only, see conf_pipeline.py)
    import conf_pipeline
    conf_pipeline.run(ctx, tlc.workdir('c14pipeline'))


def _digest(ctx, verdict, worlds, ntasks):
    derailed = {}
    for (tid, step), clauses in sorted(verdict.items()):
        if 'NotEnabled' in clauses and tid not in derailed:
            derailed[tid] = step
    for (tid, step), clauses in sorted(verdict.items()):
        world = worlds[tid - 1]
        ev = world.log[step - 1]
        if tid in derailed and step >= derailed[tid]:
            if step == derailed[tid]:
                # from here on the log is no behaviour of the model of the files: nothing can be said
                ctx.drift('trace %d leaves Persist.tla at step %d (%s); the rest of it is not judged' % (tid, step, ev))
            continue
        events = world.abstract[:world.origin[step - 1] + 1]
        if clauses == ['Files']:
            ctx.drift('trace %d step %d (%s): files are %s, not what Persist.tla implies' % (tid, step, ev['op'], ev['files']))
            continue
        _report(ctx, ev, [c for c in clauses if c != 'Files'], events, ntasks, world.seed)
    if len(derailed) > max(3, len(worlds) // 10):
        raise tlc.MachineryError('%d of %d logs are no behaviours of Persist.tla' % (len(derailed), len(worlds)))
