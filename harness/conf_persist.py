"""C14 -- persisted environments survive crashes: binding of specs/Persist.tla to
valjean.cambronne.common.write_env / read_env, valjean.cosette.env.Env.to_file / from_file and the write -> read
cycle of valjean.cambronne.commands.run.RunCommand.execute.

One executor (`World.execute`) performs abstract histories on the REAL code in a scratch directory:

    run(t, status, dir)      a new entry (random picklable payload) in the in-memory environment
    write(order, crash)      write_env on a real Env whose keys are in `order`; a crash is injected when the file of a
                             task is about to be opened or after exactly k bytes of it were written.  The file is
                             recognised BY ITS PATH (anything opened for writing inside the output directory of the
                             task: the file itself or a temporary file next to it), whatever flavour of open() is used
                             (builtins.open, io.open, pathlib, os.fdopen, tempfile, os.open + os.write are wrapped
                             while write_env runs); the process dies with a BaseException.  A crash point that is never
                             reached is no crash.
    exit                     the process ends, the in-memory environment is lost
    fault(t, kind)           the file is removed / emptied / cut short / replaced by garbage, a directory or made
                             unreadable THROUGH ITS PATH (`which` selects the way): a symbolic link to itself, the task
                             directory replaced by a regular file or missing, file / directory without permissions (only
                             when the harness does not run as root), or -- portably, the checks usually run as root --
                             every stat / access / open of the path of the file failing with OSError(errno) for errno in
                             SIM_ERRNOS while code of valjean runs (_Unreadable).  `absent` is a removed file or a
                             dangling symbolic link.  All of these are the class `unreadable` / `absent` of Persist.tla.
    longname(t, how)         task t (no history yet) gets a name longer than NAME_MAX / that makes the path longer than
                             PATH_MAX (names are generated from parameter lists): its file can never exist nor be
                             written, it is `unreadable` for the whole history
    read / readone(t)        read_env over all tasks / Env.from_file on one file
    session(tasks, ...)      one session of `valjean run`: RunCommand().execute(args, config) on a job file that builds
                             probe tasks (hard / soft dependencies; succeed, fail, raise; with or without output
                             directory).  Logged as read (what read_env returns at the start of the session), one run
                             per entry of the final in-memory environment that differs from what was read (the task ran,
                             or its status was changed without it running), the write_env segment, exit.

and logs one event per Persist action with the observed classification of every file and the observed outcome of the
reads.  A file is classified by its meaning and by what the harness itself saw, never by comparing it with a
serialization made at another time (two writes of one entry need not be byte-identical, a re-read mapping need not keep
the order of its keys): full = it unpickles to exactly {task: an entry (deep-)equal to one that was created for the
task}; partial = a proper prefix of the bytes that went through the wrapped open during the write that died on this very
file (or of the complete file the harness cut short); garbage = what the harness put there / anything else.
Persist.tla is a relation: the order of the entries, writing in place or through a temporary file, skipping or
replacing an unopenable destination are left open and resolved by what was observed; what the statement demands is
not: when write_env returns, every entry with an output directory counts as written.

spec -> code : behaviours simulated by TLC from Persist.tla (for the way of writing the implementation is observed to
               use) are translated to such histories (the abstract `partial` is swept over byte lengths) and the
               projection of the real world is compared with the TLC state after every segment (files, lastRead,
               lastOne) as long as the implementation makes the choices TLC made.
code -> spec : for a set of payloads EVERY byte length of the serialized entry is left behind (by a crash, or by cutting
               the file when the implementation never leaves a partial file) and read back; seeded random long
               histories (5 tasks, all statuses, faults, re-writes); histories of sessions of RunCommand.execute (every
               3-task graph x damaged file x failing task, random graphs); all logs are validated by TLC against
               PersistTrace.tla, which evaluates the clauses of the property on the observed reads.
"""
import json
import os
import pickle
import random
import shutil
import threading

import numpy as np

import tlc
from tlc import Raw
from tlaval import MV

SPEC = os.path.join(tlc.SPECS, 'Persist.tla')
TRACE = os.path.join(tlc.SPECS, 'PersistTrace.tla')
INVS = ['C14_NoRaise', 'C14_Exact', 'C14_NeverNotDone', 'C14_Complete', 'C14_NoPartial', 'C14_One',
        'C14_NoDirNeverWritten', 'HistoryOK', 'TypeOK']
WITNESSES = ['W_ReadPartial', 'W_ReadEmpty', 'W_ReadMixed', 'W_LostOlder', 'W_NotDoneFull', 'W_Rewritten',
             'W_BlockedWrite', 'W_Skip', 'W_BeginKeep', 'W_KeepOverBlocked']
ACTIONS = ['Run', 'StartWriteAny', 'Skip', 'BeginWrite', 'WriteChunk', 'EndWrite', 'Crash', 'Fault', 'ReadAll', 'ReadOne']
ALL_STATUSES = ['WAITING', 'PENDING', 'DONE', 'FAILED', 'SKIPPED']
FAULT_KINDS = ['absent', 'empty', 'garbage', 'dir', 'unreadable']
FAULT_KINDS_ALL = FAULT_KINDS + ['partial']      # 'partial': a complete file cut short (histories executed on the code only)
MODES = ['inplace', 'keep']                      # how one file may be written (Persist.tla allows both, file by file)
SESSION_TIMEOUT = 30
# ways in which the path of a file can be unusable: errno classes simulated for the paths of chosen files ...
SIM_ERRNOS = ['EACCES', 'EPERM', 'ENAMETOOLONG', 'EIO', 'ESTALE', 'EMFILE']
# ... and real conditions of the file system (the last two only mean something when the process is not root)
UNREADABLE_HOW = ['link-loop', 'task-dir-is-a-file', 'no-task-dir'] + ['errno-' + e for e in SIM_ERRNOS]
UNREADABLE_HOW_NOT_ROOT = ['mode-000', 'dir-mode-000']
ABSENT_HOW = ['removed', 'dangling-link', 'removed']
LONG_NAMES = ['name-max', 'path-max']
WIDTH = 5                                        # tasks of the worlds whose logs are validated together
FILENAME = 'valjean.env'
VER0 = 10 ** 6      # entries carry VER0 + version: the serialized length does not depend on the version


def fast_workdir(prefix):
    """Scratch directory on tmpfs when there is one (truncating a file costs 3 ms on the disk of this
    machine, 10 us on /dev/shm); registered with tlc for removal like tlc.workdir()."""
    import tempfile
    if os.path.isdir('/dev/shm') and os.access('/dev/shm', os.W_OK):
        d = tempfile.mkdtemp(prefix='verif-%s-' % prefix, dir='/dev/shm')
        tlc._WORK.append(d)      # pylint: disable=protected-access
        return d
    return tlc.workdir(prefix)


class _Crash(BaseException):
    """The process dies here (not an Exception: nothing in valjean may catch it)."""


# ---------------------------------------------------------------------------------------------
# payloads

def gen_payload(rng, depth=0):
    """A random picklable payload: nested dicts / lists / tuples, numpy arrays, TaskStatus members,
    non-ASCII strings, bytes, numbers."""
    from valjean.cosette.task import TaskStatus
    kinds = ['int', 'float', 'str', 'ustr', 'bytes', 'none', 'bool', 'status', 'array', 'npscalar']
    if depth < 3:
        kinds += ['list', 'dict', 'tuple', 'dict', 'list']
    kind = rng.choice(kinds)
    if kind == 'int':
        return rng.choice([0, 1, -1, 255, 256, 2 ** 31, -2 ** 63, 10 ** 30, rng.randint(-10 ** 6, 10 ** 6)])
    if kind == 'float':
        return rng.choice([0.0, -0.0, 1.5, 1e300, -2.5e-300, float('inf'), rng.random()])
    if kind == 'str':
        return ''.join(rng.choice('abcxyz _-/.0123') for _ in range(rng.randint(0, 12)))
    if kind == 'ustr':
        return ''.join(rng.choice(u'éàüñαβ中文\U0001f600 a') for _ in range(rng.randint(1, 8)))
    if kind == 'bytes':
        return bytes(rng.randrange(256) for _ in range(rng.randint(0, 10)))
    if kind == 'none':
        return None
    if kind == 'bool':
        return rng.random() < 0.5
    if kind == 'status':
        return rng.choice(list(TaskStatus))
    if kind == 'array':
        dtype = rng.choice(['float64', 'int32', 'bool', 'complex128', 'float32', '<U3'])
        shape = tuple(rng.randint(0, 3) for _ in range(rng.randint(1, 3)))
        n = int(np.prod(shape))
        if dtype == '<U3':
            return np.array([rng.choice(['a', u'éé', 'xyz']) for _ in range(n)], dtype=dtype).reshape(shape)
        return (np.arange(n) * rng.randint(1, 5) - rng.randint(0, 4)).astype(dtype).reshape(shape)
    if kind == 'npscalar':
        return rng.choice([np.float64(1.25), np.int64(-7), np.bool_(True), np.float32(0.5)])
    size = rng.randint(0, 3)
    if kind == 'list':
        return [gen_payload(rng, depth + 1) for _ in range(size)]
    if kind == 'tuple':
        return tuple(gen_payload(rng, depth + 1) for _ in range(size))
    return {rng.choice(['result', 'k', u'clé', 'x%d' % rng.randint(0, 9)]): gen_payload(rng, depth + 1) for _ in range(size)}


def deep_eq(a, b):
    """Equality of payloads: same types, equal values.  Mappings are equal when they map equal keys to equal values:
    the ORDER of the keys is no part of an entry (nor is it of a set)."""
    if type(a) is not type(b):
        return False
    if isinstance(a, np.ndarray):
        return a.dtype == b.dtype and a.shape == b.shape and bool(np.array_equal(a, b))
    if isinstance(a, dict):
        if len(a) != len(b):
            return False
        keys_b = {k: k for k in b}
        return all(k in keys_b and deep_eq(k, keys_b[k]) and deep_eq(v, b[k]) for k, v in a.items())
    if isinstance(a, (list, tuple)):
        return len(a) == len(b) and all(deep_eq(x, y) for x, y in zip(a, b))
    if isinstance(a, float):
        return a == b and str(a) == str(b)
    return bool(a == b)


def _invalid_first_bytes():
    import pickletools
    ops = {ord(o.code) for o in pickletools.opcodes}
    return [b for b in range(256) if b not in ops]


_GARBAGE = {}


def garbage_samples(seed):
    if seed not in _GARBAGE:
        _GARBAGE[seed] = _garbage_samples(seed)
    return _GARBAGE[seed]


def _garbage_samples(seed):
    """Byte strings that are no pickle.  Curated families only: random mutation of real pickles
    can make the unpickler allocate gigabytes or crash the interpreter (numpy reconstruction),
    which would kill the harness, not falsify anything.  Everything pickle.loads accepts is dropped
    (DESIGN 8.1)."""
    rng = random.Random(seed * 7919 + 13)
    cands = [b'{"status": "DONE"}\n', b'# valjean environment\n', b'\n', b' ', b'status: DONE\n', b'DONE', b'None\n',
             b'N', b'I12\n', b'Iabc\n.', b'(lp0\n', b'}', b'\x80\x04N', b'\x80\x7f.', b'\x00' * 64, b'\xff' * 64,
             b'\x1f\x8b\x08\x00\x00\x00\x00\x00', b'\x89HDF\r\n\x1a\n', b'\x93NUMPY\x01\x00', b'<html></html>',
             b'[env]\nstatus = DONE\n', b'cnosuchmodule_xyz_verif\nfoo\n.', b'cos\nnosuchattr_verif\n.', b'h\x00.', b'0.', b'a.', b's.',
             b'S\'abc\n.', b'V\\ud800\n', b'Fnotafloat\n.', u'résultat'.encode('utf-8'), b'\x80\x05\x95']
    inval = _invalid_first_bytes()
    for _ in range(40):
        n = rng.randint(1, 64)
        cands.append(bytes([rng.choice(inval)]) + bytes(rng.randrange(256) for _ in range(n - 1)))
    out = []
    for g in cands:
        try:
            pickle.loads(g)
        except Exception:  # pylint: disable=broad-except
            out.append(g)
    return out


# ---------------------------------------------------------------------------------------------
# the real world

BLOCKED = ('dir', 'unreadable')
PARTIAL = ['partial', 'WAITING', 0]


def _as_bytes(data, fobj=None):
    """What a write call hands over, as bytes (text is encoded the way the file would)."""
    try:
        if isinstance(data, str):
            return data.encode(getattr(fobj, 'encoding', None) or 'utf-8', 'surrogateescape')
        return bytes(data)
    except Exception:  # pylint: disable=broad-except
        return b''


class _DyingFile:
    """Stands for the file object that some flavour of open() returned: lets `budget` bytes (characters) through, then
    the process dies.  What reached the file stays there.  Everything the implementation hands over -- the call during
    which the process dies included -- is recorded in rec['data']: these are the bytes the harness SAW being written."""

    def __init__(self, real, budget, hooks, rec):
        self.__dict__.update(_real=real, _budget=budget, _hooks=hooks, _rec=rec)

    def write(self, data):
        n = len(data)
        self._rec['data'].append(_as_bytes(data, self._real))
        if self._budget is None or n <= self._budget:
            if self._budget is not None:
                self.__dict__['_budget'] = self._budget - n
            self._rec['written'] += n
            return self._real.write(data)
        k = self._budget
        if k:
            self._real.write(data[:k])
        self._rec['written'] += k
        self.__dict__['_budget'] = 0
        try:
            self._real.flush()
        except Exception:  # pylint: disable=broad-except
            pass
        self._hooks.crashed = self._rec['t']
        self._hooks.died = True
        raise _Crash()

    def writelines(self, lines):
        for line in lines:
            self.write(line)

    def __getattr__(self, name):
        return getattr(self._real, name)

    def __setattr__(self, name, value):
        setattr(self._real, name, value)

    def __iter__(self):
        return iter(self._real)

    def __enter__(self):
        self._real.__enter__()
        return self

    def __exit__(self, *exc):
        return self._real.__exit__(*exc)


class _OpenHooks:
    """While active, `builtins.open` and `io.open` -- hence pathlib.Path.open, os.fdopen, tempfile.* and every module
    that has no `open` of its own -- are replaced by a pass-through that
      * recognises, BY ITS PATH, a file that is opened for writing inside the output directory of a task (the
        environment file itself or a temporary file next to it);
      * lets the process die when the file of a target task is about to be opened (k None), or hands out a file
        object that dies after k bytes (k >= 0) -- once;
      * records which tasks' directories were written to, in which order, and whether the destination itself
        was opened.
    Nothing depends on how valjean spells the opening of the file, nor on the order of the files."""

    def __init__(self, world, targets=(), k=None):
        self.world = world
        self.targets = set(targets or ())
        self.k = k
        self.armed = bool(self.targets)
        self.recs = []
        self.fds = {}            # descriptors obtained from os.open for writing in the directory of a task
        self.crashed = None      # task whose open / write killed the process
        self.died = False
        self.saved = None

    def __enter__(self):
        import builtins
        import io
        self.saved = (builtins.open, io.open, os.open, os.write)
        builtins.open = io.open = self._open
        os.open, os.write = self._os_open, self._os_write
        return self

    def __exit__(self, *exc):
        import builtins
        import io
        builtins.open, io.open, os.open, os.write = self.saved
        for rec in self.recs:
            f = rec.pop('file', None)
            if f is not None:
                try:
                    f.close()
                except Exception:  # pylint: disable=broad-except
                    pass
        return False

    def _os_open(self, path, flags, *args, **kwargs):
        """os.open for writing: the descriptor is remembered (os.write on it may be where the process dies)."""
        real = self.saved[2]
        if not isinstance(flags, int) or not flags & (os.O_WRONLY | os.O_RDWR):
            return real(path, flags, *args, **kwargs)
        t, rpath = self.world.task_of(path) if kwargs.get('dir_fd') is None else (None, None)
        if t is not None and self.armed and t in self.targets and self.k is None:
            self.armed = False
            self.crashed = t
            self.died = True
            raise _Crash()
        try:
            fd = real(path, flags, *args, **kwargs)
        except OSError as ex:
            if t is not None:
                self.recs.append(dict(t=t, dest=(rpath == self.world.path(t)), err=type(ex).__name__, written=0))
            raise
        if t is None:
            t, rpath = self.world.task_of(fd)
        if t is not None:
            rec = dict(t=t, dest=(rpath == self.world.path(t)), err=None, written=0, data=[])
            self.recs.append(rec)
            self.fds[fd] = rec
        return fd

    def _os_write(self, fd, data):
        real = self.saved[3]
        rec = self.fds.get(fd)
        if rec is None or not self.armed or rec['t'] not in self.targets or self.k is None:
            return real(fd, data)
        if self.world.task_of(fd)[0] != rec['t']:
            return real(fd, data)            # the descriptor number was re-used for something else
        rec['data'].append(_as_bytes(data))
        if len(data) <= self.k:
            self.k -= len(data)
            rec['written'] += len(data)
            return real(fd, data)
        if self.k:
            real(fd, bytes(data[:self.k]))
        rec['written'] += self.k
        self.armed = False
        self.crashed = rec['t']
        self.died = True
        raise _Crash()

    def _open(self, file, mode='r', *args, **kwargs):
        real = self.saved[0]
        if not isinstance(mode, str) or not any(c in mode for c in 'wax+'):
            return real(file, mode, *args, **kwargs)
        t, path = self.world.task_of(file)
        if t is not None and self.armed and t in self.targets and self.k is None:
            self.armed = False
            self.crashed = t
            self.died = True
            raise _Crash()
        try:
            fobj = real(file, mode, *args, **kwargs)
        except OSError as ex:
            if t is not None:
                self.recs.append(dict(t=t, dest=(path == self.world.path(t)), err=type(ex).__name__, written=0))
            raise
        try:
            t2, path2 = self.world.task_of(fobj.fileno())      # where the file really is (openers, descriptors, links)
            if t2 is not None:
                t, path = t2, path2
        except Exception:  # pylint: disable=broad-except
            pass
        if t is None:
            return fobj
        rec = dict(t=t, dest=(path == self.world.path(t)), err=None, written=0, data=[])
        self.recs.append(rec)
        if self.armed and t in self.targets and self.k is not None:
            self.armed = False
            rec['file'] = fobj
            return _DyingFile(fobj, self.k, self, rec)
        return fobj


class _MemCap:
    """While active, the address space of this process may grow by at most 4 GB (RLIMIT_AS, soft limit, restored on exit).
    A file that is not a complete pickle can still be a *program* for the unpickler: a memo index of 2**32 makes the C
    unpickler allocate and clear tens of gigabytes (seen with a file that is half a new serialization and half an older
    one: the harness process grew to 31 GB and was killed by the kernel).  With the cap the allocation fails with
    MemoryError, which is how a machine with less memory would see it; what valjean does with that exception is judged
    like any other reaction to a damaged file.  Re-entrant; TLC is started through `sh -c 'ulimit -v unlimited'`
    (tlc.py) and is not affected."""
    _lock = threading.RLock()
    _depth = 0
    _old = None

    def __enter__(self):
        import resource
        cls = _MemCap
        with cls._lock:
            if cls._depth == 0:
                try:
                    with open('/proc/self/statm', encoding='ascii') as f:
                        vm = int(f.read().split()[0]) * resource.getpagesize()
                    cls._old = resource.getrlimit(resource.RLIMIT_AS)
                    cap = vm + (4 << 30)
                    if cls._old[0] == resource.RLIM_INFINITY or cap < cls._old[0]:
                        hard = cls._old[1]
                        resource.setrlimit(resource.RLIMIT_AS, (cap if hard == resource.RLIM_INFINITY else min(cap, hard), hard))
                    else:
                        cls._old = None
                except (OSError, ValueError):
                    cls._old = None
            cls._depth += 1
        return self

    def __exit__(self, *exc):
        import resource
        cls = _MemCap
        with cls._lock:
            cls._depth -= 1
            if cls._depth == 0 and cls._old is not None:
                try:
                    resource.setrlimit(resource.RLIMIT_AS, cls._old)
                except (OSError, ValueError):
                    pass
                cls._old = None
        return False


class _Unreadable:
    """While active (only while code of valjean runs: a read, a write, a session), every attempt to look at or to open
    the environment file of a chosen task BY ITS PATH fails the way the operating system makes it fail when the file
    cannot be reached: os.stat / os.lstat / os.open / builtins.open / io.open (hence pathlib.Path.stat / exists / open,
    os.path.exists ...) raise OSError(errno, strerror, path), os.access answers False.  Which flavour the implementation
    uses does not matter.  The path is recognised by the name of the file (the one the harness passes as `filename`)
    and the real path of its directory.  Nothing else is touched."""

    def __init__(self, world):
        import errno
        self.paths = {world.path(t): getattr(errno, e) for t, e in world.sim.items()}
        self.cache = {}
        self.saved = None

    def _errno(self, file, kwargs):
        if kwargs.get('dir_fd') is not None or isinstance(file, int):
            return None, None
        try:
            path = os.fsdecode(os.fspath(file))
        except Exception:  # pylint: disable=broad-except
            return None, None
        if path in self.cache:
            return self.cache[path], path
        eno = None
        if os.path.basename(path) == FILENAME:
            try:
                full = os.path.join(os.path.realpath(os.path.dirname(os.path.abspath(path))), FILENAME)
                eno = self.paths.get(full)
            except Exception:  # pylint: disable=broad-except
                eno = None
        self.cache[path] = eno
        return eno, path

    def _wrap(self, real, fails=True):
        def wrapper(file, *args, **kwargs):
            eno, path = self._errno(file, kwargs)
            if eno is None:
                return real(file, *args, **kwargs)
            if not fails:
                return False
            raise OSError(eno, os.strerror(eno), path)
        return wrapper

    def __enter__(self):
        self._cap = _MemCap().__enter__()
        if self.paths:
            import builtins
            import io
            self.saved = (builtins.open, io.open, os.open, os.stat, os.lstat, os.access)
            builtins.open = io.open = self._wrap(self.saved[0])
            os.open = self._wrap(self.saved[2])
            os.stat = self._wrap(self.saved[3])
            os.lstat = self._wrap(self.saved[4])
            os.access = self._wrap(self.saved[5], fails=False)
        return self

    def __exit__(self, *exc):
        if self.saved is not None:
            import builtins
            import io
            builtins.open, io.open, os.open, os.stat, os.lstat, os.access = self.saved
            self.saved = None
        self._cap.__exit__(None, None, None)
        return False


def how_class(kind, how):
    """The part of a finding key that names the damaged file: its class in Persist.tla and, for the ways of being
    absent / unreadable added to the symbolic link loop, the way (grouped: one key per errno class)."""
    if kind == 'unreadable' and how in LONG_NAMES:
        return 'unreadable:name-too-long'
    if kind == 'unreadable' and how in ('task-dir-is-a-file', 'no-task-dir'):
        return 'unreadable:task-dir'
    if kind == 'unreadable' and how in UNREADABLE_HOW_NOT_ROOT:
        return 'unreadable:permissions'
    if kind == 'unreadable' and how.startswith('errno-'):
        return 'unreadable:' + how
    if kind == 'absent' and how == 'dangling-link':
        return 'absent:dangling-link'
    return kind


_JOB_SRC = '''"""Job file of the C14 harness: probe tasks described by a JSON file (written by conf_persist.World.session)."""
import json
import os
import pickle

from valjean.cosette.task import Task, TaskStatus


class Probe(Task):
    """Ends as its `beh` says; its result is a payload prepared by the harness."""

    def __init__(self, name, spec, **kwargs):
        super().__init__(name, **kwargs)
        self.spec = spec

    def do(self, env, config):
        spec = self.spec
        if spec['beh'] == 'raise':
            raise RuntimeError('probe task fails by raising')
        with open(spec['payload'], 'rb') as inp:
            res = pickle.load(inp)
        if spec['dir']:
            out = os.path.join(config.query('path', 'output-root'), self.name)
            os.makedirs(out, exist_ok=True)
            res['output_dir'] = out
        return {self.name: res}, (TaskStatus.DONE if spec['beh'] == 'ok' else TaskStatus.FAILED)


def job(specfile):
    with open(specfile, encoding='utf-8') as inp:
        spec = json.load(inp)
    tasks = {}
    for ts in spec['tasks']:
        tasks[ts['t']] = Probe(ts['name'], ts, deps=[tasks[d] for d in ts['hard']], soft_deps=[tasks[d] for d in ts['soft']])
    return [tasks[t] for t in spec['listed']]
'''
_JOBFILE = []


def job_file():
    """The job file (one per process; generic: what it builds is in the JSON file given as JOB_ARG)."""
    if not _JOBFILE:
        d = fast_workdir('c14job')
        path = os.path.join(d, 'c14job_%d.py' % os.getpid())
        with open(path, 'w', encoding='utf-8') as f:
            f.write(_JOB_SRC)
        _JOBFILE.append(path)
    return _JOBFILE[0]


class World:
    def __init__(self, ntasks, seed, root=None):
        from valjean.cosette.task import TaskStatus
        self.TaskStatus = TaskStatus
        self.ntasks = ntasks
        self.seed = seed
        self.root = os.path.realpath(root or fast_workdir('c14w'))
        self.names = ['t%d' % t for t in range(1, ntasks + 1)]
        self.dirmap = {}
        for t, n in enumerate(self.names, 1):
            os.makedirs(os.path.join(self.root, n), exist_ok=True)
            self.dirmap[os.path.join(self.root, n)] = t
        self.scratch = os.path.join(self.root, '.ref')
        self.mem = {}            # t -> (ver, entry object)
        self.entries = {}        # ver -> (t, status, dir, entry)
        self.byt = {}            # t -> [ver, ...]
        self.ref = {}            # ver -> bytes of an undisturbed Env.to_file of the entry: ONLY their number is used (to
        #                          choose crash points); no file is ever recognised by comparing it with them
        self._refobj = {}        # ver -> the object the reference was made from
        self.lastdata = {}       # t -> the bytes classify() last read from t's file
        self.before_data = {}    # t -> the bytes of t's file before the current write_env call / session
        self.known = {}          # (t, bytes) -> ver: contents already found to hold exactly {name of t: entry ver}
        self.wrote = {}          # t -> the bytes the harness SAW being written to t's file itself by a write that did
        #                          not complete (a crash: everything that went through the wrapped open, the call that
        #                          died included; a file cut short by the harness: the complete file it cut)
        self.placed = {}         # t -> the garbage the harness itself put in place of t's file
        self.sim = {}            # t -> errno name: while code of valjean runs, every stat / access / open of the path of t's
        #                          file fails with OSError(errno) (see _Unreadable)
        self.how = {}            # t -> the way t's file was last made absent / unreadable (names the finding class)
        self.stuck = {}          # t -> 'name-max' | 'path-max': the name of the task is longer than the file system accepts
        self.links = os.path.join(self.root, '.links')       # where dangling symbolic links point to
        self.loaded = False      # the running process holds what a read returned (entries that cannot be named included)
        self.nver = 1
        self.nsession = 0
        self.garbage = garbage_samples(0)
        self.log = []
        self.origin = []         # log index -> index of the abstract event that produced it
        self.abstract = []
        self.n_reads = 0
        self.unreached = 0       # planned crashes inside a file that never happened
        self.notes = []          # things worth a DRIFT line
        self.stop = False        # the history cannot be continued (a session raised, ...)
        self.kind = ''           # suffix of the finding keys ('' | 'session')

    # -- helpers -------------------------------------------------------------------------
    def name(self, t):
        return self.names[t - 1]

    def dir(self, t):
        return os.path.join(self.root, self.names[t - 1])

    def path(self, t):
        return os.path.join(self.root, self.names[t - 1], FILENAME)

    def dispose(self):
        for t in range(1, self.ntasks + 1):
            if t not in self.stuck:
                try:
                    os.chmod(self.dir(t), 0o755)
                except OSError:
                    pass
        shutil.rmtree(self.root, ignore_errors=True)

    def task_of(self, file):
        """(task, real path) for a path / descriptor inside the output directory of a task, else (None, path)."""
        try:
            if isinstance(file, int):
                path = os.readlink('/proc/self/fd/%d' % file)
            else:
                path = os.fsdecode(os.fspath(file))
                path = os.path.join(os.path.realpath(os.path.dirname(os.path.abspath(path))), os.path.basename(path))
        except Exception:  # pylint: disable=broad-except
            return None, None
        t = self.dirmap.get(os.path.dirname(path))
        if t is None:
            t = self.dirmap.get(path)         # the directory itself (tempfile with an opener)
        return t, path

    def _register(self, t, status, has_dir, entry):
        ver = self.nver
        self.nver += 1
        self.entries[ver] = (t, status, bool(has_dir), entry)
        self.byt.setdefault(t, []).append(ver)
        return ver

    def _refbytes(self, ver, entry=None):
        """How many bytes a complete file has, about: the real Env.to_file on a scratch path, undisturbed.  Only used to
        choose crash points inside the file (two writes of one entry need not produce the same bytes, an entry that came
        back from the disk need not serialize like the original: the reference is renewed from the object about to be
        written; a crash point beyond the end of the real file is a crash that never happens)."""
        if entry is not None and self._refobj.get(ver) is not entry:
            self.ref.pop(ver, None)
        if ver not in self.ref:
            from valjean.cosette.env import Env
            t, _status, _dir, entry0 = self.entries[ver]
            entry = entry0 if entry is None else entry
            self._refobj[ver] = entry
            env = Env()
            env[self.name(t)] = entry
            env.to_file(self.scratch, task_name=self.name(t), fmt='pickle')
            with open(self.scratch, 'rb') as f:
                self.ref[ver] = f.read()
            os.remove(self.scratch)
        return self.ref[ver]

    def classify(self, t):
        """[kind, status, ver] of the file of task t, from what is on the disk and what the harness saw being written."""
        import errno
        import stat
        if t in self.sim:
            return ['unreadable', 'WAITING', 0]
        p = self.path(t)
        try:
            mode = os.stat(p).st_mode
        except OSError as ex:
            # nothing there (a dangling link included) in a directory in which a file can be created: absent;
            # a path that cannot be walked (link loop, name too long, task directory missing / a file / unsearchable):
            # the file can neither be read nor written
            if ex.errno == errno.ENOENT and os.path.isdir(os.path.dirname(p)):
                return ['absent', 'WAITING', 0]
            return ['unreadable', 'WAITING', 0]
        if stat.S_ISDIR(mode):
            return ['dir', 'WAITING', 0]
        try:
            with open(p, 'rb') as f:
                data = f.read()
        except OSError:
            return ['unreadable', 'WAITING', 0]
        self.lastdata[t] = data
        if not data:
            return ['empty', 'WAITING', 0]
        ver = self.known.get((t, data))
        if ver is not None:
            return ['full', self.entries[ver][1], ver]
        if self.placed.get(t) == data:
            return ['garbage', 'WAITING', 0]
        # truncated = a proper prefix of what the harness saw being written to this very file (not of a serialization
        # made at another time: two writes of one entry need not be byte-identical)
        seen = self.wrote.get(t)
        if seen is not None and len(data) < len(seen) and seen.startswith(data):
            return list(PARTIAL)
        # complete = the file holds exactly {name: entry} for an entry that was created for t, however it is serialized
        try:
            with _MemCap():
                obj = pickle.loads(data)
            if list(obj.keys()) == [self.name(t)]:
                status, ver = self._identify(t, obj[self.name(t)])
                if ver > 0:
                    self.known[(t, data)] = ver
                    return ['full', status, ver]
        except Exception:  # pylint: disable=broad-except
            pass
        return ['garbage', 'WAITING', 0]

    def files(self):
        return [self.classify(t) for t in range(1, self.ntasks + 1)]

    def _emit(self, **ev):
        ev['files'] = self.files()
        if ev['op'] in ('read', 'readone'):
            # (for the finding keys only) the way each absent / unreadable file got that way
            ev['how'] = [self.how.get(t, '') if f[0] in ('absent', 'unreadable') else '' for t, f in enumerate(ev['files'], 1)]
        self.log.append(ev)
        return ev

    def _blame(self, ex):
        """(for the finding keys only) the task whose file an OSError names, the errno."""
        import errno
        out = {}
        if isinstance(ex, OSError):
            out['errno'] = errno.errorcode.get(ex.errno, str(ex.errno))
            try:
                fn = os.fsdecode(ex.filename)
                for t in range(1, self.ntasks + 1):
                    if fn == self.path(t) or os.path.abspath(fn) == self.path(t):
                        out['culprit'] = t
            except Exception:  # pylint: disable=broad-except
                pass
        return out

    def _identify(self, t, entry):
        """(status name, ver) of an entry that came back from the disk; ver = -1 when it is not
        (deep-)equal to any entry that was created for t."""
        try:
            status = self.TaskStatus(entry['status']).name
        except Exception:  # pylint: disable=broad-except
            return 'WAITING', -1
        cands = []
        try:
            hint = entry['ver'] - VER0
            if hint in self.entries:
                cands.append(hint)
        except Exception:  # pylint: disable=broad-except
            pass
        for v in cands + [v for v in reversed(self.byt.get(t, ())) if v not in cands]:
            tt, st, _d, ref = self.entries[v]
            try:
                if tt == t and st == status and deep_eq(entry, ref):
                    return status, v
            except Exception:  # pylint: disable=broad-except
                pass
        return status, -1

    # -- operations ----------------------------------------------------------------------
    def run(self, t, status, has_dir, pid=None):
        """pid selects the payload (default: one new payload per version)."""
        rng = random.Random('%d/%s' % (self.seed, self.nver if pid is None else 'p%d' % pid))
        entry = {'status': self.TaskStatus[status], 'ver': VER0 + self.nver, 'result': gen_payload(rng)}
        if rng.random() < 0.5:
            entry['start_clock'] = 1.5 * self.nver
            entry['end_clock'] = 1.5 * self.nver + 0.25
        if has_dir:
            entry['output_dir'] = self.dir(t)
        ver = self._register(t, status, has_dir, entry)
        self.mem[t] = (ver, entry)
        self._emit(op='run', t=t, status=status, ver=ver, dir=bool(has_dir))

    def _crash_target(self, order, crash):
        """crash: None | dict(tasks=[...], k=None|int) | dict(at=j, k=...) (position in `order`).
        k None: the process dies when the file of one of `tasks` is about to be opened for writing;
        k >= 0: it dies after k bytes of the file of tasks[0] were written."""
        if crash is None:
            return [], None
        k = crash.get('k')
        if 'tasks' in crash:
            tasks = [t for t in crash['tasks'] if t in order]
        else:
            j = crash['at']
            tasks = list(order[j:]) if k is None else [order[j]]
        if k is not None:
            tasks = tasks[:1]
            if not tasks or 'output_dir' not in self.mem[tasks[0]][1] or self.classify(tasks[0])[0] in BLOCKED:
                k = None
                if 'at' in crash:
                    tasks = list(order[crash['at']:])
            else:
                k = max(0, min(k, len(self._refbytes(self.mem[tasks[0]][0])) - 1))
        return tasks, k

    def write(self, order, crash=None):
        """write_env on a real Env with keys in `order`, observed through _OpenHooks.  Returns True when the process
        died.  A crash point that is never reached (the file is not opened in a way the hooks see, no file is
        opened any more) is no crash: write_env completes and the process ends after it."""
        from valjean.cosette import env as envmod
        from valjean.cambronne.common import write_env
        env = envmod.Env()
        for t in order:
            env[self.name(t)] = self.mem[t][1]
        for t in order:
            ver, entry = self.mem[t]
            if 'output_dir' in entry:
                self._refbytes(ver, entry)
        targets, k = self._crash_target(order, crash)
        self._emit(op='start', order=list(order))
        self.lastdata = {}
        before = {t: self.classify(t) for t in order}
        self.before_data = dict(self.lastdata)
        hooks = _OpenHooks(self, targets, k)
        raised = None
        with _Unreadable(self), hooks:
            try:
                write_env(env, filename=FILENAME, fmt='pickle')
            except _Crash:
                pass
            except Exception as ex:  # pylint: disable=broad-except
                raised = ex
        if raised is not None:
            self.notes.append(('write-raised', 'write_env raised %s: %s' % (type(raised).__name__, raised)))
        if k is not None and not hooks.died:
            self.unreached += 1
        self._segment(order, before, hooks, died=hooks.died or raised is not None, k=k, planned=crash is not None)
        return hooks.died

    def _segment(self, order, before, hooks, died, k, planned):
        """The events of one write_env call.  What the statement leaves open is taken from what was observed (order of
        the files, destination opened or not, where the process died); what it demands is not: when write_env returns,
        every entry with an output directory counts as written."""
        recs = hooks.recs if hooks is not None else []
        first = []
        for rec in recs:
            if rec['t'] in order and rec['t'] not in first:
                first.append(rec['t'])
        onplace = {t for t in first if any(r['t'] == t and r['dest'] and not r['err'] for r in recs)}
        events = []

        def mode_of(t):
            return 'inplace' if t in onplace and before[t][0] not in BLOCKED else 'keep'

        victim = hooks.crashed if died and hooks is not None else None
        if victim is not None and k is not None and mode_of(victim) == 'inplace':
            # the destination now holds what was let through of the bytes that were handed over
            mine = [r for r in recs if r['t'] == victim and r['dest'] and not r['err']]
            self.wrote[victim] = b''.join(mine[-1].get('data', ())) if mine else b''
            self.placed.pop(victim, None)
        # A write that completed defines what a complete file of that entry looks like, whatever the serialization format is
        # (the statement does not fix one: third audit, benign3-C14, a framed format with a digest): a file that changed
        # during the call, belongs to a task whose write was not the interrupted one, and is not a pickle the harness can
        # read, is taken as the complete file of that entry.  What valjean reads back from it is still compared with the
        # entry (clauses Exact / One), so a write that produces something unreadable or wrong is still reported.
        for t in order:
            if t == victim or t not in self.mem or 'output_dir' not in self.mem[t][1] or (died and t not in first):
                continue
            if self.classify(t)[0] == 'garbage' and (before[t][0] != 'garbage' or self.before_data.get(t) != self.lastdata.get(t)):
                try:
                    with open(self.path(t), 'rb') as f:
                        data = f.read()
                except OSError:
                    continue
                if data and self.placed.get(t) != data:
                    self.known[(t, data)] = self.mem[t][0]
        final = self.files()

        def complete(t):
            entry = self.mem[t][1]
            if 'output_dir' not in entry:
                events.append(dict(op='skip', t=t))
            elif before[t][0] in BLOCKED and final[t - 1][0] == before[t][0]:
                events.append(dict(op='blocked', t=t))
            else:
                events.append(dict(op='begin', t=t, mode=mode_of(t)))
                events.append(dict(op='end', t=t))
                self.wrote.pop(t, None)
                self.placed.pop(t, None)
        if died:
            for t in first:
                if t != victim:
                    complete(t)
            if victim is not None and k is not None:
                events.append(dict(op='begin', t=victim, mode=mode_of(victim)))
                if mode_of(victim) == 'inplace' and k > 0:
                    events.append(dict(op='chunk', t=victim))
            events.append(dict(op='crash'))
            self.mem, self.loaded = {}, False
        else:
            for t in first + [t for t in order if t not in first]:
                complete(t)
            if planned:
                # the crash point was never reached: the process ends normally
                events.append(dict(op='exit'))
                self.mem, self.loaded = {}, False
        # write_env is one call: the files are observed once, after it; the observation is attached to the last
        # event of the segment, the events before it are marked unobserved (files = None -> seen = FALSE)
        for ev in events:
            ev['files'] = None
        if events:
            events[-1]['files'] = final
        else:
            self.log[-1]['files'] = final
        self.log += events

    def exit(self):
        had = bool(self.mem) or self.loaded
        self.mem, self.loaded = {}, False
        if had:
            self._emit(op='exit')

    def longname(self, t, how):
        """Task t, which has no history yet, gets a name that the file system does not accept (names are generated from
        parameter lists): one component longer than NAME_MAX, or a path longer than PATH_MAX.  Its file can never
        exist: class `unreadable` (it cannot be written either) from now on."""
        if t in self.stuck or self.byt.get(t) or self.mem or self.loaded or self.classify(t)[0] != 'absent':
            return False
        if how == 'name-max':
            name = 't%d.' % t + '.'.join('param%02d=value%02d' % (i, i) for i in range(20))      # 300 bytes
        else:
            name = 't%d.' % t + '/'.join(['d' * 200] * 25)                                       # 5000 bytes
        self.dirmap.pop(self.dir(t), None)
        shutil.rmtree(self.dir(t), ignore_errors=True)
        self.names[t - 1] = name
        self.stuck[t] = self.how[t] = how
        if self.classify(t)[0] != 'unreadable':
            raise tlc.MachineryError('a task name of %d bytes (%s) does not make its file unreachable' % (len(name), how))
        self._emit(op='fault', t=t, kind='unreadable', which=0)
        return True

    def _clear(self, t):
        """Back to: the task directory is a directory one can work in, nothing is where the file should be."""
        self.sim.pop(t, None)
        self.how.pop(t, None)
        self.wrote.pop(t, None)
        self.placed.pop(t, None)
        d, p = self.dir(t), self.path(t)
        if os.path.islink(d) or os.path.isfile(d):
            os.remove(d)
        if not os.path.isdir(d):
            os.makedirs(d)
        os.chmod(d, 0o755)
        if os.path.islink(p) or os.path.isfile(p):
            os.remove(p)
        elif os.path.isdir(p):
            shutil.rmtree(p)
        target = os.path.join(self.links, 't%d' % t)
        if os.path.lexists(target):
            os.remove(target)

    def _how(self, kind, which):
        """The way in which the file is made absent / unreadable: `which` (swept / random like the garbage sample) and
        the seed of the world select it."""
        if kind == 'absent':
            return ABSENT_HOW[(which + self.seed) % len(ABSENT_HOW)]
        hows = UNREADABLE_HOW + UNREADABLE_HOW_NOT_ROOT
        how = hows[(which + self.seed) % len(hows)]
        if how in UNREADABLE_HOW_NOT_ROOT and os.geteuid() == 0:
            how = UNREADABLE_HOW[(which + self.seed) % len(UNREADABLE_HOW)]       # (no permission stops root)
        return how

    def fault(self, t, kind, which=0):
        p = self.path(t)
        cur = self.classify(t)
        if cur[0] == kind or t in self.stuck:
            return False
        if kind == 'partial':
            # a file cut short: a strict, non-empty prefix of the complete file that is there
            if cur[0] != 'full':
                return False
            with open(p, 'rb') as f:
                data = f.read()
            if len(data) < 2:
                return False
            with open(p, 'wb') as f:
                f.write(data[:1 + which % (len(data) - 1)])
            self.wrote[t] = data
            self.placed.pop(t, None)
            self._emit(op='fault', t=t, kind=kind, which=which)
            return True
        self._clear(t)
        if kind == 'empty':
            open(p, 'wb').close()
        elif kind == 'garbage':
            self.placed[t] = self.garbage[which % len(self.garbage)]
            with open(p, 'wb') as f:
                f.write(self.placed[t])
        elif kind == 'dir':
            os.mkdir(p)
        elif kind == 'absent':
            how = self.how[t] = self._how(kind, which)
            if how == 'dangling-link':
                os.makedirs(self.links, exist_ok=True)
                os.symlink(os.path.join(self.links, 't%d' % t), p)      # nothing there: ENOENT; a write creates the target
        elif kind == 'unreadable':
            how = self.how[t] = self._how(kind, which)
            if how == 'link-loop':
                os.symlink(FILENAME, p)          # a link to itself: ELOOP for every stat / open
            elif how == 'task-dir-is-a-file':
                shutil.rmtree(self.dir(t), ignore_errors=True)     # whatever an interrupted write left there goes with it
                with open(self.dir(t), 'wb') as f:      # ENOTDIR
                    f.write(b'not a directory\n')
            elif how == 'no-task-dir':
                shutil.rmtree(self.dir(t), ignore_errors=True)     # ENOENT for the directory: nothing can be created either
            elif how.startswith('errno-'):
                self.sim[t] = how[len('errno-'):]
            elif how == 'mode-000':
                with open(p, 'wb') as f:
                    f.write(b'not for you\n')
                os.chmod(p, 0)                   # EACCES for open
            elif how == 'dir-mode-000':
                os.chmod(self.dir(t), 0)         # EACCES for stat and open
            else:
                raise tlc.MachineryError('unknown way of making a file unreadable: %r' % how)
        if self.classify(t)[0] != kind:
            raise tlc.MachineryError('fault %s (%s) on task %d left the file %s' % (kind, self.how.get(t), t, self.classify(t)))
        self._emit(op='fault', t=t, kind=kind, which=which)
        return True

    def read(self):
        from valjean.cambronne.common import read_env
        self.n_reads += 1
        try:
            with _Unreadable(self):
                env = read_env(root=self.root, names=list(self.names), filename=FILENAME, fmt='pickle')
        except Exception as ex:  # pylint: disable=broad-except
            self.mem, self.loaded = {}, False
            return self._emit(op='read', raised=True, exc=type(ex).__name__, env=[], **self._blame(ex))
        obs = []
        self.mem, self.loaded = {}, False
        for name, entry in env.items():
            t = self.names.index(name) + 1 if name in self.names else 0
            status, ver = self._identify(t, entry)
            obs.append(dict(t=t, status=status, ver=ver))
            self.loaded = self.loaded or t > 0      # (an entry that cannot be named is still in the memory of the process)
            if ver > 0:
                self.mem[t] = (ver, entry)
        return self._emit(op='read', raised=False, exc='', env=obs)

    def readone(self, t):
        from valjean.cosette.env import Env
        self.n_reads += 1
        try:
            with _Unreadable(self):
                env = Env.from_file(self.path(t), fmt='pickle')
        except Exception as ex:  # pylint: disable=broad-except
            return self._emit(op='readone', t=t, raised=True, exc=type(ex).__name__, present=False, status='WAITING', ver=0,
                              **self._blame(ex))
        if env is None:
            return self._emit(op='readone', t=t, raised=False, exc='', present=False, status='WAITING', ver=0)
        status, ver = 'WAITING', -1
        if isinstance(env, Env) and list(env.keys()) == [self.name(t)]:
            status, ver = self._identify(t, env[self.name(t)])
        return self._emit(op='readone', t=t, raised=False, exc='', present=True, status=status, ver=ver)

    def session(self, tasks, listed=None, workers=1):
        """One session of `valjean run`, the way valjean does it: RunCommand().execute(args, config) on a job file.
        tasks = [dict(t=, hard=[..], soft=[..], dir=bool, beh='ok'|'ko'|'raise')] in an order in which every task
        comes after its dependencies.  Logged as: what read_env returns at the start of the session (the harness's own
        call, just before), one `run` per entry of the final in-memory environment that is not the entry that was
        read (the task ran -- or its status was changed without it running), the write_env segment, exit."""
        import argparse
        import copy
        from valjean.cambronne.commands.run import RunCommand
        from valjean.config import Config
        if self.mem or self.loaded:
            self.exit()
        rd = self.read()
        if rd['raised'] or any(e['ver'] <= 0 for e in rd['env']):
            self.stop = True        # the session would start from something that cannot be named
            return
        self.nsession += 1
        aux = os.path.join(self.root, '.job')
        os.makedirs(aux, exist_ok=True)
        specs = []
        for ts in tasks:
            rng = random.Random('%d/s%d/t%d' % (self.seed, self.nsession, ts['t']))
            # (the payload is wrapped in a list: Env.apply merges mappings key by key into what an earlier run left)
            payload = {'result': [gen_payload(rng)], 'token': [self.seed, self.nsession, ts['t']]}
            ppath = os.path.join(aux, 'p%d_%d.pkl' % (self.nsession, ts['t']))
            with open(ppath, 'wb') as f:
                pickle.dump(payload, f)
            specs.append(dict(t=ts['t'], name=self.name(ts['t']), hard=list(ts['hard']), soft=list(ts['soft']), dir=bool(ts['dir']),
                              beh=ts['beh'], payload=ppath))
        listed = [ts['t'] for ts in tasks] if listed is None else list(listed)
        specfile = os.path.join(aux, 'spec%d.json' % self.nsession)
        with open(specfile, 'w', encoding='utf-8') as f:
            json.dump(dict(tasks=specs, listed=listed), f)
        args = argparse.Namespace(job_file=job_file(), job_args=[specfile], job_kwargs={}, workers=workers,
                                  env_filename=FILENAME, env_format='pickle')
        config = Config({'path': {'log-root': os.path.join(self.root, '.log'), 'output-root': self.root,
                                  'report-root': os.path.join(self.root, '.report')}})
        self.lastdata = {}
        before = {t: self.classify(t) for t in range(1, self.ntasks + 1)}
        self.before_data = dict(self.lastdata)
        box = {}

        def target():
            try:
                box['env'] = RunCommand().execute(args, config)
            except BaseException as ex:  # pylint: disable=broad-except
                box['ex'] = ex
        # in a daemon thread (the workers of the scheduler inherit the flag): a session that never comes back must not
        # hang the check
        th = threading.Thread(target=target, daemon=True)
        with _Unreadable(self):
            th.start()
            th.join(SESSION_TIMEOUT)
        if th.is_alive() or 'ex' in box:
            # not what C14 is about (C02/C03/C19): the history ends here
            what = 'did not come back within %d s' % SESSION_TIMEOUT if th.is_alive() else \
                'raised %s: %s' % (type(box['ex']).__name__, str(box['ex'])[:200])
            self.notes.append(('session-failed', 'RunCommand.execute %s (session %d of %s)' % (what, self.nsession, tasks)))
            self.exit()
            self.stop = True
            return
        final = box['env']
        order = []
        for name, entry in final.items():
            if name not in self.names or not isinstance(entry, dict) or 'status' not in entry:
                continue
            t = self.names.index(name) + 1
            order.append(t)
            if t in self.mem and deep_eq(entry, self.mem[t][1]):
                self.mem[t] = (self.mem[t][0], entry)
                continue
            try:
                status = self.TaskStatus(entry['status']).name
            except ValueError:
                status = 'WAITING'
            has_dir = 'output_dir' in entry
            ver = self._register(t, status, has_dir, copy.deepcopy(entry))
            self.mem[t] = (ver, entry)
            self.log.append(dict(op='run', t=t, status=status, ver=ver, dir=has_dir, files=None))
        for t in [t for t in self.mem if t not in order]:
            del self.mem[t]          # read, but not part of the final environment
        if not order:
            self.exit()
            return
        for t in order:
            if 'output_dir' in self.mem[t][1]:
                self._refbytes(self.mem[t][0], self.mem[t][1])
        self.log.append(dict(op='start', order=list(order), files=None))
        self._segment(order, before, None, died=False, k=None, planned=True)

    def execute(self, events):
        """Perform abstract events (dicts); returns the index into self.log after each of them."""
        marks = []
        for ev in events:
            op = ev['op']
            self.abstract.append(ev)
            if op == 'run':
                self.run(ev['t'], ev['status'], ev['dir'], ev.get('pid'))
            elif op == 'write':
                self.write(ev['order'], ev.get('crash'))
            elif op == 'exit':
                self.exit()
            elif op == 'fault':
                self.fault(ev['t'], ev['kind'], ev.get('which', 0))
            elif op == 'longname':
                self.longname(ev['t'], ev['how'])
            elif op == 'read':
                self.read()
            elif op == 'readone':
                self.readone(ev['t'])
            elif op == 'session':
                self.session(ev['tasks'], ev.get('listed'), ev.get('workers', 1))
            else:
                raise tlc.MachineryError('unknown event %r' % (ev,))
            self.origin += [len(self.abstract) - 1] * (len(self.log) - len(self.origin))
            marks.append(len(self.log))
        return marks


# ---------------------------------------------------------------------------------------------
# TLC as the oracle for logs (code -> spec)

def _fill_files(log, ntasks):
    """Events inside one write_env call carry no observation of the files (files = None): they get the flag
    seen = FALSE (PersistTrace compares the files only where seen) and a placeholder of the right type."""
    out = []
    for ev in log:
        e = dict(ev)
        e['seen'] = e.get('files') is not None
        if e['files'] is None:
            e['files'] = [['absent', 'WAITING', 0] for _ in range(ntasks)]
        elif len(e['files']) < ntasks:
            e['files'] = list(e['files']) + [['absent', 'WAITING', 0]] * (ntasks - len(e['files']))
        out.append(e)
    return out


def validate_logs(logs, ntasks, wd, ctx=None, name='PersistTrace', chunk=60000):
    """logs: list of (trace id, log).  Returns ({(tid, step): [clauses]}, number of events) as judged
    by TLC (PersistTrace.tla); batches of about `chunk` events per JVM, four JVMs at a time."""
    batches, cur, size = [], [], 0
    for tid, log in logs:
        cur.append((tid, log))
        size += len(log) + 1
        if size >= chunk:
            batches.append(cur)
            cur, size = [], 0
    if cur:
        batches.append(cur)

    def one(args):
        bi, batch = args
        events = []
        for tid, log in batch:
            events.append(dict(op='reset', tid=tid, step=0, seen=True, files=[['absent', 'WAITING', 0]] * ntasks))
            for step, ev in enumerate(_fill_files(log, ntasks), 1):
                e = dict(ev, tid=tid, step=step)
                for k in ('exc', 'which', 'how', 'errno', 'culprit'):
                    e.pop(k, None)
                events.append(e)
        bwd = os.path.join(wd, '%s_batch%d_%d' % (name.replace('/', '_'), bi, len(events)))
        os.makedirs(bwd, exist_ok=True)
        cj = tlc.json_dump(os.path.join(bwd, 'events.json'), dict(ntasks=ntasks, events=events))
        oj = os.path.join(bwd, 'verdict.json')
        if os.path.exists(oj):
            os.remove(oj)
        cfg = tlc.write_cfg(os.path.join(bwd, 'trace.cfg'), spec='TSpec', constants={'None': Raw('None')},
                            invariants=[], deadlock=False, postcondition='Post')
        res = tlc.run(TRACE, cfg, workers=1, coverage=False, env=dict(VERIF_CASES=cj, VERIF_OUT=oj), timeout=3000)
        if not res.ok or not os.path.exists(oj):
            raise tlc.MachineryError('PersistTrace: %s\n%s' % (res.violation, res.out[-2500:]))
        with open(oj) as f:
            bad = json.load(f)['bad']
        os.remove(cj)
        return res, bad, len(events)

    from concurrent.futures import ThreadPoolExecutor
    with ThreadPoolExecutor(max_workers=4) as pool:
        results = list(pool.map(one, enumerate(batches)))
    verdict = {}
    total = 0
    for res, bad, n in results:
        if ctx is not None:
            ctx.tlc(res, name)
        total += n
        for tid, step, clause in bad:
            verdict.setdefault((tid, step), []).append(clause)
    return verdict, total


# ---------------------------------------------------------------------------------------------
# finding classes

def _file_class(ev, t):
    how = ev.get('how') or []
    return how_class(ev['files'][t - 1][0], how[t - 1] if t <= len(how) else '')


def _culprit(ev):
    """read_env stops at the first file it cannot digest: its class names the finding class -- the file the exception names
    when it names one, else the first damaged file."""
    if ev.get('culprit'):
        return _file_class(ev, ev['culprit'])
    for wanted in (('empty', 'partial', 'garbage'), ('unreadable', 'dir')):
        for t, (kind, _s, _v) in enumerate(ev['files'], 1):
            if kind in wanted:
                return _file_class(ev, t)
    return 'none'


def vkey(ev, clauses, suffix=''):
    """suffix names the dimension of the history ('' direct write_env / read_env calls, 'session' RunCommand sessions)."""
    suffix = '/' + suffix if suffix else ''
    op = 'read_env' if ev['op'] == 'read' else 'from_file' if ev['op'] == 'readone' else ev['op']
    if ev.get('raised'):
        if ev['op'] == 'readone':
            return 'C14/%s-raises/%s%s' % (op, _file_class(ev, ev['t']), suffix)
        return 'C14/%s-raises/%s%s' % (op, _culprit(ev), suffix)
    if ev['op'] == 'nodir-written' or 'NoDirNeverWritten' in clauses:
        return 'C14/task-without-output-dir-written' + suffix
    return 'C14/%s-wrong/%s%s' % (op, '+'.join(sorted(c for c in clauses if c != 'Files')) or 'Files', suffix)


def _report(ctx, ev, clauses, events, ntasks, seed, suffix=''):
    what = '%s: clauses %s false; observed %s' % (
        ev['op'], sorted(clauses), {k: ev[k] for k in ('raised', 'exc', 'errno', 'env', 'present', 'status', 'ver', 'files', 'how')
                                    if k in ev and (k != 'how' or any(ev[k]))})
    ctx.violation(vkey(ev, clauses, suffix), what, dict(ntasks=ntasks, seed=seed, events=events), module='conf_persist')


class Drifts:
    """DRIFT lines, at most `per_class` per class; the rest is counted."""

    def __init__(self, ctx, per_class=3):
        self.ctx = ctx
        self.per_class = per_class
        self.n = {}

    def add(self, cls, msg):
        self.n[cls] = self.n.get(cls, 0) + 1
        if self.n[cls] <= self.per_class:
            self.ctx.drift('[%s] %s' % (cls, msg[:600]))

    def flush(self):
        for cls, n in sorted(self.n.items()):
            if n > self.per_class:
                self.ctx.drift('[%s] %d more of this class not listed' % (cls, n - self.per_class))
        self.ctx.cov['drift_classes'] = dict(self.n)
        self.n = {}


def replay_case(case):
    """Execute the abstract history on the real code and let TLC judge the log."""
    import core
    core.use_repo()
    world = World(case['ntasks'], case['seed'])
    world.execute(case['events'])
    wd = tlc.workdir('c14r')
    verdict, _n = validate_logs([(1, world.log)], case['ntasks'], wd)
    bad = sorted((k, [c for c in v if c not in ('Files', 'NotEnabled')]) for k, v in verdict.items())
    bad = [(k, v) for k, v in bad if v]
    if not bad:
        return True, 'all clauses of Persist.tla hold on the %d logged events' % len(world.log)
    (_tid, step), clauses = bad[0]
    ev = world.log[step - 1]
    return False, 'event %d (%s): clauses %s false; observed raised=%s exc=%s %s env=%s files=%s how=%s' % (
        step, ev['op'], sorted(clauses), ev.get('raised'), ev.get('exc'), ev.get('errno', ''), ev.get('env'), ev.get('files'),
        [h for h in ev.get('how', ()) if h])


# ---------------------------------------------------------------------------------------------
# spec -> code

def _consts(ntasks, statuses, max_ver, max_faults, max_crashes, fault_kinds=FAULT_KINDS, modes=MODES):
    return {'Tasks': frozenset(range(1, ntasks + 1)), 'Statuses': frozenset(statuses), 'MaxVer': max_ver,
            'MaxFaults': max_faults, 'MaxCrashes': max_crashes, 'FaultKinds': frozenset(fault_kinds),
            'Modes': frozenset(modes), 'None': Raw('None')}


def probe_modes(seed):
    """How does the implementation write a file?  One crash after 0 bytes over a complete file: the old content is
    still there (the destination is kept until the new content is complete) or the file is empty (written in
    place).  Only used to make TLC simulate behaviours the implementation can follow step by step; the
    specification allows both, file by file."""
    world = World(1, seed)
    world.execute([dict(op='run', t=1, status='DONE', dir=True), dict(op='write', order=[1]), dict(op='exit'),
                   dict(op='run', t=1, status='DONE', dir=True), dict(op='write', order=[1], crash=dict(tasks=[1], k=0))])
    kind = world.classify(1)[0]
    died = world.log[-1]['op'] == 'crash'
    world.dispose()
    if not died:
        return list(MODES), False
    return (['keep'] if kind == 'full' else ['inplace'] if kind == 'empty' else list(MODES)), True


def behaviour_to_events(beh):
    """Translate a TLC behaviour (list of states with `act`) into executor events.  Returns
    [(event, index of the TLC state reached after it)]; a write segment cut by the end of the
    behaviour is dropped.  The entries are put into the Env in the order in which TLC handled them."""
    out = []
    n = len(beh)
    i = 1
    while i < n:
        act = beh[i]['act']
        op = act['op']
        if op == 'run':
            out.append((dict(op='run', t=act['t'], status=act['status'], dir=bool(act['dir'])), i))
        elif op == 'start':
            tasks = sorted(act['tasks'])
            j = i + 1
            handled = []
            cur = None
            chunked = False
            mode = None
            crash = None
            complete = False
            while j < n:
                a = beh[j]['act']
                o = a['op']
                if o in ('skip', 'blocked'):
                    handled.append(a['t'])
                elif o == 'begin':
                    cur, mode, chunked = a['t'], a['mode'], False
                elif o == 'chunk':
                    chunked = True
                elif o == 'end':
                    handled.append(cur)
                    cur = None
                elif o == 'crash':
                    if cur is not None:
                        crash = dict(tasks=[cur], k='sweep' if (chunked or mode == 'keep') else 0)
                    else:
                        crash = dict(tasks=[t for t in tasks if t not in handled], k=None)
                    break
                else:
                    raise tlc.MachineryError('unexpected action %s inside a write segment' % o)
                if len(beh[j]['queue']) == 0 and isinstance(beh[j]['w'], MV):
                    complete = True
                    break
                j += 1
            if not (complete or crash):
                break
            order = handled + ([cur] if cur is not None else [])
            order += [t for t in tasks if t not in order]
            out.append((dict(op='write', order=order, crash=crash), j))
            i = j
        elif op in ('exit', 'crash'):
            out.append((dict(op='exit'), i))
        elif op == 'fault':
            out.append((dict(op='fault', t=act['t'], kind=act['kind'], which=0), i))
        elif op == 'read':
            out.append((dict(op='read'), i))
        elif op == 'readone':
            out.append((dict(op='readone', t=act['t']), i))
        else:
            raise tlc.MachineryError('unknown action label %r' % (act,))
        i += 1
    return out


def _concretise(events, sweep):
    """Choose the byte length of every `partial` and the garbage sample for sweep number `sweep`."""
    out = []
    n = 0
    for ev in events:
        ev = json.loads(json.dumps(ev))
        if ev['op'] == 'write' and ev['crash'] and ev['crash']['k'] == 'sweep':
            ev['crash']['k'] = ('frac', sweep, n)
            n += 1
        if ev['op'] == 'fault':
            ev['which'] = sweep + n
        out.append(ev)
    return out


def _resolve_k(world, ev, sweeps):
    """('frac', sweep, n) -> concrete byte count in 1 .. len-1 for the entry being written."""
    k = ev['crash']['k']
    if isinstance(k, (list, tuple)) and k and k[0] == 'frac':
        _f, sweep, n = k
        t = ev['crash']['tasks'][0]
        ver = world.mem[t][0]
        if not world.entries[ver][2]:
            ev['crash']['k'] = None
            return
        length = len(world._refbytes(ver))
        if sweeps <= 1:
            kk = 1 + (length - 2) // 2
        else:
            # sweep 0 -> 1 byte, last sweep -> len-1 bytes, the others spread with a per-position shift
            pts = [1, length - 1] + [1 + ((s * 2654435761 + n * 40503) % (length - 1)) for s in range(2, sweeps)]
            kk = pts[sweep % len(pts)]
        ev['crash']['k'] = max(1, min(length - 1, kk))


def _at(fn, t):
    """Value at t of a TLA+ function with domain 1..N (TLC prints those as tuples)."""
    return fn[t - 1] if isinstance(fn, tuple) else fn[t]


def _state_files(st, ntasks):
    return [[_at(st['file'], t)['kind'], _at(st['file'], t)['status'], _at(st['file'], t)['ver']] for t in range(1, ntasks + 1)]


def bystanders(seed, used, width):
    """Events that make the file of a task that the history itself does not use unreachable (a task name longer than the
    file system accepts / one of the ways of fault `unreadable`): every read_env of the history then also passes a path
    that cannot be walked.  One world in four stays as it was."""
    if width <= used:
        return []
    t = used + 1 + (seed // 4) % (width - used)
    choice = seed % 4
    if choice == 1:
        return [dict(op='longname', t=t, how='name-max')]
    if choice == 2:
        return [dict(op='longname', t=t, how='path-max')]
    if choice == 3:
        return [dict(op='fault', t=t, kind='unreadable', which=seed // 4)]
    return []


def replay_behaviour(ctx, beh, ntasks, seed, sweeps, stats, keep):
    """Run one TLC behaviour on the real code (several byte-length choices); compare with TLC's states as long as the
    implementation makes the choices TLC made (the specification is a relation: another order of the files, another
    way of writing them is no deviation -- the log of every execution is judged by PersistTrace afterwards)."""
    evs = behaviour_to_events(beh)
    if not evs:
        return 0, 0
    has_partial = any(e['op'] == 'write' and e['crash'] and e['crash']['k'] == 'sweep' for e, _ in evs)
    has_garbage = any(e['op'] == 'fault' and e['kind'] == 'garbage' for e, _ in evs)
    has_read = any(e['op'] in ('read', 'readone') for e, _ in evs)
    nsweeps = sweeps if (has_partial or has_garbage) and has_read else 1
    runs = 0
    for sweep in range(nsweeps):
        world = World(WIDTH, seed)
        concrete = _concretise([e for e, _ in evs], sweep)
        done = bystanders(seed + sweep, ntasks, WIDTH)
        world.execute(done)
        for ev, (_e, si) in zip(concrete, evs):
            if ev['op'] == 'write' and ev['crash']:
                _resolve_k(world, ev, nsweeps)
            before = len(world.log)
            world.execute([ev])
            done.append(ev)
            st = beh[si]
            last = world.log[-1] if len(world.log) > before else None
            obs_files = world.files()[:ntasks]
            if obs_files != _state_files(st, ntasks):
                # the implementation resolved a choice differently (or deviates from the model of the files: PersistTrace
                # will tell); TLC's states are no oracle for the rest of this execution
                stats['diverged'] += 1
                break
            stats['compared'] += 1
            problems = []
            if last is not None and last['op'] == 'read':
                exp = st['lastRead']
                exp_env = sorted((e['t'], e['status'], e['ver']) for e in exp['env'])
                got_env = sorted((e['t'], e['status'], e['ver']) for e in last['env'])
                if last['raised'] != bool(exp['raised']) or got_env != exp_env:
                    problems.append('lastRead')
            if last is not None and last['op'] == 'readone':
                exp = st['lastOne']
                got = (last['raised'], last['present'], last['status'], last['ver'])
                if got != (bool(exp['raised']), bool(exp['present']), exp['status'], exp['ver']):
                    problems.append('lastOne')
            if problems:
                lastev = dict(last)          # (with the files of all tasks of the world, bystanders included)
                what = ('after %s the real world differs from the TLC state in %s: observed %s; Persist.tla: files=%s lastRead=%s lastOne=%s'
                        % (ev['op'], problems, {k: lastev.get(k) for k in ('raised', 'exc', 'errno', 'env', 'present', 'status', 'ver',
                                                                            'files', 'how')},
                           _state_files(st, ntasks), dict(st['lastRead']), dict(st['lastOne'])))
                ctx.violation(vkey(lastev, problems), what, dict(ntasks=WIDTH, seed=seed, events=done), module='conf_persist')
                break
        runs += 1
        kinds = tuple(sorted(set(f[0] for ev in world.log if ev['op'] in ('read', 'readone') for f in ev['files'])))
        if has_read and any(k in kinds for k in ('empty', 'partial', 'garbage', 'dir', 'unreadable')):
            ctx.distinct(('beh', tuple(json.dumps(e, sort_keys=True) for e in concrete)))
        world.dispose()
        if sweep < 6:
            keep.append(world)
    return runs, len(evs)


# ---------------------------------------------------------------------------------------------
# code -> spec drivers

def scan_every_byte(seed, ntasks, n_payloads, statuses):
    """For n_payloads entries: a crash after every possible number of bytes of the file, then
    read_env and Env.from_file.  One world (= one trace) per payload."""
    worlds = []
    nhow = len(UNREADABLE_HOW + UNREADABLE_HOW_NOT_ROOT)
    for p in range(n_payloads):
        # one more task than the scan uses: in two worlds out of three its name is longer than the file system accepts
        world = World(ntasks + 1, seed * 1000 + p)
        if p % 3:
            world.execute([dict(op='longname', t=ntasks + 1, how=LONG_NAMES[p % 3 - 1])])
        rng = random.Random('scan/%d/%d' % (seed, p))
        t = rng.randint(1, ntasks)
        status = statuses[p % len(statuses)]
        other = 1 + (t % ntasks)
        # a second, intact DONE task: reading must still return it when t's file is damaged
        world.execute([dict(op='run', t=other, status='DONE', dir=True), dict(op='write', order=[other], crash=None),
                       dict(op='exit'), dict(op='run', t=t, status=status, dir=True, pid=p)])
        length = len(world._refbytes(world.mem[t][0]))
        world.execute([dict(op='exit')])
        for k in range(0, length):
            world.execute([dict(op='run', t=t, status=status, dir=True, pid=p),
                           dict(op='write', order=[t], crash=dict(tasks=[t], k=k))])
            path = world.path(t)
            if not os.path.isfile(path) or os.path.getsize(path) != k:
                # the crash did not leave k bytes behind (the destination is only replaced by a complete file, or the
                # crash point was not reached): a file of k bytes is still something a reader can meet
                world.execute([dict(op='exit'), dict(op='run', t=t, status=status, dir=True, pid=p), dict(op='write', order=[t]),
                               dict(op='exit'), dict(op='fault', t=t, kind='partial' if k else 'empty', which=k - 1)])
            world.execute([dict(op='read'), dict(op='exit'), dict(op='readone', t=t)])
        # every way in which the path of the file can be unusable (and a file that is not there at all): read, written
        # over (the entry is given up or the object is replaced), read again
        world.execute([dict(op='run', t=t, status=status, dir=True, pid=p), dict(op='write', order=[t]), dict(op='exit')])
        for which in range(nhow + len(ABSENT_HOW)):
            kind = 'unreadable' if which < nhow else 'absent'
            world.execute([dict(op='fault', t=t, kind=kind, which=which), dict(op='read'), dict(op='exit'), dict(op='readone', t=t),
                           dict(op='run', t=t, status='DONE', dir=True, pid=p), dict(op='write', order=[t]), dict(op='exit'),
                           dict(op='read'), dict(op='exit'), dict(op='readone', t=t), dict(op='fault', t=t, kind='empty')])
        world.execute([dict(op='readone', t=ntasks + 1)])          # (the file that cannot exist / that never existed)
        world.scan = (t, status, length)
        worlds.append(world)
    return worlds


def random_history(seed, idx, ntasks, length):
    rng = random.Random('hist/%d/%d' % (seed, idx))
    world = World(ntasks, seed * 100003 + idx)

    def do(ev):
        world.execute([ev])

    # in one history out of three the name of one task is longer than the file system accepts (its own generator: the
    # histories stay what they were)
    rng_names = random.Random('hist-names/%d/%d' % (seed, idx))
    if rng_names.random() < 1 / 3:
        do(dict(op='longname', t=rng_names.randint(1, ntasks), how=rng_names.choice(LONG_NAMES)))

    for _ in range(length):
        fresh = not world.mem
        r = rng.random()
        if fresh and r < 0.30:
            do(dict(op='read'))
        elif fresh and r < 0.40:
            do(dict(op='readone', t=rng.randint(1, ntasks)))
        elif fresh and r < 0.55:
            do(dict(op='fault', t=rng.randint(1, ntasks), kind=rng.choice(FAULT_KINDS_ALL), which=rng.randint(0, 99)))
        elif r < 0.80 or fresh:
            do(dict(op='run', t=rng.randint(1, ntasks), status=rng.choice(ALL_STATUSES + ['DONE', 'DONE']),
                    dir=rng.random() < 0.8))
        else:
            order = list(world.mem)
            rng.shuffle(order)
            crash = None
            if rng.random() < 0.6:
                j = rng.randrange(len(order))
                mode = rng.random()
                if mode < 0.2:
                    k = None
                elif mode < 0.35:
                    k = 0
                else:
                    ver = world.mem[order[j]][0]
                    k = rng.randint(1, max(1, len(world._refbytes(ver)) - 1)) if world.entries[ver][2] else None
                crash = dict(tasks=order[j:] if k is None else [order[j]], k=k)
            do(dict(op='write', order=order, crash=crash))
            if crash is None and rng.random() < 0.7:
                do(dict(op='exit'))
        last = world.log[-1] if world.log else dict(op='none')
        if last['op'] == 'read' and (last['raised'] or any(e['ver'] <= 0 for e in last['env'])):
            break       # the process that read this is gone / holds something we cannot name
    return world


# -- sessions of `valjean run` ---------------------------------------------------------------

PAIRS3 = [(2, 1), (3, 1), (3, 2)]


def _session_event(n, edges, dirs, behs, rng=None, workers=1, extra=()):
    """edges: [(i, j, 'hard'|'soft')], task i depends on task j < i; extra: more tasks, independent of the others."""
    tasks = [dict(t=t, hard=[j for i, j, k in edges if i == t and k == 'hard'], soft=[j for i, j, k in edges if i == t and k == 'soft'],
                  dir=bool(dirs[t - 1]), beh=behs[t - 1]) for t in range(1, n + 1)]
    tasks += [dict(t=t, hard=[], soft=[], dir=True, beh='ok') for t in extra]
    listed = list(range(1, n + 1)) + list(extra)
    if rng is not None:
        rng.shuffle(listed)
    return dict(op='session', tasks=tasks, listed=listed, workers=workers)


def _run_sessions(world, events):
    for ev in events:
        world.execute([ev])
        if world.stop:
            break
        last = world.log[-1] if world.log else dict(op='none')
        if last['op'] == 'read' and (last['raised'] or any(e['ver'] <= 0 for e in last['env'])):
            break
    world.kind = 'session'
    return world


def systematic_sessions(seed, quick):
    """Every hard/soft graph on 3 tasks: a session in which all tasks succeed; the file of one task is damaged and
    one task is made to fail; a second session; what read_env returns then (and Env.from_file on every file)."""
    import itertools
    worlds = []
    idx = combo = 0
    graphs = list(itertools.product(['none', 'hard', 'soft'], repeat=3))
    damages = ['absent', 'partial', 'empty', 'garbage', 'unreadable', 'dir']
    for kinds in graphs:
        edges = [(i, j, kd) for (i, j), kd in zip(PAIRS3, kinds) if kd != 'none']
        for damaged in (1, 2, 3):
            for failing in (1, 2, 3):
                combo += 1
                for fk, fail in enumerate(['ko', 'raise']):
                    idx += 1
                    if quick and fk != combo % 2:
                        continue
                    world = World(WIDTH, seed * 7001 + idx)
                    behs = ['ok'] * 3
                    # in one world out of four the job has a fourth task, whose name is longer than the file system accepts
                    # (it can have no output directory, hence no file: read_env of every session passes its path)
                    extra = [4] if combo % 4 == 0 else []
                    evs = [dict(op='longname', t=4, how=LONG_NAMES[(combo // 4) % 2])] if extra else []
                    evs.append(_session_event(3, edges, [True] * 3, behs, workers=1 + idx % 2, extra=extra))
                    evs.append(dict(op='fault', t=damaged, kind=damages[idx % len(damages)], which=idx))
                    behs2 = list(behs)
                    behs2[failing - 1] = fail
                    evs.append(_session_event(3, edges, [True] * 3, behs2, workers=1 + (idx // 2) % 2, extra=extra))
                    evs += [dict(op='read'), dict(op='exit')] + [dict(op='readone', t=t) for t in [1, 2, 3] + extra]
                    worlds.append(_run_sessions(world, evs))
    return worlds


def random_sessions(seed, idx):
    """2-5 tasks, random hard/soft dependencies, 2-4 sessions with tasks that succeed / fail / raise / have no output
    directory, files lost, emptied, cut short, replaced by garbage / a directory / an unopenable object in between."""
    rng = random.Random('sess/%d/%d' % (seed, idx))
    n = rng.randint(2, WIDTH)
    edges = []
    for i in range(2, n + 1):
        for j in range(1, i):
            r = rng.random()
            if r < 0.35:
                edges.append((i, j, 'hard'))
            elif r < 0.5:
                edges.append((i, j, 'soft'))
    world = World(WIDTH, seed * 9001 + idx)
    world.kind = 'session'
    evs = []
    rng_names = random.Random('sess-names/%d/%d' % (seed, idx))       # (its own generator: the histories stay what they were)
    if rng_names.random() < 0.25:
        evs.append(dict(op='longname', t=rng_names.randint(1, n), how=rng_names.choice(LONG_NAMES)))
    for s in range(rng.randint(2, 4)):
        p_ok = 0.9 if s == 0 else 0.65
        behs = [('ok' if rng.random() < p_ok else rng.choice(['ko', 'raise'])) for _ in range(n)]
        dirs = [rng.random() < 0.9 for _ in range(n)]
        evs.append(_session_event(n, edges, dirs, behs, rng=rng, workers=rng.randint(1, 3)))
        for _ in range(rng.choice([0, 1, 1, 2])):
            evs.append(dict(op='fault', t=rng.randint(1, n), kind=rng.choice(FAULT_KINDS_ALL + ['absent', 'partial', 'partial']),
                            which=rng.randint(0, 9999)))
        if rng.random() < 0.3:
            evs.append(dict(op='readone', t=rng.randint(1, n)))
    evs += [dict(op='read'), dict(op='exit')] + [dict(op='readone', t=t) for t in range(1, n + 1)]
    return _run_sessions(world, evs)


# ---------------------------------------------------------------------------------------------

def run_c14(ctx):
    import time
    t0 = time.time()
    dbg = (lambda m: print('  [c14 %.1fs] %s' % (time.time() - t0, m))) if os.environ.get('VERIF_DEBUG') else (lambda m: None)
    ctx.rule('spec->code: behaviours simulated by TLC from Persist.tla (run / write_env entry by entry, in any order, in place or '
             'through a temporary file / crash between any two steps / exit / file faults / read_env / Env.from_file) are executed on '
             'the real write_env, read_env, Env.to_file, Env.from_file in a scratch directory (crash = the process dies after k bytes '
             'reached the file, k swept over byte lengths; the file is recognised by its path whatever flavour of open() is used) and '
             'files, lastRead and lastOne are compared with the TLC state as long as the implementation makes the choices TLC made. '
             'code->spec: for random payloads EVERY byte length of the written file is produced by a crash and read back; seeded '
             'random long histories (5 tasks, five statuses, re-writes, faults); histories of SESSIONS of RunCommand().execute on a '
             'job file (every 3-task hard/soft graph x damaged file x failing task, and random 2-5 task graphs, 2-4 sessions, tasks '
             'that succeed / fail / raise / are skipped, files lost / cut short / corrupted in between) in which read_env at the '
             'start of the next session is judged against what the previous session ended with; TLC validates all logs against '
             'PersistTrace.tla. The class `unreadable` (and `absent`) of Persist.tla is produced THROUGH THE PATH of the file as '
             'well as through its content: per fault the way is chosen among symbolic link loop / task directory replaced by a file / '
             'task directory missing / (not as root) file or directory without permissions / every stat, access and open of the path '
             'failing with OSError(errno) for errno in %s while valjean runs; dangling link for `absent`; task names longer than '
             'NAME_MAX / paths longer than PATH_MAX (a third of the histories, a quarter of the session histories, bystander tasks of '
             'the replayed behaviours and of the every-byte scan); every way is applied once per scanned payload (read, written '
             'over, read again). distinct_nontrivial counts distinct (history, byte length) executions in which a read met at least '
             'one empty, truncated, garbage, directory or unopenable file.' % ', '.join(SIM_ERRNOS))
    ctx.assume('a crash leaves, in the file being written, a prefix of the bytes of the new content, or the previous content, or the '
               'complete new content; all other files are untouched')
    ctx.assume('output_dir of task t is <root>/<t> (as RunTask sets it) and exists; distinct tasks have distinct directories')
    ctx.assume('garbage = curated families of non-pickles (text, zero/0xff blocks, foreign magic numbers, invalid first opcode, '
               'unknown globals); byte strings pickle.loads accepts are dropped (DESIGN 8.1); mutated real pickles are not used '
               'because they can crash the interpreter')
    ctx.assume('errno classes that cannot be provoked as root (EACCES, EPERM, EIO, ESTALE, EMFILE) are simulated: builtins.open / '
               'io.open / os.open / os.stat / os.lstat raise OSError(errno) and os.access answers False for the path of the file, '
               'recognised by the file name given to valjean and the real path of its directory; an implementation that reaches '
               'the file in another way (descriptor of the directory, C extension) does not meet the simulated condition, it does '
               'meet the real ones (link loop, ENOTDIR, ENOENT of the directory, ENAMETOOLONG)%s'
               % ('' if os.geteuid() == 0 else '; the harness does not run as root: files / directories without permissions are used too'))
    seed = ctx.seed
    wd = tlc.workdir('c14')
    drifts = Drifts(ctx)

    # 1. exhaustive check of the specification + witnesses
    cfgs = [('2tasks', _consts(2, ['DONE', 'FAILED'], 3, 1, 3))]
    if not ctx.quick:
        cfgs.append(('3tasks', _consts(3, ['DONE', 'FAILED'], 3, 1, 2, ['empty', 'garbage', 'dir'])))
    for name, consts in cfgs:
        cfg = tlc.write_cfg(os.path.join(wd, name + '.cfg'), constants=consts, invariants=INVS, deadlock=False)
        res = tlc.run(SPEC, cfg, timeout=1500)
        ctx.tlc(res, 'Persist/' + name)
        if not res.ok:
            raise tlc.MachineryError('Persist.tla %s: %s' % (name, res.violation))
        tlc.check_coverage(res, ACTIONS, 'Persist/' + name)
    # the counterexample of each witness is an interesting behaviour: replay them too
    def _witness(wname):
        c1 = tlc.write_cfg(os.path.join(wd, 'w_%s.cfg' % wname), constants=_consts(2, ['DONE', 'FAILED'], 3, 1, 3),
                           invariants=[wname], deadlock=False)
        r1 = tlc.run(SPEC, c1, coverage=False, workers=2)
        if r1.violation != ('invariant', wname):
            raise tlc.MachineryError('witness %s not reachable in Persist.tla: %s' % (wname, r1.violation))
        return [st for _lab, st in r1.trace]

    from concurrent.futures import ThreadPoolExecutor
    with ThreadPoolExecutor(max_workers=8) as pool:
        witness_behs = list(pool.map(_witness, WITNESSES))
    dbg('model checked')
    # 2. spec -> code
    modes, injected = probe_modes(seed)
    if not injected:
        drifts.add('crash-injection', 'a crash planned inside the write of a file never happened: the file is not opened through '
                   'builtins.open / io.open; crash points are not exercised')
    sim_cfg = tlc.write_cfg(os.path.join(wd, 'sim.cfg'), constants=_consts(3, ['DONE', 'FAILED', 'SKIPPED'], 6, 2, 5,
                                                                             FAULT_KINDS if 'inplace' in modes else FAULT_KINDS_ALL, modes),
                            invariants=INVS, deadlock=False)
    nsim = ctx.pick(150, 1500)
    prefix = os.path.join(wd, 'sim', 'b')
    os.makedirs(os.path.dirname(prefix))
    res = tlc.run(SPEC, sim_cfg, simulate=dict(num=nsim, file=prefix), depth=ctx.pick(30, 40), seed=seed + 1, workers=1,
                  coverage=False, timeout=1500)
    ctx.tlc(res, 'Persist/simulate')
    if res.violation:
        raise tlc.MachineryError('Persist.tla simulation: %s' % (res.violation,))
    behs = [[st for _lab, st in b] for b in tlc.read_sim_files(prefix)]
    if len(behs) < nsim // 2:
        raise tlc.MachineryError('only %d simulated behaviours read back' % len(behs))
    sweeps = ctx.pick(6, 24)
    runs = steps = 0
    stats = dict(compared=0, diverged=0)
    rworlds = []
    for bi, beh in enumerate(witness_behs + behs):
        nt = 2 if bi < len(witness_behs) else 3
        r, s = replay_behaviour(ctx, beh, nt, seed + bi, sweeps, stats, rworlds)
        runs += r
        steps += r * s
    ctx.count(evaluations=steps, traces=runs)
    ctx.sample(dict(source='TLC simulation', write_modes_simulated=modes, events=[e for e, _ in behaviour_to_events(behs[0])][:12]))
    if stats['compared'] < 10 * max(1, stats['diverged']) and stats['diverged'] > 20:
        drifts.add('choices', 'the implementation followed the choices of TLC (order of the files, way of writing) in only %d of %d '
                   'compared segments' % (stats['compared'], stats['compared'] + stats['diverged']))

    dbg('behaviours replayed')
    # 3. code -> spec
    n_payloads = ctx.pick(36, 400)
    worlds = scan_every_byte(seed, 2, n_payloads, ['DONE', 'DONE', 'FAILED', 'DONE', 'SKIPPED'])
    nbytes = sum(w.scan[2] for w in worlds)
    dbg('scan executed')
    # (TLC judges the scan in the background while the histories are executed)
    scan_pool = ThreadPoolExecutor(max_workers=1)
    scan_job = scan_pool.submit(validate_logs, [(i + 1, w.log) for i, w in enumerate(worlds)], 3, wd, ctx, 'PersistTrace/every-byte')
    nhist = ctx.pick(300, 4000)
    hworlds = [random_history(seed, i, WIDTH, ctx.pick(40, 60)) for i in range(nhist)]
    dbg('histories executed')
    sworlds = systematic_sessions(seed, ctx.quick) + [random_sessions(seed, i) for i in range(ctx.pick(80, 1500))]
    nsessions = sum(w.nsession for w in sworlds)
    dbg('%d sessions executed' % nsessions)
    verdict, nev = scan_job.result()
    scan_pool.shutdown()
    dbg('scan validated')
    _digest(ctx, drifts, verdict, worlds, 3)
    ctx.count(evaluations=sum(w.n_reads for w in worlds), traces=len(worlds))
    for w in worlds:
        for k in range(w.scan[2]):
            ctx.distinct(('scan', w.seed, k))
        for how in sorted(set(h for ev in w.log if ev['op'] == 'read' for h in ev['how'] if h)):
            ctx.distinct(('scan-how', w.seed, how))
        w.dispose()
    ctx.sample(dict(source='every-byte scan', payloads=n_payloads, truncated_files_read=nbytes, events_validated_by_TLC=nev,
                    first_log=worlds[0].log[:8]))
    allw = hworlds + sworlds + rworlds
    logs = [(i + 1, w.log) for i, w in enumerate(allw)]
    verdict, nev2 = validate_logs(logs, WIDTH, wd, ctx, 'PersistTrace/histories+sessions+replayed')
    _digest(ctx, drifts, verdict, allw, WIDTH)
    ctx.count(evaluations=sum(w.n_reads for w in hworlds + sworlds), traces=len(hworlds) + len(sworlds))
    ctx.count(evaluations=nsessions)
    for i, w in enumerate(hworlds + sworlds):
        for ev in w.log:
            if ev['op'] in ('read', 'readone') and any(f[0] in ('empty', 'partial', 'garbage', 'dir', 'unreadable') for f in ev['files']):
                ctx.distinct(('hist', i, len(w.log)))
                break
        w.dispose()
    ctx.sample(dict(source='random history', events=hworlds[0].abstract[:10]))
    ctx.sample(dict(source='sessions of RunCommand.execute', events=sworlds[-1].abstract[:6], log=sworlds[-1].log[:14]))
    unreached = sum(w.unreached for w in worlds + allw)
    if unreached and injected:
        drifts.add('crash-injection', '%d crashes planned inside the write of a file never happened (treated as completed writes)' % unreached)
    drifts.flush()
    dbg('histories validated')
    ctx.cov['exhaustive'] = True
    ctx.cov['explanation'] = ('Persist.tla exhaustively model-checked for the configurations in tlc_runs; %d simulated + %d witness '
                              'behaviours replayed with %d byte-length choices each (%d segments compared with the TLC state, %d executions '
                              'left TLC\'s choices); every one of %d byte lengths of %d entries read back; %d random histories; %d histories '
                              'with %d sessions of RunCommand.execute; %d logged events judged by TLC' % (
                                  len(behs), len(witness_behs), sweeps, stats['compared'], stats['diverged'], nbytes, n_payloads, nhist,
                                  len(sworlds), nsessions, nev + nev2))
    # extra module: `valjean run` from the job file to the files on disk (Pipeline.tla, observations only, see conf_pipeline.py)
    import conf_pipeline
    ctx.extra('Pipeline', conf_pipeline.run, tlc.workdir('c14pipeline'))


def _digest(ctx, drifts, verdict, worlds, ntasks):
    derailed = {}
    reported = 0
    for (tid, step), clauses in sorted(verdict.items()):
        if 'NotEnabled' in clauses and tid not in derailed:
            derailed[tid] = step
    for world in worlds:
        for cls, msg in world.notes:
            drifts.add(cls, msg)
        world.notes = []
    for (tid, step), clauses in sorted(verdict.items()):
        world = worlds[tid - 1]
        ev = world.log[step - 1]
        if tid in derailed and step >= derailed[tid]:
            if step == derailed[tid]:
                # from here on the log is no behaviour of the model of the files: nothing can be said
                drifts.add('derailed', 'trace %d leaves Persist.tla at step %d (%s); the rest of it is not judged' % (tid, step, ev))
            continue
        events = world.abstract[:world.origin[step - 1] + 1]
        rest = [c for c in clauses if c != 'Files']
        if 'Files' in clauses:
            drifts.add('files', 'trace %d step %d (%s): files are %s, not what Persist.tla implies' % (tid, step, ev['op'], ev['files']))
        if rest:
            reported += 1
            _report(ctx, ev, rest, events, ntasks, world.seed, world.kind)
    if len(derailed) > max(3, len(worlds) // 10):
        if reported:
            # the violations found before the logs left the specification are what there is to say (a machinery error
            # would swallow them)
            drifts.add('derailed', '%d of %d logs are no behaviours of Persist.tla after the violations reported' % (len(derailed), len(worlds)))
        else:
            raise tlc.MachineryError('%d of %d logs are no behaviours of Persist.tla' % (len(derailed), len(worlds)))
