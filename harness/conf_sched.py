"""C01, C02, C03 -- the queue backend of the scheduler: binding of specs/Sched.tla to
valjean.cosette.backends.queue / valjean.cosette.env / valjean.cosette.scheduler.

model      : TLC checks Sched.tla exhaustively over all small configurations (graphs x outcomes x initial
             environments x workers), invariants + deadlock + witnesses (vacuity) + negative self-test
             (the pre-fix publication order must violate C01).
spec->code : behaviours simulated by TLC are forced, step by step, on the real Scheduler.schedule() running
             under the deterministic scheduler (harness/detsched.py); after every step the projection of the
             real state must equal the TLC state.
code->spec : schedules TLC did not generate (seeded random, PCT, exhaustive DFS with state caching on small
             configurations, bigger graphs, 1-4 workers) are executed, recorded and validated by TLC against
             SchedTrace.tla: strict (implementation-level model; rejection = drift) and observer mode
             (property-level invariants evaluated on the recorded implementation states; failure = VIOLATION).
"""
import json
import os
import random
import subprocess
import sys
import time

import tlc
from tlc import Raw

SPEC_MC = os.path.join(tlc.SPECS, 'SchedMC.tla')
SPEC_MC_ANY = os.path.join(tlc.SPECS, 'SchedMCAny.tla')


def _spec_for(configs):
    return SPEC_MC_ANY if configs.startswith('MC_Any') else SPEC_MC
TRACE = os.path.join(tlc.SPECS, 'SchedTrace.tla')

INV_C01 = ['C01_DepsFinal', 'C01_PayloadVisible', 'C01_RunningState', 'C01_NoLateDep']
INV_C02 = ['C02_AtMostOnce', 'C02_Outcome', 'C02_NoForeignUpdate', 'C02_SoftNeverSkips', 'C02_FromEmptyNeverRaises']
INV_C03 = ['C03_Clean', 'M_QueueJoinable', 'TypeOK']
ACTIONS = ['MStart', 'MAcqCv', 'MDecide', 'MPut', 'MWake', 'MQJoin', 'MStop', 'MJoin',
           'WStart', 'WGet', 'WDoStart', 'WPublish', 'WTaskDone', 'WStopDone', 'WNotify']
OWNS = {'C01': ('C01_',), 'C02': ('C02_',), 'C03': ('C03_',)}


def _consts(n, w, configs, atomic=True, calls=1, interrupts=False):
    return {'N': n, 'W': w, 'AtomicPublish': atomic, 'Calls': calls, 'Configs': Raw('<- ' + configs), 'None': Raw('None'),
            'Interrupts': interrupts}


# ---------------------------------------------------------------------------
# model checking
# ---------------------------------------------------------------------------
def model_check(ctx, wd, name, n, w, configs, invariants, *, atomic=True, deadlock=True, properties=(), spec='Spec',
                expect_violation=None, coverage=True, timeout=1700, calls=1, interrupts=False):
    cfg = tlc.write_cfg(os.path.join(wd, name + '.cfg'), spec=spec, constants=_consts(n, w, configs, atomic, calls, interrupts),
                        invariants=invariants, properties=properties, deadlock=deadlock)
    res = tlc.run(_spec_for(configs), cfg, coverage=coverage, timeout=timeout)
    ctx.tlc(res, 'Sched/' + name)
    if expect_violation is not None:
        if not res.violation or res.violation[1] not in expect_violation:
            raise tlc.MachineryError('Sched/%s: expected TLC to violate %s, got %s' % (name, expect_violation, res.violation))
        return res
    if not res.ok:
        # the design itself is wrong (or the model is): replay the counterexample into the code
        raise ModelViolation(name, res)
    return res


class ModelViolation(Exception):
    def __init__(self, name, res):
        super().__init__('TLC: %s violated in Sched/%s' % (res.violation, name))
        self.name = name
        self.res = res


def handle_model_violation(ctx, mv, n, w):
    """TLC found the property false in the model: replay the counterexample on the code."""
    import schedrun
    beh = [(a, s) for a, s in mv.res.trace if s is not None]
    if not beh:
        raise tlc.MachineryError(str(mv))
    cfg = cfg_from_state(beh[0][1], n, w)
    mism, ex, trace = replay_behaviour(cfg, beh)
    bad = judge_traces(ctx, [trace], n, w)
    if bad:
        return   # reported as implementation violation by judge_traces
    raise tlc.MachineryError('%s, but the implementation does not reproduce the counterexample (model is wrong); '
                             'replay mismatch: %s' % (mv, mism))


# ---------------------------------------------------------------------------
# TLC state -> configuration; replay of a TLC behaviour
# ---------------------------------------------------------------------------
def F(x):
    """A TLC function value: sequences (domain 1..k) come back as tuples -> 1-based dict."""
    if isinstance(x, tuple):
        return {i + 1: v for i, v in enumerate(x)}
    return x


def cfg_from_state(st, n, w):
    st = {k: F(v) for k, v in st.items()}
    edges = []
    for (i, j), kd in sorted(st['kind'].items()):
        if kd != 'none':
            edges.append([i, j, kd])
    outcome = {str(t): st['outc'][t] for t in range(1, n + 1)}
    init = {str(t): st['st'][t] for t in range(1, n + 1) if st['st'][t] != 'ABSENT'} if st.get('mpc') == 'start' else {}
    return dict(n=n, workers=w, edges=edges, outcome=outcome, init=init)


def _thread_of(label):
    if label.startswith('M'):
        return 0
    if label.startswith('W') and '(' in label:
        return int(label[label.index('(') + 1:label.index(')')])
    return None


FIELDS = ('st', 'pay', 'clk', 'queue', 'unfinished', 'mpc', 'wpc', 'cvOwner', 'cvWaiting', 'cvNotified', 'execs')


def _state_proj(st, n, w):
    st = {k: (F(v) if k != 'queue' else v) for k, v in st.items()}
    seen = []
    for t in range(1, n + 1):
        s = F(st['seen'][t])
        seen.append([dict(d=d, st=s[d]['st'], pay=s[d]['pay'], clk=s[d]['clk'], ex=s[d]['ex']) for d in sorted(s)] if s else [])
    return dict(st=[st['st'][t] for t in range(1, n + 1)], pay=[st['pay'][t] for t in range(1, n + 1)],
                clk=[st['clk'][t] for t in range(1, n + 1)], queue=list(st['queue']), unfinished=st['unfinished'],
                mpc=st['mpc'], wpc=[st['wpc'][x] for x in range(1, w + 1)], cur=[st['cur'][x] for x in range(1, w + 1)],
                cvOwner=st['cvOwner'], cvWaiting=st['cvWaiting'], cvNotified=st['cvNotified'],
                execs=[st['execs'][t] for t in range(1, n + 1)], seen=seen)


def replay_behaviour(cfg, beh):
    """Force the schedule of a TLC behaviour on the real code; returns (first mismatch or None, execution, trace)."""
    import detsched
    import schedrun
    n, w = cfg['n'], cfg['workers']
    steps = []
    for label, st in beh[1:]:
        thr = _thread_of(label)
        if thr is None:
            break
        steps.append((thr, label, st))
    tids = []
    cur_call = 1
    for thr, label, st in steps:
        tids.append(thr if thr == 0 else thr + (cur_call - 1) * w)
        cur_call = st.get('call', cur_call)
    strat = detsched.Replay(tids, strict=False)
    ex, trace = schedrun.record(cfg, strat)
    mismatch = None
    model_order = list(F(beh[0][1]['order']).values()) if isinstance(F(beh[0][1]['order']), dict) else list(beh[0][1]['order'])
    if trace['cfg']['order'] != model_order and not _cyclic(cfg):
        return 'ORDER', ex, trace
    if strat.deviations and mismatch is None:
        pos, want, ids = strat.deviations[0]
        mismatch = 'step %d: model moves thread %d (%s) but only %s are enabled in the implementation' % (pos + 1, want, steps[pos][1], ids)
    if mismatch is None:
        for i, (thr, label, st) in enumerate(steps):
            if i >= len(trace['events']):
                mismatch = 'implementation finished after %d steps, model behaviour has %d' % (len(trace['events']), len(steps))
                break
            ev = trace['events'][i]
            exp = _state_proj(st, n, w)
            for f in FIELDS + ('seen',):
                if ev[f] != exp[f]:
                    mismatch = 'step %d (%s): %s is %s in the implementation, %s in the model' % (i + 1, label, f, ev[f], exp[f])
                    break
            if mismatch:
                break
            for x in range(w):
                if exp['wpc'][x] in ('dostart', 'publish', 'taskdone', 'notify') and ev['cur'][x] != exp['cur'][x]:
                    mismatch = 'step %d (%s): worker %d holds task %s, model %s' % (i + 1, label, x + 1, ev['cur'][x], exp['cur'][x])
            if mismatch:
                break
    return mismatch, ex, trace


def _cyclic(cfg):
    adj = {}
    for i, j, _k in cfg['edges']:
        adj.setdefault(i, set()).add(j)
    seen, stack = set(), set()

    def visit(u):
        if u in stack:
            return True
        if u in seen:
            return False
        seen.add(u)
        stack.add(u)
        r = any(visit(v) for v in adj.get(u, ()))
        stack.discard(u)
        return r
    return any(visit(u) for u in list(adj))


def simulate_and_replay(ctx, wd, name, n, w, configs, num, depth, seed, calls=1):
    """TLC -simulate -> behaviours -> forced on the implementation, state compared after every step."""
    sim = os.path.join(wd, 'sim_' + name)
    os.makedirs(sim, exist_ok=True)
    cfg = tlc.write_cfg(os.path.join(wd, name + '_sim.cfg'), constants=_consts(n, w, configs, calls=calls), deadlock=False)
    res = tlc.run(_spec_for(configs), cfg, workers=1, simulate=dict(num=num, file=os.path.join(sim, 'b')), depth=depth, seed=seed,
                  coverage=False, timeout=900)
    behs = tlc.read_sim_files(os.path.join(sim, 'b'))
    traces = []
    ndrift = 0
    for beh in behs:
        rcfg = cfg_from_state(beh[0][1], n, w)
        if calls != 1:
            rcfg['calls'] = calls
        mism, ex, trace = replay_behaviour(rcfg, beh)
        ctx.count(evaluations=1)
        if mism == 'ORDER':
            # the model chose another linear extension than the implementation's sort: not comparable step by step
            ctx.cov['replay_skipped_other_order'] = ctx.cov.get('replay_skipped_other_order', 0) + 1
        elif mism:
            ndrift += 1
            if ndrift <= 3:
                ctx.drift('replay of a TLC behaviour of Sched/%s: %s (cfg %s)' % (name, mism, json.dumps(rcfg)))
        traces.append(trace)
        ctx.distinct(('sim', json.dumps(rcfg, sort_keys=True), tuple(trace['schedule'])))
    for f in os.listdir(sim):
        os.remove(os.path.join(sim, f))
    return traces, ndrift


# ---------------------------------------------------------------------------
# exploration of the implementation and validation of the recorded traces by TLC
# ---------------------------------------------------------------------------
def random_cfg(rng, n, w, outcomes, inits=None, cyclic=False, p_edge=0.55, calls=1):
    edges = []
    for i in range(1, n + 1):
        for j in range(1, n + 1):
            if i == j or (not cyclic and j > i):
                continue
            if rng.random() < (p_edge if j < i else 0.12):
                edges.append([i, j, rng.choice(['hard', 'soft'])])
    cfg = dict(n=n, workers=w, edges=edges, outcome={str(i): rng.choice(outcomes) for i in range(1, n + 1)})
    if calls != 1:
        cfg['calls'] = calls
    if inits:
        cfg['init'] = {str(i): rng.choice(inits) for i in range(1, n + 1)}
        cfg['init'] = {k: v for k, v in cfg['init'].items() if v != 'ABSENT'}
    return cfg


def nested_cfg(rng, n, w, outcomes):
    """A configuration whose graphs contain nested DepGraph nodes (groups of 0, 1 or 2 tasks; an empty group only
    bridges its dependees to its dependencies).  Edges between units are hard or soft: the hard ones go into the hard
    graph, the soft ones into the soft graph, the same group object being a node of both.  The flat edges in cfg['edges']
    are derived here from the documented grafting rule (the terminal nodes of a group depend on the group's
    dependencies, the group's dependees depend on its initial nodes, an empty group is replaced by dependee ->
    dependency edges), applied to hard + soft for the full graph and to the hard edges alone for the hard graph --
    independently of the implementation's flatten()."""
    ids = list(range(1, n + 1))
    rng.shuffle(ids)
    ngroups = 1 if n < 4 or rng.random() < 0.4 else 2
    groups, pos = [], 0
    for _g in range(ngroups):
        size = rng.choice([0, 1, 2, 2, 2])
        groups.append(sorted(ids[pos:pos + size]))
        pos += size
    grouped = set(x for g in groups for x in g)
    intra = [[max(g), min(g)] for g in groups if len(g) == 2 and rng.random() < 0.6]   # the later task depends on the earlier
    units = ['g%d' % k for k in range(len(groups))] + ['t%d' % i for i in range(1, n + 1) if i not in grouped]
    unit_order = list(units)
    rng.shuffle(unit_order)                     # node order of the graph (a nested node need not be last)
    ranked = list(units)
    rng.shuffle(ranked)
    rank = {u: k for k, u in enumerate(ranked)}
    uedges = [[a, b, 'hard' if rng.random() < 0.7 else 'soft'] for a in units for b in units
              if rank[b] < rank[a] and rng.random() < 0.55]

    def members(u):
        return groups[int(u[1:])] if u[0] == 'g' else [int(u[1:])]

    def terminal(u):        # nodes of the unit that depend on nothing inside it (executed first)
        return [i for i in members(u) if not any(e[0] == i for e in intra if e[1] in members(u))]

    def initial(u):         # nodes of the unit nobody inside it depends on (executed last)
        return [i for i in members(u) if not any(e[1] == i for e in intra if e[0] in members(u))]

    def flat(pairs):
        """Task-level edges of the unit-level edges `pairs` once every group is grafted."""
        pairs = set(map(tuple, pairs))
        for e in [u for u in units if not members(u)]:
            ins = [a for a, b in pairs if b == e]
            outs = [b for a, b in pairs if a == e]
            pairs = set(p for p in pairs if e not in p) | set((a, b) for a in ins for b in outs)
        return set((i, j) for a, b in pairs for i in terminal(a) for j in initial(b))
    flat_hard = flat([(a, b) for a, b, k in uedges if k == 'hard'])
    flat_full = flat([(a, b) for a, b, _k in uedges])
    edges = [[i, j, 'hard'] for i, j in intra] + [[i, j, 'hard'] for i, j in sorted(flat_hard)]
    edges += [[i, j, 'soft'] for i, j in sorted(flat_full - flat_hard)]
    # soft edges between tasks, kept acyclic with the others by following the unit ranks
    trank = {i: rank[u] for u in units for i in members(u)}
    tsoft = []
    for i in range(1, n + 1):
        for j in range(1, n + 1):
            if trank[j] < trank[i] and rng.random() < 0.15 and not any(e[0] == i and e[1] == j for e in edges):
                edges.append([i, j, 'soft'])
                tsoft.append([i, j])
    return dict(n=n, workers=w, edges=edges, outcome={str(i): rng.choice(outcomes) for i in range(1, n + 1)},
                nested=dict(groups=groups, intra=intra, uedges=uedges, unit_order=unit_order, tsoft=tsoft))


def explore(ctx, cfgs, per_cfg, seed):
    """Seeded random + PCT schedules of the real code."""
    import detsched
    import schedrun
    traces = []
    for ci, cfg in enumerate(cfgs):
        for s in range(per_cfg):
            rng = random.Random((seed * 1000003 + ci) * 131 + s)
            strat = detsched.RandomStrategy(rng) if s % 3 else detsched.PCT(rng, depth=3, length=40 + 10 * cfg['n'])
            ex, trace = schedrun.record(cfg, strat)
            traces.append(trace)
            ctx.count(evaluations=1)
            ctx.distinct(('impl', json.dumps(cfg, sort_keys=True), tuple(trace['schedule'])))
    return traces


def master_private(ctl):
    """The master's private loop variables, read from its frames (diagnosis / DFS state caching only)."""
    m = ctl.threads[0]
    if m.finished or m.os_thread is None:
        return ('finished',)
    fr = sys._current_frames().get(m.os_thread.ident)
    out = []
    while fr is not None:
        name = fr.f_code.co_name
        if name == '_enqueue':
            loc = fr.f_locals
            if not all(k in loc for k in ('tasks', 'task', 'tasks_left', 'n_tasks')):
                return None         # the loop variables have other names: no state caching (plain DFS within the budget)
            task = loc.get('task')
            out.append(('enq', tuple(getattr(t, 'idx', 0) for t in loc.get('tasks', ())), getattr(task, 'idx', 0),
                        tuple(getattr(t, 'idx', 0) for t in loc.get('tasks_left', ())), loc.get('n_tasks')))
        elif name in ('_process_tasks', 'execute_tasks'):
            loc = fr.f_locals
            if name == '_process_tasks' and not all(k in loc for k in ('tasks_left', 'n_tasks_left')):
                return None
            out.append((name, tuple(getattr(t, 'idx', 0) for t in (loc.get('tasks_left') or ())), loc.get('n_tasks_left')))
        fr = fr.f_back
    return tuple(out) if out else None


class DfsStrategy:
    def __init__(self, prefix, visited, cache):
        self.prefix = prefix
        self.visited = visited
        self.cache = cache
        self.taken = []
        self.widths = []
        self.pruned = False
        self.last_events = None

    def choose(self, ctl, enabled):
        pos = len(self.taken)
        if pos >= len(self.prefix) and self.cache:
            rec = getattr(ctl, 'recorder_events', None)
            priv = master_private(ctl)
            if priv is None:
                self.cache = False
            else:
                ev = rec[-1] if rec else None
                key = (json.dumps(ev, sort_keys=True) if ev else '', priv, tuple(str(p) for p in ctl.pcs()))
                if pos > len(self.prefix) or pos == 0:
                    if key in self.visited:
                        self.pruned = True
                        return None
                self.visited.add(key)
        idx = self.prefix[pos] if pos < len(self.prefix) else 0
        if idx >= len(enabled):
            idx = 0
        self.taken.append(idx)
        self.widths.append(len(enabled))
        return enabled[idx][0]


def dfs_explore(ctx, cfg, max_execs):
    """Exhaustive DFS over the schedules of one configuration on the real code (state caching)."""
    import schedrun
    visited = set()
    stack = [[]]
    traces = []
    execs = 0
    complete = True
    while stack:
        if execs >= max_execs:
            complete = False
            break
        prefix = stack.pop()
        strat = DfsStrategy(prefix, visited, True)
        ex, trace = schedrun.record(cfg, strat, hook=lambda ctl, rec: setattr(ctl, 'recorder_events', rec.events))
        execs += 1
        for pos in range(len(strat.taken) - 1, len(prefix) - 1, -1):
            for alt in range(strat.widths[pos] - 1, 0, -1):
                stack.append(strat.taken[:pos] + [alt])
        if not strat.pruned:
            traces.append(trace)
            ctx.distinct(('dfs', json.dumps(cfg, sort_keys=True), tuple(trace['schedule'])))
        else:
            trace['pruned'] = True
            traces.append(trace)
        ctx.count(evaluations=1)
    return traces, len(visited), complete


def tlc_validate(ctx, wd, traces, n, w, strict, tag, calls=1, account=None):
    """Validate a batch of traces (same N, W) with TLC; returns (reached list, failing list).  account: a list that
    receives (result, name) instead of calling ctx.tlc here (batches are validated in parallel threads)."""
    tj = tlc.json_dump(os.path.join(wd, 'traces_%s.json' % tag), traces)
    oj = os.path.join(wd, 'out_%s.json' % tag)
    cfg = tlc.write_cfg(os.path.join(wd, 'trace_%s.cfg' % tag), spec='TSpec',
                        constants={'N': n, 'W': w, 'AtomicPublish': True, 'Calls': calls, 'Configs': Raw('{}'), 'None': Raw('None'), 'Strict': strict,
                                   'Interrupts': True},
                        deadlock=False, postcondition='Post')
    res = tlc.run(TRACE, cfg, workers=1, coverage=False, env=dict(VERIF_TRACES=tj, VERIF_OUT=oj), timeout=1700)
    if account is None:
        ctx.tlc(res, 'SchedTrace/%s/%s' % (tag, 'strict' if strict else 'observer'))
    else:
        account.append((res, 'SchedTrace/%s/%s' % (tag, 'strict' if strict else 'observer')))
    if not res.ok:
        raise tlc.MachineryError('SchedTrace %s: %s\n%s' % (tag, res.violation, res.out[-2000:]))
    with open(oj) as f:
        out = json.load(f)
    os.remove(tj)
    return out['reached'], out['failing']


def corrupted_twins(traces):
    """Binding self-test: corrupted copies of a recorded trace that the trace specification must not accept.
    Returns [(kind, trace)]: 'drop' = one event removed (strict mode must reject it), 'payload' = a dependent that
    saw its DONE dependency without payload (observer mode must report C01_PayloadVisible)."""
    import copy
    out = []
    for tr in traces:
        if tr.get('pruned') or tr['verdict'] != 'ok' or len(tr['events']) < 12:
            continue
        idx = [i for i, e in enumerate(tr['events']) if any(x.get('st') == 'DONE' and x.get('pay') == 2 for row in e['seen'] for x in row)]
        if not idx:
            continue
        t1 = copy.deepcopy(tr)
        del t1['events'][len(t1['events']) // 2]
        out.append(('drop', t1))
        t2 = copy.deepcopy(tr)
        for e in t2['events'][idx[0]:]:
            for row in e['seen']:
                for x in row:
                    if x.get('st') == 'DONE':
                        x['pay'] = 0
        out.append(('payload', t2))
        break
    return out


_JUDGE_LOCK = __import__('threading').Lock()


def judge_traces(ctx, traces, n, w, wd=None, tag='t', calls=1):
    """Property-level judgement (observer mode) + drift detection (strict mode) of recorded traces.
    Returns the number of traces violating an invariant owned by ctx.pid.  The two TLC runs touch nothing shared; the
    judgement and all accounting happen under a lock, so that batches can be handled by parallel threads."""
    wd = wd or tlc.workdir('schedtr')
    full = [t for t in traces if not t.get('pruned')]
    if not traces:
        return 0
    twins = corrupted_twins(traces) if hasattr(ctx, 'cov') and isinstance(getattr(ctx, 'cov', None), dict) and 'tlc_runs' in ctx.cov else []
    drops = [t for k, t in twins if k == 'drop']
    acc = []
    obs_out = tlc_validate(ctx, wd, traces + [t for _, t in twins], n, w, False, tag + 'o', calls, account=acc)
    strict_out = tlc_validate(ctx, wd, full + drops, n, w, True, tag + 's', calls, account=acc)
    with _JUDGE_LOCK:
        for res, name in acc:
            ctx.tlc(res, name)
        return _judge(ctx, traces, full, twins, drops, obs_out, strict_out)


def _judge(ctx, traces, full, twins, drops, obs_out, strict_out):
    nbad = 0
    # observer: invariants on implementation states
    reached, failing = obs_out
    for (kind, tw), fl in zip(twins, failing[len(traces):]):
        if kind == 'payload' and 'C01_PayloadVisible' not in fl:
            raise tlc.MachineryError('binding self-test: SchedTrace (observer) accepts a trace in which a dependent saw its DONE dependency '
                                     'without payload')
    if twins:
        ctx.cov['corrupted_traces_rejected'] = ctx.cov.get('corrupted_traces_rejected', 0) + 1
    reached, failing = reached[:len(traces)], failing[:len(traces)]
    owns = OWNS[ctx.pid]
    for tr, r, fl in zip(traces, reached, failing):
        if r != len(tr['events']) + 2:
            raise tlc.MachineryError('observer mode did not consume a trace completely (%d of %d)' % (r, len(tr['events'])))
        names = set(fl)
        if tr.get('pruned'):
            names.discard('C03_NotTerminated')
        if tr['verdict'] in ('deadlock', 'leak', 'steplimit') and not tr.get('pruned'):
            names.add('C03_' + tr['verdict'])
        mine = sorted(x for x in names if x.startswith(owns))
        if mine:
            nbad += 1
            key = '%s/%s/%s' % (ctx.pid, '+'.join(mine), classify(tr))
            ctx.violation(key, 'invariants %s of Sched.tla are false on a recorded execution of the real scheduler '
                          '(verdict %s, master raised %r)' % (mine, tr['verdict'], tr['raised']),
                          dict(cfg=tr['cfg'], schedule=tr['schedule'], failing=mine), module='conf_sched')
    # strict: does the implementation still follow the implementation-level model?
    reached, _ = strict_out
    for tw, r in zip(drops, reached[len(full):]):
        if r == len(tw['events']) + 2:
            raise tlc.MachineryError('binding self-test: SchedTrace (strict) accepts a trace with one event removed')
        ctx.cov['corrupted_traces_rejected'] = ctx.cov.get('corrupted_traces_rejected', 0) + 1
    reached = reached[:len(full)]
    ndrift = 0
    for tr, r in zip(full, reached):
        if r != len(tr['events']) + 2 and tr['verdict'] == 'ok':
            ndrift += 1
            if ndrift <= 2:
                ev = tr['events'][r - 1] if r - 1 < len(tr['events']) else None
                ctx.drift('SchedTrace (strict) rejects event %d of a recorded execution: %s' % (
                    r, json.dumps({k: ev[k] for k in ('thr', 'op', 'mpc', 'wpc', 'st')}) if ev else 'end'))
    ctx.count(traces=len(traces))
    ctx.cov['drift_traces'] = ctx.cov.get('drift_traces', 0) + ndrift
    return nbad


def classify(tr):
    """Finding class of a violating trace (coarse: what kind of configuration it needs)."""
    c = tr['cfg']
    mal = sorted(set(c['outcome']) & {'none', 'notpair', 'badstatus', 'badupdate', 'nonfinal'})
    inits = sorted(set(c['init']) - {'ABSENT'})
    cyc = _cyclic(dict(edges=c['edges']))
    verdict = 'ok' if tr['verdict'] in ('ok', 'pruned') else tr['verdict']
    key = 'malformed=%s;init=%s;%s;verdict=%s' % ('yes' if mal else 'no', 'nonempty' if inits else 'empty',
                                                  'cyclic' if cyc else 'dag', verdict)
    if c.get('opaque'):
        # some updates carried objects that are not data (schedrun.OPAQUE_KINDS)
        # (two classes: objects that cannot be copied / pickled / compared, and those that cannot be printed either)
        key += '/opaque-leaf' + ('-unprintable' if c['opaque']['kind'] == 'norepr' else '')
    return key


def replay_case(case):
    import detsched
    import schedrun
    c = case['cfg']
    cfg = dict(n=c['n'], workers=c['workers'], edges=c['edges'], outcome={str(i + 1): o for i, o in enumerate(c['outcome'])},
               init={str(i + 1): s for i, s in enumerate(c['init']) if s != 'ABSENT'}, calls=c.get('calls', 1))
    if c.get('nested'):
        cfg['nested'] = c['nested']
    if c.get('prior'):
        cfg['prior'] = c['prior']
    if c.get('interrupt'):
        cfg['interrupt'] = c['interrupt']
    if c.get('falsy'):
        cfg['falsy'] = c['falsy']
    if c.get('opaque'):
        cfg['opaque'] = c['opaque']
    if c.get('outcome_real'):
        cfg['outcome'] = {str(i + 1): o for i, o in enumerate(c['outcome_real'])}
    ex, trace = schedrun.record(cfg, detsched.Replay(case['schedule']))

    class _Ctx:
        pid = case['failing'][0][:3]
        cov = {}

        def __init__(self):
            self.v = []

        def tlc(self, *a):
            pass

        def count(self, **k):
            pass

        def drift(self, *a):
            pass

        def violation(self, key, what, case_, module=None):
            self.v.append((key, what))
    fake = _Ctx()
    judge_traces(fake, [trace], c['n'], c['workers'], calls=c.get('calls', 1))
    if fake.v:
        return False, fake.v[0][1]
    return True, 'the recorded schedule no longer violates %s' % case['failing']


# ---------------------------------------------------------------------------
# the three checks
# ---------------------------------------------------------------------------
def _witnesses(ctx, wd, wits, n, w, configs):
    for wit in wits:
        calls = 1
        if isinstance(wit, tuple):
            if len(wit) == 5:
                wit, n, w, configs, calls = wit
            else:
                wit, n, w, configs = wit
        cfg = tlc.write_cfg(os.path.join(wd, wit + '.cfg'), constants=_consts(n, w, configs, calls=calls), invariants=[wit], deadlock=False)
        res = tlc.run(_spec_for(configs), cfg, coverage=False, timeout=900)
        ctx.tlc(res, 'Sched/witness/' + wit)
        if res.violation != ('invariant', wit):
            raise tlc.MachineryError('witness %s is not reachable in Sched.tla (vacuous model?)' % wit)


def _tick(ctx, what, _t=[None]):
    now = time.time()
    if _t[0] is not None:
        ctx.cov.setdefault('phases_s', {})[what] = round(now - _t[0], 1)
        if os.environ.get('VERIF_VERBOSE'):
            print('  phase %-30s %.1fs' % (what, now - _t[0]), flush=True)
    _t[0] = now


def _common(ctx, invs, mc_runs, witnesses, impl_plan, sim_plan, dfs_plan):
    import schedrun
    schedrun.load()
    _tick(ctx, 'start')
    wd = tlc.workdir('sched')
    ctx.assume('context switches only at lock acquisitions / blocking operations (all shared state of the backend is '
               'protected by the environment lock, the queue or the condition variable, or is one GIL-atomic dict operation)')
    ctx.assume('time.time() replaced by a logical clock; probe tasks read their dependencies at the first instruction of do()')
    ctx.assume('logging disabled (with DEBUG logging _enqueue takes one more lock acquisition per task)')
    for name, n, w, configs, kw in mc_runs:
        try:
            res = model_check(ctx, wd, name, n, w, configs, invs + ['TypeOK'], **kw)
            if kw.get('coverage', True):
                tlc.check_coverage(res, [a for a in ACTIONS if not (a == 'MWake' and n == 1)], 'Sched/' + name)
        except ModelViolation as mv:
            handle_model_violation(ctx, mv, n, w)
    _tick(ctx, 'model checking')
    _witnesses(ctx, wd, witnesses, 3 if not ctx.quick else 2, 2, 'MC_DagEmpty3' if not ctx.quick else 'MC_DagEmptyAll')
    # negative self-test of the model: the pre-fix publication order must break C01
    model_check(ctx, wd, 'selftest_nonatomic', 2, 2, 'MC_DagEmpty3', ['C01_PayloadVisible'], atomic=False,
                expect_violation=['C01_PayloadVisible'], coverage=False)
    _tick(ctx, 'witnesses + selftest')
    # spec -> code
    all_groups = {}
    for item in sim_plan:
        name, n, w, configs, num, depth = item[:6]
        calls = item[6] if len(item) > 6 else 1
        traces, ndrift = simulate_and_replay(ctx, wd, name, n, w, configs, num, depth, ctx.seed + 1, calls=calls)
        all_groups.setdefault((n, w, calls), []).extend(traces)
        ctx.cov['replayed_behaviours'] = ctx.cov.get('replayed_behaviours', 0) + len(traces)
        ctx.cov['replay_mismatches'] = ctx.cov.get('replay_mismatches', 0) + ndrift
    _tick(ctx, 'simulate + replay')
    # code -> spec
    for item in impl_plan:
        n, w, outcomes, inits, cyclic, ncfg, per = item[:7]
        calls = item[7] if len(item) > 7 else 1
        rng = random.Random(ctx.seed * 7919 + n * 31 + w + 1000 * calls)
        if cyclic == 'nested':
            cfgs = [nested_cfg(rng, n, w, outcomes) for _ in range(ncfg)]
        elif cyclic == 'falsy':
            # some task objects are falsy (a task class with __len__, empty): only do() is required of a task
            cfgs = []
            for _ in range(ncfg):
                cfg = random_cfg(rng, n, w, outcomes, inits, False, calls=calls)
                cfg['falsy'] = sorted(rng.sample(range(1, n + 1), rng.randint(1, n)))
                cfgs.append(cfg)
        elif cyclic == 'interrupt':
            # an exception is delivered to the master at one of its scheduling points (see schedrun.execute)
            cfgs = []
            for _ in range(ncfg):
                cfg = random_cfg(rng, n, w, outcomes, inits, False, calls=calls)
                cfg['interrupt'] = rng.randint(1, 6 + 4 * n)
                cfgs.append(cfg)
        elif cyclic == 'prior':
            # the backend object (and the task objects) served another graph before: see schedrun.execute
            cfgs = []
            for _ in range(ncfg):
                cfg = random_cfg(rng, n, w, outcomes, inits, False, calls=calls)
                other = random_cfg(rng, n, w, ['ok', 'ok', 'fail'], None, False, p_edge=rng.choice([0.0, 0.3, 0.6]))
                cfg['prior'] = dict(edges=other['edges'], outcome=other['outcome'])
                cfgs.append(cfg)
        else:
            cfgs = [random_cfg(rng, n, w, outcomes, inits, cyclic, calls=calls) for _ in range(ncfg)]
        # payload flavour, rotating over the configurations of every mode: every third configuration has tasks whose
        # update (and DONE entry of the initial environment) carries opaque leaves -- objects that are not data (a real
        # lock, a generator, a falsy handle that cannot be copied / pickled / compared / printed), see schedrun.OPAQUE_KINDS.
        # A generator of its own: the configurations themselves stay what they were.
        orng = random.Random((ctx.seed * 7919 + n * 31 + w + 1000 * calls) * 2 + 1)
        for k, cfg in enumerate(cfgs):
            if k % 3 == 1:
                cfg['opaque'] = dict(kind=schedrun.OPAQUE_KINDS[(k // 3 + n + w) % len(schedrun.OPAQUE_KINDS)],
                                     tasks=sorted(orng.sample(range(1, n + 1), orng.randint(1, n))))
        all_groups.setdefault((n, w, calls), []).extend(explore(ctx, cfgs, per, ctx.seed))
    _tick(ctx, 'random/PCT exploration')
    for cfg, budget in dfs_plan:
        traces, nstates, complete = dfs_explore(ctx, cfg, budget)
        all_groups.setdefault((cfg['n'], cfg['workers'], cfg.get('calls', 1)), []).extend(traces)
        ctx.cov.setdefault('dfs', []).append(dict(cfg=cfg, executions=len(traces), distinct_states=nstates, complete=complete))
    _tick(ctx, 'DFS exploration')
    batches = [(traces[k:k + 1000], n, w, calls, k) for (n, w, calls), traces in sorted(all_groups.items())
               for k in range(0, len(traces), 1000)]
    from concurrent.futures import ThreadPoolExecutor
    with ThreadPoolExecutor(max_workers=5) as tp:      # each batch = two single-worker TLC runs; the judgement is serialised
        list(tp.map(lambda b: judge_traces(ctx, b[0], b[1], b[2], wd, tag='n%dw%dc%d_%d' % (b[1], b[2], b[3], b[4]), calls=b[3]), batches))
    _tick(ctx, 'trace validation by TLC')
    smp = next(iter(all_groups.values()))[0] if all_groups else None
    if smp:
        ctx.sample(dict(cfg=smp['cfg'], schedule=smp['schedule'], verdict=smp['verdict'], last_event=smp['events'][-1] if smp['events'] else None))
    ctx.cov['exhaustive'] = True
    ctx.cov['explanation'] = ('exhaustive (every interleaving) for the TLC configurations listed in tlc_runs; the exploration of the '
                              'implementation is exhaustive only for the DFS configurations marked complete in coverage.dfs, sampled elsewhere')
    ctx.rule('model: TLC enumerates every interleaving of Sched.tla for all configurations of tlc_runs; spec->code: simulated '
             'TLC behaviours forced on the real scheduler with state comparison after each step; code->spec: random/PCT/DFS '
             'schedules of the real scheduler validated by TLC (SchedTrace strict + observer). distinct_nontrivial = distinct '
             '(configuration, schedule) pairs executed on the implementation.')


OUT_ALL = ['ok', 'fail', 'raise', 'none', 'notpair', 'badstatus', 'badupdate', 'nonfinal']
CHAIN3 = dict(n=3, workers=2, edges=[[2, 1, 'hard'], [3, 2, 'soft']], outcome={})
DIAMOND = dict(n=4, workers=2, edges=[[2, 1, 'hard'], [3, 1, 'soft'], [4, 2, 'hard'], [4, 3, 'hard']], outcome={'3': 'raise'})
PAIR = dict(n=2, workers=2, edges=[[2, 1, 'hard']], outcome={})
# a DONE task of an earlier run whose hard dependency must run again and whose soft dependency is slow
REUSE = dict(n=3, workers=2, edges=[[3, 1, 'hard'], [3, 2, 'soft']], outcome={}, init={'3': 'DONE'})
# a DONE task of an earlier run in the middle of a chain, its own dependency to be run (again): its dependent must wait for both
STALE = dict(n=3, workers=2, edges=[[2, 1, 'hard'], [3, 2, 'soft']], outcome={}, init={'2': 'DONE'})


def run_c01(ctx):
    q = ctx.quick
    mc = [('c01_n2w2_all', 2, 2, 'MC_DagEmptyAll', {}),
          ('c01_n2w2_init', 2, 2, 'MC_DagInit', {}),
          ('c01_n3w2', 3, 2, 'MC_DagEmpty3', {})]
    if not q:
        mc += [('c01_n3w3', 3, 3, 'MC_DagEmpty3', {}), ('c01_n3w2_mal', 3, 2, 'MC_DagEmptyMal', {}),
               ('c01_n3w2_initdone', 3, 2, 'MC_DagInitDone', {}), ('c01_n3w1', 3, 1, 'MC_DagEmptyAll', {}),
               ('c01_n4w2_ok', 4, 2, 'MC_DagOk', {})]
    _common(ctx, INV_C01, mc, ['W_DecideDuringPub', 'W_TwoRunning', 'W_WaitReached'],
            impl_plan=[(3, 2, OUT_ALL, None, False, ctx.pick(25, 120), ctx.pick(12, 30)),
                       (4, 3, OUT_ALL + ['reshape'], ['ABSENT', 'DONE'], False, ctx.pick(15, 80), ctx.pick(10, 30)),
                       (5, 4, ['ok', 'ok', 'fail', 'raise'], None, False, ctx.pick(8, 40), ctx.pick(8, 25)),
                       (8, 5, ['ok', 'ok', 'ok', 'fail', 'raise', 'none'], None, False, ctx.pick(4, 40), ctx.pick(5, 15)),
                       (4, 2, ['ok', 'ok', 'fail'], None, 'nested', ctx.pick(25, 120), ctx.pick(6, 15)),
                       (5, 3, ['ok', 'ok', 'raise'], None, 'nested', ctx.pick(15, 80), ctx.pick(6, 15)),
                       (3, 2, ['ok', 'ok', 'fail'], None, 'falsy', ctx.pick(10, 50), ctx.pick(4, 10))],
            sim_plan=[('c01sim_n3w2', 3, 2, 'MC_DagEmpty3', ctx.pick(250, 2500), 60),
                      ('c01sim_n2w2', 2, 2, 'MC_DagInit', ctx.pick(100, 800), 50)],
            dfs_plan=[(PAIR, ctx.pick(1500, 40000)), (REUSE, ctx.pick(1500, 15000)), (STALE, ctx.pick(800, 15000))] + ([] if q else [(CHAIN3, 15000)]))
    # the merge performed by Env.apply: what 'the complete update is readable' rests on
    import conf_envops
    ctx.extra('EnvOps', conf_envops.run, tlc.workdir('c01envops'), 'C01')


def run_c02(ctx):
    q = ctx.quick
    mc = [('c02_n2w2_all', 2, 2, 'MC_DagEmptyAll', {}),
          ('c02_n2w1_all', 2, 1, 'MC_DagEmptyAll', {}),
          ('c02_n3w2', 3, 2, 'MC_DagEmpty3', {})]
    if not q:
        mc += [('c02_n3w3', 3, 3, 'MC_DagEmpty3', {}), ('c02_n3w2_mal', 3, 2, 'MC_DagEmptyMal', {}), ('c02_n3w1_all', 3, 1, 'MC_DagEmptyAll', {}),
               ('c02_n4w2', 4, 2, 'MC_DagEmpty2', dict(coverage=False, timeout=3000))]
    _common(ctx, INV_C02, mc, ['W_Skipped', 'W_WaitReached'],
            impl_plan=[(3, 2, OUT_ALL, None, False, ctx.pick(30, 150), ctx.pick(10, 25)),
                       (3, 1, OUT_ALL, None, False, ctx.pick(15, 60), ctx.pick(4, 10)),
                       (4, 3, OUT_ALL, None, False, ctx.pick(20, 100), ctx.pick(10, 25)),
                       (5, 2, OUT_ALL, None, False, ctx.pick(8, 40), ctx.pick(8, 25)),
                       (8, 4, OUT_ALL, None, False, ctx.pick(4, 40), ctx.pick(5, 15)),
                       (4, 2, OUT_ALL, None, 'nested', ctx.pick(15, 80), ctx.pick(5, 12)),
                       (3, 2, ['ok', 'ok', 'fail', 'raise'], None, 'prior', ctx.pick(20, 100), ctx.pick(4, 10)),
                       (4, 3, ['ok', 'ok', 'fail', 'none'], None, 'prior', ctx.pick(10, 60), ctx.pick(4, 10)),
                       (3, 2, ['ok', 'ok', 'fail'], None, 'falsy', ctx.pick(12, 60), ctx.pick(4, 10)),      # falsy task objects (round 5: the outcome map must not depend on bool(task))
                       (4, 3, ['ok', 'ok', 'raise'], None, 'falsy', ctx.pick(8, 40), ctx.pick(4, 10))],
            sim_plan=[('c02sim_n3w2', 3, 2, 'MC_DagEmptyMal', ctx.pick(250, 2500), 60)],
            dfs_plan=[(dict(PAIR, outcome={'1': 'badstatus'}), ctx.pick(1500, 40000))] + ([] if q else [(DIAMOND, 15000)]))
    import conf_decide
    conf_decide.run(ctx, tlc.workdir('c02decide'), 'C02')


def run_c03(ctx):
    q = ctx.quick
    mc = [('c03_n2w2_any', 2, 2, 'MC_AnyInit', {}),
          ('c03_n2w2_init', 2, 2, 'MC_DagInit', {}),
          ('c03_n3w2', 3, 2, 'MC_DagEmpty3', {}),
          ('c03_n2w2_twice', 2, 2, 'MC_DagInitDone', dict(calls=2)),
          ('c03_n2w2_interrupted', 2, 2, 'MC_DagEmptyAll', dict(interrupts=True)),
          ('c03_live_n2w2', 2, 2, 'MC_DagEmptyAll', dict(spec='FairSpec', properties=['C03_Terminates'], coverage=False))]
    if not q:
        mc += [('c03_n3w2_any', 3, 2, 'MC_AnyEmpty', {}), ('c03_n3w3', 3, 3, 'MC_DagEmpty3', {}),
               ('c03_n3w2_mal', 3, 2, 'MC_DagEmptyMal', {}), ('c03_n3w2_init', 3, 2, 'MC_DagInit', {}), ('c03_n4w2_ok', 4, 2, 'MC_DagOk', {}),
               ('c03_n3w2_interrupted', 3, 2, 'MC_DagEmpty3', dict(interrupts=True)),
               ('c03_live_n2w2_interrupted', 2, 2, 'MC_DagEmptyAll', dict(spec='FairSpec', properties=['C03_Terminates'], coverage=False, interrupts=True)),
               ('c03_live_n3w2', 3, 2, 'MC_DagEmpty3', dict(spec='FairSpec', properties=['C03_Terminates'], coverage=False))]
    _common(ctx, INV_C03, mc, [('W_Raised', 2, 2, 'MC_AnyInit'), 'W_WaitReached', 'W_NotifyNobody', ('W_SecondCall', 2, 2, 'MC_DagInitDone', 2)],
            impl_plan=[(3, 2, OUT_ALL + ['reshape'], ['ABSENT', 'ABSENT', 'DONE', 'FAILED', 'SKIPPED'], True, ctx.pick(30, 150), ctx.pick(10, 25)),
                       (4, 3, OUT_ALL + ['reshape', 'reshape'], ['ABSENT', 'DONE'], True, ctx.pick(15, 80), ctx.pick(10, 25)),
                       (2, 1, OUT_ALL, ['ABSENT', 'DONE', 'FAILED'], True, ctx.pick(15, 40), ctx.pick(4, 8)),
                       (5, 4, OUT_ALL, None, False, ctx.pick(8, 40), ctx.pick(8, 25)),
                       (3, 2, ['ok', 'ok', 'fail', 'badstatus'], ['ABSENT', 'DONE'], False, ctx.pick(15, 60), ctx.pick(6, 15), 2),
                       (3, 2, ['ok', 'ok', 'fail', 'raise'], None, 'interrupt', ctx.pick(40, 200), ctx.pick(6, 12)),
                       (3, 2, ['ok', 'ok', 'fail'], None, 'falsy', ctx.pick(15, 80), ctx.pick(4, 10)),
                       (4, 3, ['ok', 'ok', 'ok', 'none'], ['ABSENT', 'DONE'], 'interrupt', ctx.pick(20, 100), ctx.pick(6, 12))],
            sim_plan=[('c03sim_n2w2', 2, 2, 'MC_AnyInit', ctx.pick(200, 2000), 50),
                      ('c03sim_twice', 2, 2, 'MC_DagInitDone', ctx.pick(100, 800), 80, 2)],
            dfs_plan=[(dict(PAIR, outcome={'1': 'notpair'}), ctx.pick(1500, 40000))] + ([] if q else [(CHAIN3, 15000)]))
    real_thread_drivers(ctx)


# ---------------------------------------------------------------------------
# C03: leaked non-daemon threads only bite at interpreter exit -> real-thread drivers in a subprocess
# ---------------------------------------------------------------------------
DRIVER = r'''
import sys, json, logging
sys.path.insert(0, %(repo)r)
import warnings; warnings.filterwarnings('ignore')
logging.disable(logging.CRITICAL)
from valjean.cosette.task import Task, TaskStatus
from valjean.cosette.depgraph import DepGraph
from valjean.cosette.scheduler import Scheduler
from valjean.cosette.backends.queue import QueueScheduling
from valjean.cosette.env import Env
case = json.loads(%(case)r)
class P(Task):
    def __init__(self, name, out):
        super().__init__(name); self.out = out
    def do(self, env, config):
        o = self.out
        if o == 'ok' and case.get('opaque'):
            # results that are not data: objects that can only be handed on by reference
            import threading
            return {self.name: {'x': 1, 'lock': threading.Lock(), 'res': {'lock': threading.Lock(), 'gen': (x for x in ())}}}, TaskStatus.DONE
        if o == 'ok': return {self.name: {'x': 1}}, TaskStatus.DONE
        if o == 'fail': return {self.name: {'x': 1}}, TaskStatus.FAILED
        if o == 'raise': raise RuntimeError('boom')
        if o == 'none': return None
        if o == 'notpair': return (1, 2, 3)
        if o == 'badstatus': return {}, 'nope'
        if o == 'badupdate': return 42, TaskStatus.DONE
        if o == 'nonfinal': return {self.name: {'x': 1}}, TaskStatus.PENDING
ts = {i: P('t%%d' %% i, case['outcome'].get(str(i), 'ok')) for i in range(1, case['n'] + 1)}
hard = {ts[i]: [] for i in ts}; soft = {ts[i]: [] for i in ts}
for i, j, k in case['edges']:
    (hard if k == 'hard' else soft)[ts[i]].append(ts[j])
env = Env({'t%%s' %% k: {'status': getattr(TaskStatus, v)} for k, v in case.get('init', {}).items()})
s = Scheduler(hard_graph=DepGraph.from_dependency_dictionary(hard), soft_graph=DepGraph.from_dependency_dictionary(soft),
              backend=QueueScheduling(n_workers=case['workers']))
try:
    for _ in range(case.get('calls', 1)):
        s.schedule(env=env)
    print('RETURNED')
except Exception as ex:
    print('RAISED', type(ex).__name__)
sys.stdout.flush()
'''


def real_thread_drivers(ctx):
    cases = [dict(n=3, workers=3, edges=[[2, 1, 'hard'], [3, 2, 'hard']], outcome={}),
             dict(n=2, workers=2, edges=[[2, 1, 'hard'], [1, 2, 'soft']], outcome={}),
             dict(n=2, workers=2, edges=[[2, 1, 'hard']], outcome={'1': 'notpair'}),
             dict(n=2, workers=2, edges=[[2, 1, 'hard']], outcome={'1': 'badstatus'}),
             dict(n=2, workers=1, edges=[[2, 1, 'soft']], outcome={'1': 'badupdate'}),
             dict(n=2, workers=2, edges=[[2, 1, 'hard']], outcome={}, init={'1': 'FAILED'}),
             dict(n=2, workers=2, edges=[[2, 1, 'hard']], outcome={'1': 'nonfinal'}),
             dict(n=2, workers=2, edges=[[2, 1, 'hard']], outcome={}, calls=2),
             dict(n=3, workers=2, edges=[[2, 1, 'hard'], [3, 1, 'soft']], outcome={}, opaque=True)]
    import core
    procs = []
    for case in cases:
        src = DRIVER % dict(repo=core.REPO, case=json.dumps(case))
        procs.append((case, subprocess.Popen([sys.executable, '-W', 'ignore', '-c', src], stdout=subprocess.PIPE,
                                             stderr=subprocess.PIPE, text=True)))
    for case, p in procs:
        try:
            out, err = p.communicate(timeout=60)
            came_back = 'RETURNED' in out or 'RAISED' in out
            ok = came_back and p.returncode == 0
            detail = out.strip() or err.strip()[-300:]
        except subprocess.TimeoutExpired:
            p.kill()
            out, err = p.communicate()
            ok = False
            detail = 'process still alive after 60 s (expected < 1 s); output so far: %r' % (out.strip(),)
        ctx.count(evaluations=1)
        if not ok:
            kinds = sorted(set(case['outcome'].values())) or ['ok']
            key = 'C03/real-threads-process-does-not-exit/outcomes=%s;init=%s;%s' % (
                ','.join(kinds), ','.join(sorted(set((case.get('init') or {}).values()))) or 'empty',
                'cyclic' if _cyclic(case) else 'dag') + ('/opaque-leaf' if case.get('opaque') else '')
            ctx.violation(key, 'driver process with stock threading did not come back / exit: %s' % detail,
                          dict(real_threads=case), module='conf_sched', fn='replay_real')
    ctx.cov['real_thread_drivers'] = len(cases)


def replay_real(case):
    class _C:
        def __init__(self):
            self.v = []
            self.cov = {}

        def count(self, **k):
            pass

        def violation(self, key, what, c, module=None, fn=None):
            self.v.append(what)
    c = _C()
    global _ONE
    src = DRIVER % dict(repo=__import__('core').REPO, case=json.dumps(case['real_threads']))
    p = subprocess.Popen([sys.executable, '-W', 'ignore', '-c', src], stdout=subprocess.PIPE, stderr=subprocess.PIPE, text=True)
    try:
        out, _ = p.communicate(timeout=60)
        return ('RETURNED' in out or 'RAISED' in out) and p.returncode == 0, out.strip()
    except subprocess.TimeoutExpired:
        p.kill()
        return False, 'process still alive after 60 s'
