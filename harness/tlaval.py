"""TLA+ value text <-> Python values.

Python representation:
  integers, booleans, strings  -> int, bool, str
  sets                         -> frozenset
  sequences / tuples           -> tuple
  records, functions           -> FrozenDict (hashable dict); record keys are str
  model values / identifiers   -> MV(name)
`to_tla` prints a Python value as a TLA+ expression (dict -> record if all keys
are identifier-like strings, otherwise a function built with :> and @@).
"""
import re


class FrozenDict(dict):
    __slots__ = ('_h',)

    def __hash__(self):
        try:
            return self._h
        except AttributeError:
            self._h = hash(frozenset(self.items()))
            return self._h

    def _ro(self, *a, **k):
        raise TypeError('FrozenDict is read-only')
    __setitem__ = __delitem__ = clear = pop = popitem = setdefault = update = _ro


class MV(str):
    """A TLA+ model value / bare identifier."""
    def __repr__(self):
        return 'MV(%s)' % str.__repr__(self)


_TOKEN = re.compile(r'''
    \s*(?:
      (?P<int>-?\d+)
    | (?P<str>"(?:[^"\\]|\\.)*")
    | (?P<op><<|>>|\|->|:>|@@|\.\.|[{}\[\](),])
    | (?P<id>[A-Za-z_][A-Za-z0-9_!]*)
    )''', re.X)


class _P:
    def __init__(self, text, pos=0):
        self.t = text
        self.i = pos
        self.peeked = None

    def next(self):
        if self.peeked is not None:
            tok, self.peeked = self.peeked, None
            return tok
        m = _TOKEN.match(self.t, self.i)
        if not m:
            if self.t[self.i:].strip() == '':
                return ('eof', None)
            return ('other', None)
        self.i = m.end()
        kind = m.lastgroup
        return (kind, m.group(kind))

    def peek(self):
        if self.peeked is None:
            self.peeked = self.next()
        return self.peeked

    def expect(self, op):
        tok = self.next()
        if tok != ('op', op):
            raise ValueError('expected %r got %r at %d: %r' % (op, tok, self.i, self.t[max(0, self.i - 30):self.i + 30]))

    def value(self):
        v = self.atom()
        if self.peek() == ('op', '..'):
            self.next()
            hi = self.atom()
            return frozenset(range(v, hi + 1))
        return v

    def atom(self):
        kind, s = self.next()
        if kind == 'int':
            return int(s)
        if kind == 'str':
            return _unescape(s[1:-1])
        if kind == 'id':
            if s == 'TRUE':
                return True
            if s == 'FALSE':
                return False
            return MV(s)
        if kind == 'op':
            if s == '{':
                items = self.seq('}')
                return frozenset(items)
            if s == '<<':
                return tuple(self.seq('>>'))
            if s == '[':
                d = {}
                if self.peek() == ('op', ']'):
                    self.next()
                    return FrozenDict(d)
                while True:
                    k = self.next()
                    if k[0] != 'id':
                        raise ValueError('record field expected, got %r' % (k,))
                    self.expect('|->')
                    d[str(k[1])] = self.value()
                    tok = self.next()
                    if tok == ('op', ']'):
                        break
                    if tok != ('op', ','):
                        raise ValueError('expected , or ] got %r' % (tok,))
                return FrozenDict(d)
            if s == '(':
                d = {}
                while True:
                    k = self.value()
                    self.expect(':>')
                    d[k] = self.value()
                    tok = self.next()
                    if tok == ('op', ')'):
                        break
                    if tok != ('op', '@@'):
                        raise ValueError('expected @@ or ) got %r' % (tok,))
                return FrozenDict(d)
        raise ValueError('unexpected token %r at %d' % ((kind, s), self.i))

    def seq(self, close):
        items = []
        if self.peek() == ('op', close):
            self.next()
            return items
        while True:
            items.append(self.value())
            tok = self.next()
            if tok == ('op', close):
                return items
            if tok != ('op', ','):
                raise ValueError('expected , or %s got %r at %d' % (close, tok, self.i))


def _unescape(s):
    return s.replace('\\"', '"').replace('\\\\', '\\').replace('\\n', '\n').replace('\\t', '\t')


def parse_value(text):
    p = _P(text)
    v = p.value()
    if p.next()[0] != 'eof':
        raise ValueError('trailing text after TLA+ value: %r' % text[p.i:p.i + 40])
    return v


_CONJ = re.compile(r'\s*(?:/\\)?\s*([A-Za-z_][A-Za-z0-9_]*)\s*=\s*')


def parse_state(text):
    """Parse a TLC state `/\\ x = v /\\ y = w` (one conjunct per variable)."""
    out = {}
    i = 0
    n = len(text)
    while True:
        m = _CONJ.match(text, i)
        if not m:
            if text[i:].strip() == '':
                return out
            raise ValueError('bad state text at %d: %r' % (i, text[i:i + 60]))
        p = _P(text, m.end())
        out[m.group(1)] = p.value()
        if p.peeked is not None and p.peeked[0] not in ('other', 'eof'):
            raise ValueError('unexpected token after value of %s' % m.group(1))
        i = p.i
        if i >= n:
            return out


_IDENT = re.compile(r'^[A-Za-z_][A-Za-z0-9_]*$')


def to_tla(v):
    if isinstance(v, bool):
        return 'TRUE' if v else 'FALSE'
    if isinstance(v, MV):
        return str(v)
    if isinstance(v, int):
        return str(v)
    if isinstance(v, str):
        return '"' + v.replace('\\', '\\\\').replace('"', '\\"').replace('\n', '\\n') + '"'
    if isinstance(v, (tuple, list)):
        return '<<' + ', '.join(to_tla(x) for x in v) + '>>'
    if isinstance(v, (set, frozenset)):
        return '{' + ', '.join(sorted(to_tla(x) for x in v)) + '}'
    if isinstance(v, dict):
        if not v:
            return '<<>>'
        if all(isinstance(k, str) and not isinstance(k, MV) and _IDENT.match(k) for k in v):
            return '[' + ', '.join('%s |-> %s' % (k, to_tla(x)) for k, x in v.items()) + ']'
        return '(' + ' @@ '.join('%s :> %s' % (to_tla(k), to_tla(x)) for k, x in v.items()) + ')'
    if v is None:
        return '"None"'
    raise TypeError('cannot print %r as TLA+' % (v,))


def to_json(v):
    """Python value (as produced by parse_value) -> JSON-compatible structure."""
    if isinstance(v, (bool, int, str)):
        return v
    if isinstance(v, tuple):
        return [to_json(x) for x in v]
    if isinstance(v, frozenset):
        return {'#set': sorted((to_json(x) for x in v), key=repr)}
    if isinstance(v, dict):
        if all(isinstance(k, str) for k in v):
            return {k: to_json(x) for k, x in v.items()}
        return {'#fun': [[to_json(k), to_json(x)] for k, x in v.items()]}
    raise TypeError(type(v))
